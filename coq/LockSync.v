(* LockSync.v — model of Store::imports_lock_outdated (storage.rs): the test a LOCKED load makes that imports.lock is
   in step with config.toml — the same import names on both sides, and no entry (audit or wildcard audit) left in the
   section of an import for a crate that import excludes.  Both maps are BTreeMaps: the model takes the two key
   sequences in key order.  The lookup of a section by import name (`.get(import_name).unwrap()`) is modelled as a
   lookup that can fail: [LPanic]. *)
Require Import Base Extracted Criteria Imports.
Local Open Scope N_scope.

Record import_cfg := { ic_name : N; ic_exclude : list N }.
Record lock_section := { ls_name : N; ls_audit_crates : list N; ls_wild_crates : list N }.

Inductive lo_result := LOutdated | LInSync | LPanic.

Definition section_of (lock : list lock_section) (n : N) : option lock_section :=
  find (fun s => N.eqb (ls_name s) n) lock.

Definition mem (n : N) (l : list N) : bool := existsb (N.eqb n) l.

(* the loop over config.imports: the first import whose section still lists an excluded crate makes the lock outdated *)
Fixpoint exclude_scan (cfg : list import_cfg) (lock : list lock_section) : lo_result :=
  match cfg with
  | [] => LInSync
  | c :: rest =>
      match section_of lock (ic_name c) with
      | None => LPanic
      | Some s => if existsb (fun n => mem n (ls_audit_crates s) || mem n (ls_wild_crates s)) (ic_exclude c)
                  then LOutdated else exclude_scan rest lock
      end
  end.

(* the first test: which comparison of the two sides the code makes is re-read from the source
   (Extracted.LOCK_SYNC_COMPARES_KEYS: `config.imports.keys().ne(imports.audits.keys())`); the weaker reading, when the
   source shows a comparison of the sizes only, is modelled as such *)
Definition sides_differ (cfg : list import_cfg) (lock : list lock_section) : bool :=
  if LOCK_SYNC_COMPARES_KEYS then negb (list_eqb (map ic_name cfg) (map ls_name lock))
  else negb (Nat.eqb (length cfg) (length lock)).

Definition lock_outdated (live : bool) (cfg : list import_cfg) (lock : list lock_section) : lo_result :=
  if live then LInSync
  else if sides_differ cfg lock then LOutdated
  else exclude_scan cfg lock.
