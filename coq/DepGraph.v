(* DepGraph.v — model of resolver.rs `DepGraph::new` (after the nodes have been
   sorted by (name, version, package id) — that sort is done by the harness with
   the real `Ord`s and is the PackageIdx numbering used everywhere) and of
   `resolve_requirements`. *)
Require Import Base Extracted Criteria.
Local Open Scope N_scope.

(* one resolve-node dependency: target PackageIdx and the kinds it has *)
Record dep := { d_to : nat; d_normal : bool; d_build : bool; d_dev : bool }.

(* policy entry seen through Policy::get(name, version) for this very node *)
Record policy := {
  pol_criteria : option (list N);
  pol_dev_criteria : option (list N);
  pol_dep_criteria : list (N * list N)       (* dependency-criteria: dep package NAME rank -> list *)
}.

Record pkg := {
  pk_name : N;                 (* rank of the name among all names of the case *)
  pk_version : N;              (* rank of the VetVersion *)
  pk_third_party : bool;       (* PackageExt::is_third_party(policy) *)
  pk_deps : list dep;          (* resolve_node.deps, in order *)
  pk_policy : option policy
}.

Record depgraph_in := { dg_pkgs : list pkg; dg_members : list nat (* metadata.workspace_members order *) }.

Definition deps_of_kind (sel : dep -> bool) (p : pkg) : list nat :=
  map d_to (filter sel (pk_deps p)).
Definition nb_deps (p : pkg) : list nat := deps_of_kind (fun d => d_normal d || d_build d) p.
Definition dev_deps_of (p : pkg) : list nat := deps_of_kind d_dev p.

Definition dummy_pkg : pkg :=
  {| pk_name := 0; pk_version := 0; pk_third_party := false; pk_deps := []; pk_policy := None |}.
Definition get_pkg (ps : list pkg) (i : nat) : pkg := nth i ps dummy_pkg.

(* DFS state: visited flags, topo_index (in push order), has-reverse-dep flags *)
Record dfs := { df_visited : list bool; df_topo : list nat; df_rev : list bool }.

Definition mark (l : list bool) (i : nat) : list bool := update l i (fun _ => true).

(* visit_node, with fuel: the recursion depth is bounded by the number of nodes
   because a node is marked visited before its children are explored. *)
Fixpoint visit (fuel : nat) (ps : list pkg) (st : dfs) (i : nat) : dfs :=
  match fuel with
  | O => st
  | S f =>
      if nth i (df_visited st) true then st
      else
        let st0 := {| df_visited := mark (df_visited st) i; df_topo := df_topo st; df_rev := df_rev st |} in
        let st1 := fold_left (fun s child =>
                      let s' := visit f ps s child in
                      {| df_visited := df_visited s'; df_topo := df_topo s'; df_rev := mark (df_rev s') child |})
                    (nb_deps (get_pkg ps i)) st0 in
        {| df_visited := df_visited st1; df_topo := df_topo st1 ++ [i]; df_rev := df_rev st1 |}
  end.

Record depgraph := {
  g_pkgs : list pkg;
  g_topo : list nat;
  g_member : list bool;
  g_root : list bool;
  g_dev_only : list bool;
  g_dev_deps : list (list nat)       (* dev deps, only for workspace members *)
}.

Definition depgraph_new (inp : depgraph_in) : depgraph :=
  let ps := dg_pkgs inp in
  let n := length ps in
  let init := {| df_visited := repeat false n; df_topo := []; df_rev := repeat false n |} in
  let st1 := fold_left (fun s m => visit (S n) ps s m) (dg_members inp) init in
  let member := fold_left mark (dg_members inp) (repeat false n) in
  let dev_only := map negb (df_visited st1) in
  let root := map (fun '(i, m) => m && negb (nth i (df_rev st1) false)) (enumerate member) in
  (* second pass: dev-deps of workspace members *)
  let st2 := fold_left (fun s m =>
                fold_left (fun s child =>
                   let s' := visit (S n) ps s child in
                   {| df_visited := df_visited s'; df_topo := df_topo s'; df_rev := mark (df_rev s') child |})
                  (dev_deps_of (get_pkg ps m)) s) (dg_members inp) st1 in
  let devs := fold_left (fun acc m => update acc m (fun _ => dev_deps_of (get_pkg ps m)))
                        (dg_members inp) (repeat [] n) in
  {| g_pkgs := ps; g_topo := df_topo st2; g_member := member; g_root := root;
     g_dev_only := dev_only; g_dev_deps := devs |}.

(* ---- resolve_requirements ---- *)
Definition dep_criteria (t : ctable) (pol : option policy) (ps : list pkg) (d : nat) : option cset :=
  match pol with
  | None => None
  | Some p =>
      match find (fun '(nm, _) => N.eqb nm (pk_name (get_pkg ps d))) (pol_dep_criteria p) with
      | Some (_, l) => Some (from_list t l)
      | None => None
      end
  end.

Definition union_at (reqs : list cset) (i : nat) (s : cset) : list cset :=
  update reqs i (fun r => cs_union r s).

Definition dev_pass (t : ctable) (g : depgraph) (reqs : list cset) : list cset :=
  fold_left (fun reqs '(i, p) =>
    let devs := nth i (g_dev_deps g) [] in
    match devs with
    | [] => reqs
    | _ =>
      let dev_crit := match pk_policy p with
                      | Some {| pol_dev_criteria := Some c |} => from_list t c
                      | _ => from_list t [DEFAULT_POLICY_DEV_CRITERIA]
                      end in
      fold_left (fun reqs d =>
          union_at reqs d (match dep_criteria t (pk_policy p) (g_pkgs g) d with
                           | Some dc => dc | None => dev_crit end)) devs reqs
    end) (enumerate (g_pkgs g)) reqs.

Definition main_pass (t : ctable) (g : depgraph) (reqs : list cset) : list cset :=
  fold_left (fun reqs i =>
    let p := get_pkg (g_pkgs g) i in
    let reqs1 :=
      match pk_policy p with
      | Some {| pol_criteria := Some c |} => update reqs i (fun _ => from_list t c)
      | _ => if nth i (g_root g) false
             then union_at reqs i (from_list t [DEFAULT_POLICY_CRITERIA]) else reqs
      end in
    let normal := nth i reqs1 cs_empty in
    fold_left (fun reqs d =>
        union_at reqs d (match dep_criteria t (pk_policy p) (g_pkgs g) d with
                         | Some dc => dc | None => normal end))
      (nb_deps p) reqs1) (rev (g_topo g)) reqs.

Definition resolve_requirements (t : ctable) (g : depgraph) : list cset :=
  main_pass t g (dev_pass t g (repeat cs_empty (length (g_pkgs g)))).

(* ---- executable side conditions used by the C03 theorems (proofs/ReqProofs.v) ---- *)
Definition memn (x : nat) (l : list nat) : bool := existsb (Nat.eqb x) l.
Lemma memn_spec x l : memn x l = true <-> In x l.
Proof.
  unfold memn. rewrite existsb_exists. split.
  - intros [y [Hy E]]. apply Nat.eqb_eq in E. subst. exact Hy.
  - intros H. exists x. split; [exact H|apply Nat.eqb_refl].
Qed.


(* the processing order: no node twice, every normal/build dependency of a node strictly later *)
Fixpoint order_ok (ps : list pkg) (L : list nat) : bool :=
  match L with
  | [] => true
  | x :: L' => negb (memn x L') && forallb (fun d => memn d L') (nb_deps (get_pkg ps x)) && Nat.ltb x (length ps) && order_ok ps L'
  end.
Definition topo_ok (g : depgraph) : bool := order_ok (g_pkgs g) (rev (g_topo g)).

(* the roots the code computes, stated directly: workspace members on which no crate of the
   normal build graph depends through a normal or build edge *)
Definition roots_ok (g : depgraph) : bool :=
  let ps := g_pkgs g in
  forallb (fun x => Bool.eqb (nth x (g_root g) false)
                      (nth x (g_member g) false &&
                       negb (existsb (fun p => negb (nth p (g_dev_only g) true) && memn x (nb_deps (get_pkg ps p))) (seq 0 (length ps)))))
          (seq 0 (length ps)).
