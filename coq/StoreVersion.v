(* StoreVersion.v — model of the store-version rule in Store::acquire_offline (storage.rs): config.toml records the
   major.minor of the cargo-vet that wrote it; an OLDER store is refused only when --locked, a NEWER one always, and a store
   that is accepted takes the current version, which is what the commit then writes.  The three facts are re-read from the
   source (Extracted.v). *)
Require Import Base Extracted.
Local Open Scope N_scope.

Inductive acquired := AOutdated | ANewer | AOk (version_in_memory : N).

Definition acquire_version (current stored : N) (locked : bool) : acquired :=
  if N.ltb stored current && (if ACQUIRE_REFUSES_OLDER_ONLY_WHEN_LOCKED then locked else true) then AOutdated
  else if N.ltb current stored && ACQUIRE_REFUSES_NEWER then ANewer
  else AOk (if ACQUIRE_RAISES_STORE_VERSION then current else stored).

(* an unlocked run that gets as far as committing writes the version it holds in memory *)
Definition version_after_unlocked_run (current stored : N) : option N :=
  match acquire_version current stored false with AOk v => Some v | _ => None end.
