Require Import Base Extracted Show AuditAs.
From Coq Require Import String.
Local Open Scope string_scope.
Definition se2 (e : N * N) : string := sp "e" [sN (fst e); sN (snd e)].
Definition se2o (e : N * option N) : string := sp "e" [sN (fst e); soptN (snd e)].
Definition sc08 (pkgs : list apkg) (pols : list apolicy) : string :=
  sp "c08"
    [ sp "third" (map (fun p => sbool (is_third_party p)) pkgs);
      sp "policy" [ sp "needs" (map se2 (policy_needs_version pkgs pols)); sp "unused" (map se2o (policy_unused pkgs pols)) ];
      sp "auditas" [ sp "unused" (map se2o (unused_audit_as pkgs pols)); sp "needs" (map se2 (needs_audit_as pkgs));
                     sp "shouldnt" (map se2 (shouldnt_be_audit_as pkgs)) ] ].
