(* CertifyCollapse.v — model of the audit `cargo vet certify` records for a delta (main.rs do_cmd_certify, the
   CertifyKind::Delta arm, and format.rs AuditEntry::try_collapse_with_prior): when the delta starts at a git revision
   and collapsing is not switched off, the new delta is folded with the first non-importable local audit that ends where
   it starts, is rooted for the certified criteria and carries the same criteria list; the folded audit spans from the
   prior audit's start to the new delta's end.  (`who`, `notes` are text and not modelled; `importable` is re-derived
   from the versions by the code, here by the parameter [imp_of].) *)
Require Import Base Extracted Criteria Search AuditGraph Imports.
Local Open Scope N_scope.

(* the test try_collapse_with_prior applies to the two criteria lists (re-read from the source, see Extracted.v):
   equality of the written lists.  If the source no longer shows that shape the model assumes NO test at all — the
   weakest reading, under which the theorems of proofs/CollapseProofs.v do not go through. *)
Definition crit_lists_agree (prior new : list N) : bool :=
  if COLLAPSE_REQUIRES_EQUAL_CRITERIA_LISTS then list_eqb prior new else true.

Definition try_collapse (imp_of : akind -> bool) (new prior : audit) : option audit :=
  match au_kind new with
  | KDelta f t =>
      let fold_with (pf : ver) (pt : N) :=
        if N.eqb pt f && crit_lists_agree (au_crit prior) (au_crit new)
        then let k := match pf with Some v => KDelta v t | None => KFull t end in
             Some {| au_kind := k; au_crit := au_crit new; au_importable := imp_of k; au_fresh := false |}
        else None in
      match au_kind prior with
      | KFull v => fold_with None v
      | KDelta pf pt => fold_with (Some pf) pt
      | KViolation _ => None
      end
  | _ => None
  end.

(* is_rooted_for_criteria: a full audit always; a delta if its start is reachable from the root for every minimal
   criterion of the certification (PreferExemptions search on the crate's audit graph; no graph, no folding) *)
Definition rooted (t : ctable) (ps : pkg_store) (crit : list N) (prior : audit) : bool :=
  match au_kind prior with
  | KFull _ => true
  | KViolation _ => false
  | KDelta pf _ =>
      match build t ps with
      | inl ag => forallb (fun c => match ag_search ag c pf PreferExemptions with SOk _ => true | _ => false end)
                          (minimal_indices t (from_list t crit))
      | inr _ => false
      end
  end.

(* the loop over the crate's local audits: the first candidate that folds wins *)
Fixpoint collapse_first (imp_of : akind -> bool) (new : audit) (cands : list audit) : audit :=
  match cands with
  | [] => new
  | a :: rest => match try_collapse imp_of new a with Some m => m | None => collapse_first imp_of new rest end
  end.

Definition certified_entry (imp_of : akind -> bool) (t : ctable) (ps : pkg_store)
           (from_is_git no_collapse : bool) (new : audit) : audit :=
  if from_is_git && negb no_collapse
  then collapse_first imp_of new (filter (fun a => negb (au_importable a) && rooted t ps (au_crit new) a) (ps_local ps))
  else new.
