(* ShowUser.v — rendering of the user-command models for the comparison with the files the real command wrote *)
Require Import Base Extracted Criteria Search AuditGraph Update Imports UserCommands Show.
From Coq Require Import String.
Local Open Scope string_scope.

Definition strusted (x : trusted) : string :=
  sp "t" [sN (t_user x); sZ (t_start x); sZ (t_end x); sp "c" (map sN (t_crit x))].
Definition show_trust (t : ctable) (uid : N) (s e : Z) (request : list N) (has_notes : bool) (l : list trusted) : string :=
  sp "trusted" (map strusted (trust_add t uid s e request has_notes l)).
