(* Serde.v — cargo-vet's own (de)serialisation layer over an abstract TOML value:
   string_or_vec, the AuditEntry <-> AuditEntryAll conversion (kind fields,
   importable default), skip_serializing_if / default attributes of exemptions,
   wildcard audits and criteria entries, and tidy.  Strings, versions, version
   requirements and dates are opaque tokens (their text-level encoding is the
   toml / toml_edit / semver / chrono libraries' business and is only exercised
   by the correspondence run). *)
Require Import Base.
From Coq Require Import Sorting.Permutation.
Local Open Scope N_scope.

Definition tok := N.      (* an interned string / version / date *)

Inductive key := KWho | KCriteria | KVersion | KDelta | KViolation | KImportable | KNotes | KAggFrom
               | KSuggest | KUserId | KStart | KEnd | KRenew | KDescription | KDescriptionUrl | KImplies.
Definition key_eqb (a b : key) : bool :=
  match a, b with
  | KWho, KWho | KCriteria, KCriteria | KVersion, KVersion | KDelta, KDelta | KViolation, KViolation
  | KImportable, KImportable | KNotes, KNotes | KAggFrom, KAggFrom | KSuggest, KSuggest | KUserId, KUserId
  | KStart, KStart | KEnd, KEnd | KRenew, KRenew | KDescription, KDescription | KDescriptionUrl, KDescriptionUrl
  | KImplies, KImplies => true
  | _, _ => false
  end.

(* leaf values of an entry table *)
Inductive tv := VStr (s : tok) | VInt (n : N) | VBool (b : bool) | VArr (l : list tok) | VDelta (from to : tok).
Definition table := list (key * tv).
Definition get (t : table) (k : key) : option tv :=
  match find (fun '(k', _) => key_eqb k' k) t with Some (_, v) => Some v | None => None end.

(* serialization::string_or_vec *)
Definition enc_sv (l : list tok) : tv := match l with [x] => VStr x | _ => VArr l end.
Definition dec_sv (v : tv) : option (list tok) :=
  match v with VStr s => Some [s] | VArr l => Some l | _ => None end.

Definition field (k : key) (v : tv) : table := [(k, v)].
Definition opt_field (k : key) (o : option tok) : table := match o with Some s => [(k, VStr s)] | None => [] end.
Definition sv_unless_empty (k : key) (l : list tok) : table := match l with [] => [] | _ => [(k, enc_sv l)] end.

(* ---- AuditEntry ---- *)
Inductive akind := AFull (v : tok) | ADelta (from to : tok) | AViolation (req : tok).
Record audit_entry := { ae_who : list tok; ae_criteria : list tok; ae_kind : akind; ae_importable : bool;
                        ae_notes : option tok; ae_agg : list tok }.

(* From<AuditEntry> for AuditEntryAll + the field attributes of AuditEntryAll *)
Definition enc_audit (a : audit_entry) : table :=
  sv_unless_empty KWho (ae_who a)
  ++ field KCriteria (enc_sv (ae_criteria a))
  ++ (match ae_kind a with
      | AFull v => field KVersion (VStr v)
      | ADelta f t => field KDelta (VDelta f t)
      | AViolation r => field KViolation (VStr r)
      end)
  ++ (if ae_importable a then [] else field KImportable (VBool false))
  ++ opt_field KNotes (ae_notes a)
  ++ sv_unless_empty KAggFrom (ae_agg a).

Definition get_sv_default (t : table) (k : key) : option (list tok) :=
  match get t k with None => Some [] | Some v => dec_sv v end.
Definition get_opt_str (t : table) (k : key) : option (option tok) :=
  match get t k with None => Some None | Some (VStr s) => Some (Some s) | Some _ => None end.

(* TryFrom<AuditEntryAll> for AuditEntry *)
Definition dec_audit (t : table) : option audit_entry :=
  match get_sv_default t KWho, get_sv_default t KCriteria, get_opt_str t KNotes, get_sv_default t KAggFrom with
  | Some who, Some crit, Some notes, Some agg =>
      let kind := match get t KVersion, get t KDelta, get t KViolation with
                  | Some (VStr v), None, None => Some (AFull v)
                  | None, Some (VDelta f x), None => Some (ADelta f x)
                  | None, None, Some (VStr r) => Some (AViolation r)
                  | _, _, _ => None
                  end in
      let imp := match get t KImportable with None => Some true | Some (VBool b) => Some b | Some _ => None end in
      match kind, imp with
      | Some k, Some i => Some {| ae_who := who; ae_criteria := crit; ae_kind := k; ae_importable := i; ae_notes := notes; ae_agg := agg |}
      | _, _ => None
      end
  | _, _, _, _ => None
  end.

(* ---- ExemptedDependency ---- *)
Record exemption_entry := { xe_version : tok; xe_criteria : list tok; xe_suggest : bool; xe_notes : option tok }.
Definition enc_exemption (x : exemption_entry) : table :=
  field KVersion (VStr (xe_version x)) ++ field KCriteria (enc_sv (xe_criteria x))
  ++ (if xe_suggest x then [] else field KSuggest (VBool false)) ++ opt_field KNotes (xe_notes x).
Definition dec_exemption (t : table) : option exemption_entry :=
  match get t KVersion, get_sv_default t KCriteria, get_opt_str t KNotes with
  | Some (VStr v), Some crit, Some notes =>
      match get t KSuggest with
      | None => Some {| xe_version := v; xe_criteria := crit; xe_suggest := true; xe_notes := notes |}
      | Some (VBool b) => Some {| xe_version := v; xe_criteria := crit; xe_suggest := b; xe_notes := notes |}
      | Some _ => None
      end
  | _, _, _ => None
  end.

(* ---- WildcardEntry ---- *)
Record wildcard_entry := { we_who : list tok; we_criteria : list tok; we_user : N; we_start : tok; we_end : tok;
                           we_renew : option bool; we_notes : option tok; we_agg : list tok }.
Definition enc_wildcard (w : wildcard_entry) : table :=
  sv_unless_empty KWho (we_who w) ++ field KCriteria (enc_sv (we_criteria w)) ++ field KUserId (VInt (we_user w))
  ++ field KStart (VStr (we_start w)) ++ field KEnd (VStr (we_end w))
  ++ (match we_renew w with Some b => field KRenew (VBool b) | None => [] end)
  ++ opt_field KNotes (we_notes w) ++ sv_unless_empty KAggFrom (we_agg w).
Definition dec_wildcard (t : table) : option wildcard_entry :=
  match get_sv_default t KWho, get t KCriteria, get t KUserId, get t KStart, get t KEnd, get_opt_str t KNotes, get_sv_default t KAggFrom with
  | Some who, Some cv, Some (VInt u), Some (VStr s), Some (VStr e), Some notes, Some agg =>
      match dec_sv cv, (match get t KRenew with None => Some None | Some (VBool b) => Some (Some b) | Some _ => None end) with
      | Some crit, Some renew =>
          Some {| we_who := who; we_criteria := crit; we_user := u; we_start := s; we_end := e; we_renew := renew;
                  we_notes := notes; we_agg := agg |}
      | _, _ => None
      end
  | _, _, _, _, _, _, _ => None
  end.

(* ---- CriteriaEntry ---- *)
Record criteria_entry := { ce_description : option tok; ce_url : option tok; ce_implies : list tok; ce_agg : list tok }.
Definition enc_criteria (c : criteria_entry) : table :=
  opt_field KDescription (ce_description c) ++ opt_field KDescriptionUrl (ce_url c)
  ++ sv_unless_empty KImplies (ce_implies c) ++ sv_unless_empty KAggFrom (ce_agg c).
Definition dec_criteria (t : table) : option criteria_entry :=
  match get_opt_str t KDescription, get_opt_str t KDescriptionUrl, get_sv_default t KImplies, get_sv_default t KAggFrom with
  | Some d, Some u, Some i, Some a => Some {| ce_description := d; ce_url := u; ce_implies := i; ce_agg := a |}
  | _, _, _, _ => None
  end.

(* ---- tidy: sort every list, drop empty lists (SortedMap<String, Vec<T>>::tidy) ---- *)
Section Tidy.
Variable A : Type.
Variable leb : A -> A -> bool.
Definition tidy_list (l : list A) : list A := sort_by leb l.
Definition tidy_map (m : list (N * list A)) : list (N * list A) :=
  map (fun '(k, l) => (k, tidy_list l)) (filter (fun '(_, l) => match l with [] => false | _ => true end) m).
End Tidy.

(* ---- the `[policy]` table keys: `name` or `name:version` (serialization.rs mod policy) ----
   Names and versions are character strings here (lists of code points): the point of this part IS the text.
   A VetVersion is displayed as its semver text, followed by `@git:<rev>` when it carries a revision.
   Which of the two the key is built from is re-read from the source (Extracted.POLICY_KEY_USES_FULL_VERSION). *)
Require Import Extracted.
Definition chr := N.
Definition COLON : chr := 58.
Definition AT : chr := 64.
Definition GIT_TAG : list chr := [64; 103; 105; 116; 58].     (* "@git:" *)
Record vetver := { vv_semver : list chr; vv_git : option (list chr) }.
Definition show_vetver (v : vetver) : list chr :=
  vv_semver v ++ (if POLICY_KEY_USES_FULL_VERSION then match vv_git v with Some r => GIT_TAG ++ r | None => [] end else []).
Definition pkey_encode (name : list chr) (ver : option vetver) : list chr :=
  match ver with None => name | Some v => name ++ COLON :: show_vetver v end.
(* str::split_once(":") *)
Fixpoint split_colon (l : list chr) : option (list chr * list chr) :=
  match l with
  | [] => None
  | c :: r => if N.eqb c COLON then Some ([], r)
              else match split_colon r with Some (a, b) => Some (c :: a, b) | None => None end
  end.
(* "<semver>[@git:<rev>]" -> VetVersion (format.rs FromStr for VetVersion: split at the first '@') *)
Fixpoint split_at (l : list chr) : list chr * option (list chr) :=
  match l with
  | [] => ([], None)
  | c :: r => if N.eqb c AT then ([], Some r) else let '(a, b) := split_at r in (c :: a, b)
  end.
Fixpoint strip_prefix (p l : list chr) : option (list chr) :=
  match p, l with
  | [], _ => Some l
  | x :: p', y :: l' => if N.eqb x y then strip_prefix p' l' else None
  | _ :: _, [] => None
  end.
Definition parse_vetver (l : list chr) : option vetver :=
  match split_at l with
  | (s, None) => Some {| vv_semver := s; vv_git := None |}
  | (s, Some rest) => match strip_prefix [103; 105; 116; 58] rest with     (* "git:" *)
                      | Some r => Some {| vv_semver := s; vv_git := Some r |}
                      | None => None
                      end
  end.
Definition pkey_decode (k : list chr) : option (list chr * option vetver) :=
  match split_colon k with
  | None => Some (k, None)
  | Some (n, v) => match parse_vetver v with Some vv => Some (n, Some vv) | None => None end
  end.
Definition no_chr (c : chr) (l : list chr) : bool := negb (existsb (N.eqb c) l).
