(* Aggregate.v — model of main.rs do_aggregate_audits.  Entries are opaque: an
   entry is identified by an id, carries its importable flag and its existing
   aggregated-from chain; criteria carry interned description / description-url
   and the written implies list. *)
Require Import Base Extracted Imports.
Local Open Scope N_scope.

Record agg_entry := { ae_id : N; ae_importable : bool; ae_from : list N }.
Record agg_crit := { ac_name : N; ac_desc : option N; ac_url : option N; ac_implies : list N; ac_from : list N }.
Record agg_file := {
  af_criteria : list agg_crit;
  af_audits : list (N * list agg_entry);
  af_wild : list (N * list agg_entry);
  af_trusted : list (N * list agg_entry)
}.

Inductive agg_error := DescriptionMismatch (name : N) | ImpliesMismatch (name : N).

Definition tag (src : N) (e : agg_entry) : agg_entry :=
  {| ae_id := ae_id e; ae_importable := ae_importable e; ae_from := ae_from e ++ [src] |}.

Definition optN_eq (a b : option N) : bool :=
  match a, b with Some x, Some y => N.eqb x y | None, None => true | _, _ => false end.

(* one criterion of one source against the criteria gathered so far *)
Definition add_criterion (src : N) (acc : list agg_crit * list agg_error) (c : agg_crit)
  : list agg_crit * list agg_error :=
  let '(cs, errs) := acc in
  match find (fun o => N.eqb (ac_name o) (ac_name c)) cs with
  | None => (cs ++ [ {| ac_name := ac_name c; ac_desc := ac_desc c; ac_url := ac_url c;
                        ac_implies := ac_implies c; ac_from := ac_from c ++ [src] |} ], errs)
  | Some o =>
      (cs, errs
           ++ (if optN_eq (ac_desc o) (ac_desc c) && optN_eq (ac_url o) (ac_url c) then [] else [DescriptionMismatch (ac_name c)])
           ++ (if list_eqb (ac_implies o) (ac_implies c) then [] else [ImpliesMismatch (ac_name c)]))
  end.

Definition aggregate (sources : list (N * agg_file)) : agg_file * list agg_error :=
  let crit := fold_left (fun acc '(src, f) => fold_left (add_criterion src) (af_criteria f) acc) sources ([], []) in
  let tagged (sel : agg_file -> list (N * list agg_entry)) (keep : agg_entry -> bool) :=
      merge_tables (map (fun '(src, f) => map (fun '(n, l) => (n, map (tag src) (filter keep l))) (sel f)) sources) in
  ({| af_criteria := fst crit;
      af_audits := tagged af_audits ae_importable;
      af_wild := tagged af_wild (fun _ => true);
      af_trusted := tagged af_trusted (fun _ => true) |}, snd crit).
