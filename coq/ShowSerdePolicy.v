(* ShowSerdePolicy.v — rendering of the model's encoding of a policy entry for the comparison with what the real
   Serialize impl of PolicyEntry produces *)
Require Import Base Serde SerdePolicy Show.
From Coq Require Import String.
Local Open Scope string_scope.

Definition spkey (k : pkey) : string :=
  match k with
  | PAuditAs => "audit-as-crates-io" | PCriteria => "criteria" | PDevCriteria => "dev-criteria"
  | PDepCriteria => "dependency-criteria" | PNotes => "notes"
  end.
Definition spsv (l : list tok) : string :=
  match enc_psv l with PStr s => sp "str" [sN s] | PArr l' => sp "arr" (map sN l') | _ => "?" end.
Definition spv (v : pv) : string :=
  match v with
  | PStr s => sp "str" [sN s]
  | PArr l => sp "arr" (map sN l)
  | PBool b => sp "bool" [sbool b]
  | PMap m => sp "map" (map (fun '(k, l) => sp "e" [sN k; spsv l]) m)
  end.
Definition sptable (t : ptable) : string := sp "table" (map (fun '(k, v) => sp (spkey k) [spv v]) t).
