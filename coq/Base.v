(* Base.v — shared vocabulary of the cargo-vet model: versions as ranks,
   criteria sets as N bitsets (the u64 of criteria.rs), small list utilities.
   Stdlib only; no axioms. *)
From Coq Require Export List NArith ZArith Arith Bool Lia.
Export ListNotations.
Local Open Scope N_scope.

Arguments N.add : simpl never.
Arguments N.sub : simpl never.
Arguments N.testbit : simpl never.
Arguments N.lor : simpl never.
Arguments N.land : simpl never.
Arguments N.ldiff : simpl never.
Arguments N.setbit : simpl never.
Arguments N.eqb : simpl never.
Arguments N.leb : simpl never.
Arguments N.ltb : simpl never.

(* ------------------------------------------------------------------ *)
(* Versions.  A case has a finite universe of VetVersions; the harness sorts
   it with the real [Ord for VetVersion] and hands the model the rank.  The
   resolver uses [Option<&VetVersion>] with [None] the root, [None < Some _]. *)
Definition ver := option N.
Definition ver_eqb (a b : ver) : bool :=
  match a, b with
  | None, None => true
  | Some x, Some y => N.eqb x y
  | _, _ => false
  end.
Lemma ver_eqb_spec a b : reflect (a = b) (ver_eqb a b).
Proof.
  destruct a as [x|], b as [y|]; cbn; try (constructor; congruence).
  destruct (N.eqb_spec x y); constructor; congruence.
Qed.
Lemma ver_eqb_refl a : ver_eqb a a = true.
Proof. destruct (ver_eqb_spec a a); congruence. Qed.
Definition ver_cmp (a b : ver) : comparison :=
  match a, b with
  | None, None => Eq
  | None, Some _ => Lt
  | Some _, None => Gt
  | Some x, Some y => N.compare x y
  end.
Definition ver_ltb (a b : ver) : bool := match ver_cmp a b with Lt => true | _ => false end.
Definition ver_leb (a b : ver) : bool := match ver_cmp a b with Gt => false | _ => true end.
Lemma ver_dec (a b : ver) : {a = b} + {a <> b}.
Proof. destruct (ver_eqb_spec a b); [left|right]; assumption. Qed.
Definition mem_ver (v : ver) (l : list ver) : bool := existsb (ver_eqb v) l.
Lemma mem_ver_In v l : mem_ver v l = true <-> In v l.
Proof.
  unfold mem_ver. rewrite existsb_exists. split.
  - intros [x [Hx He]]. destruct (ver_eqb_spec v x); [subst; exact Hx|discriminate].
  - intros H. exists v. split; [exact H|]. apply ver_eqb_refl.
Qed.

(* ------------------------------------------------------------------ *)
(* Criteria sets: the u64 of CriteriaSet, as an unbounded N; the 64-bit limit
   is modelled explicitly where it matters (Criteria.cs_all). *)
Definition cset := N.
Definition cs_empty : cset := 0.
Definition cs_has (c : N) (s : cset) : bool := N.testbit s c.
Definition cs_set (c : N) (s : cset) : cset := N.setbit s c.
Definition cs_union (a b : cset) : cset := N.lor a b.
Definition cs_inter (a b : cset) : cset := N.land a b.
Definition cs_clear (a b : cset) : cset := N.ldiff a b.           (* a &= !b *)
Definition cs_contains (a b : cset) : bool := N.eqb (N.land a b) b. (* (a & b) == b *)
Definition cs_is_empty (a : cset) : bool := N.eqb a 0.

Lemma cs_has_empty c : cs_has c cs_empty = false.
Proof. unfold cs_has, cs_empty. apply N.bits_0. Qed.
Lemma cs_has_set c d s : cs_has c (cs_set d s) = (N.eqb d c || cs_has c s)%bool.
Proof. unfold cs_has, cs_set. apply N.setbit_eqb. Qed.
Lemma cs_has_union c a b : cs_has c (cs_union a b) = (cs_has c a || cs_has c b)%bool.
Proof. unfold cs_has, cs_union. apply N.lor_spec. Qed.
Lemma cs_has_inter c a b : cs_has c (cs_inter a b) = (cs_has c a && cs_has c b)%bool.
Proof. unfold cs_has, cs_inter. apply N.land_spec. Qed.
Lemma cs_has_clear c a b : cs_has c (cs_clear a b) = (cs_has c a && negb (cs_has c b))%bool.
Proof. unfold cs_has, cs_clear. apply N.ldiff_spec. Qed.
Lemma cs_ext a b : (forall c, cs_has c a = cs_has c b) -> a = b.
Proof. unfold cs_has. intros H. apply N.bits_inj. exact H. Qed.
Lemma cs_contains_spec a b : cs_contains a b = true <-> (forall c, cs_has c b = true -> cs_has c a = true).
Proof.
  unfold cs_contains. rewrite N.eqb_eq. split.
  - intros H c Hc. unfold cs_has in *. rewrite <- H in Hc. rewrite N.land_spec in Hc.
    apply andb_prop in Hc. tauto.
  - intros H. apply N.bits_inj. intros c. rewrite N.land_spec.
    destruct (N.testbit b c) eqn:Hb.
    + unfold cs_has in H. rewrite (H c Hb). reflexivity.
    + apply andb_false_r.
Qed.
Lemma cs_is_empty_spec a : cs_is_empty a = true <-> (forall c, cs_has c a = false).
Proof.
  unfold cs_is_empty. rewrite N.eqb_eq. split.
  - intros -> c. apply cs_has_empty.
  - intros H. apply N.bits_inj. intros c. rewrite N.bits_0. apply H.
Qed.

(* indices below n that are set, ascending: CriteriaSet::indices (restricted to
   the mapper's length; bits above it are never set on validated input). *)
Fixpoint nseq (start : N) (len : nat) : list N :=
  match len with O => [] | S k => start :: nseq (N.succ start) k end.
Lemma in_nseq x s len : In x (nseq s len) <-> s <= x < s + N.of_nat len.
Proof.
  revert s; induction len as [|k IH]; intros s; cbn [nseq In].
  - lia.
  - rewrite IH, Nat2N.inj_succ. lia.
Qed.
Lemma nseq_length s len : length (nseq s len) = len.
Proof. revert s; induction len; intros; cbn; auto. Qed.
Lemma NoDup_nseq s len : NoDup (nseq s len).
Proof.
  revert s; induction len as [|k IH]; intros s; cbn; constructor; auto.
  rewrite in_nseq. lia.
Qed.
Definition cs_indices (n : nat) (s : cset) : list N := filter (fun i => cs_has i s) (nseq 0 n).
Lemma in_cs_indices n s c : In c (cs_indices n s) <-> c < N.of_nat n /\ cs_has c s = true.
Proof. unfold cs_indices. rewrite filter_In, in_nseq. split; intros [H1 H2]; (split; [lia|exact H2]). Qed.

(* ------------------------------------------------------------------ *)
(* list utilities *)
Definition nth_or {A} (d : A) (l : list A) (i : nat) : A := nth i l d.
Fixpoint update {A} (l : list A) (i : nat) (f : A -> A) : list A :=
  match l, i with
  | [], _ => []
  | x :: r, O => f x :: r
  | x :: r, S k => x :: update r k f
  end.
Lemma update_length {A} (l : list A) i f : length (update l i f) = length l.
Proof. revert i; induction l; destruct i; cbn; auto. Qed.
Lemma nth_update_same {A} (d : A) l i f : (i < length l)%nat -> nth i (update l i f) d = f (nth i l d).
Proof. revert i; induction l as [|x r IH]; destruct i; cbn; intros; try lia; auto. apply IH. lia. Qed.
Lemma nth_update_other {A} (d : A) l i j f : i <> j -> nth j (update l i f) d = nth j l d.
Proof. revert i j; induction l as [|x r IH]; destruct i, j; cbn; intros; try congruence; auto. Qed.

Fixpoint enumerate_from {A} (i : nat) (l : list A) : list (nat * A) :=
  match l with [] => [] | x :: r => (i, x) :: enumerate_from (S i) r end.
Definition enumerate {A} (l : list A) := enumerate_from 0 l.
Lemma in_enumerate_from {A} (d : A) l s i x :
  In (i, x) (enumerate_from s l) <-> (s <= i < s + length l)%nat /\ nth (i - s) l d = x.
Proof.
  revert s; induction l as [|y r IH]; intros s; cbn [enumerate_from In length].
  - split; [tauto|intros [H _]; lia].
  - rewrite IH. split.
    + intros [H|[H1 H2]].
      * inversion H; subst. split; [lia|]. rewrite Nat.sub_diag. reflexivity.
      * split; [lia|]. replace (i - s)%nat with (S (i - S s)) by lia. exact H2.
    + intros [H1 H2]. destruct (Nat.eq_dec i s) as [->|Hne].
      * left. rewrite Nat.sub_diag in H2. cbn in H2. subst. reflexivity.
      * right. split; [lia|]. replace (i - s)%nat with (S (i - S s)) in H2 by lia. exact H2.
Qed.
Lemma in_enumerate {A} (d : A) l i x : In (i, x) (enumerate l) <-> (i < length l)%nat /\ nth i l d = x.
Proof. unfold enumerate. rewrite (in_enumerate_from d), Nat.sub_0_r. split; intros [H1 H2]; (split; [lia|exact H2]). Qed.

Definition N_max (a b : N) := if N.leb a b then b else a.
Lemma N_max_le_l a b : a <= N_max a b.
Proof. unfold N_max. destruct (N.leb_spec a b); lia. Qed.
Lemma N_max_le_r a b : b <= N_max a b.
Proof. unfold N_max. destruct (N.leb_spec a b); lia. Qed.
Lemma N_max_lub a b c : a <= c -> b <= c -> N_max a b <= c.
Proof. unfold N_max. destruct (N.leb_spec a b); lia. Qed.
Lemma N_max_mono a a' b : a <= a' -> N_max a b <= N_max a' b.
Proof. unfold N_max. destruct (N.leb_spec a b), (N.leb_spec a' b); lia. Qed.

Definition lex (c1 c2 : comparison) := match c1 with Eq => c2 | _ => c1 end.

(* insertion sort with a boolean "less or equal"; used only to canonicalise
   outputs (BTreeSet iteration order) *)
Fixpoint insert_by {A} (leb : A -> A -> bool) (x : A) (l : list A) : list A :=
  match l with
  | [] => [x]
  | y :: r => if leb x y then x :: l else y :: insert_by leb x r
  end.
Definition sort_by {A} (leb : A -> A -> bool) (l : list A) : list A :=
  fold_right (insert_by leb) [] l.
Lemma in_insert_by {A} leb (x y : A) l : In y (insert_by leb x l) <-> y = x \/ In y l.
Proof.
  induction l as [|z r IH]; cbn.
  - intuition.
  - destruct (leb x z); cbn; [intuition|]. rewrite IH. intuition.
Qed.
Lemma in_sort_by {A} leb (y : A) l : In y (sort_by leb l) <-> In y l.
Proof.
  induction l as [|z r IH]; cbn; [tauto|]. rewrite in_insert_by, IH. intuition.
Qed.
Fixpoint dedup_adj {A} (eqb : A -> A -> bool) (l : list A) : list A :=
  match l with
  | [] => []
  | x :: r => match r with
              | [] => [x]
              | y :: _ => if eqb x y then dedup_adj eqb r else x :: dedup_adj eqb r
              end
  end.
