(* Criteria.v — model of src/criteria.rs: CriteriaMapper::new (closure by DFS
   over direct implications), criteria_from_list, minimal_indices,
   CriteriaSet::all with its 64-bit shift.
   A criteria table is given as the list of direct implications of the custom
   criteria in BTreeMap (name) order; indices 0 and 1 are the built-ins
   safe-to-run and safe-to-deploy exactly as in CriteriaMapper::new. *)
Require Import Base Extracted.
Local Open Scope N_scope.

Definition ctable := list (list N).     (* implies-lists of custom criteria 2,3,... *)

Definition ct_len (t : ctable) : nat := 2 + length t.

(* direct_implies: index 1 (safe-to-deploy) implies index 0 (safe-to-run);
   custom criterion i implies what it lists. *)
Definition list_to_cs (l : list N) : cset := fold_left (fun s c => cs_set c s) l cs_empty.
Definition direct_implies (t : ctable) : list cset :=
  cs_empty :: cs_set SAFE_TO_RUN_IDX cs_empty :: map list_to_cs t.
Definition direct_of (t : ctable) (c : N) : cset := nth (N.to_nat c) (direct_implies t) cs_empty.

(* recurse_implies (criteria.rs:69-80) with explicit fuel. Every recursive
   call happens after setting a previously unset bit below [n], so fuel [n+1]
   suffices; see proofs/CriteriaProofs.v. *)
Fixpoint recurse_implies (fuel : nat) (t : ctable) (result : cset) (cur : N) : cset :=
  match fuel with
  | O => result
  | S f =>
      fold_left (fun res idx => if cs_has idx res then res
                                else recurse_implies f t (cs_set idx res) idx)
                (cs_indices (ct_len t) (direct_of t cur)) result
  end.

(* implied_criteria[idx] before the self-implication check *)
Definition implied_strict (t : ctable) (c : N) : cset :=
  recurse_implies (S (ct_len t)) t cs_empty c.
(* The `panic!("criteria '{}' implies itself")` site. *)
Definition implies_itself (t : ctable) (c : N) : bool := cs_has c (implied_strict t c).
Definition closure (t : ctable) (c : N) : cset := cs_set c (implied_strict t c).

(* criteria_from_list: union of closures; indexing an unknown name panics in
   the code, which is excluded by [Validate]; here an out-of-range index
   contributes its own bit only. *)
Definition from_list (t : ctable) (l : list N) : cset :=
  fold_left (fun s c => cs_union s (closure t c)) l cs_empty.

(* minimal_indices: members not implied by another member *)
Definition minimal_indices (t : ctable) (s : cset) : list N :=
  let idxs := cs_indices (ct_len t) s in
  filter (fun cur => forallb (fun other => N.eqb cur other || negb (cs_has cur (closure t other))) idxs) idxs.

(* implied_by_indices: all criteria implying c other than c *)
Definition implied_by_indices (t : ctable) (c : N) : list N :=
  filter (fun i => cs_has c (closure t i) && negb (N.eqb c i)) (nseq 0 (ct_len t)).

(* CriteriaSet::none / all (criteria.rs:193-206).  [count > 64] trips the
   assert; [count = 64] shifts a u64 by 64: a debug build panics, a release
   build wraps the shift amount to 0 and yields the EMPTY set.  Both are
   modelled: [cs_all] returns None where the debug build panics. *)
Definition cs_none_ok (count : nat) : bool := Nat.leb count MAX_CRITERIA.
Definition cs_all (count : nat) : option cset :=
  if Nat.ltb count MAX_CRITERIA then Some (N.ones (N.of_nat count)) else None.
Definition cs_all_release (count : nat) : cset :=
  if Nat.ltb count MAX_CRITERIA then N.ones (N.of_nat count) else 0.
Definition all_criteria (t : ctable) : cset := N.ones (N.of_nat (ct_len t)).

(* table well-formedness = the conditions under which CriteriaMapper::new does
   not panic and indexing stays in range *)
Definition ct_in_range (t : ctable) : bool :=
  forallb (forallb (fun c => N.ltb c (N.of_nat (ct_len t)))) t.
Definition ct_acyclic (t : ctable) : bool :=
  forallb (fun c => negb (implies_itself t c)) (nseq 0 (ct_len t)).
Definition ct_wf (t : ctable) : bool := ct_in_range t && ct_acyclic t && Nat.ltb (ct_len t) MAX_CRITERIA.
