Require Import Base Extracted Criteria Search AuditGraph DepGraph Resolve Show Suggest.
From Coq Require Import String.
Local Open Scope string_scope.
Definition ssuggest (dcount : ver -> N -> N) (l : list sitem) : string :=
  sp "suggest" (map (fun i => sp "s" [snat (si_pkg i); sver (si_from i); sN (si_to i); sN (si_crit i); sN (dcount (si_from i) (si_to i))]) l).
(* mock diffstat of the test cache: |to.major^2 - from.major^2| *)
Definition mock_dcount (majors : list N) (f : ver) (t : N) : N :=
  let m (v : N) := nth (N.to_nat v) majors 0%N in
  let a := match f with Some x => (m x * m x)%N | None => 0%N end in
  let b := (m t * m t)%N in
  if N.leb a b then (b - a)%N else (a - b)%N.
Definition mock_has_sources (git : list bool) (known : list (option (list N))) (name target v : N) : bool :=
  if nth (N.to_nat v) git false then N.eqb v target
  else match nth (N.to_nat name) known None with
       | None => true
       | Some l => existsb (N.eqb v) l
       end.
Definition sboth (majors : list N) (git : list bool) (known : list (option (list N))) (r : report) : string :=
  sp "both" [sreport r;
             match r_conclusion r with
             | FailForVet _ => ssuggest (mock_dcount majors) (compute_suggest (mock_dcount majors) (mock_has_sources git known) r)
             | _ => "(nosuggest)"
             end].
