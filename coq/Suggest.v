(* Suggest.v — model of resolver.rs suggest_delta (for non-git target versions),
   the assembly / sort / de-duplication in compute_suggest, and
   compute_suggested_criteria.  Diffstats come from an oracle [dcount]. *)
Require Import Base Extracted Criteria Search AuditGraph DepGraph Resolve Show.
Local Open Scope N_scope.

Section Suggest.
(* diffstat.count() of a delta, as the cache reports it *)
Variable dcount : ver -> N -> N.
(* do we have sources for this version of this crate, when the failing package
   is at [target]? (published on crates.io, or no index; a git revision only for
   the package itself) *)
Variable has_sources : N -> N -> N -> bool.

Definition ver_has_sources (name target : N) (v : ver) : bool :=
  match v with None => true | Some x => has_sources name target x end.

Definition inter (a b : list ver) : list ver := filter (fun v => mem_ver v b) a.

(* the common reachable sets over all failed criteria: the first failure is
   filtered by source availability, the others intersected *)
Definition common_reachable (name target : N) (fails : list (list ver * list ver)) : option (list ver * list ver) :=
  match fails with
  | [] => None
  | (fr, ft) :: rest =>
      Some (fold_left (fun '(r, t) '(fr', ft') => (inter r fr', inter t ft')) rest
                      (filter (ver_has_sources name target) (sort_vers fr), filter (ver_has_sources name target) (sort_vers ft)))
  end.

(* closest_below: largest element < dest; closest_above: smallest element >= dest *)
Definition closest_below (from_root : list ver) (dest : ver) : option ver :=
  last_opt (filter (fun v => ver_ltb v dest) from_root).
Definition closest_above (from_root : list ver) (dest : ver) : option ver :=
  hd_error (filter (fun v => ver_leb dest v) from_root).

Definition opt_pair (o : option ver) (d : N) : list (ver * N) :=
  match o with
  | Some f => (f, d) :: nil
  | None => nil
  end.
Definition candidates (from_root from_target : list ver) : list (ver * N) :=
  flat_map (fun dest =>
    match dest with
    | None => nil          (* `dest.clone().unwrap()` — the root is never reachable from the target of a failed search *)
    | Some d => opt_pair (closest_below from_root dest) d ++ opt_pair (closest_above from_root dest) d
    end) from_target.

(* min_by_key: the FIRST minimal element *)
Fixpoint first_min (l : list (ver * N)) (best : option (ver * N)) : option (ver * N) :=
  match l with
  | [] => best
  | x :: r => match best with
              | None => first_min r (Some x)
              | Some b => if N.ltb (dcount (fst x) (snd x)) (dcount (fst b) (snd b)) then first_min r (Some x) else first_min r best
              end
  end.

Definition suggest_delta (name target : N) (fails : list (list ver * list ver)) : option (ver * N) :=
  match common_reachable name target fails with
  | None => None
  | Some (r, t) => first_min (candidates r t) None
  end.

Record sitem := { si_pkg : nat; si_name : N; si_from : ver; si_to : N; si_crit : cset }.

Definition failures_of (r : report) : list (nat * cset) :=
  match r_conclusion r with FailForVet fs => fs | _ => [] end.

Definition item_for (r : report) (i : nat) (cf : cset) : list sitem :=
  match po_result (nth i (r_outcomes r) {| po_result := PFirstParty; po_failures := 0; po_needed_exemptions := false; po_directly_exempted := false |}) with
  | PSearched rs =>
      let fails := flat_map (fun c => match nth (N.to_nat c) rs SFuel with SErr fr ft => [(fr, ft)] | _ => [] end)
                            (cs_indices (length rs) cf) in
      match suggest_delta (pk_name (get_pkg (g_pkgs (r_graph r)) i)) (pk_version (get_pkg (g_pkgs (r_graph r)) i)) fails with
      | Some (f, t) => [ {| si_pkg := i; si_name := pk_name (get_pkg (g_pkgs (r_graph r)) i); si_from := f; si_to := t; si_crit := cf |} ]
      | None => []
      end
  | _ => []
  end.

(* sort key: (diffstat count, package name, to-version); stable insertion sort *)
Definition item_leb (a b : sitem) : bool :=
  match N.compare (dcount (si_from a) (si_to a)) (dcount (si_from b) (si_to b)) with
  | Lt => true | Gt => false
  | Eq => match N.compare (si_name a) (si_name b) with
          | Lt => true | Gt => false
          | Eq => N.leb (si_to a) (si_to b)
          end
  end.
Fixpoint insert_stable (x : sitem) (l : list sitem) : list sitem :=
  match l with
  | [] => [x]
  | y :: r => if item_leb y x then y :: insert_stable x r else x :: l
  end.
Definition sort_items (l : list sitem) : list sitem := fold_left (fun acc x => insert_stable x acc) l [].

Definition same_suggestion (a b : sitem) : bool :=
  N.eqb (si_name a) (si_name b) && ver_eqb (si_from a) (si_from b) && N.eqb (si_to a) (si_to b).

(* Vec::dedup_by: consecutive equal items are merged into the FIRST of the run;
   [merge_criteria] says whether the merged item's criteria are unioned in (read
   from the source by the translator) *)
Fixpoint dedup_items (merge_criteria : bool) (l : list sitem) (cur : option sitem) : list sitem :=
  match l with
  | [] => match cur with Some c => [c] | None => [] end
  | x :: r =>
      match cur with
      | None => dedup_items merge_criteria r (Some x)
      | Some c =>
          if same_suggestion x c
          then dedup_items merge_criteria r
                 (Some {| si_pkg := si_pkg c; si_name := si_name c; si_from := si_from c; si_to := si_to c;
                          si_crit := if merge_criteria then cs_union (si_crit c) (si_crit x) else si_crit c |})
          else c :: dedup_items merge_criteria r (Some x)
      end
  end.

Definition compute_suggest (r : report) : list sitem :=
  dedup_items SUGGEST_DEDUP_MERGES_CRITERIA
    (sort_items (flat_map (fun '(i, cf) => item_for r i cf) (failures_of r))) None.

(* compute_suggested_criteria(package, from, to) *)
Definition suggested_criteria (r : report) (name : N) (from : ver) (to : N) : cset :=
  fold_left (fun acc '(i, cf) =>
    if N.eqb (pk_name (get_pkg (g_pkgs (r_graph r)) i)) name then
      match po_result (nth i (r_outcomes r) {| po_result := PFirstParty; po_failures := 0; po_needed_exemptions := false; po_directly_exempted := false |}) with
      | PSearched rs =>
          fold_left (fun acc c => match nth (N.to_nat c) rs SFuel with
                                  | SErr fr ft => if mem_ver from fr && mem_ver (Some to) ft then cs_set c acc else acc
                                  | _ => acc end) (cs_indices (length rs) cf) acc
      | _ => acc
      end
    else acc) (failures_of r) cs_empty.

End Suggest.
