(* Resolve.v — model of resolver.rs `resolve` / `resolve_audits`: per third-party
   package the audit graph is built, every criterion searched, failures and
   violation conflicts collected and the conclusion selected. *)
Require Import Base Extracted Criteria Search AuditGraph DepGraph.
Local Open Scope N_scope.

(* the whole store as the resolver sees it: criteria table + per-name stores *)
Record store := {
  st_criteria : ctable;
  st_pkgs : list (N * pkg_store)       (* keyed by package-name rank *)
}.
Definition store_for (s : store) (name : N) : pkg_store :=
  match find (fun '(n, _) => N.eqb n name) (st_pkgs s) with
  | Some (_, ps) => ps
  | None => empty_pkg_store
  end.

Inductive pkg_result :=
| PFirstParty                                   (* results[i] = None, not third party *)
| PViolation (cs : list conflict)               (* results[i] = None, conflicts recorded *)
| PSearched (rs : list search_result).          (* one per criterion index *)

Definition is_exemption (o : origin) := match o with OExemption _ => true | _ => false end.
Definition is_exemption_or_unpublished (o : origin) :=
  match o with OExemption _ | OUnpublished _ => true | _ => false end.

Record pkg_outcome := {
  po_result : pkg_result;
  po_failures : cset;            (* criteria_failures *)
  po_needed_exemptions : bool;
  po_directly_exempted : bool
}.

Definition resolve_pkg (t : ctable) (s : store) (p : pkg) (required : cset) : pkg_outcome :=
  if negb (pk_third_party p) then
    {| po_result := PFirstParty; po_failures := cs_empty; po_needed_exemptions := false; po_directly_exempted := false |}
  else
    match build t (store_for s (pk_name p)) with
    | inr cs => {| po_result := PViolation cs; po_failures := cs_empty;
                   po_needed_exemptions := false; po_directly_exempted := false |}
    | inl ag =>
        let rs := map (fun c => ag_search ag c (pk_version p) PreferExemptions) (nseq 0 (ct_len t)) in
        let req := cs_indices (ct_len t) required in
        let fold := fold_left (fun '(ne, de, cf) c =>
                      match nth (N.to_nat c) rs SFuel with
                      | SOk path => (ne || existsb is_exemption path,
                                     de || forallb is_exemption_or_unpublished path, cf)
                      | _ => (ne, de, cs_set c cf)
                      end) req (false, false, cs_empty) in
        let '(ne, de, cf) := fold in
        {| po_result := PSearched rs; po_failures := cf; po_needed_exemptions := ne; po_directly_exempted := de |}
    end.

Inductive conclusion :=
| Success (with_exemptions partially fully : list nat)
| FailForViolationConflict (vs : list (nat * list conflict))
| FailForVet (failures : list (nat * cset)).

Record report := {
  r_graph : depgraph;
  r_requirements : list cset;
  r_outcomes : list pkg_outcome;
  r_conclusion : conclusion
}.

Definition is_searched (o : pkg_outcome) := match po_result o with PSearched _ => true | _ => false end.

Definition conclude (outs : list pkg_outcome) : conclusion :=
  let idx := enumerate outs in
  let violations := flat_map (fun '(i, o) => match po_result o with PViolation cs => [(i, cs)] | _ => [] end) idx in
  let failures := flat_map (fun '(i, o) =>
                    if is_searched o && negb (cs_is_empty (po_failures o)) then [(i, po_failures o)] else []) idx in
  match violations with
  | _ :: _ => FailForViolationConflict violations
  | [] =>
    match failures with
    | _ :: _ => FailForVet failures
    | [] =>
      let sel (f : pkg_outcome -> bool) := flat_map (fun '(i, o) => if is_searched o && f o then [i] else []) idx in
      Success (sel (fun o => po_needed_exemptions o && po_directly_exempted o))
              (sel (fun o => po_needed_exemptions o && negb (po_directly_exempted o)))
              (sel (fun o => negb (po_needed_exemptions o)))
    end
  end.

Definition resolve (inp : depgraph_in) (s : store) : report :=
  let g := depgraph_new inp in
  let t := st_criteria s in
  let reqs := resolve_requirements t g in
  let outs := map (fun '(i, p) => resolve_pkg t s p (nth i reqs cs_empty)) (enumerate (g_pkgs g)) in
  {| r_graph := g; r_requirements := reqs; r_outcomes := outs; r_conclusion := conclude outs |}.

Definition has_errors (r : report) : bool :=
  match r_conclusion r with Success _ _ _ => false | _ => true end.
