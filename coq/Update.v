(* Update.v — model of resolver.rs `resolve_package_required_entries`,
   `should_prune_imports` and `get_store_updates` (what check / prune /
   regenerate / certify clean-up write back into the store). *)
Require Import Base Extracted Criteria Search AuditGraph DepGraph Resolve.
Local Open Scope N_scope.

(* RequiredEntry *)
Inductive rentry :=
| RLocalAudit (idx : N)
| RAudit (imp idx : N)
| RWildcard (imp idx : N)
| RPublisher (idx : N)
| RExemption (idx : N)
| RUnpublished (idx : N)
| RFreshExemption (v : N).

Definition rentry_eqb (a b : rentry) : bool :=
  match a, b with
  | RLocalAudit i, RLocalAudit j | RPublisher i, RPublisher j | RExemption i, RExemption j
  | RUnpublished i, RUnpublished j | RFreshExemption i, RFreshExemption j => N.eqb i j
  | RAudit a i, RAudit b j | RWildcard a i, RWildcard b j => N.eqb a b && N.eqb i j
  | _, _ => false
  end.

Definition rmap := list (rentry * cset).
Fixpoint rmap_add (m : rmap) (e : rentry) (c : N) : rmap :=
  match m with
  | [] => [(e, cs_set c cs_empty)]
  | (k, s) :: r => if rentry_eqb k e then (k, cs_set c s) :: r else (k, s) :: rmap_add r e c
  end.
Definition rmap_get (m : rmap) (e : rentry) : option cset :=
  match find (fun '(k, _) => rentry_eqb k e) m with Some (_, s) => Some s | None => None end.
Definition rmap_has (m : rmap) (e : rentry) : bool :=
  match rmap_get m e with Some _ => true | None => false end.

(* the entries one path edge requires (resolver.rs:2775-2814) *)
Definition entries_of_origin (o : origin) : list rentry :=
  match o with
  | OExemption i => [RExemption i]
  | OFreshExemption v => [RFreshExemption v]
  | OImported a i => [RAudit a i]
  | OWildcard (Some a) i p => [RWildcard a i; RPublisher p]
  | OWildcard None i p => [RPublisher p]
  | OTrusted p => [RPublisher p]
  | OUnpublished i => [RUnpublished i]
  | OLocal i _ => [RLocalAudit i]
  end.

(* resolve_package_required_entries: None = "this package fails to vet" *)
Definition required_entries (t : ctable) (g : depgraph) (reqs : list cset) (s : store)
           (name : N) (m : search_mode) : option rmap :=
  let pkgs := filter (fun '(i, p) => N.eqb (pk_name p) name && pk_third_party p) (enumerate (g_pkgs g)) in
  match pkgs with
  | [] => Some []
  | _ =>
    match build t (store_for s name) with
    | inr _ => None
    | inl ag =>
        fold_left (fun acc '(i, p) =>
          fold_left (fun acc c =>
            match acc with
            | None => None
            | Some rm =>
                match ag_search ag c (pk_version p) m with
                | SOk path => Some (fold_left (fun rm o => fold_left (fun rm e => rmap_add rm e c) (entries_of_origin o) rm) path rm)
                | _ => None
                end
            end) (minimal_indices t (nth i reqs cs_empty)) acc) pkgs (Some [])
    end
  end.

(* ---- StoreUpdates ---- *)
Record pkg_update := {
  pu_local : list audit;                      (* store.audits.audits[name] after pruning *)
  pu_imported : list (list audit);            (* per import: kept audits, fresh flag cleared *)
  pu_wild_imported : list (list wildcard);
  pu_publishers : list publisher;
  pu_unpublished : list unpublished;
  pu_exemptions : list exemption
}.

Definition clear_audit (a : audit) : audit :=
  {| au_kind := au_kind a; au_crit := au_crit a; au_importable := au_importable a; au_fresh := false |}.
Definition clear_wild (w : wildcard) : wildcard :=
  {| w_user := w_user w; w_start := w_start w; w_end := w_end w; w_crit := w_crit w; w_fresh := false |}.
Definition clear_pub (p : publisher) : publisher :=
  {| p_ver := p_ver p; p_user := p_user p; p_when := p_when p; p_fresh := false |}.
Definition clear_unpub (u : unpublished) : unpublished :=
  {| u_ver := u_ver u; u_as := u_as u; u_fresh := false; u_still := u_still u |}.

Definition is_violation (a : audit) := match au_kind a with KViolation _ => true | _ => false end.

Definition nth_audit (l : list (list audit)) (a i : N) : option audit :=
  match nth_error l (N.to_nat a) with Some x => nth_error x (N.to_nat i) | None => None end.
Definition nth_wild (l : list (list wildcard)) (a i : N) : option wildcard :=
  match nth_error l (N.to_nat a) with Some x => nth_error x (N.to_nat i) | None => None end.

(* should_prune_imports *)
Definition should_prune_imports (ps : pkg_store) (re : option rmap) (mode : update_mode) : bool :=
  if um_prune_imports mode then true
  else match re with
       | None => false
       | Some rm =>
           existsb (fun '(e, _) =>
             match e with
             | RAudit a i => match nth_audit (ps_imported ps) a i with Some x => au_fresh x | None => false end
             | RWildcard a i => match nth_wild (ps_wild_imported ps) a i with Some x => w_fresh x | None => false end
             | RPublisher i => match nth_error (ps_publishers ps) (N.to_nat i) with Some x => p_fresh x | None => false end
             | _ => false
             end) rm
       end.

Definition unpub_eqb (a b : unpublished) : bool :=
  N.eqb (u_ver a) (u_ver b) && N.eqb (u_as a) (u_as b) && Bool.eqb (u_fresh a) (u_fresh b) && Bool.eqb (u_still a) (u_still b).
Definition unpub_leb (a b : unpublished) : bool :=
  match N.compare (u_ver a) (u_ver b) with
  | Lt => true | Gt => false
  | Eq => match N.compare (u_as a) (u_as b) with
          | Lt => true | Gt => false
          | Eq => implb (u_still a) (u_still b)
          end
  end.

(* criteria_names(set): minimal indices, ascending *)
Definition names_of (t : ctable) (s : cset) : list N := minimal_indices t s.

Definition update_exemptions (t : ctable) (mode : update_mode) (re : option rmap) (xs : list exemption) : list exemption :=
  flat_map (fun '(i, x) =>
    let original := from_list t (x_crit x) in
    let useful0 := match re with
                   | Some rm => match rmap_get rm (RExemption (N.of_nat i)) with Some s => s | None => cs_empty end
                   | None => original
                   end in
    let useful := if um_prune_exemptions mode then useful0 else cs_union useful0 original in
    if cs_is_empty useful then []
    else if negb (x_suggest x) && negb (cs_contains original useful)
         then [ {| x_ver := x_ver x; x_crit := names_of t (cs_clear useful original); x_suggest := true |};
                {| x_ver := x_ver x; x_crit := names_of t original; x_suggest := x_suggest x |} ]
         else [ {| x_ver := x_ver x; x_crit := names_of t useful; x_suggest := x_suggest x |} ])
  (enumerate xs).

Definition fresh_exemptions (t : ctable) (re : option rmap) : list exemption :=
  match re with
  | None => []
  | Some rm => flat_map (fun '(e, s) => match e with
                                        | RFreshExemption v => [ {| x_ver := v; x_crit := names_of t s; x_suggest := true |} ]
                                        | _ => [] end) rm
  end.

(* one package name: [in_graph] = the name has a node in the dependency graph
   (then [re] is its required-entry result), otherwise re = Some [] *)
Definition update_pkg (t : ctable) (mode : update_mode) (in_graph : bool) (re : option rmap) (ps : pkg_store) : pkg_update :=
  let prune_imports := should_prune_imports ps re mode in
  let keep {A} (fresh : A -> bool) (req : nat -> bool) : list A -> list A :=
      fun l => map snd (filter (fun '(i, x) =>
                 if negb prune_imports && negb (fresh x) then true
                 else match re with Some _ => req i | None => negb (fresh x) end) (enumerate l)) in
  {| pu_local :=
       if in_graph && um_prune_audits mode then
         match re with
         | Some rm => map snd (filter (fun '(i, a) => au_importable a || rmap_has rm (RLocalAudit (N.of_nat i)))
                                      (enumerate (ps_local ps)))
         | None => ps_local ps
         end
       else ps_local ps;
     pu_imported :=
       map (fun '(imp, l) =>
              map clear_audit (map snd (filter (fun '(i, a) =>
                 if negb prune_imports && negb (au_fresh a) then true
                 else if is_violation a then in_graph
                 else match re with
                      | Some rm => rmap_has rm (RAudit (N.of_nat imp) (N.of_nat i))
                      | None => negb (au_fresh a)
                      end) (enumerate l)))) (enumerate (ps_imported ps));
     pu_wild_imported :=
       map (fun '(imp, l) =>
              map clear_wild (keep w_fresh (fun i => match re with Some rm => rmap_has rm (RWildcard (N.of_nat imp) (N.of_nat i)) | None => false end) l))
           (enumerate (ps_wild_imported ps));
     pu_publishers :=
       map clear_pub (keep p_fresh (fun i => match re with Some rm => rmap_has rm (RPublisher (N.of_nat i)) | None => false end)
                           (ps_publishers ps));
     pu_unpublished :=
       dedup_adj unpub_eqb (sort_by unpub_leb (map clear_unpub (map snd (filter (fun '(i, u) =>
          if negb (um_prune_exemptions mode) && negb (u_fresh u) then true
          else match re with
               | Some rm => rmap_has rm (RUnpublished (N.of_nat i))
               | None => negb (u_fresh u)
               end) (enumerate (ps_unpublished ps))))));
     pu_exemptions := update_exemptions t mode re (ps_exemptions ps) ++ (if in_graph then fresh_exemptions t re else [])
  |}.

Definition name_in_graph (g : depgraph) (name : N) : bool :=
  existsb (fun p => N.eqb (pk_name p) name) (g_pkgs g).

Definition get_store_updates (inp : depgraph_in) (s : store) (mode : N -> update_mode) : list (N * pkg_update) :=
  let g := depgraph_new inp in
  let t := st_criteria s in
  let reqs := resolve_requirements t g in
  map (fun '(name, ps) =>
         let ing := name_in_graph g name in
         let re := if ing then required_entries t g reqs s name (um_search (mode name)) else Some [] in
         (name, update_pkg t (mode name) ing re ps)) (st_pkgs s).

(* the store after StoreUpdates::apply *)
Definition apply_pkg_update (ps : pkg_store) (u : pkg_update) : pkg_store :=
  {| ps_imported := pu_imported u; ps_local := pu_local u;
     ps_wild_imported := pu_wild_imported u; ps_wild_local := ps_wild_local ps;
     ps_trusted := ps_trusted ps; ps_publishers := pu_publishers u;
     ps_unpublished := pu_unpublished u; ps_exemptions := pu_exemptions u |}.

Definition update_store (inp : depgraph_in) (s : store) (mode : N -> update_mode) : store :=
  {| st_criteria := st_criteria s;
     st_pkgs := map (fun '((name, ps), (_, u)) => (name, apply_pkg_update ps u))
                    (combine (st_pkgs s) (get_store_updates inp s mode)) |}.

(* ---- executable form of the conditions a loaded store satisfies (proofs/EndToEnd.v: store_ok) ---- *)
Definition store_okb (inp : depgraph_in) (s : store) : bool :=
  ct_acyclic (st_criteria s)
  && forallb (fun '(_, ps) => forallb (fun x => forallb (fun c => N.ltb c (N.of_nat (ct_len (st_criteria s)))) (x_crit x)) (ps_exemptions ps))
             (st_pkgs s)
  && forallb (fun p => existsb (fun '(n0, _) => N.eqb n0 (pk_name p)) (st_pkgs s)) (g_pkgs (depgraph_new inp)).
