(* UserCommands.v — the part of a user-requested change that is cargo-vet's own logic:
   `cargo vet trust` (main.rs apply_cmd_trust): the criteria are cleaned up through the criteria mapper
   (criteria_picker), then an existing entry for the same publisher and the same criteria whose window lies
   inside the requested one is widened (only when no notes are given), else a new entry is appended. *)
Require Import Base Extracted Criteria Search AuditGraph Update Imports.
Local Open Scope N_scope.

(* criteria_picker without a prompt: the minimal names of what the request means *)
Definition picked_criteria (t : ctable) (request : list N) : list N := names_of t (from_list t request).

Definition trust_match (uid : N) (s e : Z) (crit : list N) (has_notes : bool) (x : trusted) : bool :=
  list_eqb (t_crit x) crit && N.eqb (t_user x) uid && Z.leb s (t_start x) && Z.leb (t_end x) e && negb has_notes.

Definition widened (s e : Z) (x : trusted) : trusted :=
  {| t_user := t_user x; t_start := s; t_end := e; t_crit := t_crit x |}.

(* iter_mut().find(..): the FIRST matching entry is rewritten in place *)
Fixpoint trust_update (uid : N) (s e : Z) (crit : list N) (has_notes : bool) (l : list trusted) : option (list trusted) :=
  match l with
  | [] => None
  | x :: r => if trust_match uid s e crit has_notes x then Some (widened s e x :: r)
              else match trust_update uid s e crit has_notes r with Some r' => Some (x :: r') | None => None end
  end.

Definition trust_add (t : ctable) (uid : N) (s e : Z) (request : list N) (has_notes : bool) (l : list trusted) : list trusted :=
  let crit := picked_criteria t request in
  match trust_update uid s e crit has_notes l with
  | Some l' => l'
  | None => l ++ [ {| t_user := uid; t_start := s; t_end := e; t_crit := crit |} ]
  end.
