(* ValidateLock.v — Store::validate with its lock-freshness test (LockSync.v) put in front of the criteria model
   (Validate.v): the test runs inside validate, only for a locked load; a crash in it is a crash of the load whatever
   else validate found, "outdated" is one more reason to refuse. *)
Require Import Base Extracted Criteria Validate Imports LockSync.
Local Open Scope N_scope.

Definition load_outcome_lock (locked : bool) (shadows : bool) (t : ctable) (max_end : Z) (ends : list Z) (r : refs) (ps : peers)
           (cfg : list import_cfg) (lock : list lock_section) : outcome :=
  match lock_outdated (negb locked) cfg lock with
  | LPanic => Panics
  | LOutdated => Refused
  | LInSync => load_outcome locked shadows t max_end ends r ps
  end.
