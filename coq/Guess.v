(* Guess.v — model of main.rs guess_audit_criteria, the criteria `certify` (and the diff / inspect prompt) pre-selects
   when the user names none: what compute_suggested_criteria finds on the store as it is or, when that is nothing, on the
   store cloned for `suggest` (Store::clone_for_suggest(true): every exemption not marked `suggest = false` dropped; with
   live imports also every unpublished link that is not fresh).  Whether the second look is given the delta's <from> like the
   first — rather than asking about a full audit of <to> — is re-read from the source (Extracted.GUESS_SECOND_LOOK_USES_FROM). *)
Require Import Base Extracted Criteria Search AuditGraph DepGraph Resolve Suggest.
Local Open Scope N_scope.

Definition clear_for_suggest (live : bool) (ps : pkg_store) : pkg_store :=
  {| ps_imported := ps_imported ps; ps_local := ps_local ps; ps_wild_imported := ps_wild_imported ps;
     ps_wild_local := ps_wild_local ps; ps_trusted := ps_trusted ps; ps_publishers := ps_publishers ps;
     ps_unpublished := if live then filter u_fresh (ps_unpublished ps) else ps_unpublished ps;
     ps_exemptions := filter (fun x => negb (x_suggest x)) (ps_exemptions ps) |}.

Definition store_for_suggest (live : bool) (s : store) : store :=
  {| st_criteria := st_criteria s; st_pkgs := map (fun '(n, ps) => (n, clear_for_suggest live ps)) (st_pkgs s) |}.

Definition guess_audit_criteria (inp : depgraph_in) (live : bool) (s : store) (name : N) (from : ver) (to : N) : cset :=
  let c1 := suggested_criteria (resolve inp s) name from to in
  if cs_is_empty c1
  then suggested_criteria (resolve inp (store_for_suggest live s)) name (if GUESS_SECOND_LOOK_USES_FROM then from else None) to
  else c1.

(* what the names cargo-vet prints / records for a set mean *)
Definition cs_meaning (t : ctable) (s : cset) : cset := from_list t (cs_indices (ct_len t) s).
