(* Lock.v — N processes using one store directory through cargo-vet's lock
   protocol: take the exclusive flock on config.toml, read the three files, (for a
   committing command) write the three files, release.  The per-process action
   list follows Store::acquire_offline / Store::commit / drop; `flock` semantics
   (exclusive, released by unlock/close) is the definition of the Lock / Unlock
   steps — the OS is modelled, not verified.  A store file's content is abstracted
   to the list of "markers" of the commits it contains. *)
Require Import Base Extracted.

(* The action lists are read from the source by the translator (Extracted.v):
   Store::acquire_offline takes the lock, then reads config (0), audits (1), imports (2);
   Store::commit writes audits, config, imports and then lets the StoreLock die.
   A committing invocation runs both; a reader (check, suggest, ... or any invocation
   that fails before commit) drops the Store after acquiring it. *)
Definition writer_prog : list act := STORE_ACQUIRE_ACTS ++ STORE_COMMIT_ACTS.
Definition reader_prog : list act := STORE_ACQUIRE_ACTS ++ [AUnlock].
Definition prog_of (role : nat -> bool) (p : nat) : list act := if role p then writer_prog else reader_prog.

(* a process: how many actions of its program it has executed, and what it read *)
Record proc := { pos : nat; snap : nat -> list nat }.

Record st := {
  files : nat -> list nat;          (* markers contained in file f *)
  holder : option nat;              (* which process holds the flock *)
  procs : nat -> proc;
  log : list nat                    (* ghost: initial content ++ committed writers, in unlock order *)
}.

Definition updf {A} (m : nat -> A) (k : nat) (v : A) : nat -> A := fun x => if Nat.eqb x k then v else m x.

(* one step of process p (a blocked or finished process stutters) *)
Definition step (role : nat -> bool) (s : st) (p : nat) : st :=
  let q := procs s p in
  let adv (sn : nat -> list nat) := updf (procs s) p {| pos := S (pos q); snap := sn |} in
  match nth_error (prog_of role p) (pos q) with
  | None => s
  | Some ALock =>
      match holder s with
      | None => {| files := files s; holder := Some p; procs := adv (snap q); log := log s |}
      | Some _ =>
          (* an exclusive flock blocks; anything weaker lets the process through without ownership *)
          if STORE_LOCK_EXCLUSIVE then s
          else {| files := files s; holder := holder s; procs := adv (snap q); log := log s |}
      end
  | Some (ARead f) => {| files := files s; holder := holder s; procs := adv (updf (snap q) f (files s f)); log := log s |}
  | Some (AWrite f) => {| files := updf (files s) f (snap q f ++ [p]); holder := holder s; procs := adv (snap q); log := log s |}
  | Some AUnlock => {| files := files s; holder := None; procs := adv (snap q);
                       log := if role p then log s ++ [p] else log s |}
  end.

Definition run (role : nat -> bool) (sched : list nat) (s : st) : st := fold_left (step role) sched s.

Definition init (content : list nat) : st :=
  {| files := fun _ => content; holder := None; procs := fun _ => {| pos := 0; snap := fun _ => [] |}; log := content |}.

Definition finished (role : nat -> bool) (s : st) (p : nat) : Prop := pos (procs s p) = length (prog_of role p).
