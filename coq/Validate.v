(* Validate.v — model of Store::validate's criteria checks and of every place
   where cargo-vet indexes a criteria name into the CriteriaMapper (a panic on an
   unknown name), plus CriteriaMapper::new's own panics. *)
Require Import Base Extracted Criteria.
Local Open Scope N_scope.

(* every list of criteria names the store contains, by site; names are interned
   against the local table, an unknown name being any index >= the table length *)
Definition refs := list (site * list N).

(* which sites are indexed into the mapper on the way to a verdict:
   criteria-map values only when imports are fetched (unlocked); imports.lock
   entries only when they are used as-is (locked) *)
Definition site_used (locked : bool) (s : site) : bool :=
  match s with
  | SCriteriaMap => negb locked
  | SLockAudit | SLockWildcard => locked
  | _ => true
  end.

Definition known (n : nat) (l : list N) : bool := forallb (fun c => N.ltb c (N.of_nat n)) l.

(* Store::validate, criteria part: InvalidCriteria iff a checked site names an unknown criterion *)
Definition validate_criteria (locked : bool) (n : nat) (r : refs) : bool :=
  forallb (fun '(s, l) => negb (validate_checks locked s) || known n l) r.

(* an index panic (`self.index[criteria]`) reaches the resolver / importer *)
Definition index_panics (locked : bool) (n : nat) (r : refs) : bool :=
  existsb (fun '(s, l) => site_used locked s && negb (known n l)) r.

(* wildcard audit end-date cap *)
Definition validate_wildcard_ends (max_end : Z) (ends : list Z) : bool :=
  forallb (fun e => negb (wildcard_end_refused e max_end)) ends.

(* CriteriaMapper::new panics: a custom criterion named like a built-in (duplicate
   name), a criterion implying itself (directly or through a cycle), more than
   MAX_CRITERIA criteria (assert in CriteriaSet::none) *)
Definition mapper_panics (shadows_builtin : bool) (t : ctable) : bool :=
  shadows_builtin || negb (Nat.leb (ct_len t) MAX_CRITERIA) || negb (ct_acyclic t).

Inductive outcome := Refused | Panics | Proceeds.

(* what loading + resolving a typed store does, as far as criteria are concerned;
   validate runs before the mapper is built *)
(* Store::validate also checks the criteria table itself (criteria::check_criteria_table: no built-in
   redefined, at most MAX_CRITERIA criteria, no implication cycle) — whether it does is re-read from
   the source (Extracted.VALIDATE_CHECKS_TABLE) *)
Definition validate_table (shadows : bool) (t : ctable) : bool :=
  negb VALIDATE_CHECKS_TABLE || negb (mapper_panics shadows t).

(* peer files fetched by an unlocked run: (redefines a built-in?, table); fetch_single_imported_audit builds a
   CriteriaMapper from each — after checking the table iff Extracted.PEER_TABLE_CHECKED *)
Definition peers := list (bool * ctable).
Definition bad_peer (ps : peers) : bool := existsb (fun '(sh, t) => mapper_panics sh t) ps.

Definition load_outcome (locked : bool) (shadows : bool) (t : ctable) (max_end : Z) (ends : list Z) (r : refs) (ps : peers) : outcome :=
  if negb (validate_criteria locked (ct_len t) r && validate_wildcard_ends max_end ends && validate_table shadows t) then Refused
  else if mapper_panics shadows t then Panics
  else if negb locked && bad_peer ps then (if PEER_TABLE_CHECKED then Refused else Panics)
  else if index_panics locked (ct_len t) r then Panics
  else Proceeds.
