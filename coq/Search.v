(* Search.v — executable model of resolver.rs `search_for_path` (the
   BinaryHeap search ordered by maximum caveat level) over a directed audit
   graph.  The caveat levels and their order come from Extracted.v (enum
   CaveatLevel in the source); the level assignment per edge and mode mirrors
   resolver.rs:1608-1633. *)
Require Import Base Extracted.
Local Open Scope N_scope.

(* DeltaEdgeOrigin *)
Inductive origin :=
| OLocal (idx : N) (importable : bool)
| OImported (imp idx : N)
| OWildcard (imp : option N) (idx pub : N)
| OTrusted (pub : N)
| OExemption (idx : N)
| OUnpublished (idx : N)
| OFreshExemption (v : N).

Inductive fresh := Stale | FreshPublisher | Fresh.
Definition fresh_new (is_fresh_audit is_fresh_publisher : bool) : fresh :=
  if is_fresh_audit then Fresh else if is_fresh_publisher then FreshPublisher else Stale.
Definition is_fresh f := match f with Stale => false | _ => true end.

Definition mode_eqb (a b : search_mode) := match a, b with
  | PreferExemptions, PreferExemptions | PreferFreshImports, PreferFreshImports
  | RegenerateExemptions, RegenerateExemptions => true | _, _ => false end.

Definition caveat := N.

Record edge := { e_to : ver; e_crit : cset; e_origin : origin; e_fresh : fresh }.

(* the level comes from the source (Extracted.edge_caveat_src, translated arm by arm from search_for_path);
   here only the model's origins and freshness values are mapped onto the source's vocabulary *)
Definition okind_of (o : origin) : okind * bool :=
  match o with
  | OLocal _ b => (OK_LocalAudit, b)
  | OImported _ _ => (OK_Imported, true)
  | OWildcard _ _ _ => (OK_Wildcard, true)
  | OTrusted _ => (OK_Trusted, true)
  | OExemption _ => (OK_Exemption, true)
  | OUnpublished _ => (OK_Unpublished, true)
  | OFreshExemption _ => (OK_FreshExemption, true)
  end.
Definition efresh_of (f : fresh) : efresh :=
  match f with Stale => EF_Stale | FreshPublisher => EF_FreshPublisher | Fresh => EF_Fresh end.
Definition edge_caveat (m : search_mode) (e : edge) : caveat :=
  edge_caveat_src m (fst (okind_of (e_origin e))) (snd (okind_of (e_origin e))) (efresh_of (e_fresh e)).

(* DirectedAuditGraph = SortedMap<Option<&VetVersion>, Vec<DeltaEdge>> *)
Definition graph := list (ver * list edge).
Fixpoint lookup (g : graph) (v : ver) : list edge :=
  match g with
  | [] => []
  | (k, es) :: g' => if ver_eqb k v then es else lookup g' v
  end.
Definition add_edge (g : graph) (from : ver) (e : edge) : graph :=
  (fix go (g : graph) : graph :=
     match g with
     | [] => [(from, [e])]
     | (k, es) :: g' => if ver_eqb k from then (k, es ++ [e]) :: g' else (k, es) :: go g'
     end) g.

Record node := { n_ver : ver; n_orig : ver; n_path : list origin; n_cav : caveat }.

(* derived Ord on DeltaEdgeOrigin: variant index (from Extracted.v), then fields *)
Definition origin_rank (o : origin) : N * N * N * N :=
  match o with
  | OLocal i b => (DEO_StoredLocalAudit, i, if b then 1 else 0, 0)
  | OImported a i => (DEO_ImportedAudit, a, i, 0)
  | OWildcard a i p => (DEO_WildcardAudit, match a with None => 0 | Some x => x + 1 end, i, p)
  | OTrusted p => (DEO_Trusted, p, 0, 0)
  | OExemption i => (DEO_Exemption, i, 0, 0)
  | OUnpublished i => (DEO_Unpublished, i, 0, 0)
  | OFreshExemption v => (DEO_FreshExemption, v, 0, 0)
  end.
Definition cmp4 (a b : N * N * N * N) :=
  let '(a1, a2, a3, a4) := a in let '(b1, b2, b3, b4) := b in
  lex (N.compare a1 b1) (lex (N.compare a2 b2) (lex (N.compare a3 b3) (N.compare a4 b4))).
Definition olast_cmp (a b : option origin) :=
  match a, b with
  | None, None => Eq | None, Some _ => Lt | Some _, None => Gt
  | Some x, Some y => cmp4 (origin_rank x) (origin_rank y)
  end.
Definition exempt_orig (n : node) : ver :=
  if (N.eqb (n_cav n) CV_PreferredExemption || N.eqb (n_cav n) CV_Exemption
      || N.eqb (n_cav n) CV_FreshExemption)%bool then n_orig n else None.
Definition last_opt {A} (l : list A) : option A :=
  match rev l with [] => None | x :: _ => Some x end.
(* Node::key, without the Reverse: the heap pops the LEAST key *)
Definition key_cmp (a b : node) : comparison :=
  lex (N.compare (n_cav a) (n_cav b))
  (lex (ver_cmp (n_ver a) (n_ver b))
  (lex (ver_cmp (exempt_orig a) (exempt_orig b))
  (lex (Nat.compare (length (n_path a)) (length (n_path b)))
       (olast_cmp (last_opt (n_path a)) (last_opt (n_path b)))))).
Definition key_ltb (a b : node) : bool := match key_cmp a b with Lt => true | _ => false end.

Fixpoint extract_min_aux (best : node) (acc rest : list node) : node * list node :=
  match rest with
  | [] => (best, acc)
  | x :: rest' =>
      if key_ltb x best then extract_min_aux x (best :: acc) rest'
      else extract_min_aux best (x :: acc) rest'
  end.
Definition extract_min (q : list node) : option (node * list node) :=
  match q with
  | [] => None
  | x :: q' => Some (extract_min_aux x [] q')
  end.

(* the criterion filter, resolver.rs:1596-1601 *)
Definition usable (m : search_mode) (c : N) (e : edge) : bool :=
  usable_src m (fst (okind_of (e_origin e))) (cs_has c (e_crit e)).

Definition push_edges (m : search_mode) (c : N) (visited : list ver) (n : node) (es : list edge) : list node :=
  flat_map (fun e =>
    if usable m c e && negb (mem_ver (e_to e) visited)
    then [ {| n_ver := e_to e; n_orig := n_ver n; n_path := n_path n ++ [e_origin e];
              n_cav := N_max (n_cav n) (edge_caveat m e) |} ]
    else []) es.

Inductive result := ROk (p : list origin) | RErr (vis : list ver) | RFuel.

Fixpoint loop (fuel : nat) (g : graph) (c : N) (m : search_mode) (target : ver)
         (q : list node) (visited : list ver) : result :=
  match fuel with
  | O => RFuel
  | S fuel' =>
    match extract_min q with
    | None => RErr visited
    | Some (n, q') =>
      if mem_ver (n_ver n) visited then loop fuel' g c m target q' visited
      else
        let visited' := n_ver n :: visited in
        if ver_eqb (n_ver n) target then ROk (n_path n)
        else
          let pushed := push_edges m c visited' n (lookup g (n_ver n)) in
          let extra :=
            match m, n_ver n with
            | RegenerateExemptions, Some v =>
                [ {| n_ver := None; n_orig := n_ver n; n_path := n_path n ++ [OFreshExemption v];
                     n_cav := N_max (n_cav n) CV_FreshExemption |} ]
            | _, _ => []
            end in
          loop fuel' g c m target (pushed ++ extra ++ q') visited'
    end
  end.

Definition search fuel g c m start target :=
  loop fuel g c m target [ {| n_ver := start; n_orig := start; n_path := []; n_cav := CV_None |} ] [].

(* every loop iteration pops one node; at most one node is pushed per edge plus
   one per expanded version (fresh exemption) plus the start node *)
Definition graph_edges (g : graph) : nat := fold_right (fun p acc => (length (snd p) + acc)%nat) 0%nat g.
Definition search_fuel (g : graph) : nat := 3 + 2 * graph_edges g + 2 * length g.
