(* AuditGraph.v — model of resolver.rs `AuditGraph::build` and `AuditGraph::search`.
   The store is seen per package name: all audit lists the resolver consults for
   that crate, already interned (criteria names -> indices of the local
   CriteriaMapper, versions -> ranks, dates -> day numbers). *)
Require Import Base Extracted Criteria Search.
Local Open Scope N_scope.

Inductive akind :=
| KFull (v : N)
| KDelta (from to : N)
| KViolation (matches : list N).   (* the universe ranks the VersionReq matches *)

Record audit := { au_kind : akind; au_crit : list N; au_importable : bool; au_fresh : bool }.
Record wildcard := { w_user : N; w_start : Z; w_end : Z; w_crit : list N; w_fresh : bool }.
Record trusted := { t_user : N; t_start : Z; t_end : Z; t_crit : list N }.
Record publisher := { p_ver : N; p_user : N; p_when : Z; p_fresh : bool }.
Record unpublished := { u_ver : N; u_as : N; u_fresh : bool; u_still : bool }.
Record exemption := { x_ver : N; x_crit : list N; x_suggest : bool }.

(* What `AuditGraph::build(store, mapper, package, None)` reads for one package. *)
Record pkg_store := {
  ps_imported : list (list audit);        (* store.imported_audits() in BTreeMap order, audits[package] *)
  ps_local : list audit;                  (* store.audits.audits[package] *)
  ps_wild_imported : list (list wildcard);
  ps_wild_local : list wildcard;
  ps_trusted : list trusted;              (* store.audits.trusted[package] — the LOCAL file only *)
  ps_publishers : list publisher;         (* store.publishers()[package] *)
  ps_unpublished : list unpublished;      (* store.unpublished()[package] *)
  ps_exemptions : list exemption          (* store.config.exemptions[package] *)
}.

Definition empty_pkg_store : pkg_store :=
  {| ps_imported := []; ps_local := []; ps_wild_imported := []; ps_wild_local := [];
     ps_trusted := []; ps_publishers := []; ps_unpublished := []; ps_exemptions := [] |}.

(* all_audits: imports first (in order), then the local file; with origins *)
Definition all_audits (s : pkg_store) : list (option N * origin * audit) :=
  flat_map (fun '(imp, l) =>
              map (fun '(i, a) => (Some (N.of_nat imp), OImported (N.of_nat imp) (N.of_nat i), a)) (enumerate l))
           (enumerate (ps_imported s))
  ++ map (fun '(i, a) => (None, OLocal (N.of_nat i) (au_importable a), a)) (enumerate (ps_local s)).

(* all_wildcard_audits: (import_index option, audit_index, entry) *)
Definition all_wildcards (s : pkg_store) : list (option N * N * wildcard) :=
  flat_map (fun '(imp, l) =>
              map (fun '(i, w) => (Some (N.of_nat imp), N.of_nat i, w)) (enumerate l))
           (enumerate (ps_wild_imported s))
  ++ map (fun '(i, w) => (None, N.of_nat i, w)) (enumerate (ps_wild_local s)).

(* An edge of the *forward* graph, with its source. *)
Record fedge := { fe_from : ver; fe_to : ver; fe_crit : cset; fe_origin : origin; fe_fresh : fresh }.

Definition audit_edges (t : ctable) (s : pkg_store) : list fedge :=
  flat_map (fun '(_, o, a) =>
    match au_kind a with
    | KFull v => [ {| fe_from := None; fe_to := Some v; fe_crit := from_list t (au_crit a);
                      fe_origin := o; fe_fresh := fresh_new (au_fresh a) false |} ]
    | KDelta f v => [ {| fe_from := Some f; fe_to := Some v; fe_crit := from_list t (au_crit a);
                         fe_origin := o; fe_fresh := fresh_new (au_fresh a) false |} ]
    | KViolation _ => []
    end) (all_audits s).

Definition publisher_edges (t : ctable) (s : pkg_store) : list fedge :=
  flat_map (fun '(pi, p) =>
    flat_map (fun '(imp, ai, w) =>
      if wildcard_guard (w_user w) (p_user p) (w_start w) (w_end w) (p_when p)
      then [ {| fe_from := None; fe_to := Some (p_ver p); fe_crit := from_list t (w_crit w);
                fe_origin := OWildcard imp ai (N.of_nat pi);
                fe_fresh := fresh_new (w_fresh w) (p_fresh p) |} ]
      else []) (all_wildcards s)
    ++
    flat_map (fun e =>
      if trusted_guard (t_user e) (p_user p) (t_start e) (t_end e) (p_when p)
      then [ {| fe_from := None; fe_to := Some (p_ver p); fe_crit := from_list t (t_crit e);
                fe_origin := OTrusted (N.of_nat pi);
                fe_fresh := fresh_new (p_fresh p) false |} ]
      else []) (ps_trusted s))
  (enumerate (ps_publishers s)).

Definition unpublished_edges (t : ctable) (s : pkg_store) : list fedge :=
  map (fun '(i, u) =>
    {| fe_from := Some (u_as u); fe_to := Some (u_ver u); fe_crit := all_criteria t;
       fe_origin := OUnpublished (N.of_nat i); fe_fresh := fresh_new (u_fresh u) false |})
  (enumerate (ps_unpublished s)).

Definition exemption_edges (t : ctable) (s : pkg_store) : list fedge :=
  map (fun '(i, x) =>
    {| fe_from := None; fe_to := Some (x_ver x); fe_crit := from_list t (x_crit x);
       fe_origin := OExemption (N.of_nat i); fe_fresh := Stale |})
  (enumerate (ps_exemptions s)).

Definition all_edges (t : ctable) (s : pkg_store) : list fedge :=
  audit_edges t s ++ publisher_edges t s ++ unpublished_edges t s ++ exemption_edges t s.

Definition forward_graph (es : list fedge) : graph :=
  fold_left (fun g e => add_edge g (fe_from e)
     {| e_to := fe_to e; e_crit := fe_crit e; e_origin := fe_origin e; e_fresh := fe_fresh e |}) es [].
Definition backward_graph (es : list fedge) : graph :=
  fold_left (fun g e => add_edge g (fe_to e)
     {| e_to := fe_from e; e_crit := fe_crit e; e_origin := fe_origin e; e_fresh := fe_fresh e |}) es [].

(* ---- the violation check, resolver.rs:1306-1395 ---- *)
Inductive conflict :=
| UnauditedConflict (vsrc : option N) (vidx : N) (exemption_idx : N)
| AuditConflict (vsrc : option N) (vidx : N) (asrc : option N) (aidx : N).

Definition origin_audit_index (o : origin) : N :=
  match o with OLocal i _ => i | OImported _ i => i | _ => 0 end.

Definition violation_conflicts (t : ctable) (s : pkg_store) : list conflict :=
  flat_map (fun '(vsrc, vo, va) =>
    match au_kind va with
    | KViolation range =>
        let vcs := map (fun c => from_list t [c]) (au_crit va) in
        let hit (crit : list N) := existsb (fun v => cs_contains (from_list t crit) v) vcs in
        let inr (v : N) := existsb (N.eqb v) range in
        flat_map (fun '(xi, x) =>
            if hit (x_crit x) && inr (x_ver x)
            then [UnauditedConflict vsrc (origin_audit_index vo) (N.of_nat xi)] else [])
          (enumerate (ps_exemptions s))
        ++
        flat_map (fun '(asrc, ao, a) =>
            if hit (au_crit a) then
              match au_kind a with
              | KFull v => if inr v then [AuditConflict vsrc (origin_audit_index vo) asrc (origin_audit_index ao)] else []
              | KDelta f v => if inr f || inr v
                              then [AuditConflict vsrc (origin_audit_index vo) asrc (origin_audit_index ao)] else []
              | KViolation _ => []
              end
            else [])
          (all_audits s)
    | _ => []
    end) (all_audits s).

Record audit_graph := { ag_forward : graph; ag_backward : graph }.

Definition build (t : ctable) (s : pkg_store) : audit_graph + list conflict :=
  match violation_conflicts t s with
  | [] => let es := all_edges t s in
          inl {| ag_forward := forward_graph es; ag_backward := backward_graph es |}
  | cs => inr cs
  end.

(* AuditGraph::search: backward from the target version to the root; on failure
   also forward from the root, returning both reachable sets. *)
Inductive search_result :=
| SOk (path : list origin)
| SErr (from_root from_target : list ver)
| SFuel.

Definition ag_search (ag : audit_graph) (c : N) (v : N) (m : search_mode) : search_result :=
  match search (search_fuel (ag_backward ag)) (ag_backward ag) c m (Some v) None with
  | ROk p => SOk p
  | RFuel => SFuel
  | RErr from_target =>
      (* the code asserts `mode != RegenerateExemptions` here *)
      match search (search_fuel (ag_forward ag)) (ag_forward ag) c m None (Some v) with
      | RErr from_root => SErr from_root from_target
      | _ => SFuel      (* `unwrap_err()` would panic; unreachable, see SearchProofs *)
      end
  end.
