(* ShowLock.v — the lock model run on the serial schedule the implementation's users
   were observed to take the lock in, rendered like the harness's observation. *)
Require Import Base Extracted Lock Show.
From Coq Require Import String.
Local Open Scope string_scope.

Definition role_of (roles : list bool) (p : nat) : bool := nth p roles false.
Definition serial (role : nat -> bool) (order : list nat) : list nat :=
  flat_map (fun p => repeat p (List.length (prog_of role p))) order.
Definition sfiles (g : nat -> list nat) : list string :=
  [sp "f0" (map snat (g 0)); sp "f1" (map snat (g 1)); sp "f2" (map snat (g 2))].
Definition show_lock (roles : list bool) (order : list nat) : string :=
  let role := role_of roles in
  let s := run role (serial role order) (init []) in
  sp "lock" [sp "views" (map (fun p => sp "v" (snat p :: sfiles (snap (procs s p)))) order);
             sp "final" (sfiles (files s))].
