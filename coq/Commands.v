(* Commands.v — how the commands compose the resolver and the store update; the
   update modes come from main.rs via Extracted.v. *)
Require Import Base Extracted Criteria Search AuditGraph DepGraph Resolve Update.
Local Open Scope N_scope.

(* cmd_check on an acquired store (live imports when unlocked): commit only when
   the report has no errors (CHECK_COMMITS_ONLY_ON_SUCCESS is the translator's
   witness that main.rs still has this shape). [None] = nothing written. *)
Definition cmd_check (locked : bool) (inp : depgraph_in) (s : store) : option store :=
  if has_errors (resolve inp s) then None
  else if locked then Some s
  else Some (update_store inp s (fun _ => mode_check_update)).

Definition cmd_prune (no_imports no_exemptions no_audits : bool) (inp : depgraph_in) (s : store) : store :=
  update_store inp s (fun _ => mode_prune no_imports no_exemptions no_audits).
Definition cmd_regenerate_imports (inp : depgraph_in) (s : store) : store :=
  update_store inp s (fun _ => mode_regenerate_imports).
Definition cmd_regenerate_exemptions (inp : depgraph_in) (s : store) : store :=
  update_store inp s (fun _ => mode_regenerate_exemptions).
Definition cmd_init (inp : depgraph_in) (s : store) : store :=
  update_store inp s (fun _ => mode_init).
(* the clean-up after certify / trust on crate [target] *)
Definition cleanup_certify (target : N) (inp : depgraph_in) (s : store) : store :=
  update_store inp s (fun n => mode_certify (N.eqb n target)).
Definition cleanup_trust (target : N) (inp : depgraph_in) (s : store) : store :=
  update_store inp s (fun n => mode_trust (N.eqb n target)).
