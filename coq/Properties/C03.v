(* C03 — required criteria follow the documented policy rules over the whole graph. *)
Require Import Base Extracted Criteria DepGraph.
Require Import ReqProofs.

(* Vocabulary (definitions in proofs/ReqProofs.v, all computable):
     has c r j            criterion c is in the demand r assigns to crate j
     override j           crate j's own policy `criteria`, if any
     is_root j            j is a top-level crate (g_root)
     dev_demand t g c j   some workspace member passes c to j as a DEV-dependency: its
                          dependency-criteria entry for j if there is one, else its dev-criteria,
                          else safe-to-run — one level deep only
     pushed t g c r L j   some crate p of L has j among its normal/build dependencies and
                          passes c on: its dependency-criteria entry for j if there is one
                          (possibly empty), else p's own demand r[p]
   req_equation t g c r j is
     if j is processed (in g_topo) then
        match override j with
        | Some cl => c in closure(cl)                       (own policy replaces everything)
        | None    => dev_demand j || (is_root j && c in closure[safe-to-deploy]) || pushed r j
     else dev_demand j
   i.e. exactly the rules of the property, union over all paths included. *)

(* the computed demands satisfy the equations, for every criteria table, graph and policy
   table.  PARTIAL: under [topo_ok g] — the order DepGraph::new produced lists every crate
   once and each crate before its normal/build dependencies.  That the DFS of depgraph_new
   delivers this for acyclic normal/build edges is NOT proved; the correspondence run
   evaluates [topo_ok (depgraph_new ..)] and [roots_ok] on every generated graph. *)
Theorem C03_requirements_solve_the_policy_equations_partial : forall t g c,
  topo_ok g = true ->
  let fin := resolve_requirements t g in
  length fin = length (g_pkgs g) /\
  forall j, j < length (g_pkgs g) -> has c fin j = req_equation t g c fin j.
Proof. exact requirements_satisfy_equations. Qed.

(* and they are the ONLY solution: whatever assignment satisfies the equations on the
   processed crates is the computed one — so it is the least set satisfying the rules *)
Theorem C03_the_solution_is_unique_partial : forall t g c,
  topo_ok g = true ->
  forall b : list cset,
  (forall j, In j (g_topo g) -> has c b j = req_equation t g c b j) ->
  forall j, In j (g_topo g) -> has c b j = has c (resolve_requirements t g) j.
Proof. exact requirements_are_the_solution. Qed.

(* non-vacuity: a two-member workspace, a shared first-party crate, a diamond, a dev edge and
   a dependency-criteria entry; the order produced by depgraph_new passes topo_ok / roots_ok *)
Definition ex_pkg name tp deps pol := {| pk_name := name; pk_version := 0; pk_third_party := tp; pk_deps := deps; pk_policy := pol |}.
Definition ex_dep to nm dv := {| d_to := to; d_normal := nm; d_build := false; d_dev := dv |}.
Definition ex_in : depgraph_in :=
  {| dg_pkgs := [ ex_pkg 0 false [ex_dep 2 true false; ex_dep 3 true false; ex_dep 4 false true] None;
                  ex_pkg 1 false [ex_dep 2 true false]
                         (Some {| pol_criteria := Some [SAFE_TO_RUN_IDX]; pol_dev_criteria := None; pol_dep_criteria := [] |});
                  ex_pkg 2 false [ex_dep 4 true false]
                         (Some {| pol_criteria := None; pol_dev_criteria := None; pol_dep_criteria := [(4%N, [])] |});
                  ex_pkg 3 true [ex_dep 4 true false] None;
                  ex_pkg 4 true [] None ];
     dg_members := [0%nat; 1%nat] |}.
Example C03_nonvacuous :
  topo_ok (depgraph_new ex_in) = true /\ roots_ok (depgraph_new ex_in) = true /\
  resolve_requirements [] (depgraph_new ex_in) = [3%N; 1%N; 3%N; 3%N; 3%N].
Proof. vm_compute. repeat split. Qed.

Print Assumptions C03_requirements_solve_the_policy_equations_partial.
Print Assumptions C03_the_solution_is_unique_partial.
