(* C03 — required criteria follow the documented policy rules over the whole graph. *)
Require Import Base Extracted Criteria DepGraph.
Require Import ReqProofs DfsProofs.

(* Vocabulary (definitions in proofs/ReqProofs.v, all computable):
     has c r j            criterion c is in the demand r assigns to crate j
     override j           crate j's own policy `criteria`, if any
     is_root j            j is a top-level crate (g_root)
     dev_demand t g c j   some workspace member passes c to j as a DEV-dependency: its
                          dependency-criteria entry for j if there is one, else its dev-criteria,
                          else safe-to-run — one level deep only
     pushed t g c r L j   some crate p of L has j among its normal/build dependencies and
                          passes c on: its dependency-criteria entry for j if there is one
                          (possibly empty), else p's own demand r[p]
   req_equation t g c r j is
     if j is processed (in g_topo) then
        match override j with
        | Some cl => c in closure(cl)                       (own policy replaces everything)
        | None    => dev_demand j || (is_root j && c in closure[safe-to-deploy]) || pushed r j
     else dev_demand j
   i.e. exactly the rules of the property, union over all paths included. *)

(* [acyclic_in inp]: the normal/build edges of the resolve graph are acyclic (some rank
   decreases along them) and point to packages of the graph — what cargo guarantees of its
   resolve graph; dev edges may form cycles back into the workspace.  Under it, DepGraph::new's
   two DFS passes produce an order that lists each crate once, after all its normal/build
   dependencies, and the roots are exactly the workspace members nothing in the normal build
   graph depends on. *)
Theorem C03_order_is_topological : forall inp, acyclic_in inp -> topo_ok (depgraph_new inp) = true.
Proof. exact depgraph_new_topo_ok. Qed.
Theorem C03_roots_are_the_top_level_crates : forall inp, acyclic_in inp -> roots_ok (depgraph_new inp) = true.
Proof. exact depgraph_new_roots_ok. Qed.

(* the computed demands satisfy the equations, for every criteria table, dependency graph and
   policy table *)
Theorem C03_requirements_solve_the_policy_equations : forall t inp c,
  acyclic_in inp ->
  let g := depgraph_new inp in
  let fin := resolve_requirements t g in
  length fin = length (g_pkgs g) /\
  forall j, j < length (g_pkgs g) -> has c fin j = req_equation t g c fin j.
Proof. intros t inp c H. exact (requirements_satisfy_equations t _ c (depgraph_new_topo_ok inp H)). Qed.

(* and they are the ONLY solution: whatever assignment satisfies the equations on the
   processed crates is the computed one — so it is the least set satisfying the rules *)
Theorem C03_the_solution_is_unique : forall t inp c,
  acyclic_in inp ->
  let g := depgraph_new inp in
  forall b : list cset,
  (forall j, In j (g_topo g) -> has c b j = req_equation t g c b j) ->
  forall j, In j (g_topo g) -> has c b j = has c (resolve_requirements t g) j.
Proof. intros t inp c H. exact (requirements_are_the_solution t _ c (depgraph_new_topo_ok inp H)). Qed.

(* the same two statements for ANY graph value whose order passes the executable check *)
Theorem C03_equations_for_any_ordered_graph : forall t g c,
  topo_ok g = true ->
  let fin := resolve_requirements t g in
  length fin = length (g_pkgs g) /\
  forall j, j < length (g_pkgs g) -> has c fin j = req_equation t g c fin j.
Proof. exact requirements_satisfy_equations. Qed.

(* non-vacuity: a two-member workspace, a shared first-party crate, a diamond, a dev edge and
   a dependency-criteria entry; the order produced by depgraph_new passes topo_ok / roots_ok *)
Definition ex_pkg name tp deps pol := {| pk_name := name; pk_version := 0; pk_third_party := tp; pk_deps := deps; pk_policy := pol |}.
Definition ex_dep to nm dv := {| d_to := to; d_normal := nm; d_build := false; d_dev := dv |}.
Definition ex_in : depgraph_in :=
  {| dg_pkgs := [ ex_pkg 0 false [ex_dep 2 true false; ex_dep 3 true false; ex_dep 4 false true] None;
                  ex_pkg 1 false [ex_dep 2 true false]
                         (Some {| pol_criteria := Some [SAFE_TO_RUN_IDX]; pol_dev_criteria := None; pol_dep_criteria := [] |});
                  ex_pkg 2 false [ex_dep 4 true false]
                         (Some {| pol_criteria := None; pol_dev_criteria := None; pol_dep_criteria := [(4%N, [])] |});
                  ex_pkg 3 true [ex_dep 4 true false] None;
                  ex_pkg 4 true [] None ];
     dg_members := [0%nat; 1%nat] |}.
Example C03_nonvacuous :
  topo_ok (depgraph_new ex_in) = true /\ roots_ok (depgraph_new ex_in) = true /\
  resolve_requirements [] (depgraph_new ex_in) = [3%N; 1%N; 3%N; 3%N; 3%N].
Proof. vm_compute. repeat split. Qed.

(* the example graph is acyclic in the sense above (rank = 4 - index does it) *)
Example C03_example_is_acyclic : acyclic_in ex_in.
Proof.
  exists (fun x => 10 - x). intros x d Hx Hd. cbn in Hx.
  destruct x as [|[|[|[|[|x]]]]]; try lia; cbn in Hd; repeat (destruct Hd as [<-|Hd]; [cbn; lia|]); destruct Hd.
Qed.

Print Assumptions C03_order_is_topological.
Print Assumptions C03_roots_are_the_top_level_crates.
Print Assumptions C03_requirements_solve_the_policy_equations.
Print Assumptions C03_the_solution_is_unique.
Print Assumptions C03_equations_for_any_ordered_graph.
