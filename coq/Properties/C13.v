(* C13 — store-rewriting commands are idempotent; a clean check changes nothing. *)
Require Import Base Extracted Criteria Search AuditGraph DepGraph Resolve Update Commands.
Require Import Witness.
Require Import WrittenForm.
Require Import CriteriaProofs UpdateProofs UpdateKeep EndToEnd CheckFixpoint CheckTwice WrittenFormProofs.
Local Open Scope N_scope.

(* a settled store (nothing in it is a fresh import — the state right after any
   command has written imports.lock and it has been re-read, or any locked load)
   keeps every local audit, imported audit, imported wildcard audit and publisher
   record under the check's own update, whatever paths were chosen *)
Theorem C13_check_update_leaves_settled_store : forall t ing re ps,
  settled ps ->
  let u := update_pkg t mode_check_update ing re ps in
  pu_local u = ps_local ps /\ pu_imported u = ps_imported ps /\
  pu_wild_imported u = ps_wild_imported ps /\ pu_publishers u = ps_publishers ps.
Proof. exact settled_check_update_keeps. Qed.

(* ... and on a store in the form cargo-vet itself writes (no freshness marks; unpublished records sorted and
   de-duplicated; every exemption's criteria written as the minimal names of a non-empty set) the whole update of a
   successful unlocked check is the identity: the second check writes the store it read, whatever certification
   paths it chooses *)
Theorem C13_check_on_a_written_store_writes_it_back : forall inp s s1,
  (forall name ps, In (name, ps) (st_pkgs s) -> written_form (st_criteria s) ps) ->
  NoDup (map fst (st_pkgs s)) ->
  cmd_check false inp s = Some s1 -> s1 = s.
Proof. exact check_on_written_store. Qed.
Example C13_written_store_nonvacuous :
  cmd_check false w_graph w_store = Some w_store /\
  (forall name ps, In (name, ps) (st_pkgs w_store) -> written_form (st_criteria w_store) ps).
Proof.
  split; [vm_compute; reflexivity|].
  intros name ps [E|[E|[]]]; inversion E; subst; (split; [|split; [|split]]).
  - repeat split; cbn; intros; try tauto.
  - cbn. tauto.
  - reflexivity.
  - intros x [<-|[]]. vm_compute. auto.
  - repeat split; cbn; intros; try tauto. destruct H as [<-|[<-|[]]]; reflexivity.
  - cbn. tauto.
  - reflexivity.
  - cbn. tauto.
Qed.

(* ... and what a successful check writes IS in that form, so: a second successful unlocked check, run on the store
   the first one wrote, writes the very same store — for every graph and every loaded store *)
Theorem C13_second_check_writes_the_same_store : forall inp s s1,
  store_ok inp s -> NoDup (map fst (st_pkgs s)) ->
  cmd_check false inp s = Some s1 -> cmd_check false inp s1 = Some s1.
Proof. exact check_twice. Qed.
Example C13_second_check_nonvacuous :
  (let s1 := update_store w_graph w_store_exempted (fun _ => mode_check_update) in
   andb (match cmd_check false w_graph w_store_exempted with Some _ => true | None => false end)
        (match cmd_check false w_graph s1 with Some _ => true | None => false end)) = true.
Proof. vm_compute. reflexivity. Qed.

(* the written form has an executable test, which is evaluated on the store files every successful real `cargo vet`
   of a history leaves behind (they must pass it) *)
Theorem C13_written_form_test_is_sound : forall t ps, written_formb t ps = true -> written_form t ps.
Proof. exact written_formb_ok. Qed.

(* a --locked check does not apply any update at all *)
Theorem C13_locked_check_writes_the_store_it_read : forall inp s s',
  cmd_check true inp s = Some s' -> s' = s.
Proof. intros inp s s'. unfold cmd_check. destruct (has_errors _); [discriminate|]. intros H; inversion H; reflexivity. Qed.

(* criteria lists that cargo-vet writes are canonical: writing the set denoted
   by a written list reproduces the list (exemption narrowing, import rewriting) *)
Theorem C13_written_lists_are_canonical : forall t s,
  ct_acyclic t = true -> bounded t s -> closed t s ->
  names_of t (from_list t (names_of t s)) = names_of t s.
Proof. exact names_canonical. Qed.

(* the check's update never narrows an exemption: it keeps its meaning *)
Theorem C13_check_keeps_exemption_meaning : forall t g reqs s name rm,
  ct_acyclic t = true ->
  (forall x, In x (ps_exemptions (store_for s name)) -> forall c, In c (x_crit x) -> c < N.of_nat (ct_len t)) ->
  required_entries t g reqs s name (um_search mode_check_update) = Some rm ->
  forall x', In x' (update_exemptions t mode_check_update (Some rm) (ps_exemptions (store_for s name))) ->
    exists x, In x (ps_exemptions (store_for s name)) /\ x_ver x' = x_ver x /\ x_suggest x' = x_suggest x /\
              from_list t (x_crit x') = from_list t (x_crit x).
Proof.
  intros t g reqs s name rm Hac Hb Hr. apply update_exemptions_kept_when_not_pruning; auto.
  intros rm0 E i s0 c Hg Hc. inversion E; subst rm0.
  assert (Hm : um_search mode_check_update <> RegenerateExemptions) by discriminate.
  exact (required_entries_exemptions _ _ _ _ _ _ _ Hm Hr _ _ _ Hg Hc).
Qed.

(* IDEMPOTENCE IS REFUTED in the faithful model, for the pruning update and for regenerate exemptions
   (known findings F-C13-prune / F-C13-regenerate; both witnesses are replayed on the implementation
   by the correspondence run on every check):

   prune: the first run keeps the local non-importable audit it needs and imports the peer's audit; in
   the written store that import is no longer fresh, now beats the non-importable audit, and the second
   run deletes the local audit although nothing else changed. *)
Theorem C13_refuted_prune_is_idempotent :
  exists inp s, has_errors (resolve inp s) = false /\
    cmd_prune false false false inp (cmd_prune false false false inp s) <> cmd_prune false false false inp s.
Proof.
  exists p_graph, p_store. split; [vm_compute; reflexivity|]. intros E.
  apply (f_equal (fun s => map (fun '(n, ps) => length (ps_local ps)) (st_pkgs s))) in E. vm_compute in E. discriminate E.
Qed.

(* regenerate exemptions: the second run narrows an exemption the first run wrote *)
Theorem C13_refuted_regenerate_exemptions_is_idempotent :
  exists inp s,
    cmd_regenerate_exemptions inp (cmd_regenerate_exemptions inp s) <> cmd_regenerate_exemptions inp s.
Proof.
  exists r_graph, r_store. intros E.
  apply (f_equal (fun s => map (fun '(n, ps) => map x_crit (ps_exemptions ps)) (st_pkgs s))) in E. vm_compute in E. discriminate E.
Qed.

Print Assumptions C13_check_update_leaves_settled_store.
Print Assumptions C13_check_on_a_written_store_writes_it_back.
Print Assumptions C13_second_check_writes_the_same_store.
Print Assumptions C13_written_form_test_is_sound.
Print Assumptions C13_locked_check_writes_the_store_it_read.
Print Assumptions C13_written_lists_are_canonical.
Print Assumptions C13_check_keeps_exemption_meaning.
Print Assumptions C13_refuted_prune_is_idempotent.
Print Assumptions C13_refuted_regenerate_exemptions_is_idempotent.
