(* C06 — publisher-based grants are confined to their user, crate and date window. *)
Require Import Base Extracted Criteria Search AuditGraph DepGraph Resolve Witness.
Require Import SearchProofs AuditGraphProofs ResolveProofs ResolveTheorems.
Local Open Scope N_scope.

(* Every wildcard-audit or trusted edge in the audit graph of a crate comes from
   a publisher record *of that crate's store* for exactly the edge's target
   version, published by the entry's user on a day d with start <= d <= end
   (the code's guard, taken from the source by Extracted.v, is start <= d < end),
   and carries exactly the entry's criteria (closed under implication).  Trusted
   edges come from [ps_trusted], the local file's table only. *)
(* turn a conjunction of boolean comparisons (whatever operators the source uses)
   into propositions *)
Ltac guard_fact H :=
  first [apply N.eqb_eq in H | apply Z.leb_le in H | apply Z.ltb_lt in H | apply Z.eqb_eq in H].
Ltac guard_facts H :=
  repeat match type of H with
         | (_ && _)%bool = true => let H2 := fresh "G" in apply andb_prop in H; destruct H as [H H2]; guard_fact H2
         end; guard_fact H.

Theorem C06_grant_edges :
  forall t s e, In e (all_edges t s) -> is_grant (fe_origin e) = true ->
  exists pi p, nth_error (ps_publishers s) pi = Some p /\
    fe_from e = None /\ fe_to e = Some (p_ver p) /\
    ((exists imp ai w, fe_origin e = OWildcard imp ai (N.of_nat pi) /\ wildcard_at s imp ai = Some w /\
        w_user w = p_user p /\ (w_start w <= p_when p)%Z /\ (p_when p <= w_end w)%Z /\
        fe_crit e = from_list t (w_crit w))
     \/
     (exists tr, fe_origin e = OTrusted (N.of_nat pi) /\ In tr (ps_trusted s) /\
        t_user tr = p_user p /\ (t_start tr <= p_when p)%Z /\ (p_when p <= t_end tr)%Z /\
        fe_crit e = from_list t (t_crit tr))).
Proof.
  intros t s e He Hg. apply grant_edges_are_publisher_edges in He; [|exact Hg].
  destruct (publisher_edge_spec t s e He) as [pi [p [Hp [Hf [Ht H]]]]].
  exists pi, p. repeat split; auto. destruct H as [[imp [ai [w [Ho [Hw [G Hc]]]]]]|[tr [Ho [Hin [G Hc]]]]].
  - left. exists imp, ai, w. unfold wildcard_guard in G. guard_facts G. repeat split; auto; lia.
  - right. exists tr. unfold trusted_guard in G. guard_facts G. repeat split; auto; lia.
Qed.

(* no other edge kind is a grant: what certifies through a grant is a grant edge *)
Theorem C06_only_grants_use_publishers :
  forall t s e, In e (all_edges t s) -> is_grant (fe_origin e) = true -> In e (publisher_edges t s).
Proof. exact grant_edges_are_publisher_edges. Qed.

(* at the level of certification: when grants are all that is on record for a crate, a version is certified for a
   criterion ONLY IF crates.io says that very version was published by a user for whom a grant carrying the
   criterion exists, on a day inside that grant's window *)
Theorem C06_certified_by_grants_alone :
  forall t s c v, (forall e, In e (all_edges t s) -> is_grant (fe_origin e) = true) ->
  certified t s c v ->
  exists pi p, nth_error (ps_publishers s) pi = Some p /\ p_ver p = v /\
    ((exists imp ai w, wildcard_at s imp ai = Some w /\ w_user w = p_user p /\
        (w_start w <= p_when p)%Z /\ (p_when p <= w_end w)%Z /\ cs_has c (from_list t (w_crit w)) = true)
     \/
     (exists tr, In tr (ps_trusted s) /\ t_user tr = p_user p /\
        (t_start tr <= p_when p)%Z /\ (p_when p <= t_end tr)%Z /\ cs_has c (from_list t (t_crit tr)) = true)).
Proof.
  intros t s c v Hall Hc. unfold certified in Hc.
  inversion Hc as [|e w He Hcrit Hrest Hfrom]; subst.
  destruct (C06_grant_edges t s e He (Hall e He)) as [pi [p [Hp [Hf [Ht Hkind]]]]].
  assert (Hv : p_ver p = v).
  { rewrite Ht in Hrest. inversion Hrest as [|e2 w2 He2 _ _ Hfrom2]; subst; [reflexivity|].
    destruct (C06_grant_edges t s e2 He2 (Hall e2 He2)) as [_ [_ [_ [Hf2 _]]]]. congruence. }
  exists pi, p. split; [exact Hp|]. split; [exact Hv|].
  destruct Hkind as [[imp [ai [w0 [_ [Hw [Hu [H1 [H2 Hcr]]]]]]]]|[tr [_ [Hin [Hu [H1 [H2 Hcr]]]]]]].
  - left. exists imp, ai, w0. rewrite <- Hcr. auto.
  - right. exists tr. rewrite <- Hcr. auto.
Qed.

(* two grants of one publisher with DISJOINT windows are not one grant spanning both: a version published in the gap gets
   nothing from either, for every store (so an aggregate or a multi-URL import that merged them would certify something new) *)
Theorem C06_gap_between_windows_gets_nothing : forall u s1 e1 s2 e2 d,
  (e1 < d)%Z -> (d < s2)%Z ->
  wildcard_guard u u s1 e1 d = false /\ wildcard_guard u u s2 e2 d = false /\
  trusted_guard u u s1 e1 d = false /\ trusted_guard u u s2 e2 d = false.
Proof.
  intros u s1 e1 s2 e2 d H1 H2. unfold wildcard_guard, trusted_guard. rewrite N.eqb_refl. cbn [andb].
  assert (A : Z.leb d e1 = false) by (apply Z.leb_gt; exact H1).
  assert (B : Z.leb s2 d = false) by (apply Z.leb_gt; exact H2).
  rewrite A, B. rewrite !andb_false_r. cbn [andb]. auto.
Qed.
Example C06_merged_window_would_grant : wildcard_guard 1 1 10 20 25 = false /\ wildcard_guard 1 1 30 40 25 = false /\ wildcard_guard 1 1 10 40 25 = true.
Proof. vm_compute. auto. Qed.

Example C06_nonvacuous :
  exists e, In e (all_edges w_table w_store_b) /\ is_grant (fe_origin e) = true /\ fe_to e = Some 1.
Proof. eexists. split; [vm_compute; left; reflexivity|]. split; reflexivity. Qed.
(* user 8's version 3 gets nothing from user 7's wildcard audit *)
Example C06_other_user_gets_nothing :
  forall e, In e (all_edges w_table w_store_b) -> fe_to e <> Some 3.
Proof. vm_compute. intros e [<-|[]]. discriminate. Qed.

(* the hypothesis of C06_certified_by_grants_alone is met by the witness store of "b" (a wildcard audit and two
   publisher records, nothing else), and version 1 is certified for safe-to-run there *)
Example C06_grants_alone_nonvacuous :
  (forall e, In e (all_edges w_table w_store_b) -> is_grant (fe_origin e) = true) /\ certified w_table w_store_b 0 1.
Proof.
  split.
  - vm_compute. intros e [<-|[]]. reflexivity.
  - unfold certified.
    pose (e := hd {| fe_from := None; fe_to := None; fe_crit := 0; fe_origin := OExemption 0; fe_fresh := Stale |} (all_edges w_table w_store_b)).
    change (fpath w_table w_store_b 0 (fe_from e) (Some 1)).
    apply (fp_cons w_table w_store_b 0 e (Some 1)); [vm_compute; left; reflexivity|vm_compute; reflexivity|vm_compute; constructor].
Qed.

Print Assumptions C06_grant_edges.
Print Assumptions C06_only_grants_use_publishers.
Print Assumptions C06_certified_by_grants_alone.
Print Assumptions C06_gap_between_windows_gets_nothing.
