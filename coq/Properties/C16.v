(* C16 — aggregation is faithful: the merged file means the union of its sources. *)
Require Import Base Extracted Imports Aggregate.
Require Import ImportsProofs AggregateProofs.
Local Open Scope N_scope.

(* per crate, the output audits are exactly the importable audits of the sources,
   in source order, each tagged with the source it came from — and nothing else *)
Theorem C16_audits_are_the_tagged_union : forall sources k,
  Forall (fun '(_, f) => keys_nodup (af_audits f)) sources ->
  assoc_get (af_audits (fst (aggregate sources))) k =
  flat_map (fun '(src, f) => map (tag src) (filter ae_importable (assoc_get (af_audits f) k))) sources.
Proof. exact aggregate_audits. Qed.
Theorem C16_wildcards_are_the_tagged_union : forall sources k,
  Forall (fun '(_, f) => keys_nodup (af_wild f)) sources ->
  assoc_get (af_wild (fst (aggregate sources))) k =
  flat_map (fun '(src, f) => map (tag src) (assoc_get (af_wild f) k)) sources.
Proof. exact aggregate_wildcards. Qed.
Theorem C16_nothing_non_importable : forall sources k e,
  Forall (fun '(_, f) => keys_nodup (af_audits f)) sources ->
  In e (assoc_get (af_audits (fst (aggregate sources))) k) -> ae_importable e = true.
Proof. exact aggregate_only_importable. Qed.
(* the tag appends the source to the entry's existing aggregated-from chain *)
Theorem C16_provenance_tag : forall src e, ae_from (tag src e) = ae_from e ++ [src] /\ ae_id (tag src e) = ae_id e.
Proof. intros. split; reflexivity. Qed.

(* merging one more definition of a criterion raises an error exactly when it differs
   from the first definition in description, description-url or (written) implies;
   errors, once raised, stay, and any error makes the aggregation fail (sagg prints
   no file when the error list is non-empty) *)
Theorem C16_definition_conflict_iff : forall src cs c,
  snd (add_criterion src (cs, []) c) = [] <->
  match find (fun o => N.eqb (ac_name o) (ac_name c)) cs with None => True | Some o => same_def o c = true end.
Proof. exact add_criterion_no_error_iff. Qed.
Theorem C16_errors_persist : forall src acc c e, In e (snd acc) -> In e (snd (add_criterion src acc c)).
Proof. exact add_criterion_errors_grow. Qed.

Example C16_nonvacuous :
  let f1 := {| af_criteria := [ {| ac_name := 0; ac_desc := Some 5; ac_url := None; ac_implies := []; ac_from := [] |} ];
               af_audits := [(0, [ {| ae_id := 1; ae_importable := true; ae_from := [] |};
                                   {| ae_id := 2; ae_importable := false; ae_from := [] |} ])]; af_wild := []; af_trusted := [] |} in
  let f2 := {| af_criteria := [ {| ac_name := 0; ac_desc := Some 6; ac_url := None; ac_implies := []; ac_from := [] |} ];
               af_audits := [(0, [ {| ae_id := 3; ae_importable := true; ae_from := [9] |} ])]; af_wild := []; af_trusted := [] |} in
  assoc_get (af_audits (fst (aggregate [(7, f1); (8, f2)]))) 0 =
    [ {| ae_id := 1; ae_importable := true; ae_from := [7] |}; {| ae_id := 3; ae_importable := true; ae_from := [9; 8] |} ] /\
  snd (aggregate [(7, f1); (8, f2)]) = [DescriptionMismatch 0].
Proof. vm_compute. auto. Qed.

Print Assumptions C16_audits_are_the_tagged_union.
Print Assumptions C16_wildcards_are_the_tagged_union.
Print Assumptions C16_nothing_non_importable.
Print Assumptions C16_definition_conflict_iff.
Print Assumptions C16_errors_persist.
