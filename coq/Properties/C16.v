(* C16 — aggregation is faithful: the merged file means the union of its sources. *)
Require Import Base Extracted Criteria Search AuditGraph DepGraph Resolve Imports Aggregate Witness.
Require Import CriteriaProofs ImportsProofs AggregateProofs ResolveProofs ResolveTheorems RecordSets EmbedProofs.
Local Open Scope N_scope.

(* per crate, the output audits are exactly the importable audits of the sources,
   in source order, each tagged with the source it came from — and nothing else *)
Theorem C16_audits_are_the_tagged_union : forall sources k,
  Forall (fun '(_, f) => keys_nodup (af_audits f)) sources ->
  assoc_get (af_audits (fst (aggregate sources))) k =
  flat_map (fun '(src, f) => map (tag src) (filter ae_importable (assoc_get (af_audits f) k))) sources.
Proof. exact aggregate_audits. Qed.
Theorem C16_wildcards_are_the_tagged_union : forall sources k,
  Forall (fun '(_, f) => keys_nodup (af_wild f)) sources ->
  assoc_get (af_wild (fst (aggregate sources))) k =
  flat_map (fun '(src, f) => map (tag src) (assoc_get (af_wild f) k)) sources.
Proof. exact aggregate_wildcards. Qed.
Theorem C16_nothing_non_importable : forall sources k e,
  Forall (fun '(_, f) => keys_nodup (af_audits f)) sources ->
  In e (assoc_get (af_audits (fst (aggregate sources))) k) -> ae_importable e = true.
Proof. exact aggregate_only_importable. Qed.
(* the tag appends the source to the entry's existing aggregated-from chain *)
Theorem C16_provenance_tag : forall src e, ae_from (tag src e) = ae_from e ++ [src] /\ ae_id (tag src e) = ae_id e.
Proof. intros. split; reflexivity. Qed.

(* merging one more definition of a criterion raises an error exactly when it differs
   from the first definition in description, description-url or (written) implies;
   errors, once raised, stay, and any error makes the aggregation fail (sagg prints
   no file when the error list is non-empty) *)
Theorem C16_definition_conflict_iff : forall src cs c,
  snd (add_criterion src (cs, []) c) = [] <->
  match find (fun o => N.eqb (ac_name o) (ac_name c)) cs with None => True | Some o => same_def o c = true end.
Proof. exact add_criterion_no_error_iff. Qed.
Theorem C16_errors_persist : forall src acc c e, In e (snd acc) -> In e (snd (add_criterion src acc c)).
Proof. exact add_criterion_errors_grow. Qed.

(* "Importing the aggregate gives the same verdict as importing every source separately":
   by the two theorems above the aggregate serves, per crate, the concatenation of what the
   sources serve; a store that has all imported entries of a crate as ONE peer list
   ([regroup_store]: what importing the aggregate yields) gets the same verdict as the store
   with one list per source — for every graph, table and store ... *)
Theorem C16_importing_the_aggregate_gives_the_same_verdict :
  forall inp s, has_errors (resolve inp (regroup_store s)) = has_errors (resolve inp s).
Proof. exact regrouping_keeps_verdict. Qed.
(* ... because the verdict depends only on the SET of records each crate has (kind + criteria of
   audits, user/window/criteria of wildcard audits, trusted entries, publisher, unpublished and
   exemption records): not on the grouping into peers, the order, duplicates, freshness marks
   or provenance tags *)
Theorem C16_verdict_depends_only_on_the_record_sets :
  forall inp s1 s2, st_criteria s2 = st_criteria s1 ->
    (forall name, same_records (store_for s1 name) (store_for s2 name)) ->
    has_errors (resolve inp s2) = has_errors (resolve inp s1).
Proof. exact verdict_same_records. Qed.
(* ... and an entry's criteria mean the same under the MERGED criteria table as under its own source's:
   when the merged table t2 defines every criterion of the source table t1 exactly as the source does
   (through the renaming rho of positions; [embeds] is the executable form, evaluated per aggregate case),
   and the configured criteria-map is the same map (keyed by name), the entry imported from the aggregate
   IS the entry imported from the source — same kind, same localised criteria list, same flags *)
Theorem C16_entry_means_the_same_in_the_aggregate : forall t1 t2 rho lt cm1 cm2 a,
  embeds t1 t2 rho = true ->
  (forall f, f < N.of_nat (ct_len t1) -> map_one lt cm2 (rho f) = map_one lt cm1 f) ->
  (forall c, In c (au_crit a) -> c < N.of_nat (ct_len t1)) ->
  import_audit lt t2 cm2 (rename_audit rho a) = import_audit lt t1 cm1 a.
Proof.
  intros t1 t2 rho lt cm1 cm2 a He Hm Hl. destruct (embeds_spec t1 t2 rho He) as [A B].
  exact (import_audit_embed t1 t2 rho A B lt cm1 cm2 Hm a Hl).
Qed.
Theorem C16_wildcard_means_the_same_in_the_aggregate : forall t1 t2 rho lt cm1 cm2 w,
  embeds t1 t2 rho = true ->
  (forall f, f < N.of_nat (ct_len t1) -> map_one lt cm2 (rho f) = map_one lt cm1 f) ->
  (forall c, In c (w_crit w) -> c < N.of_nat (ct_len t1)) ->
  import_wild lt t2 cm2 (rename_wild rho w) = import_wild lt t1 cm1 w.
Proof.
  intros t1 t2 rho lt cm1 cm2 w He Hm Hl. destruct (embeds_spec t1 t2 rho He) as [A B].
  exact (import_wild_embed t1 t2 rho A B lt cm1 cm2 Hm w Hl).
Qed.
(* ... and, stated on criterion NAMES: when the aggregation reports no error, the criteria table it writes defines
   every criterion of every source exactly as that source does (same description, description-url and implies
   list) — for every list of sources.  [embeds] above is the same fact after names have been turned into table
   positions; that step (interning) is done by the harness and is re-checked on every aggregate case of every run
   between each source's table and the table the REAL command wrote (tools/agg_embed.py). *)
Theorem C16_aggregate_defines_every_source_criterion : forall sources,
  snd (aggregate sources) = [] ->
  forall src f c, In (src, f) sources -> In c (af_criteria f) ->
    exists m, In m (af_criteria (fst (aggregate sources))) /\ ac_name m = ac_name c /\ same_def m c = true.
Proof. exact aggregate_defines_every_source_criterion. Qed.

(* the embedding hypothesis is satisfiable and not the identity: the source has one criterion (index 2)
   implying safe-to-deploy; in the merged table it sits at index 3 behind another source's criterion *)
Definition w_rho (c : N) : N := if N.eqb c 2 then 3 else c.
Example C16_embedding_nonvacuous :
  embeds [[1]] [[0]; [1]] w_rho = true /\
  from_list [[0]; [1]] (map w_rho [2]) = 11 /\ from_list [[1]] [2] = 7.
Proof. vm_compute. auto. Qed.

Example C16_verdict_nonvacuous :
  has_errors (resolve w_graph w_store_two_peers) = false /\
  has_errors (resolve w_graph (regroup_store w_store_two_peers)) = false /\
  regroup_store w_store_two_peers <> w_store_two_peers.
Proof. vm_compute. repeat split; discriminate. Qed.

Example C16_nonvacuous :
  let f1 := {| af_criteria := [ {| ac_name := 0; ac_desc := Some 5; ac_url := None; ac_implies := []; ac_from := [] |} ];
               af_audits := [(0, [ {| ae_id := 1; ae_importable := true; ae_from := [] |};
                                   {| ae_id := 2; ae_importable := false; ae_from := [] |} ])]; af_wild := []; af_trusted := [] |} in
  let f2 := {| af_criteria := [ {| ac_name := 0; ac_desc := Some 6; ac_url := None; ac_implies := []; ac_from := [] |} ];
               af_audits := [(0, [ {| ae_id := 3; ae_importable := true; ae_from := [9] |} ])]; af_wild := []; af_trusted := [] |} in
  assoc_get (af_audits (fst (aggregate [(7, f1); (8, f2)]))) 0 =
    [ {| ae_id := 1; ae_importable := true; ae_from := [7] |}; {| ae_id := 3; ae_importable := true; ae_from := [9; 8] |} ] /\
  snd (aggregate [(7, f1); (8, f2)]) = [DescriptionMismatch 0].
Proof. vm_compute. auto. Qed.

Print Assumptions C16_audits_are_the_tagged_union.
Print Assumptions C16_wildcards_are_the_tagged_union.
Print Assumptions C16_nothing_non_importable.
Print Assumptions C16_definition_conflict_iff.
Print Assumptions C16_errors_persist.
Print Assumptions C16_importing_the_aggregate_gives_the_same_verdict.
Print Assumptions C16_verdict_depends_only_on_the_record_sets.
Print Assumptions C16_entry_means_the_same_in_the_aggregate.
Print Assumptions C16_wildcard_means_the_same_in_the_aggregate.
Print Assumptions C16_aggregate_defines_every_source_criterion.
