(* C12 — exemptions are used and reported only when audits do not suffice
   (resolver half; the prune half is in Properties/C12.v's second section once
   Update.v is in place). *)
Require Import Base Extracted Criteria Search AuditGraph DepGraph Resolve Witness.
Require Import SearchProofs AuditGraphProofs ResolveProofs ResolveTheorems.
Require Import Update UpdateProofs PreserveProofs PruneProofs.
Local Open Scope N_scope.

(* reported fully audited  ==>  every required criterion has a chain of records
   that uses no exemption *)
Theorem C12_fully_only_if :
  forall inp s i, fully_vetted inp s i ->
  exists p, pkg_at inp s i p /\ pk_third_party p = true /\
    forall c, c < N.of_nat (ct_len (st_criteria s)) -> cs_has c (required_of inp s i) = true ->
      fpath_avoiding is_exemption (st_criteria s) (store_for s (pk_name p)) c None (Some (pk_version p)).
Proof. exact fully_only_if. Qed.

(* conversely, if for every required criterion some chain stays at caveat level
   <= NonImportableAudit (stored, non-fresh audits and grants: no exemption, no
   unpublished link, no not-yet-imported entry), the crate is reported fully
   audited.  Uses the minimax optimality of the heap search and the order of
   `enum CaveatLevel` read from the source. *)
Theorem C12_fully_if :
  forall inp s a b c0 i p,
    r_conclusion (resolve inp s) = Success a b c0 -> pkg_at inp s i p -> pk_third_party p = true ->
    (forall c, c < N.of_nat (ct_len (st_criteria s)) -> cs_has c (required_of inp s i) = true ->
       exists lv, reach (backward_graph (all_edges (st_criteria s) (store_for s (pk_name p)))) c PreferExemptions
                        (Some (pk_version p)) None lv /\ lv <= CV_NonImportableAudit) ->
    In i c0.
Proof. exact fully_if. Qed.

(* the optimality statement itself: the returned path has the least maximum
   caveat level among all chains, in every search mode *)
Theorem C12_search_minimax :
  forall g c m start target fuel p,
    search fuel g c m start target = ROk p ->
    exists lv, chain g c m start target p lv /\
      forall lv', reach g c m start target lv' -> lv <= lv'.
Proof.
  intros g c m start target fuel p H. pose proof (search_spec g c m start target fuel) as S.
  rewrite H in S. exact S.
Qed.

(* PRUNE: with exemption pruning on, `cargo vet prune` searches in PreferFreshImports mode (both facts
   re-read from main.rs).  Every criterion that a kept exemption still lists afterwards was recorded by a
   search for some in-graph version of that crate, for a criterion required of it, and that version has
   NO certifying chain made of audits and grants alone (local, imported or importable; no exemption, no
   unpublished link) — the exemption, and each criterion on it, stays only because it is needed. *)
Theorem C12_prune_mode : forall a c,
  um_search (mode_prune a false c) = PreferFreshImports /\ um_prune_exemptions (mode_prune a false c) = true.
Proof. intros; split; reflexivity. Qed.

Theorem C12_pruned_exemption_criteria_are_needed : forall t g reqs s name a c rm ag x' cr,
  required_entries t g reqs s name PreferFreshImports = Some rm -> build t (store_for s name) = inl ag ->
  In x' (update_exemptions t (mode_prune a false c) (Some rm) (ps_exemptions (store_for s name))) -> In cr (x_crit x') ->
  exists k p, In (k, p) (enumerate (g_pkgs g)) /\ pk_name p = name /\ pk_third_party p = true /\
    In cr (minimal_indices t (nth k reqs cs_empty)) /\
    ~ fpath_avoiding needs_more_than_audits t (store_for s name) cr None (Some (pk_version p)).
Proof.
  intros t g reqs s name a c rm ag x' cr Hre Hb Hx Hc.
  destruct (pruned_exemption_lists_only_recorded t (mode_prune a false c) rm (ps_exemptions (store_for s name)) x' cr eq_refl) as [i Hi]; [|exact Hx|exact Hc|].
  - intros i s0 c0 Hg Hc0.
    exact (required_entries_exemptions t g reqs s name PreferFreshImports rm ltac:(discriminate) Hre _ _ _ Hg Hc0).
  - eapply recorded_exemption_is_needed; eauto.
Qed.

Example C12_nonvacuous_full : fully_vetted w_graph w_store 0.
Proof. vm_compute. repeat eexists. left. reflexivity. Qed.
Example C12_nonvacuous_exempted : ~ fully_vetted w_graph w_store_exempted 0.
Proof.
  intros [a [b [c0 [H Hin]]]]. vm_compute in H. inversion H; subst. destruct Hin as [E|[]]. discriminate.
Qed.

Print Assumptions C12_fully_only_if.
Print Assumptions C12_fully_if.
Print Assumptions C12_search_minimax.
Print Assumptions C12_pruned_exemption_criteria_are_needed.
