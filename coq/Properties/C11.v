(* C11 — automatic updates never widen what the project trusts. *)
Require Import Base Extracted Criteria Search AuditGraph DepGraph Resolve Update Commands Witness UserCommands.
Require Import CriteriaProofs ResolveProofs SuggestProofs UpdateProofs NeverWidens UserCommandsProofs.
Require Import CertifyCollapse CollapseProofs.
Local Open Scope N_scope.

(* Every per-crate update that get_store_updates returns is [update_pkg] applied to
   that crate's part of the store, with the required entries computed for the
   crate's own update mode (or "nothing required" for crates outside the graph). *)
Theorem C11_updates_shape : forall inp s mode name u,
  In (name, u) (get_store_updates inp s mode) ->
  exists ps, In (name, ps) (st_pkgs s) /\
    let g := depgraph_new inp in
    let t := st_criteria s in
    let ing := name_in_graph g name in
    u = update_pkg t (mode name) ing
          (if ing then required_entries t g (resolve_requirements t g) s name (um_search (mode name)) else Some []) ps.
Proof.
  intros inp s mode name u H. unfold get_store_updates in H. apply in_map_iff in H.
  destruct H as [[n ps] [E Hin]]. inversion E; subst. exists ps. split; [exact Hin|reflexivity].
Qed.

(* local audits: only removed, never added or altered; untouched with --no-audits *)
Theorem C11_local_audits_only_removed : forall t mode ing re ps a,
  In a (pu_local (update_pkg t mode ing re ps)) -> In a (ps_local ps).
Proof. exact update_local_audits_subset. Qed.
Theorem C11_no_audits_flag : forall t mode ing re ps,
  um_prune_audits mode = false -> pu_local (update_pkg t mode ing re ps) = ps_local ps.
Proof. exact update_keeps_local_audits_when_not_pruning. Qed.

(* imports.lock: every recorded imported audit, wildcard audit, publisher and
   unpublished record is one of the live set (what peers / crates.io serve now, or,
   when locked, what was already locked), with only its freshness flag cleared *)
Theorem C11_imported_audits_from_live : forall t mode ing re ps imp a',
  In a' (nth imp (pu_imported (update_pkg t mode ing re ps)) []) ->
  exists a, In a (nth imp (ps_imported ps) []) /\ a' = clear_audit a.
Proof. exact update_imported_from_live. Qed.
Theorem C11_imported_wildcards_from_live : forall t mode ing re ps imp w',
  In w' (nth imp (pu_wild_imported (update_pkg t mode ing re ps)) []) ->
  exists w, In w (nth imp (ps_wild_imported ps) []) /\ w' = clear_wild w.
Proof. exact update_wildcards_from_live. Qed.
Theorem C11_publishers_from_live : forall t mode ing re ps p',
  In p' (pu_publishers (update_pkg t mode ing re ps)) -> exists p, In p (ps_publishers ps) /\ p' = clear_pub p.
Proof. exact update_publishers_from_live. Qed.
Theorem C11_unpublished_from_live : forall t mode ing re ps u',
  In u' (pu_unpublished (update_pkg t mode ing re ps)) -> exists u, In u (ps_unpublished ps) /\ u' = clear_unpub u.
Proof. exact update_unpublished_from_live. Qed.

(* local wildcard audits and trusted entries are not part of an update at all *)
Theorem C11_wildcards_trusted_untouched : forall ps u,
  ps_wild_local (apply_pkg_update ps u) = ps_wild_local ps /\ ps_trusted (apply_pkg_update ps u) = ps_trusted ps.
Proof. intros. split; reflexivity. Qed.

(* exemptions: outside RegenerateExemptions every written exemption is an old
   exemption of the same version and suggest flag, denoting a subset of the old
   criteria; no new exemption is synthesised *)
Theorem C11_exemptions_only_narrowed : forall t g reqs s name mode rm x',
  um_search mode <> RegenerateExemptions ->
  required_entries t g reqs s name (um_search mode) = Some rm ->
  In x' (update_exemptions t mode (Some rm) (ps_exemptions (store_for s name))) ->
  exists x, In x (ps_exemptions (store_for s name)) /\ narrower t x' x.
Proof.
  intros t g reqs s name mode rm x' Hm Hr H. eapply update_exemptions_narrowed; [|exact H].
  intros rm0 E i s0 c Hg Hc. inversion E; subst rm0.
  exact (required_entries_exemptions _ _ _ _ _ _ _ Hm Hr _ _ _ Hg Hc).
Qed.
(* a failing crate (no required-entry map) keeps its exemptions' meaning as well *)
Theorem C11_exemptions_of_failing_crate : forall t mode xs x',
  In x' (update_exemptions t mode None xs) -> exists x, In x xs /\ narrower t x' x.
Proof.
  intros t mode xs x' H. eapply update_exemptions_narrowed; [|exact H]. intros rm E. discriminate.
Qed.
(* with --no-exemptions (prune_exemptions = false) they keep exactly their meaning *)
Theorem C11_no_exemptions_flag : forall t g reqs s name mode rm,
  ct_acyclic t = true ->
  (forall x, In x (ps_exemptions (store_for s name)) -> forall c, In c (x_crit x) -> c < N.of_nat (ct_len t)) ->
  um_prune_exemptions mode = false -> um_search mode <> RegenerateExemptions ->
  required_entries t g reqs s name (um_search mode) = Some rm ->
  forall x', In x' (update_exemptions t mode (Some rm) (ps_exemptions (store_for s name))) ->
    exists x, In x (ps_exemptions (store_for s name)) /\ x_ver x' = x_ver x /\ x_suggest x' = x_suggest x /\
              from_list t (x_crit x') = from_list t (x_crit x).
Proof.
  intros t g reqs s name mode rm Hac Hb Hnp Hm Hr. apply update_exemptions_kept_when_not_pruning; auto.
  intros rm0 E i s0 c Hg Hc. inversion E; subst rm0.
  exact (required_entries_exemptions _ _ _ _ _ _ _ Hm Hr _ _ _ Hg Hc).
Qed.

(* The statement as a whole, at the level of meaning: an automatic update (any update none of whose
   searches runs in RegenerateExemptions mode) certifies NOTHING that the store the command loaded —
   the live store: what peers and crates.io serve now, or what was already locked — did not certify.
   For every crate (in the graph or not), every criterion and every version, used or not. *)
Theorem C11_updates_never_widen_what_is_certified : forall inp s mode,
  (forall name, um_search (mode name) <> RegenerateExemptions) ->
  forall name c v, certified (st_criteria s) (store_for (update_store inp s mode) name) c v ->
                   certified (st_criteria s) (store_for s name) c v.
Proof. exact update_certifies_nothing_new. Qed.
(* ... instantiated for the commands (modes re-read from main.rs by the translator) *)
Theorem C11_check_never_widens : forall locked inp s s1 name c v,
  cmd_check locked inp s = Some s1 -> certified (st_criteria s) (store_for s1 name) c v -> certified (st_criteria s) (store_for s name) c v.
Proof.
  intros locked inp s s1 name c v H. unfold cmd_check in H. destruct (has_errors (resolve inp s)); [discriminate|].
  destruct locked; inversion H; subst s1; [auto|]. apply update_certifies_nothing_new. intros n. cbn. discriminate.
Qed.
Theorem C11_prune_never_widens : forall a b c0 inp s name c v,
  certified (st_criteria s) (store_for (cmd_prune a b c0 inp s) name) c v -> certified (st_criteria s) (store_for s name) c v.
Proof. intros a b c0 inp s. apply update_certifies_nothing_new. intros n. destruct a, b, c0; cbn; discriminate. Qed.
Theorem C11_regenerate_imports_never_widens : forall inp s name c v,
  certified (st_criteria s) (store_for (cmd_regenerate_imports inp s) name) c v -> certified (st_criteria s) (store_for s name) c v.
Proof. intros inp s. apply update_certifies_nothing_new. intros n. cbn. discriminate. Qed.
Theorem C11_cleanups_never_widen : forall target inp s name c v,
  (certified (st_criteria s) (store_for (cleanup_certify target inp s) name) c v -> certified (st_criteria s) (store_for s name) c v) /\
  (certified (st_criteria s) (store_for (cleanup_trust target inp s) name) c v -> certified (st_criteria s) (store_for s name) c v) /\
  (certified (st_criteria s) (store_for (update_store inp s (fun _ => mode_import)) name) c v -> certified (st_criteria s) (store_for s name) c v).
Proof.
  intros target inp s name c v. repeat split; apply update_certifies_nothing_new; intros n; try (destruct (N.eqb n target)); cbn; discriminate.
Qed.

(* the premise is met by a real update that does change the store: prune drops the unused exemption of "a" *)
Example C11_never_widens_nonvacuous :
  ps_exemptions (store_for (cmd_prune false false false w_graph w_store) 0) = [] /\
  length (ps_exemptions (store_for w_store 0)) = 1%nat /\
  has_errors (resolve w_graph (cmd_prune false false false w_graph w_store)) = false.
Proof. vm_compute. auto. Qed.

(* What a user explicitly asks for, where cargo-vet has logic of its own — `cargo vet trust`: of the crate's trusted
   entries exactly ONE changes: either a new entry for the request is appended, or one existing entry of the same
   publisher and the same (cleaned-up) criteria whose window lay inside the requested one gets the requested
   window; every other entry stays where and what it was.  The criteria written mean exactly the request. *)
Theorem C11_trust_changes_one_entry : forall t uid s e request hn l,
  let crit := picked_criteria t request in
  let nw := {| t_user := uid; t_start := s; t_end := e; t_crit := crit |} in
  trust_add t uid s e request hn l = l ++ [nw] \/
  exists l1 old l2, l = l1 ++ old :: l2 /\ trust_add t uid s e request hn l = l1 ++ nw :: l2 /\
    t_crit old = crit /\ t_user old = uid /\ (s <= t_start old)%Z /\ (t_end old <= e)%Z.
Proof. exact trust_changes_one_entry. Qed.
Theorem C11_trusted_criteria_mean_the_request : forall t request,
  ct_acyclic t = true -> (forall c, In c request -> c < N.of_nat (ct_len t)) ->
  from_list t (picked_criteria t request) = from_list t request.
Proof. exact picked_criteria_mean_the_request. Qed.
Example C11_trust_nonvacuous :
  let strong := {| t_user := 7; t_start := 150; t_end := 200; t_crit := [1] |} in
  let same := {| t_user := 7; t_start := 150; t_end := 200; t_crit := [2] |} in
  (* asking for [custom 2; safe-to-deploy] (= [2] cleaned up): the entry with criteria [2] is widened, the other untouched *)
  trust_add [[1]] 7 100 300 [2; 1] false [strong; same] = [strong; {| t_user := 7; t_start := 100; t_end := 300; t_crit := [2] |}] /\
  (* asking for safe-to-run next to a safe-to-deploy grant: a NEW entry, the stronger one is not touched *)
  trust_add [[1]] 7 100 300 [0] false [strong] = [strong; {| t_user := 7; t_start := 100; t_end := 300; t_crit := [0] |}].
Proof. vm_compute. auto. Qed.

(* the modes the commands use (read from main.rs by the translator): only init and
   regenerate-exemptions search in RegenerateExemptions mode *)
Theorem C11_modes_that_may_add_exemptions :
  um_search mode_check_update <> RegenerateExemptions /\ um_search mode_check_advice <> RegenerateExemptions /\
  (forall a b c, um_search (mode_prune a b c) <> RegenerateExemptions) /\
  um_search mode_regenerate_imports <> RegenerateExemptions /\ um_search mode_import <> RegenerateExemptions /\
  (forall b, um_search (mode_certify b) <> RegenerateExemptions) /\ (forall b, um_search (mode_trust b) <> RegenerateExemptions) /\
  um_search mode_regenerate_unpublished <> RegenerateExemptions /\
  um_prune_exemptions mode_check_update = false /\ um_prune_audits mode_check_update = false /\
  (forall a c, um_prune_exemptions (mode_prune a true c) = false) /\
  (forall a b, um_prune_audits (mode_prune a b true) = false) /\
  um_prune_exemptions (mode_certify false) = false /\ um_prune_audits (mode_certify false) = false.
Proof.
  repeat split; try discriminate; try reflexivity; intros; cbn;
    repeat match goal with b : bool |- _ => destruct b end; cbn; try discriminate; reflexivity.
Qed.

(* `certify` folding the new delta with an adjacent prior audit (CertifyCollapse.v): every chain of records in the store
   holding the folded audit is a chain in the store holding the delta as it was asked for — folding widens nothing *)
Theorem C11_certify_fold_certifies_nothing_new : forall t ps imp_of new prior m,
  In prior (ps_local ps) -> try_collapse imp_of new prior = Some m ->
  forall c x y, fpath t (add_local_audit ps m) c x y -> fpath t (add_local_audit ps new) c x y.
Proof. exact fold_certifies_nothing_new. Qed.

Print Assumptions C11_updates_shape.
Print Assumptions C11_local_audits_only_removed.
Print Assumptions C11_imported_audits_from_live.
Print Assumptions C11_imported_wildcards_from_live.
Print Assumptions C11_publishers_from_live.
Print Assumptions C11_unpublished_from_live.
Print Assumptions C11_exemptions_only_narrowed.
Print Assumptions C11_no_exemptions_flag.
Print Assumptions C11_modes_that_may_add_exemptions.
Print Assumptions C11_updates_never_widen_what_is_certified.
Print Assumptions C11_check_never_widens.
Print Assumptions C11_prune_never_widens.
Print Assumptions C11_regenerate_imports_never_widens.
Print Assumptions C11_cleanups_never_widen.
Print Assumptions C11_trust_changes_one_entry.
Print Assumptions C11_trusted_criteria_mean_the_request.
Print Assumptions C11_certify_fold_certifies_nothing_new.
