(* C07 — imports are confined by local configuration: criteria map, exclude, importable. *)
Require Import Base Extracted Criteria Search AuditGraph DepGraph Resolve Update Imports.
Require Import CriteriaProofs ImportsProofs ResolveProofs ResolveTheorems RecordSets.
Require Import LockSync LockSyncProofs ViolationProofs.
Local Open Scope N_scope.

(* An imported entry contributes to local criterion x exactly when some criterion f
   in the closure of its criteria UNDER THE PEER'S OWN implications is mapped to x:
   by the import's criteria-map if f has an entry there (consulted first, so
   built-ins can be overridden, also by []), else to itself if f is a built-in,
   else to nothing. *)
Theorem C07_mapping : forall lt ft cm crit,
  ct_acyclic lt = true -> cmap_bounded lt cm ->
  forall x, cs_has x (from_list lt (localise lt ft cm crit)) = true <->
    exists f, f < N.of_nat (ct_len ft) /\ cs_has f (from_list ft crit) = true /\ cs_has x (map_one lt cm f) = true.
Proof. exact localise_spec. Qed.
Theorem C07_unmapped_contributes_nothing : forall lt cm f,
  (forall l, ~ In (f, l) cm) -> f <> SAFE_TO_DEPLOY_IDX -> f <> SAFE_TO_RUN_IDX -> map_one lt cm f = cs_empty.
Proof. exact unmapped_contributes_nothing. Qed.
Theorem C07_builtins_map_to_themselves : forall lt cm f,
  (forall l, ~ In (f, l) cm) -> f = SAFE_TO_DEPLOY_IDX \/ f = SAFE_TO_RUN_IDX -> map_one lt cm f = from_list lt [f].
Proof. exact builtin_maps_to_itself. Qed.
Theorem C07_map_overrides : forall lt cm f l,
  find (fun '(k, _) => N.eqb k f) cm = Some (f, l) -> map_one lt cm f = from_list lt l.
Proof. exact mapped_uses_the_map. Qed.

(* exclude: no audit, violation (they live in the same table) or wildcard audit of
   an excluded crate is imported from that source *)
Theorem C07_exclude_audits_and_violations : forall lt cm exclude pf n l,
  In (n, l) (fst (import_source lt cm exclude pf)) -> mem_N n exclude = false.
Proof. exact exclude_audits. Qed.
Theorem C07_exclude_wildcard_audits : forall lt cm exclude pf n l,
  In (n, l) (snd (import_source lt cm exclude pf)) -> mem_N n exclude = false.
Proof. intros lt cm exclude pf n l. apply exclude_wildcards. reflexivity. Qed.

(* nothing but rewritten peer entries of the same crate enters the import *)
Theorem C07_imported_entries_come_from_the_peer : forall lt cm exclude pf n l a',
  In (n, l) (fst (import_source lt cm exclude pf)) -> In a' l ->
  exists l0 a, In (n, l0) (pf_audits pf) /\ In a l0 /\ a' = import_audit lt (pf_table pf) cm a.
Proof. exact imported_entries_come_from_the_peer. Qed.

(* a multi-URL import is, per crate, the concatenation of its sources *)
Theorem C07_multi_url_is_union : forall (A : Type) (ms : list (list (N * list A))) k,
  Forall keys_nodup ms -> assoc_get (merge_tables ms) k = flat_map (fun m => assoc_get m k) ms.
Proof. exact @merge_tables_union. Qed.

(* comparing against imports.lock only flips freshness flags *)
Theorem C07_freshness_marking_keeps_entries : forall existing news,
  map (fun a => (au_kind a, au_crit a, au_importable a)) (freshen_audits existing news) =
  map (fun a => (au_kind a, au_crit a, au_importable a)) news.
Proof. exact freshen_keeps_content. Qed.

(* ... and at the level of the verdict: serving all imported entries of every crate as one merged peer list
   (what a multi-URL import does with its sources) gives the same verdict as one list per source;
   more generally an entry that is skipped (unparseable, unknown criteria) changes the verdict only through
   its own absence: the verdict is a function of the set of records that remain *)
Theorem C07_multi_url_verdict_is_that_of_the_union :
  forall inp s, has_errors (resolve inp (regroup_store s)) = has_errors (resolve inp s).
Proof. exact regrouping_keeps_verdict. Qed.
Theorem C07_verdict_is_a_function_of_the_remaining_records :
  forall inp s1 s2, st_criteria s2 = st_criteria s1 ->
    (forall name, same_records (store_for s1 name) (store_for s2 name)) ->
    has_errors (resolve inp s2) = has_errors (resolve inp s1).
Proof. exact verdict_same_records. Qed.

(* non-vacuity: peer table [x => safe-to-deploy]; local table has one custom
   criterion 2; criteria-map {x -> [2], safe-to-deploy -> []}: an entry for [x]
   means peer {x, deploy, run}; locally it denotes {2} ∪ {} ∪ {run} *)
Example C07_nonvacuous :
  localise [[]] [[1]] [(2, [2]); (1, [])] [2] = [0; 2] /\ ct_acyclic [[]] = true.
Proof. vm_compute. auto. Qed.

(* `exclude` when LOCKED (no fetch, imports.lock is used as it is): the load is accepted only if imports.lock is in step
   with config.toml (LockSync.v, model of Store::imports_lock_outdated) — the same import names on both sides and, for every
   import wherever it stands, no audit and no wildcard audit of a crate it excludes left in its section; conversely such a
   stale entry is always noticed *)
Theorem C07_accepted_lock_is_in_step : forall cfg lock, lock_outdated false cfg lock = LInSync ->
  map ic_name cfg = map ls_name lock /\
  forall c, In c cfg -> exists s, In s lock /\ ls_name s = ic_name c /\
    forall n, In n (ic_exclude c) -> ~ In n (ls_audit_crates s) /\ ~ In n (ls_wild_crates s).
Proof. exact accepted_lock_is_in_step. Qed.
Theorem C07_stale_excluded_entry_is_refused : forall cfg lock c s n,
  map ic_name cfg = map ls_name lock -> NoDup (map ls_name lock) ->
  In c cfg -> In s lock -> ls_name s = ic_name c -> In n (ic_exclude c) ->
  (In n (ls_audit_crates s) \/ In n (ls_wild_crates s)) ->
  lock_outdated false cfg lock = LOutdated.
Proof. exact stale_excluded_entry_is_refused. Qed.
Example C07_stale_exclude_nonvacuous :
  lock_outdated false [ {| ic_name := 0; ic_exclude := [] |}; {| ic_name := 1; ic_exclude := [7] |} ]
                      [ {| ls_name := 0; ls_audit_crates := [7]; ls_wild_crates := [] |}; {| ls_name := 1; ls_audit_crates := []; ls_wild_crates := [7] |} ] = LOutdated.
Proof. vm_compute. reflexivity. Qed.

(* "unmapped peer criteria contribute nothing" for VIOLATION entries: an imported violation whose criteria were all unmapped
   arrives with an empty criteria list (violations are kept whatever they say) and conflicts with no audit and no exemption *)
Theorem C07_violation_without_criteria_conflicts_with_nothing : forall t s,
  (forall src o a r, In (src, o, a) (all_audits s) -> au_kind a = KViolation r -> au_crit a = []) ->
  violation_conflicts t s = [].
Proof. exact violations_without_criteria_conflict_with_nothing. Qed.

Print Assumptions C07_mapping.
Print Assumptions C07_unmapped_contributes_nothing.
Print Assumptions C07_builtins_map_to_themselves.
Print Assumptions C07_exclude_audits_and_violations.
Print Assumptions C07_exclude_wildcard_audits.
Print Assumptions C07_imported_entries_come_from_the_peer.
Print Assumptions C07_multi_url_is_union.
Print Assumptions C07_freshness_marking_keeps_entries.
Print Assumptions C07_multi_url_verdict_is_that_of_the_union.
Print Assumptions C07_verdict_is_a_function_of_the_remaining_records.
Print Assumptions C07_accepted_lock_is_in_step.
Print Assumptions C07_stale_excluded_entry_is_refused.
Print Assumptions C07_violation_without_criteria_conflicts_with_nothing.
