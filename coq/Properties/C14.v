(* C14 — stores round-trip unchanged through a canonical format cargo-vet itself accepts. *)
Require Import Base Extracted Serde SerdePolicy.
Require Import SerdeProofs SerdePolicyProofs.
Local Open Scope N_scope.

(* cargo-vet's own layer on top of the TOML value: every entry is read back as the
   same entry — no field, flag, list element, optional field or default lost —
   for ALL entries (empty and singleton lists, absent and present optionals). *)
Theorem C14_string_or_vec_roundtrip : forall l, dec_sv (enc_sv l) = Some l.
Proof. exact sv_roundtrip. Qed.
Theorem C14_audit_entry_roundtrip : forall a, dec_audit (enc_audit a) = Some a.
Proof. exact audit_roundtrip. Qed.
Theorem C14_exemption_roundtrip : forall x, dec_exemption (enc_exemption x) = Some x.
Proof. exact exemption_roundtrip. Qed.
Theorem C14_wildcard_entry_roundtrip : forall w, dec_wildcard (enc_wildcard w) = Some w.
Proof. exact wildcard_roundtrip. Qed.
(* a policy entry: `criteria` / `dev-criteria` keep "absent" apart from "present and empty" (string_or_vec_or_none),
   `dependency-criteria` is written only when non-empty; every entry reads back as itself *)
Theorem C14_policy_entry_roundtrip : forall p, dec_policy (enc_policy p) = Some p.
Proof. exact policy_roundtrip. Qed.
Example C14_empty_policy_list_is_not_absent :
  enc_policy {| pe_audit_as := None; pe_criteria := Some []; pe_dev_criteria := None; pe_dep_criteria := []; pe_notes := None |}
  <> enc_policy {| pe_audit_as := None; pe_criteria := None; pe_dev_criteria := None; pe_dep_criteria := []; pe_notes := None |}.
Proof. exact empty_list_is_not_absent. Qed.

Theorem C14_criteria_entry_roundtrip : forall c, dec_criteria (enc_criteria c) = Some c.
Proof. exact criteria_roundtrip. Qed.

(* writing is canonical at this layer: tidy (sort every list by a total order, drop
   empty lists) is idempotent, so tidying what was just read changes nothing *)
Theorem C14_tidy_is_canonical : forall (A : Type) (leb : A -> A -> bool),
  (forall a b, leb a b = true \/ leb b a = true) ->
  (forall a b c, leb a b = true -> leb b c = true -> leb a c = true) ->
  forall m, tidy_map A leb (tidy_map A leb m) = tidy_map A leb m.
Proof. exact tidy_map_idempotent. Qed.

(* the keys of the [policy] table: `name` or `name:version`, the version written as the WHOLE VetVersion
   (semver text, then `@git:<rev>`) — a fact re-read from serialization.rs on every run.  Reading a key back
   gives the same (name, version), so two different policy entries can never collapse into one key. *)
Theorem C14_policy_key_roundtrip : forall name ver,
  no_chr COLON name = true -> (forall v, ver = Some v -> no_chr AT (vv_semver v) = true) ->
  pkey_decode (pkey_encode name ver) = Some (name, ver).
Proof. intros. apply pkey_roundtrip; [reflexivity|assumption|assumption]. Qed.
Theorem C14_policy_keys_never_collide : forall n1 v1 n2 v2,
  no_chr COLON n1 = true -> no_chr COLON n2 = true ->
  (forall v, v1 = Some v -> no_chr AT (vv_semver v) = true) -> (forall v, v2 = Some v -> no_chr AT (vv_semver v) = true) ->
  pkey_encode n1 v1 = pkey_encode n2 v2 -> n1 = n2 /\ v1 = v2.
Proof. intros. eapply pkey_injective; eauto. Qed.

(* PARTIAL: the text level — how toml_edit prints and toml parses strings (multi-line,
   quotes, control characters), the inline/wrapped layout pass and the `# name (login)`
   comment — is library code below this model; it is exercised on every run by writing,
   re-reading WITH the locked formatting self-check and re-writing generated stores full
   of nasty text, comparing values and bytes. *)

Example C14_nonvacuous :
  enc_audit {| ae_who := [7]; ae_criteria := [1; 2]; ae_kind := ADelta 3 4; ae_importable := false; ae_notes := None; ae_agg := [] |}
  = [(KWho, VStr 7); (KCriteria, VArr [1; 2]); (KDelta, VDelta 3 4); (KImportable, VBool false)].
Proof. reflexivity. Qed.

Print Assumptions C14_audit_entry_roundtrip.
Print Assumptions C14_exemption_roundtrip.
Print Assumptions C14_wildcard_entry_roundtrip.
Print Assumptions C14_criteria_entry_roundtrip.
Print Assumptions C14_policy_entry_roundtrip.
Print Assumptions C14_tidy_is_canonical.
Print Assumptions C14_policy_key_roundtrip.
Print Assumptions C14_policy_keys_never_collide.
