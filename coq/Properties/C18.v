(* C18 — concurrent invocations on one store serialise: no lost update, no torn read. *)
Require Import Base Extracted Lock.
Require Import LockProofs.

(* The model: any number of processes, each running the action list the translator reads
   from Store::acquire_offline (lock; read config, audits, imports) followed either by
   Store::commit's (write audits, config, imports; release) or by a plain release; a
   schedule is ANY list of process ids (a process that is blocked or finished stutters),
   so think times of any length between load and commit are schedules too. *)

(* mutual exclusion: while one invocation is between its lock and its release, every
   other one has either not started or has finished *)
Theorem C18_mutex : forall role sched content h q,
  holder (run role sched (init content)) = Some h -> q <> h ->
  outside role (run role sched (init content)) q.
Proof. exact mutex. Qed.

(* no torn read: the three files an invocation loaded are one and the same committed
   state (the content all previous committers left), never a partially written one *)
Theorem C18_no_torn_read : forall role sched content h,
  let s := run role sched (init content) in
  holder s = Some h -> 4 <= pos (procs s h) ->
  snap (procs s h) 0 = log s /\ snap (procs s h) 1 = log s /\ snap (procs s h) 2 = log s.
Proof. exact no_torn_read. Qed.

(* whenever no invocation is inside, the three files agree with the serial history *)
Theorem C18_quiescent_files_agree : forall role sched content f,
  let s := run role sched (init content) in
  holder s = None -> f < 3 -> files s f = log s.
Proof. exact quiescent_files_agree. Qed.

(* no lost update: the files contain the effect of every committing invocation that
   has finished, for every number of processes and every interleaving *)
Theorem C18_no_lost_update : forall role sched content p f,
  let s := run role sched (init content) in
  holder s = None -> role p = true -> pos (procs s p) = len role p -> f < 3 -> In p (files s f).
Proof. exact no_lost_update. Qed.

(* ... and nothing else (the serial history, exactly): whenever no invocation is inside, each
   file is the content found at the start followed by a duplicate-free list whose members are
   precisely the committing invocations that have finished — no reader leaves a mark, no
   commit is applied twice, no unfinished one shows, for every N, schedule and think time *)
Theorem C18_files_are_exactly_the_commits : forall role sched content f,
  let s := run role sched (init content) in
  holder s = None -> f < 3 ->
  exists l, files s f = content ++ l /\ NoDup l /\
            (forall p, In p l <-> (role p = true /\ pos (procs s p) = len role p)).
Proof. exact files_are_exactly_the_commits. Qed.

(* every read is a state of the serial history: whatever an invocation has read of a file — at any
   moment, finished or not, holder or not — is the content found at the start followed by the first
   k commits for some k (a prefix of the serial history as it stands); it never sees a mixture of
   two commits or a state no serial execution passes through, and later commits only append *)
Theorem C18_every_read_is_a_serial_state : forall role sched content q f,
  let s := run role sched (init content) in
  f < 3 -> f + 2 <= pos (procs s q) -> exists t, log s = snap (procs s q) f ++ t.
Proof. exact every_read_is_a_serial_state. Qed.

(* the facts about the code the model rests on, re-read from the source on every run:
   the store lock and the cache lock are exclusive flocks taken before any file is read,
   a contended attempt blocks, and the lock is released by dropping the FileLock; the cache's persisted files are
   written back by `Drop for Cache`, i.e. before the cache's own FileLock field is dropped *)
Theorem C18_locks_are_exclusive :
  STORE_LOCK_EXCLUSIVE = true /\ CACHE_LOCK_EXCLUSIVE = true /\ FILELOCK_DROP_UNLOCKS = true /\
  CACHE_WRITEBACK_BEFORE_UNLOCK = true.
Proof. repeat split; reflexivity. Qed.

(* the premises are met by a real run: two writers and a reader, interleaved *)
Example C18_nonvacuous :
  let role := fun p => Nat.ltb p 2 in
  let s := run role [0;1;0;2;0;0;1;0;0;0;0;1;2;1;1;1;1;1;1;1;2;2;2;2;2] (init [7]) in
  holder s = None /\ files s 0 = [7;0;1] /\ files s 2 = [7;0;1] /\ snap (procs s 2) 1 = [7;0;1].
Proof. vm_compute. repeat split. Qed.

Print Assumptions C18_mutex.
Print Assumptions C18_no_torn_read.
Print Assumptions C18_quiescent_files_agree.
Print Assumptions C18_no_lost_update.
Print Assumptions C18_files_are_exactly_the_commits.
Print Assumptions C18_every_read_is_a_serial_state.
Print Assumptions C18_locks_are_exclusive.
