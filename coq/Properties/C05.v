(* C05 — criteria mean their implication closure, nothing more, however written. *)
Require Import Base Extracted Criteria Search AuditGraph.
Require Import DepGraph Resolve.
Require Import CriteriaProofs AuditGraphProofs ResolveProofs SuggestProofs RewriteProofs RewritePolicy.
Require Import CertifyCollapse CollapseProofs.
Local Open Scope N_scope.

(* X counts for X and everything X transitively implies, and for nothing else:
   the computed closure is the LEAST set containing X and closed under the
   table's direct implications (safe-to-deploy => safe-to-run built in). *)
Theorem C05_closure_contains_self : forall t c, cs_has c (closure t c) = true.
Proof. exact closure_refl. Qed.
Theorem C05_closure_transitive : forall t a b x,
  cs_has b (closure t a) = true -> cs_has x (closure t b) = true -> cs_has x (closure t a) = true.
Proof. exact closure_trans. Qed.
Theorem C05_closure_is_least : forall t c (s : cset),
  cs_has c s = true -> (forall a b, cs_has a s = true -> step t a b -> cs_has b s = true) ->
  forall x, cs_has x (closure t c) = true -> cs_has x s = true.
Proof. exact closure_least. Qed.
Theorem C05_exact_meaning : forall t c x, cs_has x (closure t c) = true <-> x = c \/ reachp t c x.
Proof. exact closure_spec. Qed.
Theorem C05_deploy_implies_run : forall t, cs_has SAFE_TO_RUN_IDX (closure t SAFE_TO_DEPLOY_IDX) = true.
Proof. exact deploy_implies_run. Qed.

(* a written list denotes the union of the closures of its members; hence it is
   invariant under reordering and duplication ... *)
Theorem C05_list_meaning : forall t l x,
  cs_has x (from_list t l) = true <-> exists c, In c l /\ cs_has x (closure t c) = true.
Proof. exact from_list_spec. Qed.
Theorem C05_reorder_duplicate : forall t l l', (forall c, In c l <-> In c l') -> from_list t l = from_list t l'.
Proof. exact from_list_ext. Qed.
(* ... under replacement by (any enumeration of) its implication closure ... *)
Theorem C05_replace_by_closure : forall t l l',
  (forall c, In c l' <-> cs_has c (from_list t l) = true) -> from_list t l' = from_list t l.
Proof. exact from_list_of_closure. Qed.
(* ... and under replacement by its minimal generating set; this is also why
   every list cargo-vet writes or prints (criteria_names of a computed closed
   set) denotes exactly the set it computed. *)
Theorem C05_replace_by_minimal : forall t, ct_acyclic t = true -> forall l,
  (forall c, In c l -> c < N.of_nat (ct_len t)) ->
  from_list t (minimal_indices t (from_list t l)) = from_list t l.
Proof.
  intros t Ha l Hl. apply minimal_generates.
  - apply ct_acyclic_spec. exact Ha.
  - apply from_list_bounded. exact Hl.
  - apply from_list_is_closed.
Qed.
Theorem C05_minimal_has_no_implied_duplicates : forall t s a b,
  In a (minimal_indices t s) -> In b (minimal_indices t s) -> cs_has a (closure t b) = true -> a = b.
Proof. exact minimal_irredundant. Qed.

(* the audit graph reads criteria lists of audits, exemptions and grants only
   through [from_list]: an edge's criteria set is the closure of the written list *)
Theorem C05_edges_use_closure : forall t s e, In e (all_edges t s) ->
  (exists l, fe_crit e = from_list t l) \/ fe_crit e = all_criteria t.
Proof. exact edge_crit_form. Qed.

(* VERDICT LEVEL: rewrite every criteria list of every audit, wildcard audit, trusted entry and
   exemption in the store (violation entries keep theirs) to ANY list with the same meaning, and the
   resolver's whole report — verdict, failure sets, classification, chosen paths — is identical,
   for every graph and store. *)
Theorem C05_verdict_invariant_under_rewriting : forall t (rw : list N -> list N) inp s,
  (forall l, from_list t (rw l) = from_list t l) -> st_criteria s = t ->
  resolve inp (rw_store rw s) = resolve inp s.
Proof. intros t rw inp s H Ht. exact (resolve_rw t rw H inp s Ht). Qed.

(* ... and the same for the POLICY table: rewrite every `criteria`, `dev-criteria` and `dependency-criteria`
   list of every policy entry to any list with the same meaning — the requirement vector, every
   per-package outcome and the conclusion are identical (the graph only differs in the lists it carries) *)
Theorem C05_verdict_invariant_under_policy_rewriting : forall t (rw : list N -> list N) inp s,
  (forall l, from_list t (rw l) = from_list t l) -> st_criteria s = t ->
  r_requirements (resolve (rw_inp rw inp) s) = r_requirements (resolve inp s) /\
  r_outcomes (resolve (rw_inp rw inp) s) = r_outcomes (resolve inp s) /\
  r_conclusion (resolve (rw_inp rw inp) s) = r_conclusion (resolve inp s).
Proof. intros t rw inp s H Ht. destruct (resolve_rw_policy t rw H inp s Ht) as [A [B [C _]]]. auto. Qed.
(* both at once: the store's lists and the policy's lists rewritten by (possibly different) meaning-preserving maps *)
Theorem C05_verdict_invariant_store_and_policy : forall t (rw1 rw2 : list N -> list N) inp s,
  (forall l, from_list t (rw1 l) = from_list t l) -> (forall l, from_list t (rw2 l) = from_list t l) -> st_criteria s = t ->
  r_conclusion (resolve (rw_inp rw2 inp) (rw_store rw1 s)) = r_conclusion (resolve inp s).
Proof.
  intros t rw1 rw2 inp s H1 H2 Ht.
  destruct (resolve_rw_policy t rw2 H2 inp (rw_store rw1 s) Ht) as [_ [_ [C _]]]. rewrite C.
  rewrite (resolve_rw t rw1 H1 inp s Ht). reflexivity.
Qed.

(* the three rewritings the property names *)
Definition in_table (t : ctable) (l : list N) : bool := forallb (fun c => N.ltb c (N.of_nat (ct_len t))) l.
Definition rw_reorder_duplicate (l : list N) : list N := rev l ++ l.
Definition rw_closure (t : ctable) (l : list N) : list N :=
  if in_table t l then cs_indices (ct_len t) (from_list t l) else l.
Definition rw_minimal (t : ctable) (l : list N) : list N :=
  if in_table t l then minimal_indices t (from_list t l) else l.

Theorem C05_verdict_invariant_reorder_duplicate : forall inp s,
  resolve inp (rw_store rw_reorder_duplicate s) = resolve inp s.
Proof.
  intros inp s. apply (C05_verdict_invariant_under_rewriting (st_criteria s)); [|reflexivity].
  intros l. apply from_list_ext. intros c. unfold rw_reorder_duplicate. rewrite in_app_iff, <- in_rev. tauto.
Qed.
Theorem C05_verdict_invariant_closure : forall inp s,
  resolve inp (rw_store (rw_closure (st_criteria s)) s) = resolve inp s.
Proof.
  intros inp s. apply (C05_verdict_invariant_under_rewriting (st_criteria s)); [|reflexivity].
  intros l. unfold rw_closure. destruct (in_table (st_criteria s) l) eqn:E; [|reflexivity].
  apply from_list_of_closure. intros c. rewrite in_cs_indices. split; [tauto|]. intros H. split; [|exact H].
  apply (from_list_bounded (st_criteria s) l); [|exact H].
  intros c0 Hc0. unfold in_table in E. rewrite forallb_forall in E. apply N.ltb_lt. apply E. exact Hc0.
Qed.
Theorem C05_verdict_invariant_minimal : forall inp s, ct_acyclic (st_criteria s) = true ->
  resolve inp (rw_store (rw_minimal (st_criteria s)) s) = resolve inp s.
Proof.
  intros inp s Ha. apply (C05_verdict_invariant_under_rewriting (st_criteria s)); [|reflexivity].
  intros l. unfold rw_minimal. destruct (in_table (st_criteria s) l) eqn:E; [|reflexivity].
  apply C05_replace_by_minimal; [exact Ha|].
  intros c0 Hc0. unfold in_table in E. rewrite forallb_forall in E. apply N.ltb_lt. apply E. exact Hc0.
Qed.

(* non-vacuity: in the table [crit2 => safe-to-deploy], [2] means {0,1,2}, and
   [2;1;0;2] (its closure, reordered, duplicated) means the same; its minimal
   generating set is [2] *)
Example C05_nonvacuous :
  from_list [[1]] [2] = 7 /\ from_list [[1]] [2; 1; 0; 2] = 7 /\ minimal_indices [[1]] 7 = [2] /\
  ct_acyclic [[1]] = true.
Proof. vm_compute. auto. Qed.

(* "every criteria list cargo-vet writes denotes the set it computed", for the one command that WRITES an audit on the
   user's behalf: whatever `certify` records for a delta — the delta as asked for, or (git-revision start, collapsing not
   switched off) its fold with the first adjacent non-importable audit that is rooted and carries the same criteria list —
   certifies exactly what the delta the user asked for certifies, for every criterion and version, and the list written
   is the list asked for.  (Model: CertifyCollapse.v, compared with the audit the real command wrote in every certify
   step of the histories.) *)
Theorem C05_certify_records_what_was_asked : forall imp_of t ps from_is_git no_collapse new c v,
  ct_acyclic t = true -> (forall x, In x (au_crit new) -> x < N.of_nat (ct_len t)) ->
  (certified t (add_local_audit ps (certified_entry imp_of t ps from_is_git no_collapse new)) c v
   <-> certified t (add_local_audit ps new) c v).
Proof. exact certify_records_what_was_asked. Qed.
Theorem C05_certify_writes_the_requested_criteria : forall imp_of t ps from_is_git no_collapse new,
  au_crit (certified_entry imp_of t ps from_is_git no_collapse new) = au_crit new.
Proof. exact certify_writes_the_requested_criteria. Qed.
(* why the two lists must be EQUAL: were the prior audit only required to be recorded for a SUBSET of the certified
   criteria, a delta recorded for safe-to-run would come to count for safe-to-deploy *)
Theorem C05_folding_with_a_weaker_record_refuted :
  exists m, try_collapse_superset cw_table (fun _ => false) cw_new cw_prior = Some m /\
            certified cw_table (add_local_audit cw_ps m) 1 2 /\ ~ certified cw_table (add_local_audit cw_ps cw_new) 1 2.
Proof. exact superset_fold_certifies_something_new. Qed.
(* non-vacuity: the code's own test folds two deltas carrying the same list, and refuses the witness above *)
Example C05_fold_nonvacuous :
  try_collapse (fun _ => false) cw_new {| au_kind := KDelta 0 1; au_crit := [1]; au_importable := false; au_fresh := false |} =
    Some {| au_kind := KDelta 0 2; au_crit := [1]; au_importable := false; au_fresh := false |} /\
  try_collapse (fun _ => false) cw_new cw_prior = None.
Proof. vm_compute. auto. Qed.

Print Assumptions C05_verdict_invariant_under_policy_rewriting.
Print Assumptions C05_verdict_invariant_store_and_policy.
Print Assumptions C05_closure_is_least.
Print Assumptions C05_exact_meaning.
Print Assumptions C05_reorder_duplicate.
Print Assumptions C05_replace_by_closure.
Print Assumptions C05_replace_by_minimal.
Print Assumptions C05_minimal_has_no_implied_duplicates.
Print Assumptions C05_edges_use_closure.
Print Assumptions C05_verdict_invariant_under_rewriting.
Print Assumptions C05_verdict_invariant_reorder_duplicate.
Print Assumptions C05_verdict_invariant_closure.
Print Assumptions C05_verdict_invariant_minimal.
Print Assumptions C05_certify_records_what_was_asked.
Print Assumptions C05_certify_writes_the_requested_criteria.
Print Assumptions C05_folding_with_a_weaker_record_refuted.
