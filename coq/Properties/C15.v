(* C15 — malformed stores and peer files are refused or skipped, never crash or pass. *)
Require Import Base Extracted Criteria Validate.
Require Import ValidateProofs.
Require Import Imports LockSync ValidateLock LockSyncProofs.
Local Open Scope N_scope.

(* a reference to an undefined criterion at any site validate checks is refused ... *)
Theorem C15_undefined_reference_refused : forall locked n r s l c,
  In (s, l) r -> validate_checks locked s = true -> In c l -> N.of_nat n <= c ->
  validate_criteria locked n r = false.
Proof. exact undefined_reference_refused. Qed.
(* ... and validate checks every site whose names are later indexed into the
   criteria mapper (the list of checked sites is re-read from Store::validate on
   every run; criteria-map values matter only when importing, imports.lock entries
   only when they are used as-is, i.e. locked) *)
Theorem C15_every_indexed_site_is_checked : forall locked s, site_used locked s = true -> validate_checks locked s = true.
Proof. exact used_sites_are_checked. Qed.
Theorem C15_validated_store_does_not_index_unknown : forall locked n r,
  validate_criteria locked n r = true -> index_panics locked n r = false.
Proof. exact validated_store_does_not_index_unknown. Qed.

(* C15_no_crash: for every store and every set of peer files, loading + going online + resolving never
   crashes.  Store::validate checks the criteria table itself (built-in redefined, implication cycle, more
   than 64 criteria) and fetch_single_imported_audit checks a peer's table before building a mapper from it —
   both facts re-read from the source on every run; those tables used to panic in CriteriaMapper::new
   (findings F-C15-table-* and F-C15-peer-table-*, repaired by a `fix:` commit) *)
Theorem C15_no_crash : forall locked shadows t max_end ends r ps,
  load_outcome locked shadows t max_end ends r ps <> Panics.
Proof. intros. apply no_crash; reflexivity. Qed.

(* the former crash witnesses are refused now *)
Theorem C15_self_implication_refused : load_outcome false false [[2]] 0%Z [] [(SImplies, [2])] [] = Refused.
Proof. vm_compute. reflexivity. Qed.
Theorem C15_cycle_refused : load_outcome false false [[3]; [2]] 0%Z [] [(SImplies, [3]); (SImplies, [2])] [] = Refused.
Proof. vm_compute. reflexivity. Qed.
Theorem C15_builtin_redefined_refused : load_outcome false true [[]] 0%Z [] [] [] = Refused.
Proof. vm_compute. reflexivity. Qed.
Theorem C15_too_many_criteria_refused : load_outcome false false (repeat [] 63) 0%Z [] [] [] = Refused.
Proof. vm_compute. reflexivity. Qed.
Theorem C15_peer_cycle_refused : load_outcome false false [] 0%Z [] [] [(false, [[3]; [2]])] = Refused.
Proof. vm_compute. reflexivity. Qed.

(* a project's own wildcard audits ending after the cap are refused at load (C06) *)
Theorem C15_wildcard_end_cap : forall locked shadows t max_end ends r ps e,
  load_outcome locked shadows t max_end ends r ps <> Refused -> In e ends -> (e <= max_end)%Z.
Proof. exact wildcard_end_cap. Qed.

(* the same with the lock-freshness test of a locked load included (LockSync.v, model of Store::imports_lock_outdated: it
   looks the section of every configured import up by name and unwraps): the test compares the import NAMES of config.toml
   and imports.lock first — a fact re-read from the source on every run — so the lookup cannot fail, and the load as a whole
   still never crashes *)
Theorem C15_no_crash_with_lock_test : forall locked shadows t max_end ends r ps cfg lock,
  load_outcome_lock locked shadows t max_end ends r ps cfg lock <> Panics.
Proof. exact load_never_crashes. Qed.
Theorem C15_lock_test_never_panics : forall live cfg lock, lock_outdated live cfg lock <> LPanic.
Proof. exact lock_outdated_never_panics. Qed.
(* non-vacuity: a renamed import (as many sections as imports, other names) is refused, not looked up *)
Example C15_renamed_import_refused :
  lock_outdated false [ {| ic_name := 0; ic_exclude := [] |} ] [ {| ls_name := 1; ls_audit_crates := [5]; ls_wild_crates := [] |} ] = LOutdated /\
  lock_outdated false [ {| ic_name := 0; ic_exclude := [4] |} ] [ {| ls_name := 0; ls_audit_crates := [5]; ls_wild_crates := [] |} ] = LInSync.
Proof. vm_compute. auto. Qed.

Example C15_nonvacuous :
  load_outcome true false [[1]] 100%Z [50%Z] [(SAudit, [2; 0]); (SLockAudit, [1])] [] = Proceeds /\
  load_outcome true false [[1]] 100%Z [50%Z] [(SAudit, [2; 0]); (SLockAudit, [7])] [] = Refused /\
  load_outcome false false [[1]] 100%Z [101%Z] [] [] = Refused.
Proof. vm_compute. auto. Qed.

Print Assumptions C15_undefined_reference_refused.
Print Assumptions C15_every_indexed_site_is_checked.
Print Assumptions C15_validated_store_does_not_index_unknown.
Print Assumptions C15_no_crash.
Print Assumptions C15_self_implication_refused.
Print Assumptions C15_too_many_criteria_refused.
Print Assumptions C15_wildcard_end_cap.
Print Assumptions C15_no_crash_with_lock_test.
Print Assumptions C15_lock_test_never_panics.
