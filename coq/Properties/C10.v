(* C10 — store-rewriting commands never break a passing store; init/regenerate
   exemptions make one. *)
Require Import Base Extracted Criteria Search AuditGraph DepGraph Resolve Update Commands.
Require Import SearchProofs ResolveProofs ResolveTheorems UpdateProofs UpdateKeep EndToEnd SuggestProofs SuggestHeal CertifyProofs TrustProofs ImportCmdProofs UserCommands Witness.
Require Import CertifyCollapse.
Local Open Scope N_scope.

(* In RegenerateExemptions mode (init, regenerate exemptions) the search for a
   certification path cannot fail: from every version the synthetic fresh
   exemption leads to the root.  (`RFuel` is the model's explicit out-of-fuel
   value; it is never observed on correspondence cases.) *)
Theorem C10_regenerate_search_never_fails : forall g c v fuel vis,
  search fuel g c RegenerateExemptions (Some v) None <> RErr vis.
Proof. exact regenerate_search_total. Qed.
Theorem C10_init_and_regenerate_use_that_mode :
  um_search mode_init = RegenerateExemptions /\ um_search mode_regenerate_exemptions = RegenerateExemptions.
Proof. split; reflexivity. Qed.

(* pruning keeps every entry on a chosen path, per category and for every flag
   combination of `prune` *)
Theorem C10_prune_keeps_required_entries : forall t a b c ing rm ps,
  let u := update_pkg t (mode_prune a b c) ing (Some rm) ps in
  (forall i x, nth_error (ps_local ps) (N.to_nat i) = Some x -> rmap_has rm (RLocalAudit i) = true -> In x (pu_local u)) /\
  (forall imp i x, nth_audit (ps_imported ps) imp i = Some x -> is_violation x = false -> rmap_has rm (RAudit imp i) = true ->
      In (clear_audit x) (nth (N.to_nat imp) (pu_imported u) [])) /\
  (forall imp i w, nth_wild (ps_wild_imported ps) imp i = Some w -> rmap_has rm (RWildcard imp i) = true ->
      In (clear_wild w) (nth (N.to_nat imp) (pu_wild_imported u) [])) /\
  (forall i p, nth_error (ps_publishers ps) (N.to_nat i) = Some p -> rmap_has rm (RPublisher i) = true ->
      In (clear_pub p) (pu_publishers u)).
Proof.
  intros. repeat split; intros; [eapply kept_local|eapply kept_imported|eapply kept_wildcard|eapply kept_publisher]; eauto.
Qed.

(* a crate whose search failed (no required-entry map) loses none of its stored
   (non-fresh) imports, so a failing crate is never made worse *)
Theorem C10_failing_crate_keeps_stored_imports : forall t mode ing ps imp i a,
  nth_audit (ps_imported ps) imp i = Some a -> au_fresh a = false -> is_violation a = false ->
  In (clear_audit a) (nth (N.to_nat imp) (pu_imported (update_pkg t mode ing None ps)) []).
Proof.
  intros t mode ing ps imp i a. unfold nth_audit.
  destruct (nth_error (ps_imported ps) (N.to_nat imp)) as [l|] eqn:El; [|discriminate].
  intros Hn Hf Hv. unfold update_pkg. cbn [pu_imported].
  rewrite (nth_map_enumerate _ _ _ _ []) by (apply nth_error_Some; congruence).
  rewrite (nth_error_nth _ _ _ El). apply in_map. eapply in_map_snd_filter_intro; [exact Hn|].
  cbn. rewrite Hf, Hv. destruct (negb _ && _); reflexivity.
Qed.

(* ---- the end-to-end statements ----
   [store_ok inp s]: what a loaded store value satisfies — acyclic criteria table, exemption
   criteria defined (Store::validate, C15), an entry per crate name of the graph; its executable
   form [store_okb] is evaluated on every store the real commands load in the correspondence run.
   [vets inp s]: the conclusion of [resolve inp s] is Success. *)

(* a store that vets still vets after prune (all 8 flag combinations), regenerate imports, and the
   clean-up updates that follow certify, trust and import: every edge of every chosen certifying
   path has a counterpart in the written store, and no violation conflict appears *)
Theorem C10_prune_preserves : forall inp s a b c, store_ok inp s -> vets inp s -> vets inp (cmd_prune a b c inp s).
Proof. exact prune_preserves. Qed.
Theorem C10_regenerate_imports_preserves : forall inp s, store_ok inp s -> vets inp s -> vets inp (cmd_regenerate_imports inp s).
Proof. exact regenerate_imports_preserves. Qed.
Theorem C10_certify_cleanup_preserves : forall inp s target, store_ok inp s -> vets inp s -> vets inp (cleanup_certify target inp s).
Proof. exact certify_cleanup_preserves. Qed.
Theorem C10_trust_cleanup_preserves : forall inp s target, store_ok inp s -> vets inp s -> vets inp (cleanup_trust target inp s).
Proof. exact trust_cleanup_preserves. Qed.
Theorem C10_import_cleanup_preserves : forall inp s, store_ok inp s -> vets inp s -> vets inp (update_store inp s (fun _ => mode_import)).
Proof. exact import_cleanup_preserves. Qed.
(* in general: ANY update whose searches are not in RegenerateExemptions mode *)
(* `certify` as a whole — the audit the user asked for is added to the target crate, then the targeted clean-up
   runs: a passing store stays passing unless the new audit itself collides with a violation entry *)
Theorem C10_certify_preserves_vetting : forall inp s target a,
  store_ok inp s -> (forall c, In c (au_crit a) -> c < N.of_nat (ct_len (st_criteria s))) ->
  vets inp s ->
  (forall i p, pkg_at inp s i p -> pk_third_party p = true ->
     violation_conflicts (st_criteria s) (store_for (add_audit_store s target a) (pk_name p)) = []) ->
  vets inp (cmd_certify target a inp s).
Proof. exact certify_preserves_vetting. Qed.
(* ... whichever entry certify records: the delta as asked for, or folded with an adjacent prior audit (CertifyCollapse.v) *)
Theorem C10_certify_with_fold_preserves_vetting : forall inp s target imp_of from_is_git no_collapse new,
  let e := certified_entry imp_of (st_criteria s) (store_for s target) from_is_git no_collapse new in
  store_ok inp s -> (forall c, In c (au_crit new) -> c < N.of_nat (ct_len (st_criteria s))) ->
  vets inp s ->
  (forall i p, pkg_at inp s i p -> pk_third_party p = true ->
     violation_conflicts (st_criteria s) (store_for (add_audit_store s target e) (pk_name p)) = []) ->
  vets inp (cmd_certify target e inp s).
Proof. exact certify_fold_preserves_vetting. Qed.
Example C10_certify_nonvacuous :
  let a := new_audit (Some 0) 2 [1] in
  has_errors (resolve w_graph w_store) = false /\
  has_errors (resolve w_graph (cmd_certify 0 a w_graph w_store)) = false /\
  length (ps_local (store_for (cmd_certify 0 a w_graph w_store) 0)) = 3%nat.
Proof. vm_compute. auto. Qed.

(* `trust` as a whole — the trusted entry the user asked for is appended (or an existing entry of the same publisher
   and criteria is widened), then the targeted clean-up runs: a passing store stays passing (a trusted entry
   cannot collide with a violation entry, and widening a window keeps every grant) *)
Theorem C10_trust_preserves_vetting : forall inp s target uid st en request hn,
  store_ok inp s -> vets inp s -> vets inp (cmd_trust target uid st en request hn inp s).
Proof. exact trust_preserves_vetting. Qed.
Example C10_trust_nonvacuous :
  has_errors (resolve w_graph (cmd_trust 1 7 100 300 [0] false w_graph w_store)) = false /\
  length (ps_trusted (store_for (cmd_trust 1 7 100 300 [0] false w_graph w_store) 1)) = 1%nat.
Proof. vm_compute. auto. Qed.

(* `import` as a whole — the new peer's (localised) entries become one more imported list of every crate, then the
   import clean-up runs: a passing store stays passing unless the peer's entries bring or meet a violation *)
Theorem C10_import_preserves_vetting : forall inp s pa pw,
  store_ok inp s -> vets inp s ->
  (forall i p, pkg_at inp s i p -> pk_third_party p = true ->
     violation_conflicts (st_criteria s) (store_for (add_peer s pa pw) (pk_name p)) = []) ->
  vets inp (cmd_import pa pw inp s).
Proof. exact import_preserves_vetting. Qed.

Theorem C10_update_preserves_vetting : forall inp s mode,
  store_ok inp s -> (forall name, um_search (mode name) <> RegenerateExemptions) ->
  vets inp s -> vets inp (update_store inp s mode).
Proof. exact update_preserves_vetting. Qed.

(* init / regenerate exemptions: whatever the store held, afterwards every required criterion of
   every third-party crate whose audit graph has no violation conflict has a certifying chain
   (so the only way the result can fail to vet is a violation conflict) *)
Theorem C10_init_and_regenerate_certify : forall inp s i p ag,
  store_ok inp s ->
  nth_error (g_pkgs (depgraph_new inp)) i = Some p -> pk_third_party p = true ->
  build (st_criteria s) (store_for s (pk_name p)) = inl ag ->
  forall c, c < N.of_nat (ct_len (st_criteria s)) ->
    cs_has c (nth i (resolve_requirements (st_criteria s) (depgraph_new inp)) cs_empty) = true ->
  certified (st_criteria s) (store_for (cmd_regenerate_exemptions inp s) (pk_name p)) c (pk_version p) /\
  certified (st_criteria s) (store_for (cmd_init inp s) (pk_name p)) c (pk_version p).
Proof. exact regenerate_exemptions_certifies. Qed.

Print Assumptions C10_regenerate_search_never_fails.
Print Assumptions C10_prune_keeps_required_entries.
Print Assumptions C10_failing_crate_keeps_stored_imports.
Print Assumptions C10_prune_preserves.
Print Assumptions C10_regenerate_imports_preserves.
Print Assumptions C10_certify_cleanup_preserves.
Print Assumptions C10_trust_cleanup_preserves.
Print Assumptions C10_import_cleanup_preserves.
Print Assumptions C10_update_preserves_vetting.
Print Assumptions C10_certify_preserves_vetting.
Print Assumptions C10_trust_preserves_vetting.
Print Assumptions C10_import_preserves_vetting.
Print Assumptions C10_init_and_regenerate_certify.
Print Assumptions C10_certify_with_fold_preserves_vetting.
