(* C10 — store-rewriting commands never break a passing store; init/regenerate
   exemptions make one. *)
Require Import Base Extracted Criteria Search AuditGraph DepGraph Resolve Update Commands.
Require Import SearchProofs UpdateProofs UpdateKeep.
Local Open Scope N_scope.

(* In RegenerateExemptions mode (init, regenerate exemptions) the search for a
   certification path cannot fail: from every version the synthetic fresh
   exemption leads to the root.  (`RFuel` is the model's explicit out-of-fuel
   value; it is never observed on correspondence cases.) *)
Theorem C10_regenerate_search_never_fails : forall g c v fuel vis,
  search fuel g c RegenerateExemptions (Some v) None <> RErr vis.
Proof. exact regenerate_search_total. Qed.
Theorem C10_init_and_regenerate_use_that_mode :
  um_search mode_init = RegenerateExemptions /\ um_search mode_regenerate_exemptions = RegenerateExemptions.
Proof. split; reflexivity. Qed.

(* pruning keeps every entry on a chosen path, per category and for every flag
   combination of `prune` *)
Theorem C10_prune_keeps_required_entries : forall t a b c ing rm ps,
  let u := update_pkg t (mode_prune a b c) ing (Some rm) ps in
  (forall i x, nth_error (ps_local ps) (N.to_nat i) = Some x -> rmap_has rm (RLocalAudit i) = true -> In x (pu_local u)) /\
  (forall imp i x, nth_audit (ps_imported ps) imp i = Some x -> is_violation x = false -> rmap_has rm (RAudit imp i) = true ->
      In (clear_audit x) (nth (N.to_nat imp) (pu_imported u) [])) /\
  (forall imp i w, nth_wild (ps_wild_imported ps) imp i = Some w -> rmap_has rm (RWildcard imp i) = true ->
      In (clear_wild w) (nth (N.to_nat imp) (pu_wild_imported u) [])) /\
  (forall i p, nth_error (ps_publishers ps) (N.to_nat i) = Some p -> rmap_has rm (RPublisher i) = true ->
      In (clear_pub p) (pu_publishers u)).
Proof.
  intros. repeat split; intros; [eapply kept_local|eapply kept_imported|eapply kept_wildcard|eapply kept_publisher]; eauto.
Qed.

(* a crate whose search failed (no required-entry map) loses none of its stored
   (non-fresh) imports, so a failing crate is never made worse *)
Theorem C10_failing_crate_keeps_stored_imports : forall t mode ing ps imp i a,
  nth_audit (ps_imported ps) imp i = Some a -> au_fresh a = false -> is_violation a = false ->
  In (clear_audit a) (nth (N.to_nat imp) (pu_imported (update_pkg t mode ing None ps)) []).
Proof.
  intros t mode ing ps imp i a. unfold nth_audit.
  destruct (nth_error (ps_imported ps) (N.to_nat imp)) as [l|] eqn:El; [|discriminate].
  intros Hn Hf Hv. unfold update_pkg. cbn [pu_imported].
  rewrite (nth_map_enumerate _ _ _ _ []) by (apply nth_error_Some; congruence).
  rewrite (nth_error_nth _ _ _ El). apply in_map. eapply in_map_snd_filter_intro; [exact Hn|].
  cbn. rewrite Hf, Hv. destruct (negb _ && _); reflexivity.
Qed.

(* NOT YET PROVED in this revision (kept visible): vets inp s -> vets inp (k inp s)
   for k in {cmd_prune, cmd_regenerate_imports, check's update, clean-ups}, and
   conclusion (k inp s) is never FailForVet for k in {cmd_init, cmd_regenerate_exemptions}.
   Exercised on every history of the correspondence run with the real commands. *)

Print Assumptions C10_regenerate_search_never_fails.
Print Assumptions C10_prune_keeps_required_entries.
Print Assumptions C10_failing_crate_keeps_stored_imports.
