(* C08 — no crates.io code escapes vetting by arriving as a path, git or patched crate. *)
Require Import Base Extracted Criteria Search AuditGraph DepGraph Resolve Update Imports AuditAs.
Require Import ResolveProofs ResolveTheorems AuditAsProofs.
Local Open Scope N_scope.

(* every crates.io package is third party, whatever the policy says *)
Theorem C08_crates_io_always_vetted : forall p, ap_crates_io p = true -> is_third_party p = true.
Proof. exact crates_io_always_third_party. Qed.

(* an unlocked run that gets past its pre-checks: every path/git package that
   crates.io seems to know has an explicit choice, nobody claims audit-as-crates-io
   for something crates.io does not know ... *)
Theorem C08_unlocked_run_demands_a_choice : forall pkgs pols,
  unlocked_prechecks_ok pkgs pols = true ->
  forall p, In p pkgs -> ap_crates_io p = false ->
    (ap_registry_match p = true -> ap_audit_as p <> None) /\
    (ap_audit_as p = Some true -> ap_registry_match p = true).
Proof. exact prechecks_spec. Qed.
(* ... so a package is exempt only while crates.io has no matching crate or the
   policy explicitly says audit-as-crates-io = false ... *)
Theorem C08_exempt_only_if : forall pkgs pols p,
  unlocked_prechecks_ok pkgs pols = true -> In p pkgs -> is_third_party p = false ->
  ap_crates_io p = false /\ (ap_registry_match p = false \/ ap_audit_as p = Some false).
Proof. exact exempt_only_if. Qed.
(* ... and every entry matches a package of the graph *)
Theorem C08_entries_match_packages : forall pkgs pols po,
  unlocked_prechecks_ok pkgs pols = true -> In po pols ->
  (exists p, In p pkgs /\ ap_name p = po_name po /\ (forall v, po_version po = Some v -> ap_version p = v)) /\
  (po_audit_as po <> None ->
     exists p, In p pkgs /\ ap_crates_io p = false /\ ap_name p = po_name po /\
               (forall v, po_version po = Some v -> ap_version p = v)).
Proof. exact entries_match_packages. Qed.

(* a package audited as crates.io is held to the chain rule for its EXACT version
   (versions are ranks of distinct VetVersions: a git revision of x.y.z is a
   different rank than x.y.z): this is C01 at the node's own pk_version *)
Theorem C08_exact_version_chain : forall inp s a b c0,
  r_conclusion (resolve inp s) = Success a b c0 ->
  forall i p, pkg_at inp s i p -> pk_third_party p = true ->
  forall c, c < N.of_nat (ct_len (st_criteria s)) -> cs_has c (required_of inp s i) = true ->
    certified (st_criteria s) (store_for s (pk_name p)) c (pk_version p).
Proof. exact success_sound. Qed.

(* a version not yet published is audited as the nearest earlier published version,
   else the next later one *)
Theorem C08_unpublished_choice : forall v published a,
  audited_as v published = Some a -> In a published /\
  ((a <= v /\ forall b, In b published -> b <= v -> b <= a) \/
   (v < a /\ forall b, In b published -> ~ b <= v)).
Proof. exact audited_as_prefers_nearest_earlier. Qed.
(* and the choice, once recorded, persists whatever crates.io says later *)
Theorem C08_recorded_choice_persists : forall lock v published u,
  In u lock -> exists u', In u' (live_unpublished lock v published) /\
    u_ver u' = u_ver u /\ u_as u' = u_as u /\ u_fresh u' = u_fresh u.
Proof. exact recorded_unpublished_persist. Qed.

Example C08_nonvacuous :
  audited_as 3 [1; 2; 5] = Some 2 /\ audited_as 0 [1; 2; 5] = Some 1 /\
  unlocked_prechecks_ok [ {| ap_name := 0; ap_version := 1; ap_crates_io := false; ap_audit_as := Some true; ap_registry_match := true |} ]
                        [ {| po_name := 0; po_version := None; po_audit_as := Some true; po_has_dep_criteria := false |} ] = true.
Proof. vm_compute. auto. Qed.

Print Assumptions C08_crates_io_always_vetted.
Print Assumptions C08_unlocked_run_demands_a_choice.
Print Assumptions C08_exempt_only_if.
Print Assumptions C08_entries_match_packages.
Print Assumptions C08_exact_version_chain.
Print Assumptions C08_unpublished_choice.
Print Assumptions C08_recorded_choice_persists.
