(* C09 — a successful unlocked vet leaves files with which a --locked vet succeeds;
   a failing run leaves the store unchanged. *)
Require Import Base Extracted Criteria Search AuditGraph DepGraph Resolve Update Commands.
Require Import StoreVersion StoreVersionProofs.
Require Import UpdateProofs UpdateKeep EndToEnd.
Local Open Scope N_scope.

(* a run that fails writes nothing (the shape of cmd_check — commit only in the
   `else` of `if report.has_errors()` — is re-read from main.rs on every run) *)
Theorem C09_failing_run_writes_nothing : forall locked inp s,
  has_errors (resolve inp s) = true -> cmd_check locked inp s = None.
Proof. intros locked inp s H. unfold cmd_check. rewrite H. reflexivity. Qed.
Theorem C09_commit_only_on_success : CHECK_COMMITS_ONLY_ON_SUCCESS = true.
Proof. reflexivity. Qed.

(* every store entry that a chosen certification path uses survives the update,
   in every update mode (so also in the check's own minimal update): the local
   audit, the imported audit (copied into imports.lock with its already-localised
   criteria), the imported wildcard audit, the publisher record *)
Theorem C09_required_local_audit_kept : forall t mode ing rm ps i a,
  nth_error (ps_local ps) (N.to_nat i) = Some a -> rmap_has rm (RLocalAudit i) = true ->
  In a (pu_local (update_pkg t mode ing (Some rm) ps)).
Proof. exact kept_local. Qed.
Theorem C09_required_imported_audit_kept : forall t mode ing rm ps imp i a,
  nth_audit (ps_imported ps) imp i = Some a -> is_violation a = false -> rmap_has rm (RAudit imp i) = true ->
  In (clear_audit a) (nth (N.to_nat imp) (pu_imported (update_pkg t mode ing (Some rm) ps)) []).
Proof. exact kept_imported. Qed.
Theorem C09_required_wildcard_kept : forall t mode ing rm ps imp i w,
  nth_wild (ps_wild_imported ps) imp i = Some w -> rmap_has rm (RWildcard imp i) = true ->
  In (clear_wild w) (nth (N.to_nat imp) (pu_wild_imported (update_pkg t mode ing (Some rm) ps)) []).
Proof. exact kept_wildcard. Qed.
Theorem C09_required_publisher_kept : forall t mode ing rm ps i p,
  nth_error (ps_publishers ps) (N.to_nat i) = Some p -> rmap_has rm (RPublisher i) = true ->
  In (clear_pub p) (pu_publishers (update_pkg t mode ing (Some rm) ps)).
Proof. exact kept_publisher. Qed.

(* END TO END: whenever the unlocked check succeeds and commits a store s1, the locked check of
   s1 succeeds — for every graph, criteria table and (loaded) store.  [store_ok] = acyclic criteria
   table, exemption criteria defined, an entry per crate name (what Store::validate and the
   loader guarantee; its executable form is evaluated on every store the real commands load).
   The model's update already clears the freshness flags, which is what reloading imports.lock
   does. *)
Theorem C09_locked_check_succeeds_after_unlocked_check : forall inp s s1,
  store_ok inp s -> cmd_check false inp s = Some s1 -> has_errors (resolve inp s1) = false.
Proof. exact check_then_locked. Qed.

(* the store-version rule (StoreVersion.v, model of the check at the head of Store::acquire_offline; its three facts are re-read
   from the source): whatever version an unlocked run found in config.toml, what it commits is accepted by `--locked`; an older
   store is upgraded by an unlocked run only; a newer one is refused *)
Theorem C09_locked_accepts_the_version_an_unlocked_run_wrote : forall current stored v,
  version_after_unlocked_run current stored = Some v -> acquire_version current v true = AOk current.
Proof. exact locked_accepts_what_unlocked_wrote. Qed.
Theorem C09_older_store_upgraded_only_unlocked : forall current stored, stored < current ->
  version_after_unlocked_run current stored = Some current /\ acquire_version current stored true = AOutdated.
Proof. exact older_store_upgraded_only_unlocked. Qed.

Print Assumptions C09_failing_run_writes_nothing.
Print Assumptions C09_required_local_audit_kept.
Print Assumptions C09_required_imported_audit_kept.
Print Assumptions C09_required_wildcard_kept.
Print Assumptions C09_required_publisher_kept.
Print Assumptions C09_locked_check_succeeds_after_unlocked_check.
Print Assumptions C09_locked_accepts_the_version_an_unlocked_run_wrote.
Print Assumptions C09_older_store_upgraded_only_unlocked.
