(* C02 — no false failures; the failure report is exactly the uncertified pairs. *)
Require Import Base Extracted Criteria Search AuditGraph DepGraph Resolve Witness.
Require Import SearchProofs AuditGraphProofs ResolveProofs ResolveTheorems FuelProofs.
Local Open Scope N_scope.

(* The model's search loops carry explicit fuel (the implementation has none).  The
   fuel [search_fuel g] provably always suffices (proofs/FuelProofs.v:
   search_never_runs_out, by a potential-function argument; ag_search_never_runs_out,
   using that a failed backward search excludes a successful forward one), so the
   theorems below are unconditional. *)

Theorem C02_failures_exact :
  forall inp s fs,
    r_conclusion (resolve inp s) = FailForVet fs ->
    forall i cf, In (i, cf) fs ->
      exists p, pkg_at inp s i p /\ pk_third_party p = true /\
        forall c, cs_has c cf = true <->
          (c < N.of_nat (ct_len (st_criteria s)) /\ cs_has c (required_of inp s i) = true /\
           ~ certified (st_criteria s) (store_for s (pk_name p)) c (pk_version p)).
Proof. intros inp s fs H. exact (failures_exact inp s fs H (no_fuel_always inp s)). Qed.

Theorem C02_failures_complete :
  forall inp s fs,
    r_conclusion (resolve inp s) = FailForVet fs ->
    forall i p c, pkg_at inp s i p -> pk_third_party p = true ->
      c < N.of_nat (ct_len (st_criteria s)) -> cs_has c (required_of inp s i) = true ->
      ~ certified (st_criteria s) (store_for s (pk_name p)) c (pk_version p) ->
      exists cf, In (i, cf) fs /\ cs_has c cf = true.
Proof. exact failures_complete. Qed.

Theorem C02_no_false_failure :
  forall inp s,
    (forall i p, pkg_at inp s i p -> pk_third_party p = true ->
       violation_conflicts (st_criteria s) (store_for s (pk_name p)) = [] /\
       forall c, c < N.of_nat (ct_len (st_criteria s)) -> cs_has c (required_of inp s i) = true ->
         certified (st_criteria s) (store_for s (pk_name p)) c (pk_version p)) ->
    exists a b c0, r_conclusion (resolve inp s) = Success a b c0.
Proof. intros inp s. exact (success_complete inp s (no_fuel_always inp s)). Qed.

(* the exit status: non-zero exactly when the conclusion is not Success *)
Theorem C02_has_errors :
  forall inp s, has_errors (resolve inp s) = false <-> exists a b c0, r_conclusion (resolve inp s) = Success a b c0.
Proof.
  intros inp s. unfold has_errors. destruct (r_conclusion (resolve inp s)); split; intros H;
    try discriminate; try (destruct H as [a [b [c H]]]; discriminate); eauto.
Qed.

(* the fuel never runs out, for any graph and store *)
Theorem C02_fuel_is_an_artefact : forall inp s, no_fuel inp s = true.
Proof. exact no_fuel_always. Qed.

Example C02_nonvacuous :
  exists fs, r_conclusion (resolve w_graph w_store_failing) = FailForVet fs /\
    no_fuel w_graph w_store_failing = true /\ In (0%nat, 3) fs.
Proof. vm_compute. eexists. repeat split. left. reflexivity. Qed.

Print Assumptions C02_failures_exact.
Print Assumptions C02_failures_complete.
Print Assumptions C02_no_false_failure.
Print Assumptions C02_fuel_is_an_artefact.
Print Assumptions C02_has_errors.
