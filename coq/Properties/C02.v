(* C02 — no false failures; the failure report is exactly the uncertified pairs. *)
Require Import Base Extracted Criteria Search AuditGraph DepGraph Resolve Witness.
Require Import SearchProofs AuditGraphProofs ResolveProofs ResolveTheorems.
Local Open Scope N_scope.

(* The hypothesis [no_fuel inp s = true] says the model's fuelled search did not
   run out of fuel on this input; it is executable and is evaluated on every
   correspondence case (the implementation has no fuel).  Hence `_partial`: the
   unconditional statement needs the fuel-sufficiency lemma (see DESIGN.md). *)

Theorem C02_failures_exact_partial :
  forall inp s fs,
    r_conclusion (resolve inp s) = FailForVet fs -> no_fuel inp s = true ->
    forall i cf, In (i, cf) fs ->
      exists p, pkg_at inp s i p /\ pk_third_party p = true /\
        forall c, cs_has c cf = true <->
          (c < N.of_nat (ct_len (st_criteria s)) /\ cs_has c (required_of inp s i) = true /\
           ~ certified (st_criteria s) (store_for s (pk_name p)) c (pk_version p)).
Proof. exact failures_exact. Qed.

Theorem C02_failures_complete :
  forall inp s fs,
    r_conclusion (resolve inp s) = FailForVet fs ->
    forall i p c, pkg_at inp s i p -> pk_third_party p = true ->
      c < N.of_nat (ct_len (st_criteria s)) -> cs_has c (required_of inp s i) = true ->
      ~ certified (st_criteria s) (store_for s (pk_name p)) c (pk_version p) ->
      exists cf, In (i, cf) fs /\ cs_has c cf = true.
Proof. exact failures_complete. Qed.

Theorem C02_no_false_failure_partial :
  forall inp s, no_fuel inp s = true ->
    (forall i p, pkg_at inp s i p -> pk_third_party p = true ->
       violation_conflicts (st_criteria s) (store_for s (pk_name p)) = [] /\
       forall c, c < N.of_nat (ct_len (st_criteria s)) -> cs_has c (required_of inp s i) = true ->
         certified (st_criteria s) (store_for s (pk_name p)) c (pk_version p)) ->
    exists a b c0, r_conclusion (resolve inp s) = Success a b c0.
Proof. exact success_complete. Qed.

(* the exit status: non-zero exactly when the conclusion is not Success *)
Theorem C02_has_errors :
  forall inp s, has_errors (resolve inp s) = false <-> exists a b c0, r_conclusion (resolve inp s) = Success a b c0.
Proof.
  intros inp s. unfold has_errors. destruct (r_conclusion (resolve inp s)); split; intros H;
    try discriminate; try (destruct H as [a [b [c H]]]; discriminate); eauto.
Qed.

Example C02_nonvacuous :
  exists fs, r_conclusion (resolve w_graph w_store_failing) = FailForVet fs /\
    no_fuel w_graph w_store_failing = true /\ In (0%nat, 3) fs.
Proof. vm_compute. eexists. repeat split. left. reflexivity. Qed.

Print Assumptions C02_failures_exact_partial.
Print Assumptions C02_failures_complete.
Print Assumptions C02_no_false_failure_partial.
Print Assumptions C02_has_errors.
