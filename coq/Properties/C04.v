(* C04 — violations dominate. *)
Require Import Base Extracted Criteria Search AuditGraph DepGraph Resolve.
Require Import CriteriaProofs AuditGraphProofs ResolveProofs ResolveTheorems ViolationProofs.
Local Open Scope N_scope.

(* (1) holds: any audit or exemption of a crate in the graph that touches a
   violating version while claiming a violated criterion makes vet fail with a
   violation conflict — used or not, own or imported. *)
Theorem C04_conflict_any_audit_or_exemption :
  forall inp s i p v cv,
    pkg_at inp s i p -> pk_third_party p = true ->
    violation_covers (store_for s (pk_name p)) v cv ->
    audit_touches (st_criteria s) (store_for s (pk_name p)) v cv ->
    exists vs, r_conclusion (resolve inp s) = FailForViolationConflict vs /\ exists cs, In (i, cs) vs.
Proof.
  intros inp s i p v cv Hp Ht Hv Ha. apply (conflict_fails_vet inp s i p Hp Ht). eapply conflict_any_audit; eauto.
Qed.

(* (2) the FULL statement of the property,
       violation_covers (version p) cv -> cv implied by a required criterion r -> conclusion <> Success,
   is FALSE of the faithful model and of the code (C04_refuted_* below).  What is
   proved: if vet nevertheless succeeds, the crate's certification for r ends with
   a publisher grant (wildcard audit / trusted entry) or an unpublished link — the
   three record kinds the violation check does not look at. *)
Theorem C04_partial_only_grants_or_unpublished_dodge :
  forall inp s a b c0 i p r cv,
    r_conclusion (resolve inp s) = Success a b c0 ->
    pkg_at inp s i p -> pk_third_party p = true ->
    r < N.of_nat (ct_len (st_criteria s)) -> cs_has r (required_of inp s i) = true ->
    violation_covers (store_for s (pk_name p)) (pk_version p) cv ->
    cs_has cv (closure (st_criteria s) r) = true ->
    exists e, In e (all_edges (st_criteria s) (store_for s (pk_name p))) /\
      fe_to e = Some (pk_version p) /\ cs_has r (fe_crit e) = true /\
      (In e (publisher_edges (st_criteria s) (store_for s (pk_name p))) \/
       In e (unpublished_edges (st_criteria s) (store_for s (pk_name p)))).
Proof.
  intros inp s a b c0 i p r cv Hc Hp Ht Hr Hreq Hv Hcl.
  pose proof (success_sound inp s a b c0 Hc i p Hp Ht r Hr Hreq) as Hcert.
  eapply violation_only_dodged_by_grants; eauto.
  (* no conflict, else the conclusion would not be Success *)
  destruct (violation_conflicts (st_criteria s) (store_for s (pk_name p))) eqn:E; [reflexivity|exfalso].
  destruct (conflict_fails_vet inp s i p Hp Ht) as [vs [Hf _]]; [rewrite E; discriminate|congruence].
Qed.

(* (3) refutation witnesses (replayed on the implementation on every run):
   crate 0 at version 2 is required for safe-to-deploy (1) and has a violation
   entry covering version 2 for safe-to-deploy, yet vet succeeds. *)
Definition c04_graph : depgraph_in :=
  {| dg_pkgs :=
       [ {| pk_name := 0; pk_version := 2; pk_third_party := true; pk_deps := []; pk_policy := None |};
         {| pk_name := 1; pk_version := 0; pk_third_party := false;
            pk_deps := [ {| d_to := 0; d_normal := true; d_build := false; d_dev := false |} ]; pk_policy := None |} ];
     dg_members := [1%nat] |}.
Definition violation_v2 : audit :=
  {| au_kind := KViolation [2]; au_crit := [1]; au_importable := true; au_fresh := false |}.
Definition c04_wildcard : store :=
  {| st_criteria := [];
     st_pkgs := [(0, {| ps_imported := []; ps_local := [violation_v2]; ps_wild_imported := [];
                        ps_wild_local := [ {| w_user := 7; w_start := 100; w_end := 200; w_crit := [1]; w_fresh := false |} ];
                        ps_trusted := [];
                        ps_publishers := [ {| p_ver := 2; p_user := 7; p_when := 150; p_fresh := false |} ];
                        ps_unpublished := []; ps_exemptions := [] |})] |}.
Definition c04_trusted : store :=
  {| st_criteria := [];
     st_pkgs := [(0, {| ps_imported := []; ps_local := [violation_v2]; ps_wild_imported := []; ps_wild_local := [];
                        ps_trusted := [ {| t_user := 7; t_start := 100; t_end := 200; t_crit := [1] |} ];
                        ps_publishers := [ {| p_ver := 2; p_user := 7; p_when := 150; p_fresh := false |} ];
                        ps_unpublished := []; ps_exemptions := [] |})] |}.
Definition c04_unpublished : store :=
  {| st_criteria := [];
     st_pkgs := [(0, {| ps_imported := [];
                        ps_local := [violation_v2; {| au_kind := KFull 0; au_crit := [1]; au_importable := true; au_fresh := false |}];
                        ps_wild_imported := []; ps_wild_local := []; ps_trusted := []; ps_publishers := [];
                        ps_unpublished := [ {| u_ver := 2; u_as := 0; u_fresh := false; u_still := false |} ];
                        ps_exemptions := [] |})] |}.

Definition c04_refutes (s : store) : Prop :=
  violation_covers (store_for s 0) 2 1 /\ cs_has 1 (required_of c04_graph s 0) = true /\
  exists a b c0, r_conclusion (resolve c04_graph s) = Success a b c0.

Theorem C04_refuted_wildcard : c04_refutes c04_wildcard.
Proof.
  unfold c04_refutes. split.
  { exists None, (OLocal 0 true), violation_v2, [2]. split; [vm_compute; left; reflexivity|].
    split; [reflexivity|]. split; left; reflexivity. }
  split; [vm_compute; reflexivity|]. vm_compute. repeat eexists.
Qed.
Theorem C04_refuted_trusted : c04_refutes c04_trusted.
Proof.
  unfold c04_refutes. split.
  { exists None, (OLocal 0 true), violation_v2, [2]. split; [vm_compute; left; reflexivity|].
    split; [reflexivity|]. split; left; reflexivity. }
  split; [vm_compute; reflexivity|]. vm_compute. repeat eexists.
Qed.
Theorem C04_refuted_unpublished : c04_refutes c04_unpublished.
Proof.
  unfold c04_refutes. split.
  { exists None, (OLocal 0 true), violation_v2, [2]. split; [vm_compute; left; reflexivity|].
    split; [reflexivity|]. split; left; reflexivity. }
  split; [vm_compute; reflexivity|]. vm_compute. repeat eexists.
Qed.

(* non-vacuity of (1): the same violation against a plain full audit conflicts *)
Definition c04_audited : store :=
  {| st_criteria := [];
     st_pkgs := [(0, {| ps_imported := [];
                        ps_local := [violation_v2; {| au_kind := KFull 2; au_crit := [1]; au_importable := true; au_fresh := false |}];
                        ps_wild_imported := []; ps_wild_local := []; ps_trusted := []; ps_publishers := [];
                        ps_unpublished := []; ps_exemptions := [] |})] |}.
Example C04_nonvacuous : exists vs, r_conclusion (resolve c04_graph c04_audited) = FailForViolationConflict vs.
Proof. vm_compute. eexists. reflexivity. Qed.

Print Assumptions C04_conflict_any_audit_or_exemption.
Print Assumptions C04_partial_only_grants_or_unpublished_dodge.
Print Assumptions C04_refuted_wildcard.
Print Assumptions C04_refuted_trusted.
Print Assumptions C04_refuted_unpublished.
