(* C17 — suggestions heal: certifying what is suggested makes vet pass. *)
Require Import Base Extracted Criteria Search AuditGraph DepGraph Resolve Show Suggest.
Require Import CriteriaProofs ResolveProofs ResolveTheorems SuggestProofs SuggestHeal Witness.
Require Import Guess GuessProofs.
Local Open Scope N_scope.

(* the pair (from, to) that suggest_delta picks lies, for EVERY failed criterion of
   the crate, in the versions reachable from the root resp. the versions from which
   the target is reachable (whatever diffstats the cache reports) *)
Theorem C17_suggested_pair_is_common : forall dcount has_sources name target fails f d,
  suggest_delta dcount has_sources name target fails = Some (f, d) ->
  forall fr ft, In (fr, ft) fails -> In f fr /\ In (Some d) ft.
Proof. exact suggested_pair_in_all_sets. Qed.

(* and certifying such a pair for a criteria list that carries the failing criterion
   makes the crate certified for it: the new audit bridges a chain from the root to
   `from` and a chain from `to` to the target version *)
Theorem C17_candidate_heals : forall t s ag c v fr ft a b l,
  build t s = inl ag -> ag_search ag c v PreferExemptions = SErr fr ft ->
  In a fr -> In (Some b) ft -> cs_has c (from_list t l) = true ->
  certified t (add_local_audit s (new_audit a b l)) c v.
Proof. exact candidate_heals. Qed.

(* "the criteria `certify` pre-selects for a given delta are ones for which that delta connects an audited version
   to a needed one": every pre-selected criterion is failed by some package of that crate, with [from] among the
   versions reachable from the root and [to] among those from which the target is reachable for exactly that
   criterion — the situation in which C17_candidate_heals applies *)
Theorem C17_preselected_criteria_connect : forall (r : report) (name : N) (from : ver) (to : N) c,
  cs_has c (suggested_criteria r name from to) = true ->
  exists i cf rs fr ft, In (i, cf) (failures_of r) /\ pk_name (get_pkg (g_pkgs (Resolve.r_graph r)) i) = name /\
    po_result (nth i (r_outcomes r) {| po_result := PFirstParty; po_failures := 0; po_needed_exemptions := false; po_directly_exempted := false |}) = PSearched rs /\
    cs_has c cf = true /\ nth (N.to_nat c) rs SFuel = SErr fr ft /\ In from fr /\ In (Some to) ft.
Proof. exact suggested_criteria_spec. Qed.

(* de-duplication of suggestions keeps the criteria of every merged item (fact
   re-read from resolver.rs by the translator; with it off, the F-C17 defect returns) *)
Theorem C17_dedup_merges_criteria : SUGGEST_DEDUP_MERGES_CRITERIA = true.
Proof. reflexivity. Qed.
Theorem C17_dedup_keeps_all_criteria : forall (a b : sitem) rest,
  same_suggestion b a = true ->
  exists m, dedup_items true (a :: b :: rest) None = dedup_items true rest (Some m) /\
            si_crit m = cs_union (si_crit a) (si_crit b).
Proof.
  intros a b rest H. cbn [dedup_items]. rewrite H. eexists. split; [reflexivity|]. reflexivity.
Qed.

(* The whole statement, through the resolver: when vet fails for missing audits and every failing
   crate got a proposal, certifying EVERY proposed audit (the proposed delta, for the minimal names of
   the proposed criteria) makes vet succeed — unless one of the new audits collides with a violation
   entry (the property's own exception).  All graphs, all stores with an acyclic criteria table, all
   diffstat oracles.  [apply_items] adds, per proposal, one local audit to the crate's store. *)
Theorem C17_certifying_every_suggestion_makes_vet_pass :
  forall dcount has_sources inp s fs,
    (forall c, ~ reachp (st_criteria s) c c) ->
    r_conclusion (resolve inp s) = FailForVet fs ->
    (forall i cf, In (i, cf) fs -> item_for dcount has_sources (resolve inp s) i cf <> []) ->
    let s' := apply_items s (compute_suggest dcount has_sources (resolve inp s)) in
    (forall i p, pkg_at inp s i p -> pk_third_party p = true ->
       violation_conflicts (st_criteria s) (store_for s' (pk_name p)) = []) ->
    has_errors (resolve inp s') = false.
Proof.
  intros dcount has_sources inp s fs Hac Hc Hall s' Hnv.
  destruct (suggestions_heal dcount has_sources inp s Hac fs Hc Hall Hnv) as [a [b [c0 H]]].
  unfold has_errors. fold s' in H. rewrite H. reflexivity.
Qed.

(* the premises are satisfiable and the conclusion is not trivial: the failing witness store gets
   one proposal, and the healed store passes *)
Definition w_dc (_ : ver) (_ : N) : N := 1.
Definition w_hs (_ _ _ : N) : bool := true.
Example C17_nonvacuous :
  (exists fs, r_conclusion (resolve w_graph w_store_failing) = FailForVet fs /\
     forallb (fun '(i, cf) => negb (match item_for w_dc w_hs (resolve w_graph w_store_failing) i cf with [] => true | _ => false end)) fs = true) /\
  (length (compute_suggest w_dc w_hs (resolve w_graph w_store_failing)) = 1%nat) /\
  (has_errors (resolve w_graph w_store_failing) = true) /\
  (has_errors (resolve w_graph (apply_items w_store_failing (compute_suggest w_dc w_hs (resolve w_graph w_store_failing)))) = false).
Proof. vm_compute. split; [eexists; split; reflexivity|auto]. Qed.

(* the same for the command as a whole (Guess.v, model of main.rs guess_audit_criteria: a first look at the store as it is,
   and only when that finds nothing a second look at the store cloned for `suggest`, i.e. without the exemptions cargo-vet may
   replace): every criterion `certify` pre-selects is one for which the delta connects, in one of the two stores *)
Theorem C17_certify_guess_connects : forall inp live s name from to c,
  cs_has c (guess_audit_criteria inp live s name from to) = true ->
  connects (resolve inp s) name from to c \/ connects (resolve inp (store_for_suggest live s)) name from to c.
Proof. exact guess_connects. Qed.
Theorem C17_certify_guess_first_look_wins : forall inp live s name from to,
  cs_is_empty (suggested_criteria (resolve inp s) name from to) = false ->
  guess_audit_criteria inp live s name from to = suggested_criteria (resolve inp s) name from to.
Proof. exact guess_first_look_wins. Qed.

Print Assumptions C17_suggested_pair_is_common.
Print Assumptions C17_candidate_heals.
Print Assumptions C17_preselected_criteria_connect.
Print Assumptions C17_dedup_keeps_all_criteria.
Print Assumptions C17_certifying_every_suggestion_makes_vet_pass.
Print Assumptions C17_certify_guess_connects.
Print Assumptions C17_certify_guess_first_look_wins.
