(* C17 — suggestions heal: certifying what is suggested makes vet pass. *)
Require Import Base Extracted Criteria Search AuditGraph DepGraph Resolve Show Suggest.
Require Import ResolveProofs SuggestProofs.
Local Open Scope N_scope.

(* the pair (from, to) that suggest_delta picks lies, for EVERY failed criterion of
   the crate, in the versions reachable from the root resp. the versions from which
   the target is reachable (whatever diffstats the cache reports) *)
Theorem C17_suggested_pair_is_common : forall dcount has_sources name target fails f d,
  suggest_delta dcount has_sources name target fails = Some (f, d) ->
  forall fr ft, In (fr, ft) fails -> In f fr /\ In (Some d) ft.
Proof. exact suggested_pair_in_all_sets. Qed.

(* and certifying such a pair for a criteria list that carries the failing criterion
   makes the crate certified for it: the new audit bridges a chain from the root to
   `from` and a chain from `to` to the target version *)
Theorem C17_candidate_heals : forall t s ag c v fr ft a b l,
  build t s = inl ag -> ag_search ag c v PreferExemptions = SErr fr ft ->
  In a fr -> In (Some b) ft -> cs_has c (from_list t l) = true ->
  certified t (add_local_audit s (new_audit a b l)) c v.
Proof. exact candidate_heals. Qed.

(* de-duplication of suggestions keeps the criteria of every merged item (fact
   re-read from resolver.rs by the translator; with it off, the F-C17 defect returns) *)
Theorem C17_dedup_merges_criteria : SUGGEST_DEDUP_MERGES_CRITERIA = true.
Proof. reflexivity. Qed.
Theorem C17_dedup_keeps_all_criteria : forall (a b : sitem) rest,
  same_suggestion b a = true ->
  exists m, dedup_items true (a :: b :: rest) None = dedup_items true rest (Some m) /\
            si_crit m = cs_union (si_crit a) (si_crit b).
Proof.
  intros a b rest H. cbn [dedup_items]. rewrite H. eexists. split; [reflexivity|]. reflexivity.
Qed.

(* PARTIAL: "once EVERY proposed audit is certified vet succeeds" (all crates at once,
   through the resolver) is exercised on the implementation by applying the suggestions
   and re-resolving; proved here is the per-crate, per-criterion core. *)

Print Assumptions C17_suggested_pair_is_common.
Print Assumptions C17_candidate_heals.
Print Assumptions C17_dedup_keeps_all_criteria.
