(* C01 — a passing vet means every required (crate, criterion) has a certifying
   chain of store records.  Nothing but the statement, `exact`, and the
   assumption audit lives here. *)
Require Import Base Extracted Criteria Search AuditGraph DepGraph Resolve Witness.
Require Import SearchProofs AuditGraphProofs ResolveProofs ResolveTheorems.
Local Open Scope N_scope.

(* Whenever the conclusion is Success, every third-party node has, for every
   required criterion, a chain None -> ... -> its exact version whose links are
   edges of [all_edges] (= the desugaring of the store's records) each carrying
   the criterion. *)
Theorem C01_success_sound :
  forall (inp : depgraph_in) (s : store) a b c0,
    r_conclusion (resolve inp s) = Success a b c0 ->
    forall i p, pkg_at inp s i p -> pk_third_party p = true ->
    forall c, c < N.of_nat (ct_len (st_criteria s)) ->
      cs_has c (required_of inp s i) = true ->
      certified (st_criteria s) (store_for s (pk_name p)) c (pk_version p).
Proof. exact success_sound. Qed.

(* What a link can be: every edge is the desugaring of exactly one record kind;
   grant edges are characterised by [publisher_edge_spec] (C06). *)
Theorem C01_links_are_records :
  forall t s e, In e (all_edges t s) ->
    In e (audit_edges t s) \/ In e (publisher_edges t s) \/
    In e (unpublished_edges t s) \/ In e (exemption_edges t s).
Proof. intros t s e. unfold all_edges. rewrite !in_app_iff. tauto. Qed.

(* non-vacuity: a store that passes, with a delta chain and a wildcard grant *)
Example C01_nonvacuous :
  exists a b c0, r_conclusion (resolve w_graph w_store) = Success a b c0 /\
    pkg_at w_graph w_store 0 (nth 0 (dg_pkgs w_graph) dummy_pkg) /\
    cs_has 1 (required_of w_graph w_store 0) = true.
Proof. vm_compute. repeat eexists. Qed.

Print Assumptions C01_success_sound.
Print Assumptions C01_links_are_records.
