(* C19 — fetched crate sources stay inside the cache and are used only if fully unpacked. *)
Require Import Base Extracted Unpack.
Require Import UnpackProofs UnpackHistory.
Local Open Scope N_scope.

(* whatever entry names an archive contains (absolute paths, `..`, other crates'
   directories, its own completion marker) and wherever unpacking stops, nothing
   outside the crate's own directory is created or modified — given the archive
   library skips entries containing `..` (its specified behaviour) *)
Theorem C19_confined : forall prefix ar cut f q,
  under prefix q = false -> fs_get (fetch prefix ar cut f) q = fs_get f q.
Proof. exact fetch_confined. Qed.

(* an unpack cut short at ANY point (after k entries, k arbitrary, including after the
   last entry but before the marker) leaves no valid completion marker ... *)
Theorem C19_interrupted_unpack_has_no_marker : forall prefix ar k f,
  fetch_is_ok prefix (unpack prefix ar (Some k) f) = false.
Proof. intros. apply interrupted_unpack_has_no_marker. reflexivity. Qed.
(* ... nor does one that stops on an entry outside the crate's directory ... *)
Theorem C19_failed_unpack_has_no_marker : forall prefix ar f f1,
  fold_left (unpack_step prefix) ar (fs_remove_dir f prefix, Running) = (f1, Failed) ->
  fetch_is_ok prefix (unpack prefix ar None f) = false.
Proof. intros. eapply failed_unpack_has_no_marker; [reflexivity|eassumption]. Qed.
(* ... so the next fetch unpacks again from scratch and its result is that of a clean
   unpack, independent of what the interrupted attempt left behind *)
Theorem C19_retry_is_a_clean_unpack : forall prefix ar k f,
  fetch prefix ar None (unpack prefix ar (Some k) f) = unpack prefix ar None (fs_remove_dir f prefix).
Proof. intros. apply retry_is_a_clean_unpack. reflexivity. Qed.
(* while a completed unpack is accepted *)
Theorem C19_completed_unpack_has_marker : forall prefix ar f f1,
  fold_left (unpack_step prefix) ar (fs_remove_dir f prefix, Running) = (f1, Running) ->
  fetch_is_ok prefix (unpack prefix ar None f) = true.
Proof. exact completed_unpack_has_marker. Qed.

(* "fully unpacked", exactly: a directory that is handed out holds, below the crate's own directory,
   for every path the content of the LAST regular-file entry the archive unpacks there and nothing
   else — nothing left over from an earlier (partial or foreign) tree, no entry missing *)
Theorem C19_accepted_tree_is_the_archive : forall prefix ar f f1 q,
  fold_left (unpack_step prefix) ar (fs_remove_dir f prefix, Running) = (f1, Running) ->
  under prefix q = true -> q <> [prefix; MARKER] ->
  fs_get (unpack prefix ar None f) q = archive_says ar q.
Proof. exact accepted_tree_is_the_archive. Qed.
Example C19_accepted_tree_nonvacuous :
  let ar := [ {| en_absolute := false; en_path := [CNormal 9; CNormal 5]; en_kind := EFile; en_content := 7 |};
              {| en_absolute := false; en_path := [CNormal 9; CNormal 5]; en_kind := EFile; en_content := 8 |} ] in
  let f := [([9; 6], 3); ([4; 1], 2)] in
  snd (fold_left (unpack_step 9) ar (fs_remove_dir f 9, Running)) = Running /\
  fs_get (unpack 9 ar None f) [9; 5] = Some 8 /\ archive_says ar [9; 5] = Some 8 /\
  fs_get (unpack 9 ar None f) [9; 6] = None /\ fs_get (unpack 9 ar None f) [4; 1] = Some 2.
Proof. vm_compute. auto 6. Qed.

(* ... and over ANY history: start from a cache in which no directory has a valid marker (the empty cache, say) and run any
   list of fetches — any crates in any order, each unpack cut short after any number of entries or running to its end, each
   crate's archive being what the registry serves for it ([arch]) — then in every state reached, every directory whose marker
   is valid (i.e. every directory a later fetch would hand out without unpacking) holds exactly what its archive says *)
Theorem C19_accepted_directories_are_complete_unpacks : forall (arch : N -> archive) f0 (evs : list ev),
  (forall p, fetch_is_ok p f0 = false) ->
  forall p q, let f := fold_left (do_ev arch) evs f0 in
  fetch_is_ok p f = true -> under p q = true -> q <> [p; MARKER] -> fs_get f q = archive_says (arch p) q.
Proof. intros arch f0 evs H0 p q. exact (accepted_directories_are_complete_unpacks arch f0 evs H0 p q). Qed.
Example C19_history_nonvacuous :
  let arch := fun p => [ {| en_absolute := false; en_path := [CNormal p; CNormal 5]; en_kind := EFile; en_content := p + 1 |} ] in
  let f := fold_left (do_ev arch) [(9, Some 0%nat); (4, None); (9, Some 1%nat); (9, None); (9, Some 0%nat)] [] in
  fetch_is_ok 9 f = true /\ fetch_is_ok 4 f = true /\ fs_get f [9; 5] = Some 10 /\ fs_get f [4; 5] = Some 5.
Proof. vm_compute. auto. Qed.

(* Entries in the model are regular files and directories: symlink and hard-link entries are
   not unpacked at all (fact re-read from the source) — with them, an archive could write into
   a sibling crate's directory through a link it created itself (original defect, fixed). *)
Theorem C19_links_are_not_unpacked : UNPACK_SKIPS_LINK_ENTRIES = true.
Proof. reflexivity. Qed.

(* The three `reflexivity` above discharge UNPACK_SKIPS_MARKER_ENTRIES = true, a fact the
   translator re-reads from unpack_package: without the skip an archive carrying
   `<prefix>/.cargo-ok = "ok"` refutes the statement (the original defect, now fixed): *)
Example C19_marker_entry_would_refute :
  let ar := [ {| en_absolute := false; en_path := [CNormal 9; CNormal MARKER]; en_kind := EFile; en_content := OK |};
              {| en_absolute := false; en_path := [CNormal 9; CNormal 5]; en_kind := EFile; en_content := 7 |} ] in
  fetch_is_ok 9 (unpack 9 ar (Some 1%nat) []) = false /\ fs_get (unpack 9 ar None []) [9; 5] = Some 7.
Proof. vm_compute. auto. Qed.

Print Assumptions C19_confined.
Print Assumptions C19_interrupted_unpack_has_no_marker.
Print Assumptions C19_failed_unpack_has_no_marker.
Print Assumptions C19_retry_is_a_clean_unpack.
Print Assumptions C19_completed_unpack_has_marker.
Print Assumptions C19_accepted_tree_is_the_archive.
Print Assumptions C19_accepted_directories_are_complete_unpacks.
