(* AuditAs.v — model of main.rs is_third_party, check_audit_as_crates_io and
   check_crate_policies (what keeps crates.io code from escaping vetting as a
   path/git/patched crate). *)
Require Import Base Extracted.
Local Open Scope N_scope.

Record apkg := {
  ap_name : N; ap_version : N;
  ap_crates_io : bool;               (* source is crates.io *)
  ap_audit_as : option bool;         (* policy_entry(..).audit_as_crates_io for this very package *)
  ap_registry_match : bool           (* crates.io knows the name and description or repository matches *)
}.
(* one policy entry as Policy::iter yields it *)
Record apolicy := { po_name : N; po_version : option N; po_audit_as : option bool; po_has_dep_criteria : bool }.

Definition is_third_party (p : apkg) : bool :=
  (match ap_audit_as p with Some b => b | None => false end) || ap_crates_io p.

Definition optN_eqb (a b : option N) : bool :=
  match a, b with Some x, Some y => N.eqb x y | None, None => true | _, _ => false end.

(* check_audit_as_crates_io (with a network) *)
Definition unused_audit_as (pkgs : list apkg) (pols : list apolicy) : list (N * option N) :=
  flat_map (fun po =>
    match po_audit_as po with
    | None => []
    | Some _ =>
        if existsb (fun p => negb (ap_crates_io p) && N.eqb (ap_name p) (po_name po) &&
                             (match po_version po with None => true | Some v => N.eqb v (ap_version p) end)) pkgs
        then [] else [(po_name po, po_version po)]
    end) pols.
Definition needs_audit_as (pkgs : list apkg) : list (N * N) :=
  flat_map (fun p => if negb (ap_crates_io p) && ap_registry_match p &&
                        (match ap_audit_as p with None => true | Some _ => false end)
                     then [(ap_name p, ap_version p)] else []) pkgs.
Definition shouldnt_be_audit_as (pkgs : list apkg) : list (N * N) :=
  flat_map (fun p => if negb (ap_crates_io p) && negb (ap_registry_match p) &&
                        (match ap_audit_as p with Some true => true | _ => false end)
                     then [(ap_name p, ap_version p)] else []) pkgs.
Definition audit_as_ok (pkgs : list apkg) (pols : list apolicy) : bool :=
  match unused_audit_as pkgs pols, needs_audit_as pkgs, shouldnt_be_audit_as pkgs with
  | [], [], [] => true | _, _, _ => false end.

(* check_crate_policies *)
Definition policy_needs_version (pkgs : list apkg) (pols : list apolicy) : list (N * N) :=
  flat_map (fun p =>
    if existsb (fun q => ap_crates_io q && N.eqb (ap_name q) (ap_name p)) pkgs
       && existsb (fun po => N.eqb (po_name po) (ap_name p) && po_has_dep_criteria po) pols
       && negb (existsb (fun po => N.eqb (po_name po) (ap_name p) && optN_eqb (po_version po) (Some (ap_version p))) pols)
    then [(ap_name p, ap_version p)] else []) pkgs.
Definition policy_unused (pkgs : list apkg) (pols : list apolicy) : list (N * option N) :=
  flat_map (fun po =>
    match po_version po with
    | None => if existsb (fun p => N.eqb (ap_name p) (po_name po)) pkgs then [] else [(po_name po, None)]
    | Some v => if existsb (fun p => N.eqb (ap_name p) (po_name po) && N.eqb (ap_version p) v) pkgs then []
                else if existsb (fun p => N.eqb (ap_name p) (po_name po)) pkgs then [(po_name po, Some v)]
                     else [(po_name po, None); (po_name po, Some v)]
    end) pols.
Definition crate_policies_ok (pkgs : list apkg) (pols : list apolicy) : bool :=
  match policy_needs_version pkgs pols, policy_unused pkgs pols with [], [] => true | _, _ => false end.

(* what an unlocked `cargo vet` demands before it looks at audits *)
Definition unlocked_prechecks_ok (pkgs : list apkg) (pols : list apolicy) : bool :=
  crate_policies_ok pkgs pols && audit_as_ok pkgs pols.
