(* WrittenForm.v — executable form of "the store is in the form cargo-vet writes" (proofs/CheckFixpoint.v:
   written_form), evaluated on the store files every successful real `cargo vet` leaves behind. *)
Require Import Base Extracted Criteria Search AuditGraph DepGraph Resolve Update Imports Show.
From Coq Require Import String.
Local Open Scope N_scope.

Fixpoint all2b {A} (eqb : A -> A -> bool) (a b : list A) : bool :=
  match a, b with
  | [], [] => true
  | x :: a', y :: b' => eqb x y && all2b eqb a' b'
  | _, _ => false
  end.

Definition written_formb (t : ctable) (ps : pkg_store) : bool :=
  forallb (forallb (fun a => negb (au_fresh a))) (ps_imported ps) &&
  forallb (forallb (fun w => negb (w_fresh w))) (ps_wild_imported ps) &&
  forallb (fun p => negb (p_fresh p)) (ps_publishers ps) &&
  forallb (fun u => negb (u_fresh u)) (ps_unpublished ps) &&
  all2b unpub_eqb (dedup_adj unpub_eqb (sort_by unpub_leb (ps_unpublished ps))) (ps_unpublished ps) &&
  forallb (fun x => list_eqb (x_crit x) (names_of t (from_list t (x_crit x))) && negb (cs_is_empty (from_list t (x_crit x))))
          (ps_exemptions ps).

Local Open Scope string_scope.
Definition show_written (s : store) : string :=
  sp "written" (map (fun '(n, ps) => sp "p" [sN n; sbool (written_formb (st_criteria s) ps)]) (st_pkgs s)).
