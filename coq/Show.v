(* Show.v — canonical textual rendering of model results, compared verbatim with
   what the Rust harness prints for the implementation.  S-expressions over
   decimal numbers and bare atoms; no quotes, so Coq prints each result as one
   string token. *)
Require Import Base Extracted Criteria Search AuditGraph DepGraph Resolve.
From Coq Require Import String DecimalString.
Local Open Scope string_scope.

Definition sN (n : N) : string := NilZero.string_of_uint (N.to_uint n).
Definition snat (n : nat) : string := sN (N.of_nat n).
Definition sZ (z : Z) : string :=
  match z with Z0 => "0" | Zpos p => sN (Npos p) | Zneg p => "-" ++ sN (Npos p) end.
Definition sbool (b : bool) : string := if b then "1" else "0".
Fixpoint sjoin (l : list string) : string :=
  match l with [] => "" | [x] => x | x :: r => x ++ " " ++ sjoin r end.
Definition sp (tag : string) (l : list string) : string :=
  match l with [] => "(" ++ tag ++ ")" | _ => "(" ++ tag ++ " " ++ sjoin l ++ ")" end.
Definition sver (v : ver) : string := match v with None => "n" | Some x => sN x end.
Definition soptN (v : option N) : string := match v with None => "-" | Some x => sN x end.

Definition sorigin (o : origin) : string :=
  match o with
  | OLocal i b => sp "L" [sN i; sbool b]
  | OImported a i => sp "I" [sN a; sN i]
  | OWildcard a i p => sp "W" [soptN a; sN i; sN p]
  | OTrusted p => sp "T" [sN p]
  | OExemption i => sp "X" [sN i]
  | OUnpublished i => sp "U" [sN i]
  | OFreshExemption v => sp "F" [sN v]
  end.

Definition sort_vers (l : list ver) : list ver := dedup_adj ver_eqb (sort_by ver_leb l).

Definition ssearch (r : search_result) : string :=
  match r with
  | SOk p => sp "ok" (map sorigin p)
  | SErr fr ft => sp "err" [sp "root" (map sver (sort_vers fr)); sp "target" (map sver (sort_vers ft))]
  | SFuel => "(fuel)"
  end.

Definition sconflict (c : conflict) : string :=
  match c with
  | UnauditedConflict vs vi xi => sp "unaudited" [soptN vs; sN vi; sN xi]
  | AuditConflict vs vi asrc ai => sp "audit" [soptN vs; sN vi; soptN asrc; sN ai]
  end.

Definition sresult (o : pkg_outcome) : string :=
  match po_result o with
  | PFirstParty => "(fp)"
  | PViolation _ => "(viol)"
  | PSearched rs => sp "s" (map ssearch rs)
  end.

Definition sconclusion (c : conclusion) : string :=
  match c with
  | Success we pa fu => sp "success" [sp "exempted" (map snat we); sp "partial" (map snat pa); sp "full" (map snat fu)]
  | FailForViolationConflict vs =>
      sp "violation" (map (fun '(i, cs) => sp "pkg" (snat i :: map sconflict cs)) vs)
  | FailForVet fs => sp "failvet" (map (fun '(i, s) => sp "f" [snat i; sN s]) fs)
  end.

Definition sbools (l : list bool) : list string :=
  map (fun '(i, b) => snat i) (filter (fun '(i, b) => b) (enumerate l)).

Definition sreport (r : report) : string :=
  let g := r_graph r in
  sp "report"
    [ sp "topo" (map snat (g_topo g));
      sp "roots" (sbools (g_root g));
      sp "devonly" (sbools (g_dev_only g));
      sp "reqs" (map sN (r_requirements r));
      sp "concl" [sconclusion (r_conclusion r)];
      sp "results" (map sresult (r_outcomes r)) ].
