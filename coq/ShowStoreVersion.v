(* ShowStoreVersion.v — rendering of the store-version rule for the comparison with what the real commands did *)
Require Import Base Extracted Show StoreVersion.
From Coq Require Import String.
Local Open Scope string_scope.

Definition show_acquire (current stored : N) (locked : bool) : string :=
  match acquire_version current stored locked with
  | AOutdated => sp "acq" ["outdated"]
  | ANewer => sp "acq" ["newer"]
  | AOk v => sp "acq" ["ok"; sN v]
  end.
