(* ShowGuess.v — rendering of the criteria `certify` pre-selects, for the comparison with what the real command recorded *)
Require Import Base Extracted Criteria Search AuditGraph DepGraph Resolve Suggest Show Guess.
From Coq Require Import String.
Local Open Scope string_scope.

Definition show_guess (inp : depgraph_in) (live : bool) (s : store) (name : N) (from : ver) (to : N) : string :=
  sp "guess" [sN (cs_meaning (st_criteria s) (guess_audit_criteria inp live s name from to))].
