(* ShowUpdate.v — rendering of StoreUpdates, mirrored by s_updates in the harness *)
Require Import Base Extracted Criteria Search AuditGraph DepGraph Resolve Update Show.
From Coq Require Import String.
Local Open Scope string_scope.

Definition skind (k : akind) : string :=
  match k with
  | KFull v => sp "full" [sN v]
  | KDelta f t => sp "delta" [sN f; sN t]
  | KViolation l => sp "violation" (map sN l)
  end.
Definition saudit (a : audit) : string :=
  sp "a" [skind (au_kind a); sp "c" (map sN (au_crit a)); sbool (au_importable a); sbool (au_fresh a)].
Definition swild (w : wildcard) : string :=
  sp "w" [sN (w_user w); sZ (w_start w); sZ (w_end w); sp "c" (map sN (w_crit w))].
Definition spub (p : publisher) : string := sp "pub" [sN (p_ver p); sN (p_user p); sZ (p_when p)].
Definition sunpub (u : unpublished) : string := sp "u" [sN (u_ver u); sN (u_as u)].
Definition sexempt (x : exemption) : string :=
  sp "x" [sN (x_ver x); sp "c" (map sN (x_crit x)); sbool (x_suggest x)].

Definition per_name {A} (f : A -> string) (l : list (N * list A)) : list string :=
  map (fun '(n, xs) => sp "p" (sN n :: map f xs)) l.

Definition nimports (us : list (N * pkg_update)) : nat :=
  match us with [] => 0%nat | (_, u) :: _ => List.length (pu_imported u) end.

Definition supdates (us : list (N * pkg_update)) : string :=
  sp "updates"
    [ sp "audits" (per_name saudit (map (fun '(n, u) => (n, pu_local u)) us));
      sp "exemptions" (per_name sexempt (map (fun '(n, u) => (n, pu_exemptions u)) us));
      sp "imports" (map (fun i =>
          sp "import" [snat i;
             sp "audits" (per_name saudit (map (fun '(n, u) => (n, nth i (pu_imported u) [])) us));
             sp "wildcards" (per_name swild (map (fun '(n, u) => (n, nth i (pu_wild_imported u) [])) us))])
          (seq 0 (nimports us)));
      sp "publisher" (per_name spub (map (fun '(n, u) => (n, pu_publishers u)) us));
      sp "unpublished" (per_name sunpub (map (fun '(n, u) => (n, pu_unpublished u)) us)) ].

Definition mk_mode (search : search_mode) (pe pa pi : bool) : update_mode :=
  {| um_search := search; um_prune_exemptions := pe; um_prune_audits := pa; um_prune_imports := pi |}.
(* mode function: [target] gets [m], every other name gets [other] *)
Definition mode_fn (target : option N) (m other : update_mode) : N -> update_mode :=
  fun name => match target with
              | Some t => if N.eqb name t then m else other
              | None => m
              end.

Definition sstore_ok (inp : depgraph_in) (s : store) : string := if store_okb inp s then "(store_ok)" else "(store_bad)".
