Require Import Base Extracted Criteria Search AuditGraph DepGraph Resolve Update Show ShowUpdate Imports.
From Coq Require Import String.
Local Open Scope string_scope.

Definition swildf (w : wildcard) : string :=
  sp "w" [sN (w_user w); sZ (w_start w); sZ (w_end w); sp "c" (map sN (w_crit w)); sbool (w_fresh w)].
Definition spubf (p : publisher) : string := sp "pub" [sN (p_ver p); sN (p_user p); sZ (p_when p); sbool (p_fresh p)].
Definition sunpubf (u : unpublished) : string := sp "u" [sN (u_ver u); sN (u_as u); sbool (u_fresh u); sbool (u_still u)].

Definition slive (l : live) : string :=
  sp "live"
    [ sp "imports" (map (fun '(i, li) =>
         sp "import" [snat i; sp "audits" (per_name saudit (fst li)); sp "wildcards" (per_name swildf (snd li))])
         (enumerate (lv_imports l)));
      sp "publisher" (per_name spubf (lv_publishers l));
      sp "unpublished" (per_name sunpubf (lv_unpublished l)) ].
