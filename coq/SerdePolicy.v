(* SerdePolicy.v — the (de)serialisation of one policy entry (format.rs PolicyEntry with serialization.rs
   string_or_vec_or_none / string_or_vec): `criteria` and `dev-criteria` distinguish "absent" from "present and
   empty"; `dependency-criteria` is a table of string-or-list values written only when non-empty. *)
Require Import Base Serde.
Local Open Scope N_scope.

Inductive pkey := PAuditAs | PCriteria | PDevCriteria | PDepCriteria | PNotes.
Definition pkey_eqb (a b : pkey) : bool :=
  match a, b with
  | PAuditAs, PAuditAs | PCriteria, PCriteria | PDevCriteria, PDevCriteria | PDepCriteria, PDepCriteria | PNotes, PNotes => true
  | _, _ => false
  end.
Inductive pv := PStr (s : tok) | PArr (l : list tok) | PBool (b : bool) | PMap (m : list (tok * list tok)).
Definition ptable := list (pkey * pv).
Definition pget (t : ptable) (k : pkey) : option pv :=
  match find (fun '(k', _) => pkey_eqb k' k) t with Some (_, v) => Some v | None => None end.

Definition enc_psv (l : list tok) : pv := match l with [x] => PStr x | _ => PArr l end.
Definition dec_psv (v : pv) : option (list tok) := match v with PStr s => Some [s] | PArr l => Some l | _ => None end.

Record policy_entry := {
  pe_audit_as : option bool;
  pe_criteria : option (list tok);          (* None = not written; Some [] = written as an empty list *)
  pe_dev_criteria : option (list tok);
  pe_dep_criteria : list (tok * list tok);
  pe_notes : option tok
}.

Definition enc_policy (p : policy_entry) : ptable :=
  (match pe_audit_as p with Some b => [(PAuditAs, PBool b)] | None => [] end)
  ++ (match pe_criteria p with Some l => [(PCriteria, enc_psv l)] | None => [] end)
  ++ (match pe_dev_criteria p with Some l => [(PDevCriteria, enc_psv l)] | None => [] end)
  ++ (match pe_dep_criteria p with [] => [] | m => [(PDepCriteria, PMap m)] end)
  ++ (match pe_notes p with Some s => [(PNotes, PStr s)] | None => [] end).

Definition dec_opt_sv (t : ptable) (k : pkey) : option (option (list tok)) :=
  match pget t k with None => Some None | Some v => match dec_psv v with Some l => Some (Some l) | None => None end end.

Definition dec_policy (t : ptable) : option policy_entry :=
  let aa := match pget t PAuditAs with None => Some None | Some (PBool b) => Some (Some b) | Some _ => None end in
  let dep := match pget t PDepCriteria with None => Some [] | Some (PMap m) => Some m | Some _ => None end in
  let notes := match pget t PNotes with None => Some None | Some (PStr s) => Some (Some s) | Some _ => None end in
  match aa, dec_opt_sv t PCriteria, dec_opt_sv t PDevCriteria, dep, notes with
  | Some a, Some c, Some d, Some m, Some n =>
      Some {| pe_audit_as := a; pe_criteria := c; pe_dev_criteria := d; pe_dep_criteria := m; pe_notes := n |}
  | _, _, _, _, _ => None
  end.
