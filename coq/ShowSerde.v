Require Import Base Show Serde.
From Coq Require Import String.
Local Open Scope string_scope.
Definition skey (k : key) : string :=
  match k with
  | KWho => "who" | KCriteria => "criteria" | KVersion => "version" | KDelta => "delta" | KViolation => "violation"
  | KImportable => "importable" | KNotes => "notes" | KAggFrom => "aggregated-from" | KSuggest => "suggest"
  | KUserId => "user-id" | KStart => "start" | KEnd => "end" | KRenew => "renew" | KDescription => "description"
  | KDescriptionUrl => "description-url" | KImplies => "implies"
  end.
Definition stv (v : tv) : string :=
  match v with
  | VStr s => sp "str" [sN s] | VInt n => sp "int" [sN n] | VBool b => sp "bool" [sbool b]
  | VArr l => sp "arr" (map sN l) | VDelta f t => sp "delta" [sN f; sN t]
  end.
Definition stable (t : table) : string := sp "table" (map (fun '(k, v) => sp (skey k) [stv v]) t).

Definition spkeys (l : list (list chr * option vetver)) : string :=
  sp "keys" (map (fun '(n, v) => sp "k" (map sN (pkey_encode n v))) l).
