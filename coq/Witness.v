(* Witness.v — small concrete inputs used by the non-vacuity Examples that sit
   beside the property theorems.  Graph: workspace root 0 -> third-party "a"
   (name 0, version rank 2), "b" (name 1, version 1).  Criteria: one custom
   criterion 2 implying safe-to-deploy. *)
Require Import Base Extracted Criteria Search AuditGraph DepGraph Resolve Update Commands.
Local Open Scope N_scope.

Definition w_table : ctable := [[1]].

Definition w_graph : depgraph_in :=
  {| dg_pkgs :=
       [ {| pk_name := 0; pk_version := 2; pk_third_party := true; pk_deps := []; pk_policy := None |};
         {| pk_name := 1; pk_version := 1; pk_third_party := true; pk_deps := []; pk_policy := None |};
         {| pk_name := 2; pk_version := 0; pk_third_party := false;
            pk_deps := [ {| d_to := 0; d_normal := true; d_build := false; d_dev := false |};
                         {| d_to := 1; d_normal := false; d_build := false; d_dev := true |} ];
            pk_policy := None |} ];
     dg_members := [2%nat] |}.

(* "a": full audit of version 0 for the custom criterion, delta 0 -> 2 for
   safe-to-deploy, plus an exemption for version 2 (unused: the audits suffice).
   "b": a wildcard audit by user 7 covering the day version 1 was published. *)
Definition w_store_a : pkg_store :=
  {| ps_imported := [];
     ps_local := [ {| au_kind := KFull 0; au_crit := [2]; au_importable := true; au_fresh := false |};
                   {| au_kind := KDelta 0 2; au_crit := [1]; au_importable := true; au_fresh := false |} ];
     ps_wild_imported := []; ps_wild_local := []; ps_trusted := []; ps_publishers := [];
     ps_unpublished := [];
     ps_exemptions := [ {| x_ver := 2; x_crit := [1]; x_suggest := true |} ] |}.
Definition w_store_b : pkg_store :=
  {| ps_imported := []; ps_local := [];
     ps_wild_imported := [];
     ps_wild_local := [ {| w_user := 7; w_start := 100; w_end := 200; w_crit := [0]; w_fresh := false |} ];
     ps_trusted := [];
     ps_publishers := [ {| p_ver := 1; p_user := 7; p_when := 150; p_fresh := false |};
                        {| p_ver := 3; p_user := 8; p_when := 150; p_fresh := false |} ];
     ps_unpublished := []; ps_exemptions := [] |}.
Definition w_store : store := {| st_criteria := w_table; st_pkgs := [(0, w_store_a); (1, w_store_b)] |}.

(* the same store without the delta audit: "a" now needs its exemption *)
Definition w_store_a_exempted : pkg_store :=
  {| ps_imported := [];
     ps_local := [ {| au_kind := KFull 0; au_crit := [2]; au_importable := true; au_fresh := false |} ];
     ps_wild_imported := []; ps_wild_local := []; ps_trusted := []; ps_publishers := [];
     ps_unpublished := [];
     ps_exemptions := [ {| x_ver := 2; x_crit := [1]; x_suggest := true |} ] |}.
Definition w_store_exempted : store :=
  {| st_criteria := w_table; st_pkgs := [(0, w_store_a_exempted); (1, w_store_b)] |}.

(* and with nothing for "a": a failure *)
Definition w_store_failing : store :=
  {| st_criteria := w_table; st_pkgs := [(0, empty_pkg_store); (1, w_store_b)] |}.

(* ---- C13 witnesses (the pruning update and regenerate exemptions are not idempotent) ---- *)
(* criteria: 0 safe-to-run, 1 safe-to-deploy, 2 "fuzzed" (implies nothing).  The root demands [safe-to-deploy; fuzzed]
   of crate 0 (version 1); the project has a NON-importable full audit for fuzzed, a peer serves a full audit for
   [safe-to-deploy; fuzzed] that has not been imported yet (fresh). *)
Definition p_table : ctable := [[]].
Definition p_graph : depgraph_in :=
  {| dg_pkgs :=
       [ {| pk_name := 0; pk_version := 1; pk_third_party := true; pk_deps := []; pk_policy := None |};
         {| pk_name := 1; pk_version := 0; pk_third_party := false;
            pk_deps := [ {| d_to := 0; d_normal := true; d_build := false; d_dev := false |} ];
            pk_policy := Some {| pol_criteria := Some [1; 2]; pol_dev_criteria := None; pol_dep_criteria := [] |} |} ];
     dg_members := [1%nat] |}.
Definition p_pkg : pkg_store :=
  {| ps_imported := [[ {| au_kind := KFull 1; au_crit := [1; 2]; au_importable := true; au_fresh := true |} ]];
     ps_local := [ {| au_kind := KFull 1; au_crit := [2]; au_importable := false; au_fresh := false |} ];
     ps_wild_imported := [[]]; ps_wild_local := []; ps_trusted := []; ps_publishers := [];
     ps_unpublished := []; ps_exemptions := [] |}.
Definition p_store : store := {| st_criteria := p_table; st_pkgs := [(0, p_pkg); (1, empty_pkg_store)] |}.

(* the store of corpus/C13/F-C13-regen-narrow.json as the harness interned it (generated text) *)
Definition r_graph : depgraph_in := (Build_depgraph_in [(Build_pkg 0%N 2%N false [(Build_dep 1%nat true false false); (Build_dep 4%nat true false false); (Build_dep 2%nat false true false)] (Some (Build_policy None None []))); (Build_pkg 1%N 2%N false [(Build_dep 2%nat false true false)] (Some (Build_policy (Some [3%N]) None [(3%N, [3%N; 2%N])]))); (Build_pkg 3%N 3%N true [] (Some (Build_policy (Some [3%N; 0%N; 2%N]) None []))); (Build_pkg 3%N 5%N true [(Build_dep 4%nat true false false); (Build_dep 1%nat true true false)] (Some (Build_policy (Some [3%N; 0%N; 2%N]) None []))); (Build_pkg 4%N 5%N true [(Build_dep 2%nat false true false)] None); (Build_pkg 5%N 0%N false [(Build_dep 0%nat false true false); (Build_dep 3%nat true true false); (Build_dep 1%nat true false false)] None)] [5%nat]).
Definition r_store : store := (Build_store [[]; [1%N]] [(0%N, (Build_pkg_store [[(Build_audit (KFull 2%N) [1%N] true true); (Build_audit (KDelta 1%N 2%N) [1%N] true false); (Build_audit (KFull 3%N) [0%N] true true)]; []] [(Build_audit (KFull 2%N) [1%N; 3%N] false false); (Build_audit (KDelta 4%N 2%N) [0%N; 3%N] true false); (Build_audit (KDelta 5%N 2%N) [3%N; 2%N; 1%N; 1%N] true false)] [[]; []] [] [] [] [] [(Build_exemption 0%N [3%N; 0%N] true); (Build_exemption 0%N [1%N] true)])); (1%N, (Build_pkg_store [[(Build_audit (KFull 1%N) [1%N] true false)]; [(Build_audit (KDelta 4%N 2%N) [1%N] true false)]] [] [[(Build_wildcard 2%N (738156)%Z (738885)%Z [0%N] false); (Build_wildcard 3%N (738521)%Z (738672)%Z [1%N] false)]; []] [] [] [] [] [])); (2%N, (Build_pkg_store [[]; []] [(Build_audit (KDelta 0%N 3%N) [1%N] false false); (Build_audit (KDelta 4%N 5%N) [0%N] false false)] [[]; []] [] [] [] [] [])); (3%N, (Build_pkg_store [[]; [(Build_audit (KDelta 3%N 5%N) [1%N] true false)]] [(Build_audit (KDelta 3%N 1%N) [0%N; 0%N] false false); (Build_audit (KDelta 3%N 5%N) [0%N; 1%N; 2%N] true false); (Build_audit (KDelta 4%N 0%N) [0%N; 1%N; 3%N; 1%N] true false); (Build_audit (KDelta 5%N 3%N) [1%N] false false)] [[]; [(Build_wildcard 3%N (738321)%Z (738885)%Z [1%N] false); (Build_wildcard 2%N (737942)%Z (738321)%Z [0%N] false)]] [] [] [(Build_publisher 0%N 2%N (738157)%Z false); (Build_publisher 5%N 3%N (738520)%Z true)] [] [(Build_exemption 5%N [1%N; 1%N] true)])); (4%N, (Build_pkg_store [[]; []] [] [[]; [(Build_wildcard 3%N (737942)%Z (738521)%Z [1%N] true)]] [] [] [(Build_publisher 4%N 1%N (737942)%Z true)] [] [])); (5%N, (Build_pkg_store [[(Build_audit (KFull 1%N) [0%N] true true); (Build_audit (KDelta 3%N 0%N) [1%N] true true); (Build_audit (KFull 0%N) [0%N] true true); (Build_audit (KDelta 1%N 0%N) [1%N] true true)]; [(Build_audit (KDelta 5%N 0%N) [1%N] true true); (Build_audit (KDelta 1%N 0%N) [1%N] true false); (Build_audit (KFull 5%N) [0%N] true true); (Build_audit (KFull 0%N) [1%N] true false)]] [(Build_audit (KFull 5%N) [1%N; 2%N; 1%N] true false); (Build_audit (KDelta 5%N 0%N) [3%N; 2%N] true false)] [[]; []] [] [] [] [(Build_unpublished 0%N 3%N false false)] []))]).

(* ---- C16 / C07 witness: "a" is certified only by combining two peers (peer 0 serves the full audit of
   version 0, peer 1 the delta 0 -> 2); "b" as before ---- *)
Definition w_store_a_two_peers : pkg_store :=
  {| ps_imported := [ [ {| au_kind := KFull 0; au_crit := [1]; au_importable := true; au_fresh := false |} ];
                      [ {| au_kind := KDelta 0 2; au_crit := [1]; au_importable := true; au_fresh := true |} ] ];
     ps_local := []; ps_wild_imported := [[]; []]; ps_wild_local := []; ps_trusted := []; ps_publishers := [];
     ps_unpublished := []; ps_exemptions := [] |}.
Definition w_store_two_peers : store := {| st_criteria := w_table; st_pkgs := [(0, w_store_a_two_peers); (1, w_store_b)] |}.
