(* Witness.v — small concrete inputs used by the non-vacuity Examples that sit
   beside the property theorems.  Graph: workspace root 0 -> third-party "a"
   (name 0, version rank 2), "b" (name 1, version 1).  Criteria: one custom
   criterion 2 implying safe-to-deploy. *)
Require Import Base Extracted Criteria Search AuditGraph DepGraph Resolve.
Local Open Scope N_scope.

Definition w_table : ctable := [[1]].

Definition w_graph : depgraph_in :=
  {| dg_pkgs :=
       [ {| pk_name := 0; pk_version := 2; pk_third_party := true; pk_deps := []; pk_policy := None |};
         {| pk_name := 1; pk_version := 1; pk_third_party := true; pk_deps := []; pk_policy := None |};
         {| pk_name := 2; pk_version := 0; pk_third_party := false;
            pk_deps := [ {| d_to := 0; d_normal := true; d_build := false; d_dev := false |};
                         {| d_to := 1; d_normal := false; d_build := false; d_dev := true |} ];
            pk_policy := None |} ];
     dg_members := [2%nat] |}.

(* "a": full audit of version 0 for the custom criterion, delta 0 -> 2 for
   safe-to-deploy, plus an exemption for version 2 (unused: the audits suffice).
   "b": a wildcard audit by user 7 covering the day version 1 was published. *)
Definition w_store_a : pkg_store :=
  {| ps_imported := [];
     ps_local := [ {| au_kind := KFull 0; au_crit := [2]; au_importable := true; au_fresh := false |};
                   {| au_kind := KDelta 0 2; au_crit := [1]; au_importable := true; au_fresh := false |} ];
     ps_wild_imported := []; ps_wild_local := []; ps_trusted := []; ps_publishers := [];
     ps_unpublished := [];
     ps_exemptions := [ {| x_ver := 2; x_crit := [1]; x_suggest := true |} ] |}.
Definition w_store_b : pkg_store :=
  {| ps_imported := []; ps_local := [];
     ps_wild_imported := [];
     ps_wild_local := [ {| w_user := 7; w_start := 100; w_end := 200; w_crit := [0]; w_fresh := false |} ];
     ps_trusted := [];
     ps_publishers := [ {| p_ver := 1; p_user := 7; p_when := 150; p_fresh := false |};
                        {| p_ver := 3; p_user := 8; p_when := 150; p_fresh := false |} ];
     ps_unpublished := []; ps_exemptions := [] |}.
Definition w_store : store := {| st_criteria := w_table; st_pkgs := [(0, w_store_a); (1, w_store_b)] |}.

(* the same store without the delta audit: "a" now needs its exemption *)
Definition w_store_a_exempted : pkg_store :=
  {| ps_imported := [];
     ps_local := [ {| au_kind := KFull 0; au_crit := [2]; au_importable := true; au_fresh := false |} ];
     ps_wild_imported := []; ps_wild_local := []; ps_trusted := []; ps_publishers := [];
     ps_unpublished := [];
     ps_exemptions := [ {| x_ver := 2; x_crit := [1]; x_suggest := true |} ] |}.
Definition w_store_exempted : store :=
  {| st_criteria := w_table; st_pkgs := [(0, w_store_a_exempted); (1, w_store_b)] |}.

(* and with nothing for "a": a failure *)
Definition w_store_failing : store :=
  {| st_criteria := w_table; st_pkgs := [(0, empty_pkg_store); (1, w_store_b)] |}.
