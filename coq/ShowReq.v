(* ShowReq.v — the executable side conditions of the C03 theorems, evaluated on each case *)
Require Import Base Extracted Criteria DepGraph Show.
From Coq Require Import String.
Local Open Scope string_scope.
Definition sreq_ok (inp : depgraph_in) : string :=
  let g := depgraph_new inp in
  (if topo_ok g then "(topo_ok)" else "(topo_bad)") ++ (if roots_ok g then "(roots_ok)" else "(roots_bad)").
