Require Import Base Extracted Show Imports Aggregate.
From Coq Require Import String.
Local Open Scope string_scope.
Definition sfrom (l : list N) : string := sp "from" (map sN l).
Definition sentry (e : agg_entry) : string := sp "e" [sN (ae_id e); sfrom (ae_from e)].
Definition scrit (c : agg_crit) : string :=
  sp "c" [sN (ac_name c); soptN (ac_desc c); soptN (ac_url c); sp "implies" (map sN (ac_implies c)); sfrom (ac_from c)].
Definition stable (m : list (N * list agg_entry)) : list string :=
  map (fun '(n, l) => sp "p" (sN n :: map sentry l)) m.
Definition serr (e : agg_error) : string :=
  match e with DescriptionMismatch n => sp "desc" [sN n] | ImpliesMismatch n => sp "implies" [sN n] end.
Definition sagg (r : agg_file * list agg_error) : string :=
  match snd r with
  | [] => sp "agg" [sp "ok" [sp "criteria" (map scrit (af_criteria (fst r))); sp "audits" (stable (af_audits (fst r)));
                            sp "wild" (stable (af_wild (fst r))); sp "trusted" (stable (af_trusted (fst r)))]]
  | errs => sp "agg" [sp "err" (map serr errs)]
  end.
