(* ShowUnpack.v — the unpack model run on a concrete archive and starting tree, rendered for the
   comparison with the tree the real Cache::fetch_package leaves (files below cache/src only). *)
Require Import Base Extracted Unpack Show.
From Coq Require Import String.
Local Open Scope string_scope.

Definition sfile (x : fpath * N) : string := sp "f" [sp "p" (map sN (fst x)); sN (snd x)].
(* [fetch] with the whole archive (no cut), from the tree [f] *)
Definition show_fetch (prefix : N) (ar : archive) (f : fs) : string :=
  let r := fetch prefix ar None f in
  sp "fetch" [sp "handed_out" [sbool (fetch_is_ok prefix r)]; sp "files" (map sfile r)].
