(* Imports.v — model of storage.rs go_online: fetch_single_imported_audit
   (exclude, criteria-map rewriting), multi-URL aggregation of the sources,
   process_imported_audits / update_import_freshness, import_unpublished_entries
   and import_publisher_versions.  A peer file is given after cargo-vet's own
   tolerant per-entry parsing (foreign_audit_file_to_local), with criteria
   interned in the PEER's namespace (0/1 built-ins, then the peer's own table). *)
Require Import Base Extracted Criteria Search AuditGraph Update.
Local Open Scope N_scope.

Record peer_file := {
  pf_table : ctable;                         (* the peer's own criteria table *)
  pf_audits : list (N * list audit);         (* crate name -> audits (peer criteria indices) *)
  pf_wild : list (N * list wildcard)
}.

(* criteria-map: peer criterion index -> local criteria list *)
Definition cmap := list (N * list N).

(* foreign_to_local_mapping (storage.rs:1059-1074): the map is consulted BEFORE the
   built-in rule, so built-ins can be overridden *)
Definition map_one (lt : ctable) (cm : cmap) (f : N) : cset :=
  match find (fun '(k, _) => N.eqb k f) cm with
  | Some (_, l) => from_list lt l
  | None => if N.eqb f SAFE_TO_DEPLOY_IDX then from_list lt [SAFE_TO_DEPLOY_IDX]
            else if N.eqb f SAFE_TO_RUN_IDX then from_list lt [SAFE_TO_RUN_IDX]
            else cs_empty
  end.

Definition local_set (lt ft : ctable) (cm : cmap) (crit : list N) : cset :=
  fold_left (fun s f => cs_union s (map_one lt cm f)) (cs_indices (ct_len ft) (from_list ft crit)) cs_empty.

(* make_criteria_local *)
Definition localise (lt ft : ctable) (cm : cmap) (crit : list N) : list N :=
  names_of lt (local_set lt ft cm crit).

Definition import_audit lt ft cm (a : audit) : audit :=
  {| au_kind := au_kind a; au_crit := localise lt ft cm (au_crit a); au_importable := au_importable a; au_fresh := true |}.
Definition import_wild lt ft cm (w : wildcard) : wildcard :=
  {| w_user := w_user w; w_start := w_start w; w_end := w_end w; w_crit := localise lt ft cm (w_crit w); w_fresh := true |}.

Definition mem_N (x : N) (l : list N) : bool := existsb (N.eqb x) l.

(* fetch_single_imported_audit: excluded crates lose their `audits` entries (incl.
   violations); whether their wildcard audits go too is read from the source *)
Definition import_source (lt : ctable) (cm : cmap) (exclude : list N) (pf : peer_file)
  : list (N * list audit) * list (N * list wildcard) :=
  (map (fun '(n, l) => (n, map (import_audit lt (pf_table pf) cm) l))
       (filter (fun '(n, _) => negb (mem_N n exclude)) (pf_audits pf)),
   map (fun '(n, l) => (n, map (import_wild lt (pf_table pf) cm) l))
       (filter (fun '(n, _) => negb (mem_N n exclude) || EXCLUDE_KEEPS_WILDCARDS) (pf_wild pf))).

(* do_aggregate_audits on the entry tables: per crate, the concatenation over
   the sources in order *)
Fixpoint assoc_append {A} (m : list (N * list A)) (k : N) (v : list A) : list (N * list A) :=
  match m with
  | [] => [(k, v)]
  | (k', v') :: r => if N.eqb k k' then (k', v' ++ v) :: r else (k', v') :: assoc_append r k v
  end.
Definition merge_tables {A} (ms : list (list (N * list A))) : list (N * list A) :=
  fold_left (fun acc m => fold_left (fun acc '(k, v) => assoc_append acc k v) m acc) ms [].

(* each source comes with the criteria-map re-keyed to that source's own criteria
   indices (the map is keyed by peer criterion NAME in config.toml) *)
Definition import_peer (lt : ctable) (exclude : list N) (sources : list (cmap * peer_file))
  : list (N * list audit) * list (N * list wildcard) :=
  match sources with
  | [(cm, pf)] => import_source lt cm exclude pf
  | _ => let rs := map (fun '(cm, pf) => import_source lt cm exclude pf) sources in
         (merge_tables (map fst rs), merge_tables (map snd rs))
  end.

(* ---- update_import_freshness ---- *)
Fixpoint list_eqb (a b : list N) : bool :=
  match a, b with
  | [], [] => true
  | x :: a', y :: b' => N.eqb x y && list_eqb a' b'
  | _, _ => false
  end.
Definition kind_eqb (a b : akind) : bool :=
  match a, b with
  | KFull x, KFull y => N.eqb x y
  | KDelta a1 a2, KDelta b1 b2 => N.eqb a1 b1 && N.eqb a2 b2
  | KViolation x, KViolation y => list_eqb x y   (* same universe => same VersionReq up to matching; see harness *)
  | _, _ => false
  end.
Definition same_audit (a b : audit) : bool := kind_eqb (au_kind a) (au_kind b) && list_eqb (au_crit a) (au_crit b).
Definition same_wild (a b : wildcard) : bool :=
  N.eqb (w_user a) (w_user b) && Z.eqb (w_start a) (w_start b) && Z.eqb (w_end a) (w_end b) && list_eqb (w_crit a) (w_crit b).

Definition stale_audit (a : audit) : audit :=
  {| au_kind := au_kind a; au_crit := au_crit a; au_importable := au_importable a; au_fresh := false |}.
Definition stale_wild (w : wildcard) : wildcard :=
  {| w_user := w_user w; w_start := w_start w; w_end := w_end w; w_crit := w_crit w; w_fresh := false |}.

(* mark the FIRST still-fresh new entry equal to [e] as not fresh *)
Fixpoint mark_first {A} (fresh : A -> bool) (same : A -> bool) (stale : A -> A) (news : list A) : list A :=
  match news with
  | [] => []
  | x :: r => if fresh x && same x then stale x :: r else x :: mark_first fresh same stale r
  end.
Definition freshen_audits (existing news : list audit) : list audit :=
  fold_left (fun news e => mark_first au_fresh (fun x => same_audit x e) stale_audit news) existing news.
Definition freshen_wilds (existing news : list wildcard) : list wildcard :=
  fold_left (fun news e => mark_first w_fresh (fun x => same_wild x e) stale_wild news) existing news.

Definition assoc_get {A} (m : list (N * list A)) (k : N) : list A :=
  match find (fun '(k', _) => N.eqb k' k) m with Some (_, v) => v | None => [] end.

Definition freshen_peer (lock_audits : list (N * list audit)) (lock_wild : list (N * list wildcard))
           (live : list (N * list audit) * list (N * list wildcard))
  : list (N * list audit) * list (N * list wildcard) :=
  (map (fun '(n, l) => (n, freshen_audits (assoc_get lock_audits n) l)) (fst live),
   map (fun '(n, l) => (n, freshen_wilds (assoc_get lock_wild n) l)) (snd live)).

(* ---- import_publisher_versions ---- *)
Record reg_version := { rv_ver : N; rv_by : option N; rv_when : Z; rv_known_user : bool }.

Definition live_publishers (lock : list publisher) (reg : list reg_version) : list publisher :=
  flat_map (fun r =>
    match rv_by r with
    | Some u => if rv_known_user r
                then [ {| p_ver := rv_ver r; p_user := u; p_when := rv_when r;
                          p_fresh := negb (existsb (fun p => N.eqb (p_ver p) (rv_ver r)) lock) |} ]
                else []
    | None => []
    end) reg.

(* ---- import_unpublished_entries: the version an unpublished one is audited as ---- *)
(* versions are ranks of one universe, so <= on semver is <= on ranks; [plain]
   lists the ranks of the registry's published versions of the crate *)
Definition max_below (v : N) (published : list N) : option N :=
  fold_left (fun best p => if N.leb p v then match best with Some b => Some (N.max b p) | None => Some p end else best)
            published None.
Definition min_above (v : N) (published : list N) : option N :=
  fold_left (fun best p => if N.ltb v p then match best with Some b => Some (N.min b p) | None => Some p end else best)
            published None.
Definition audited_as (v : N) (published : list N) : option N :=
  match max_below v published with Some b => Some b | None => min_above v published end.

Definition live_unpublished (lock : list unpublished) (v : N) (published : list N) : list unpublished :=
  match audited_as v published with
  | None => lock                      (* `expect("There must be at least one version")` panics; see C15 *)
  | Some a =>
      if N.eqb a v then lock
      else map (fun u => if N.eqb (u_ver u) v
                         then {| u_ver := u_ver u; u_as := u_as u; u_fresh := u_fresh u; u_still := true |} else u) lock
           ++ [ {| u_ver := v; u_as := a; u_fresh := true; u_still := true |} ]
  end.

(* ---- go_online, assembled ---- *)
Record import_cfg := {
  ic_exclude : list N;
  ic_sources : list (cmap * peer_file);        (* one per URL, in order *)
  ic_lock_audits : list (N * list audit);      (* imports.lock audits of this import *)
  ic_lock_wild : list (N * list wildcard)
}.

Record crate_info := {
  ci_name : N;
  ci_third_party_in_graph : bool;     (* some package of this name in the metadata is third party *)
  ci_local_wildcard : bool;           (* store.audits.wildcard_audits has the key *)
  ci_trusted : bool;                  (* store.audits.trusted has the key *)
  ci_lock_publishers : option (list publisher);   (* imports.lock publisher[name] *)
  ci_registry : list reg_version;     (* crates.io versions of this crate *)
  ci_lock_unpublished : list unpublished;
  ci_audit_as : list N                (* versions of non-git first-party packages forced audit-as-crates-io *)
}.

Record live := {
  lv_imports : list (list (N * list audit) * list (N * list wildcard));
  lv_publishers : list (N * list publisher);
  lv_unpublished : list (N * list unpublished)
}.

Definition has_key {A} (m : list (N * list A)) (k : N) : bool := existsb (fun '(k', _) => N.eqb k' k) m.

Definition go_online (lt : ctable) (imports : list import_cfg) (crates : list crate_info) : live :=
  let live_imports :=
    map (fun ic => freshen_peer (ic_lock_audits ic) (ic_lock_wild ic)
                     (import_peer lt (ic_exclude ic) (ic_sources ic))) imports in
  let relevant (c : crate_info) : bool :=
    (* wildcard_audits_packages(&audits, &live_imports): local wildcard audits, live imported
       wildcard audits, local trusted entries; the `publisher` table it also consults is the
       (still empty) live one, so cached publisher records alone do not make a crate relevant *)
    ci_local_wildcard c || existsb (fun li => has_key (snd li) (ci_name c)) live_imports || ci_trusted c in
  {| lv_imports := live_imports;
     lv_publishers :=
       flat_map (fun c => if relevant c && ci_third_party_in_graph c
                          then [(ci_name c, live_publishers (match ci_lock_publishers c with Some l => l | None => [] end)
                                                            (ci_registry c))]
                          else []) crates;
     lv_unpublished :=
       flat_map (fun c =>
         let published := map rv_ver (ci_registry c) in
         let l := fold_left (fun acc v => live_unpublished acc v published) (ci_audit_as c) (ci_lock_unpublished c) in
         match l with [] => [] | _ => [(ci_name c, l)] end) crates |}.
