(* Unpack.v — model of storage.rs unpack_package / fetch_is_ok / the retry in
   fetch_package over a small file-system model.  Paths are component lists;
   the archive library's `unpack_in` is SPECIFIED (entries with a `..` component are
   skipped, nothing is written outside the destination), not verified. *)
Require Import Base Extracted.
Local Open Scope N_scope.

Inductive comp := CNormal (n : N) | CParent.

(* what the tar header says the entry is: a regular file, a directory, or a symlink / hard link *)
Inductive ekind := EFile | EDir | ELink.

(* [en_absolute]: the raw path starts with a root or drive prefix *)
Record entry := { en_absolute : bool; en_path : list comp; en_kind : ekind; en_content : N }.
Definition archive := list entry.

(* the file system below the unpack PARENT directory (cache/src): paths -> content *)
Definition fpath := list N.
Definition fs := list (fpath * N).
Fixpoint path_eqb (a b : fpath) : bool :=
  match a, b with [], [] => true | x :: a', y :: b' => N.eqb x y && path_eqb a' b' | _, _ => false end.
Definition fs_get (f : fs) (p : fpath) : option N :=
  match find (fun '(q, _) => path_eqb q p) f with Some (_, c) => Some c | None => None end.
Definition fs_put (f : fs) (p : fpath) (c : N) : fs := (p, c) :: filter (fun '(q, _) => negb (path_eqb q p)) f.
Definition under (prefix : N) (p : fpath) : bool := match p with x :: _ => N.eqb x prefix | [] => false end.
Definition fs_remove_dir (f : fs) (prefix : N) : fs := filter (fun '(q, _) => negb (under prefix q)) f.

Definition MARKER : N := 0.        (* the file name `.cargo-ok` *)
Definition OK : N := 1.            (* its body "ok" *)

Definition last_comp (l : list comp) : option comp := match rev l with [] => None | x :: _ => Some x end.
Definition is_marker_entry (e : entry) : bool :=
  match last_comp (en_path e) with Some (CNormal n) => N.eqb n MARKER | _ => false end.
Definition is_link_entry (e : entry) : bool := match en_kind e with ELink => true | _ => false end.
Definition has_parent (l : list comp) : bool := existsb (fun c => match c with CParent => true | _ => false end) l.
Definition starts_with_prefix (prefix : N) (l : list comp) : bool :=
  match l with CNormal n :: _ => N.eqb n prefix | _ => false end.
Definition entry_ok (prefix : N) (e : entry) : bool := negb (en_absolute e) && starts_with_prefix prefix (en_path e).
Fixpoint normals (l : list comp) : fpath :=
  match l with [] => [] | CNormal n :: r => n :: normals r | _ :: r => normals r end.

Inductive status := Running | Failed.

(* one archive entry *)
Definition unpack_step (prefix : N) (st : fs * status) (e : entry) : fs * status :=
  match snd st with
  | Failed => st
  | Running =>
      if negb (entry_ok prefix e) then (fst st, Failed)                              (* UnpackError::InvalidPaths *)
      else if UNPACK_SKIPS_LINK_ENTRIES && is_link_entry e then st                     (* `continue` *)
      else if UNPACK_SKIPS_MARKER_ENTRIES && is_marker_entry e then st                 (* `continue` *)
      else if has_parent (en_path e) then st                                            (* unpack_in skips `..` *)
      else match en_kind e with
           | EFile => (fs_put (fst st) (normals (en_path e)) (en_content e), Running)
           | _ => st       (* a directory holds no content; a link that IS unpacked is outside this model (C19_links_are_not_unpacked) *)
           end
  end.

(* unpack_package, cut short after [k] entries when k <= length (a crash, a
   truncated stream or an entry error); [None] = runs to the end *)
Definition unpack (prefix : N) (ar : archive) (cut : option nat) (f : fs) : fs :=
  let f0 := fs_remove_dir f prefix in
  match cut with
  | Some k => fst (fold_left (unpack_step prefix) (firstn k ar) (f0, Running))
  | None =>
      let '(f1, st) := fold_left (unpack_step prefix) ar (f0, Running) in
      match st with
      | Running => fs_put f1 [prefix; MARKER] OK        (* create_unpack_lock *)
      | Failed => f1
      end
  end.

(* fetch_is_ok *)
Definition fetch_is_ok (prefix : N) (f : fs) : bool :=
  match fs_get f [prefix; MARKER] with Some c => N.eqb c OK | None => false end.

(* fetch_package: use the directory if the marker says so, else unpack again *)
Definition fetch (prefix : N) (ar : archive) (cut : option nat) (f : fs) : fs :=
  if fetch_is_ok prefix f then f else unpack prefix ar cut f.
