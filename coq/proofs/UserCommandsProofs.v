(* UserCommandsProofs.v — `trust` changes exactly one trusted entry, and that entry is the request (C11). *)
Require Import Base Extracted Criteria Search AuditGraph Update Imports UserCommands.
Require Import CriteriaProofs UpdateProofs ImportsProofs EmbedProofs.
Local Open Scope N_scope.

Lemma trust_match_spec uid s e crit hn x : trust_match uid s e crit hn x = true ->
  t_crit x = crit /\ t_user x = uid /\ (s <= t_start x)%Z /\ (t_end x <= e)%Z /\ hn = false.
Proof.
  unfold trust_match. intros H. repeat (apply andb_prop in H; destruct H as [H ?]).
  apply list_eqb_eq in H. apply N.eqb_eq in H3. apply Z.leb_le in H2, H1. apply negb_true_iff in H0. auto.
Qed.

Lemma trust_update_some uid s e crit hn l l' : trust_update uid s e crit hn l = Some l' ->
  exists l1 old l2, l = l1 ++ old :: l2 /\ l' = l1 ++ widened s e old :: l2 /\
    t_crit old = crit /\ t_user old = uid /\ (s <= t_start old)%Z /\ (t_end old <= e)%Z /\ hn = false.
Proof.
  revert l'; induction l as [|x r IH]; intros l' H; cbn [trust_update] in H; [discriminate|].
  destruct (trust_match uid s e crit hn x) eqn:M.
  - inversion H; subst l'. apply trust_match_spec in M. exists [], x, r. cbn. tauto.
  - destruct (trust_update uid s e crit hn r) as [r'|]; [|discriminate]. inversion H; subst l'.
    destruct (IH r' eq_refl) as [l1 [old [l2 [E1 [E2 R]]]]]. exists (x :: l1), old, l2. cbn. rewrite E1, E2. tauto.
Qed.

(* the trusted entries of the crate after `trust`: either one new entry for exactly the request was appended, or
   ONE existing entry of the same publisher and the same criteria, whose window lay inside the requested one, had
   its window replaced by the requested one; every other entry is where and what it was *)
Theorem trust_changes_one_entry t uid s e request hn l :
  let crit := picked_criteria t request in
  let nw := {| t_user := uid; t_start := s; t_end := e; t_crit := crit |} in
  trust_add t uid s e request hn l = l ++ [nw] \/
  exists l1 old l2, l = l1 ++ old :: l2 /\ trust_add t uid s e request hn l = l1 ++ nw :: l2 /\
    t_crit old = crit /\ t_user old = uid /\ (s <= t_start old)%Z /\ (t_end old <= e)%Z.
Proof.
  intros crit nw. unfold trust_add. fold crit. destruct (trust_update uid s e crit hn l) as [l'|] eqn:E; [right|left; reflexivity].
  destruct (trust_update_some _ _ _ _ _ _ _ E) as [l1 [old [l2 [E1 [E2 [Hc [Hu [Hs [He _]]]]]]]]].
  exists l1, old, l2. repeat split; auto. rewrite E2. f_equal. f_equal. unfold widened, nw. rewrite Hc, Hu. reflexivity.
Qed.

(* the criteria written mean exactly what was asked for *)
Theorem picked_criteria_mean_the_request t request :
  ct_acyclic t = true -> (forall c, In c request -> c < N.of_nat (ct_len t)) ->
  from_list t (picked_criteria t request) = from_list t request.
Proof.
  intros Ha Hb. unfold picked_criteria, names_of.
  apply (minimal_generates t (ct_acyclic_spec t Ha)); [apply from_list_bounded; exact Hb|apply from_list_is_closed].
Qed.
