(* RewritePolicy.v — C05 for the POLICY table: rewriting every criteria list written in a policy
   (criteria, dev-criteria, dependency-criteria) to a list with the same meaning changes nothing the
   resolver computes: same requirement vector, same per-package outcomes, same conclusion. *)
Require Import Base Extracted Criteria Search AuditGraph DepGraph Resolve.
Require Import CriteriaProofs RewriteProofs.
Local Open Scope N_scope.

Lemma fold_left_ext' {A B} (f g : A -> B -> A) l : (forall a x, f a x = g a x) -> forall a, fold_left f l a = fold_left g l a.
Proof. intros H. induction l as [|x l IH]; intros a; cbn; [reflexivity|]. rewrite H. apply IH. Qed.
Lemma fold_left_map' {A B C} (f : A -> C -> A) (h : B -> C) l : forall a, fold_left f (map h l) a = fold_left (fun a x => f a (h x)) l a.
Proof. induction l as [|x l IH]; intros a; cbn; [reflexivity|]. apply IH. Qed.

Section RewritePolicy.
Variable t : ctable.
Variable rw : list N -> list N.
Hypothesis rw_same : forall l, from_list t (rw l) = from_list t l.

Definition rw_policy (p : policy) : policy :=
  {| pol_criteria := option_map rw (pol_criteria p);
     pol_dev_criteria := option_map rw (pol_dev_criteria p);
     pol_dep_criteria := map (fun '(n, l) => (n, rw l)) (pol_dep_criteria p) |}.
Definition rw_pk (p : pkg) : pkg :=
  {| pk_name := pk_name p; pk_version := pk_version p; pk_third_party := pk_third_party p; pk_deps := pk_deps p;
     pk_policy := option_map rw_policy (pk_policy p) |}.
Definition rw_inp (inp : depgraph_in) : depgraph_in :=
  {| dg_pkgs := map rw_pk (dg_pkgs inp); dg_members := dg_members inp |}.
Definition rw_graph (g : depgraph) : depgraph :=
  {| g_pkgs := map rw_pk (g_pkgs g); g_topo := g_topo g; g_member := g_member g; g_root := g_root g;
     g_dev_only := g_dev_only g; g_dev_deps := g_dev_deps g |}.

Lemma get_pkg_rw ps i : get_pkg (map rw_pk ps) i = rw_pk (get_pkg ps i).
Proof. unfold get_pkg. change dummy_pkg with (rw_pk dummy_pkg) at 1. apply map_nth. Qed.

Lemma visit_rw ps : forall fuel st i, visit fuel (map rw_pk ps) st i = visit fuel ps st i.
Proof.
  induction fuel as [|f IH]; intros st i; cbn [visit]; [reflexivity|].
  destruct (nth i (df_visited st) true); [reflexivity|].
  rewrite get_pkg_rw. change (nb_deps (rw_pk (get_pkg ps i))) with (nb_deps (get_pkg ps i)).
  match goal with |- ?L = ?R =>
    match L with context [fold_left ?F1 ?l ?a] =>
      match R with context [fold_left ?F2 l a] =>
        replace (fold_left F1 l a) with (fold_left F2 l a);
          [reflexivity|apply fold_left_ext'; intros s child; cbv zeta; rewrite IH; reflexivity]
      end end end.
Qed.

Lemma depgraph_new_rw inp : depgraph_new (rw_inp inp) = rw_graph (depgraph_new inp).
Proof.
  unfold depgraph_new, rw_inp, rw_graph. cbn [dg_pkgs dg_members g_pkgs g_topo g_member g_root g_dev_only g_dev_deps].
  rewrite map_length.
  set (ps := dg_pkgs inp). set (n := length ps).
  set (init := {| df_visited := repeat false n; df_topo := []; df_rev := repeat false n |}).
  assert (E1 : fold_left (fun s m => visit (S n) (map rw_pk ps) s m) (dg_members inp) init
             = fold_left (fun s m => visit (S n) ps s m) (dg_members inp) init).
  { apply fold_left_ext'. intros s m. apply visit_rw. }
  rewrite E1. set (st1 := fold_left (fun s m => visit (S n) ps s m) (dg_members inp) init).
  assert (E2 : forall s0,
     fold_left (fun s m => fold_left (fun s child =>
                   let s' := visit (S n) (map rw_pk ps) s child in
                   {| df_visited := df_visited s'; df_topo := df_topo s'; df_rev := mark (df_rev s') child |})
                  (dev_deps_of (get_pkg (map rw_pk ps) m)) s) (dg_members inp) s0
   = fold_left (fun s m => fold_left (fun s child =>
                   let s' := visit (S n) ps s child in
                   {| df_visited := df_visited s'; df_topo := df_topo s'; df_rev := mark (df_rev s') child |})
                  (dev_deps_of (get_pkg ps m)) s) (dg_members inp) s0).
  { apply fold_left_ext'. intros s m. rewrite get_pkg_rw. change (dev_deps_of (rw_pk (get_pkg ps m))) with (dev_deps_of (get_pkg ps m)).
    apply fold_left_ext'. intros s' child. cbv zeta. rewrite visit_rw. reflexivity. }
  rewrite E2.
  assert (E3 : forall a0, fold_left (fun acc m => update acc m (fun _ => dev_deps_of (get_pkg (map rw_pk ps) m))) (dg_members inp) a0
                        = fold_left (fun acc m => update acc m (fun _ => dev_deps_of (get_pkg ps m))) (dg_members inp) a0).
  { apply fold_left_ext'. intros a m. rewrite get_pkg_rw. reflexivity. }
  rewrite E3. reflexivity.
Qed.

Lemma dep_criteria_rw p ps d : dep_criteria t (pk_policy (rw_pk p)) (map rw_pk ps) d = dep_criteria t (pk_policy p) ps d.
Proof.
  unfold dep_criteria. cbn [pk_policy rw_pk]. destruct (pk_policy p) as [pol|]; cbn [option_map]; [|reflexivity].
  rewrite get_pkg_rw. cbn [pk_name rw_pk rw_policy pol_dep_criteria].
  induction (pol_dep_criteria pol) as [|[nm l] r IH]; cbn [map find]; [reflexivity|].
  destruct (N.eqb nm (pk_name (get_pkg ps d))); [rewrite rw_same; reflexivity|exact IH].
Qed.

Lemma dev_pass_rw g reqs : dev_pass t (rw_graph g) reqs = dev_pass t g reqs.
Proof.
  unfold dev_pass. cbn [g_pkgs g_dev_deps rw_graph]. rewrite enumerate_map, fold_left_map'.
  apply fold_left_ext'. intros rq [i p]. destruct (nth i (g_dev_deps g) []) as [|d0 ds]; [reflexivity|].
  assert (Edev : match pk_policy (rw_pk p) with
                 | Some {| pol_dev_criteria := Some c |} => from_list t c
                 | _ => from_list t [DEFAULT_POLICY_DEV_CRITERIA] end
               = match pk_policy p with
                 | Some {| pol_dev_criteria := Some c |} => from_list t c
                 | _ => from_list t [DEFAULT_POLICY_DEV_CRITERIA] end).
  { cbn [pk_policy rw_pk]. destruct (pk_policy p) as [[pc pd pdc]|]; cbn [option_map rw_policy pol_dev_criteria]; [|reflexivity].
    destruct pd as [c|]; cbn [option_map]; [apply rw_same|reflexivity]. }
  rewrite Edev. apply fold_left_ext'. intros rq' d. rewrite dep_criteria_rw. reflexivity.
Qed.

Lemma main_pass_rw g reqs : main_pass t (rw_graph g) reqs = main_pass t g reqs.
Proof.
  unfold main_pass. cbn [g_pkgs g_topo g_root rw_graph].
  apply fold_left_ext'. intros rq i. rewrite get_pkg_rw. cbv zeta.
  assert (E1 : match pk_policy (rw_pk (get_pkg (g_pkgs g) i)) with
               | Some {| pol_criteria := Some c |} => update rq i (fun _ => from_list t c)
               | _ => if nth i (g_root g) false then union_at rq i (from_list t [DEFAULT_POLICY_CRITERIA]) else rq end
             = match pk_policy (get_pkg (g_pkgs g) i) with
               | Some {| pol_criteria := Some c |} => update rq i (fun _ => from_list t c)
               | _ => if nth i (g_root g) false then union_at rq i (from_list t [DEFAULT_POLICY_CRITERIA]) else rq end).
  { cbn [pk_policy rw_pk]. destruct (pk_policy (get_pkg (g_pkgs g) i)) as [[pc pd pdc]|]; cbn [option_map rw_policy pol_criteria]; [|reflexivity].
    destruct pc as [c|]; cbn [option_map]; [rewrite rw_same; reflexivity|reflexivity]. }
  rewrite E1. change (nb_deps (rw_pk (get_pkg (g_pkgs g) i))) with (nb_deps (get_pkg (g_pkgs g) i)).
  apply fold_left_ext'. intros rq' d. rewrite dep_criteria_rw. reflexivity.
Qed.

Lemma resolve_requirements_rw g : resolve_requirements t (rw_graph g) = resolve_requirements t g.
Proof.
  unfold resolve_requirements. rewrite main_pass_rw, dev_pass_rw. cbn [g_pkgs rw_graph]. rewrite map_length. reflexivity.
Qed.

(* the whole report, up to the policy lists carried inside the graph's package records *)
Theorem resolve_rw_policy inp s : st_criteria s = t ->
  r_requirements (resolve (rw_inp inp) s) = r_requirements (resolve inp s) /\
  r_outcomes (resolve (rw_inp inp) s) = r_outcomes (resolve inp s) /\
  r_conclusion (resolve (rw_inp inp) s) = r_conclusion (resolve inp s) /\
  r_graph (resolve (rw_inp inp) s) = rw_graph (r_graph (resolve inp s)).
Proof.
  intros Ht. unfold resolve. cbn [r_requirements r_outcomes r_conclusion r_graph]. rewrite Ht, depgraph_new_rw, resolve_requirements_rw.
  assert (Eo : map (fun '(i, p) => resolve_pkg t s p (nth i (resolve_requirements t (depgraph_new inp)) cs_empty))
                   (enumerate (g_pkgs (rw_graph (depgraph_new inp))))
             = map (fun '(i, p) => resolve_pkg t s p (nth i (resolve_requirements t (depgraph_new inp)) cs_empty))
                   (enumerate (g_pkgs (depgraph_new inp)))).
  { cbn [g_pkgs rw_graph]. rewrite enumerate_map, map_map. apply map_ext. intros [i p]. reflexivity. }
  rewrite Eo. repeat split.
Qed.

Corollary verdict_rw_policy inp s : st_criteria s = t -> has_errors (resolve (rw_inp inp) s) = has_errors (resolve inp s).
Proof. intros Ht. unfold has_errors. destruct (resolve_rw_policy inp s Ht) as [_ [_ [Hc _]]]. rewrite Hc. reflexivity. Qed.
End RewritePolicy.
