(* ImportCmdProofs.v — C10 for `cargo vet import` as a whole: the new peer's entries are added to every crate's
   imported lists (one more list per crate, after the existing peers), then the import clean-up runs; a passing
   store stays passing unless an entry of the new peer collides with a violation (or brings one). *)
Require Import Base Extracted Criteria Search AuditGraph DepGraph Resolve Update Imports Commands.
Require Import CriteriaProofs SearchProofs AuditGraphProofs ResolveProofs ResolveTheorems FuelProofs UpdateProofs PreserveProofs
               EndToEnd RecordSets NeverWidens.
Local Open Scope N_scope.

Definition add_peer_pkg (ps : pkg_store) (audits : list audit) (wilds : list wildcard) : pkg_store :=
  {| ps_imported := ps_imported ps ++ [audits]; ps_local := ps_local ps;
     ps_wild_imported := ps_wild_imported ps ++ [wilds]; ps_wild_local := ps_wild_local ps;
     ps_trusted := ps_trusted ps; ps_publishers := ps_publishers ps; ps_unpublished := ps_unpublished ps;
     ps_exemptions := ps_exemptions ps |}.

(* the peer serves [peer_audits name] / [peer_wilds name] for the crate called [name] (already localised) *)
Definition add_peer (s : store) (peer_audits : N -> list audit) (peer_wilds : N -> list wildcard) : store :=
  {| st_criteria := st_criteria s;
     st_pkgs := map (fun '(n, ps) => (n, add_peer_pkg ps (peer_audits n) (peer_wilds n))) (st_pkgs s) |}.

Lemma store_for_add_peer s pa pw name :
  store_for (add_peer s pa pw) name =
  match find (fun '(n, _) => N.eqb n name) (st_pkgs s) with
  | Some (n, ps) => add_peer_pkg ps (pa n) (pw n)
  | None => empty_pkg_store
  end.
Proof.
  unfold store_for, add_peer. cbn [st_pkgs]. induction (st_pkgs s) as [|[k ps] l IH]; cbn [map find]; [reflexivity|].
  destruct (N.eqb k name); [reflexivity|exact IH].
Qed.

Lemma add_peer_sub t ps a w : sub_records t ps (add_peer_pkg ps a w).
Proof.
  constructor.
  - intros x Hx. exists x. split; [|split; [reflexivity|apply sub_refl]].
    unfold audits_flat, add_peer_pkg in *. cbn [ps_imported ps_local]. rewrite concat_app. rewrite !in_app_iff in *. tauto.
  - intros x Hx. exists x. split; [|repeat split; apply sub_refl].
    unfold wilds_flat, add_peer_pkg in *. cbn [ps_wild_imported ps_wild_local]. rewrite concat_app. rewrite !in_app_iff in *. tauto.
  - intros e H. exact H.
  - intros p H. exists p. auto.
  - intros u H. exists u. auto.
  - intros x H. right. exists x. repeat split; auto. apply sub_refl.
Qed.

Theorem add_peer_preserves_vetting inp s pa pw :
  vets inp s ->
  (forall i p, pkg_at inp s i p -> pk_third_party p = true ->
     violation_conflicts (st_criteria s) (store_for (add_peer s pa pw) (pk_name p)) = []) ->
  vets inp (add_peer s pa pw).
Proof.
  intros [x [y [z Hs]]] Hnv. unfold vets. set (s' := add_peer s pa pw).
  apply (success_complete inp s' (no_fuel_always inp s')).
  intros i p Hp Ht. unfold pkg_at in Hp. change (r_graph (resolve inp s')) with (r_graph (resolve inp s)) in Hp.
  change (st_criteria s') with (st_criteria s). split; [exact (Hnv i p Hp Ht)|].
  intros c Hlt Hreq. change (required_of inp s' i) with (required_of inp s i) in Hreq.
  pose proof (success_sound inp s x y z Hs i p Hp Ht c Hlt Hreq) as Hc.
  unfold s'. rewrite store_for_add_peer. unfold certified, store_for in *.
  destruct (find (fun '(n, _) => N.eqb n (pk_name p)) (st_pkgs s)) as [[n ps]|]; [|exact Hc].
  eapply fpath_sub; [apply add_peer_sub|exact Hc].
Qed.

Lemma store_ok_add_peer inp s pa pw : store_ok inp s -> store_ok inp (add_peer s pa pw).
Proof.
  intros [A [B C]]. split; [exact A|]. split.
  - intros n x c Hx Hc. rewrite store_for_add_peer in Hx. specialize (B n x c). unfold store_for in B.
    destruct (find (fun '(n0, _) => N.eqb n0 n) (st_pkgs s)) as [[k ps]|]; [|destruct Hx]. apply B; assumption.
  - intros p Hp. specialize (C p Hp). unfold add_peer. cbn [st_pkgs]. intros F. apply C. clear C.
    induction (st_pkgs s) as [|[k ps] l IH]; [reflexivity|]. cbn [map find] in *.
    destruct (N.eqb k (pk_name p)); [discriminate|apply IH; exact F].
Qed.

Definition cmd_import (pa : N -> list audit) (pw : N -> list wildcard) (inp : depgraph_in) (s : store) : store :=
  update_store inp (add_peer s pa pw) (fun _ => mode_import).

Theorem import_preserves_vetting inp s pa pw :
  store_ok inp s -> vets inp s ->
  (forall i p, pkg_at inp s i p -> pk_third_party p = true ->
     violation_conflicts (st_criteria s) (store_for (add_peer s pa pw) (pk_name p)) = []) ->
  vets inp (cmd_import pa pw inp s).
Proof.
  intros Hok Hv Hnv. unfold cmd_import. apply import_cleanup_preserves; [apply store_ok_add_peer; exact Hok|apply add_peer_preserves_vetting; assumption].
Qed.
