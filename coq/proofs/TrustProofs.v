(* TrustProofs.v — C10 for `cargo vet trust` as a whole: the trusted entry the user asked for is added (or an
   existing one widened), then the clean-up aimed at the crate runs; a passing store stays passing. *)
Require Import Base Extracted Criteria Search AuditGraph DepGraph Resolve Update Imports Commands UserCommands.
Require Import CriteriaProofs SearchProofs AuditGraphProofs ResolveProofs ResolveTheorems FuelProofs SuggestProofs
               EndToEnd RecordSets UserCommandsProofs.
Local Open Scope N_scope.

(* a wider window keeps every grant (whatever comparison operators the source uses for the window test) *)
Lemma trusted_guard_mono u pu s e s' e' w :
  trusted_guard u pu s e w = true -> (s' <= s)%Z -> (e <= e')%Z -> trusted_guard u pu s' e' w = true.
Proof.
  unfold trusted_guard. intros H H1 H2.
  repeat match goal with H : (_ && _)%bool = true |- _ => apply andb_prop in H; destruct H end.
  repeat match goal with
         | H : N.eqb _ _ = true |- _ => apply N.eqb_eq in H
         | H : Z.leb _ _ = true |- _ => apply Z.leb_le in H
         | H : Z.ltb _ _ = true |- _ => apply Z.ltb_lt in H
         | H : Z.eqb _ _ = true |- _ => apply Z.eqb_eq in H
         end.
  repeat (apply andb_true_intro; split);
    first [apply N.eqb_eq; congruence | apply Z.leb_le; lia | apply Z.ltb_lt; lia | apply Z.eqb_eq; lia].
Qed.

Definition set_trusted (ps : pkg_store) (l : list trusted) : pkg_store :=
  {| ps_imported := ps_imported ps; ps_local := ps_local ps; ps_wild_imported := ps_wild_imported ps;
     ps_wild_local := ps_wild_local ps; ps_trusted := l; ps_publishers := ps_publishers ps;
     ps_unpublished := ps_unpublished ps; ps_exemptions := ps_exemptions ps |}.

(* every old entry has a successor with the same user and criteria and a window that contains the old one *)
Definition widens (l l' : list trusted) : Prop :=
  forall x, In x l -> exists x', In x' l' /\ t_user x' = t_user x /\ t_crit x' = t_crit x /\
                                 (t_start x' <= t_start x)%Z /\ (t_end x <= t_end x')%Z.

Lemma trust_add_widens t uid s e request hn l : widens l (trust_add t uid s e request hn l).
Proof.
  intros x Hx. destruct (trust_changes_one_entry t uid s e request hn l) as [E|[l1 [old [l2 [E1 [E2 [Hc [Hu [Hs He]]]]]]]]].
  - rewrite E. exists x. split; [apply in_or_app; left; exact Hx|]. repeat split; lia.
  - rewrite E2. rewrite E1 in Hx. apply in_app_or in Hx. cbn [In] in Hx. destruct Hx as [Hx|[<-|Hx]].
    + exists x. split; [apply in_or_app; left; exact Hx|]. repeat split; lia.
    + eexists. split; [apply in_or_app; right; left; reflexivity|]. cbn. repeat split; auto.
    + exists x. split; [apply in_or_app; right; right; exact Hx|]. repeat split; lia.
Qed.

Lemma set_trusted_edges t ps l' e : widens (ps_trusted ps) l' -> In e (all_edges t ps) ->
  exists e', In e' (all_edges t (set_trusted ps l')) /\ esim e e'.
Proof.
  intros W H. unfold all_edges in H. rewrite !in_app_iff in H.
  assert (G : forall e', (In e' (audit_edges t (set_trusted ps l')) \/ In e' (publisher_edges t (set_trusted ps l')) \/
                          In e' (unpublished_edges t (set_trusted ps l')) \/ In e' (exemption_edges t (set_trusted ps l'))) ->
                         In e' (all_edges t (set_trusted ps l'))) by (intros e' G; unfold all_edges; rewrite !in_app_iff; exact G).
  destruct H as [H|[H|[H|H]]].
  - exists e. split; [apply G; left; exact H|unfold esim; auto].
  - unfold publisher_edges in H. apply in_flat_map in H. destruct H as [[pi p] [Hp H]]. apply in_app_iff in H. destruct H as [H|H].
    + exists e. split; [|unfold esim; auto]. apply G. right. left. unfold publisher_edges. apply in_flat_map. exists (pi, p). split; [exact Hp|].
      apply in_app_iff. left. exact H.
    + apply in_flat_map in H. destruct H as [x [Hx H]].
      destruct (trusted_guard (t_user x) (p_user p) (t_start x) (t_end x) (p_when p)) eqn:Gd; [|destruct H]. destruct H as [<-|[]].
      destruct (W x Hx) as [x' [Hx' [Eu [Ec [Es Ee]]]]].
      eexists. split.
      * apply G. right. left. unfold publisher_edges. apply in_flat_map. exists (pi, p). split; [exact Hp|]. apply in_app_iff. right.
        cbn [ps_trusted set_trusted]. apply in_flat_map. exists x'. split; [exact Hx'|].
        rewrite Eu, (trusted_guard_mono _ _ _ _ _ _ _ Gd Es Ee). left. reflexivity.
      * unfold esim. cbn. rewrite Ec. auto.
  - exists e. split; [apply G; right; right; left; exact H|unfold esim; auto].
  - exists e. split; [apply G; right; right; right; exact H|unfold esim; auto].
Qed.

Lemma fpath_esim t ps1 ps2 c x y :
  (forall e, In e (all_edges t ps1) -> exists e', In e' (all_edges t ps2) /\ esim e e') ->
  fpath t ps1 c x y -> fpath t ps2 c x y.
Proof.
  intros H P. induction P as [v|e w He Hc P IH]; [constructor|].
  destruct (H e He) as [e' [He' [Ef [Et Ec]]]].
  rewrite Ef. eapply fp_cons; [exact He'|rewrite <- Ec; exact Hc|rewrite <- Et; exact IH].
Qed.

(* ---- the store after the user's entry ---- *)
Definition trust_store (s : store) (name uid : N) (st en : Z) (request : list N) (hn : bool) : store :=
  let upd ps := set_trusted ps (trust_add (st_criteria s) uid st en request hn (ps_trusted ps)) in
  {| st_criteria := st_criteria s;
     st_pkgs := if existsb (fun '(n, _) => N.eqb n name) (st_pkgs s)
                then map (fun '(n, ps) => if N.eqb n name then (n, upd ps) else (n, ps)) (st_pkgs s)
                else (name, upd empty_pkg_store) :: st_pkgs s |}.

Lemma store_for_trust s name uid st en request hn other :
  store_for (trust_store s name uid st en request hn) other =
  if N.eqb other name
  then set_trusted (store_for s name) (trust_add (st_criteria s) uid st en request hn (ps_trusted (store_for s name)))
  else store_for s other.
Proof.
  unfold store_for, trust_store. cbn [st_pkgs]. destruct (N.eqb_spec other name) as [->|Hne].
  - destruct (existsb _ (st_pkgs s)) eqn:E.
    + induction (st_pkgs s) as [|[k ps] l IH]; [discriminate|]. cbn [map find existsb] in *.
      destruct (N.eqb k name) eqn:K; cbn [find]; rewrite K; [reflexivity|]. apply IH. exact E.
    + cbn [find]. rewrite N.eqb_refl.
      assert (F : find (fun '(n, _) => N.eqb n name) (st_pkgs s) = None).
      { induction (st_pkgs s) as [|[k ps] l IH]; [reflexivity|]. cbn [existsb find] in *.
        destruct (N.eqb k name); [discriminate|]. apply IH. exact E. }
      rewrite F. reflexivity.
  - destruct (existsb _ (st_pkgs s)).
    + induction (st_pkgs s) as [|[k ps] l IH]; [reflexivity|]. cbn [map find].
      destruct (N.eqb k name) eqn:K; cbn [find].
      * apply N.eqb_eq in K. subst k. destruct (N.eqb name other) eqn:K2; [apply N.eqb_eq in K2; congruence|exact IH].
      * destruct (N.eqb k other); [reflexivity|exact IH].
    + cbn [find]. destruct (N.eqb name other) eqn:K2; [apply N.eqb_eq in K2; congruence|reflexivity].
Qed.

Theorem trust_entry_preserves_vetting inp s name uid st en request hn :
  vets inp s -> vets inp (trust_store s name uid st en request hn).
Proof.
  intros [x [y [z Hs]]]. unfold vets. set (s' := trust_store s name uid st en request hn).
  apply (success_complete inp s' (no_fuel_always inp s')).
  intros i p Hp Ht. unfold pkg_at in Hp. change (r_graph (resolve inp s')) with (r_graph (resolve inp s)) in Hp.
  change (st_criteria s') with (st_criteria s). unfold s'. rewrite store_for_trust.
  split.
  - destruct (N.eqb (pk_name p) name) eqn:K.
    + apply N.eqb_eq in K. rewrite <- K.
      change (violation_conflicts (st_criteria s) (set_trusted (store_for s (pk_name p)) _))
        with (violation_conflicts (st_criteria s) (store_for s (pk_name p))).
      eapply success_no_conflict; eauto.
    + eapply success_no_conflict; eauto.
  - intros c Hlt Hreq. change (required_of inp (trust_store s name uid st en request hn) i) with (required_of inp s i) in Hreq.
    pose proof (success_sound inp s x y z Hs i p Hp Ht c Hlt Hreq) as Hc.
    destruct (N.eqb (pk_name p) name) eqn:K; [|exact Hc].
    apply N.eqb_eq in K. rewrite <- K. unfold certified in *. eapply fpath_esim; [|exact Hc].
    intros e He. apply set_trusted_edges; [apply trust_add_widens|exact He].
Qed.

Lemma store_ok_trust inp s name uid st en request hn : store_ok inp s -> store_ok inp (trust_store s name uid st en request hn).
Proof.
  intros [A [B C]]. split; [exact A|]. split.
  - intros n x c Hx Hc. rewrite store_for_trust in Hx. destruct (N.eqb n name) eqn:K.
    + apply N.eqb_eq in K. subst n. cbn [ps_exemptions set_trusted] in Hx. eapply B; eauto.
    + eapply B; eauto.
  - intros p Hp. specialize (C p Hp). unfold trust_store. cbn [st_pkgs]. destruct (existsb _ (st_pkgs s)).
    + intros F. apply C. clear C. induction (st_pkgs s) as [|[k ps] l IH]; [reflexivity|]. cbn [map find] in *.
      destruct (N.eqb k name); cbn [find] in F; destruct (N.eqb k (pk_name p)); try discriminate; apply IH; exact F.
    + cbn [find]. destruct (N.eqb name (pk_name p)); [discriminate|exact C].
Qed.

(* trust = record the entry, then the clean-up update aimed at the crate *)
Definition cmd_trust (target uid : N) (st en : Z) (request : list N) (hn : bool) (inp : depgraph_in) (s : store) : store :=
  cleanup_trust target inp (trust_store s target uid st en request hn).

Theorem trust_preserves_vetting inp s target uid st en request hn :
  store_ok inp s -> vets inp s -> vets inp (cmd_trust target uid st en request hn inp s).
Proof.
  intros Hok Hv. unfold cmd_trust. apply trust_cleanup_preserves; [apply store_ok_trust; exact Hok|apply trust_entry_preserves_vetting; exact Hv].
Qed.
