(* ReqProofs.v — resolve_requirements computes THE solution of the documented policy
   equations (C03), for every graph whose processing order is a topological order. *)
Require Import Base Extracted Criteria DepGraph.
Local Open Scope nat_scope.

Section Req.
Variable t : ctable.
Variable g : depgraph.
Variable c : N.

Let ps := g_pkgs g.
Let n := length ps.
Definition chas (s : cset) : bool := cs_has c s.
Definition has (r : list cset) (j : nat) : bool := chas (nth j r cs_empty).

(* what a crate x passes to its dependency d when its own demand is v *)
Definition cv (x d : nat) (v : cset) : cset :=
  match dep_criteria t (pk_policy (get_pkg ps x)) ps d with Some dc => dc | None => v end.
Lemma chas_cv x d v : chas (cv x d v) =
  match dep_criteria t (pk_policy (get_pkg ps x)) ps d with Some dc => chas dc | None => chas v end.
Proof. unfold cv. destruct (dep_criteria _ _ _ _); reflexivity. Qed.

Definition override (x : nat) : option (list N) :=
  match pk_policy (get_pkg ps x) with Some pol => pol_criteria pol | None => None end.
Definition dflt : cset := from_list t [DEFAULT_POLICY_CRITERIA].
Definition is_root (x : nat) : bool := nth x (g_root g) false.

(* the demand crate x ends up with, given the state before it is processed *)
Definition own_val (r : list cset) (x : nat) : cset :=
  match override x with
  | Some cl => from_list t cl
  | None => if is_root x then cs_union (nth x r cs_empty) dflt else nth x r cs_empty
  end.

Definition main_step (reqs : list cset) (i : nat) : list cset :=
  let p := get_pkg (g_pkgs g) i in
  let reqs1 :=
    match pk_policy p with
    | Some {| pol_criteria := Some c |} => update reqs i (fun _ => from_list t c)
    | _ => if nth i (g_root g) false
           then union_at reqs i (from_list t [DEFAULT_POLICY_CRITERIA]) else reqs
    end in
  let normal := nth i reqs1 cs_empty in
  fold_left (fun reqs d =>
      union_at reqs d (match dep_criteria t (pk_policy p) (g_pkgs g) d with
                       | Some dc => dc | None => normal end))
    (nb_deps p) reqs1.

Lemma main_pass_is reqs : main_pass t g reqs = fold_left main_step (rev (g_topo g)) reqs.
Proof. reflexivity. Qed.

Lemma push_length (v : nat -> cset) ds r :
  length (fold_left (fun reqs d => union_at reqs d (v d)) ds r) = length r.
Proof.
  revert r; induction ds as [|d ds IH]; intros r; cbn [fold_left]; [reflexivity|].
  rewrite IH. unfold union_at. apply update_length.
Qed.

Lemma push_has (v : nat -> cset) ds r j : j < length r ->
  has (fold_left (fun reqs d => union_at reqs d (v d)) ds r) j
  = has r j || existsb (fun d => Nat.eqb d j && chas (v d)) ds.
Proof.
  revert r; induction ds as [|d ds IH]; intros r Hj; cbn [fold_left existsb].
  - rewrite orb_false_r. reflexivity.
  - rewrite IH by (unfold union_at; rewrite update_length; exact Hj).
    unfold has at 1, union_at. destruct (Nat.eqb_spec d j) as [->|Hne]; cbn [andb].
    + rewrite nth_update_same by exact Hj. unfold chas. rewrite cs_has_union. unfold has, chas.
      rewrite orb_assoc. reflexivity.
    + rewrite nth_update_other by exact Hne. reflexivity.
Qed.

Lemma step_reqs1 r x : x < length r ->
  exists r1, length r1 = length r /\ nth x r1 cs_empty = own_val r x /\
             (forall j, j <> x -> nth j r1 cs_empty = nth j r cs_empty) /\
             main_step r x = fold_left (fun reqs d => union_at reqs d (cv x d (own_val r x))) (nb_deps (get_pkg ps x)) r1.
Proof.
  intros Hx. unfold main_step, own_val, override, is_root, cv. fold ps.
  destruct (pk_policy (get_pkg ps x)) as [[[cl|] dv dc]|] eqn:EP; cbn [pol_criteria].
  - exists (update r x (fun _ => from_list t cl)). rewrite update_length, nth_update_same by exact Hx.
    repeat split; try reflexivity. intros j Hj. apply nth_update_other. congruence.
  - destruct (nth x (g_root g) false).
    + exists (union_at r x (from_list t [DEFAULT_POLICY_CRITERIA])). unfold union_at. rewrite update_length, nth_update_same by exact Hx.
      repeat split; try reflexivity. intros j Hj. apply nth_update_other. congruence.
    + exists r. repeat split; reflexivity.
  - destruct (nth x (g_root g) false).
    + exists (union_at r x (from_list t [DEFAULT_POLICY_CRITERIA])). unfold union_at. rewrite update_length, nth_update_same by exact Hx.
      repeat split; try reflexivity. intros j Hj. apply nth_update_other. congruence.
    + exists r. repeat split; reflexivity.
Qed.

Lemma step_length r x : x < length r -> length (main_step r x) = length r.
Proof. intros Hx. destruct (step_reqs1 r x Hx) as [r1 [L [_ [_ E]]]]. rewrite E, push_length. exact L. Qed.

Definition pushes_from (x j : nat) (v : cset) : bool :=
  existsb (fun d => Nat.eqb d j && chas (cv x d v)) (nb_deps (get_pkg ps x)).

Lemma step_has r x j : x < length r -> j < length r ->
  has (main_step r x) j = (if Nat.eqb j x then chas (own_val r x) else has r j) || pushes_from x j (own_val r x).
Proof.
  intros Hx Hj. destruct (step_reqs1 r x Hx) as [r1 [L [Hown [Hoth E]]]]. rewrite E.
  rewrite push_has by (rewrite L; exact Hj). unfold pushes_from. f_equal.
  unfold has. destruct (Nat.eqb_spec j x) as [->|Hne]; [rewrite Hown; reflexivity|rewrite Hoth by exact Hne; reflexivity].
Qed.

(* the demand pushed onto j by its dependents in L, read off the final state *)
Definition pushed (fin : list cset) (L : list nat) (j : nat) : bool :=
  existsb (fun p => pushes_from p j (nth p fin cs_empty)) L.

Definition spec_has (r0 fin : list cset) (L : list nat) (j : nat) : bool :=
  if memn j L then
    match override j with
    | Some cl => chas (from_list t cl)
    | None => has r0 j || (is_root j && chas dflt) || pushed fin L j
    end
  else has r0 j.

Lemma pushes_from_has x j v w : chas v = chas w -> pushes_from x j v = pushes_from x j w.
Proof.
  intros H. unfold pushes_from. induction (nb_deps (get_pkg ps x)) as [|d ds IH]; cbn; [reflexivity|].
  rewrite IH, !chas_cv. destruct (dep_criteria _ _ _ _); [reflexivity|rewrite H; reflexivity].
Qed.

Lemma pushes_from_in x j v : pushes_from x j v = true -> In j (nb_deps (get_pkg ps x)).
Proof.
  unfold pushes_from. rewrite existsb_exists. intros [d [Hd E]]. apply andb_prop in E. destruct E as [E _].
  apply Nat.eqb_eq in E. subst. exact Hd.
Qed.

Lemma pushed_only_children fin L j : pushed fin L j = true -> exists p, In p L /\ In j (nb_deps (get_pkg ps p)).
Proof.
  unfold pushed. rewrite existsb_exists. intros [p [Hp E]]. exists p. split; [exact Hp|]. eapply pushes_from_in. exact E.
Qed.

Lemma chas_own_val r x : chas (own_val r x) =
  match override x with Some cl => chas (from_list t cl) | None => has r x || (is_root x && chas dflt) end.
Proof.
  unfold own_val. destruct (override x); [reflexivity|]. destruct (is_root x); cbn [andb].
  - unfold chas. rewrite cs_has_union. reflexivity.
  - rewrite orb_false_r. reflexivity.
Qed.

Theorem main_fold_spec L : forall r0, length r0 = n -> order_ok ps L = true ->
  let fin := fold_left main_step L r0 in
  length fin = n /\ forall j, j < n -> has fin j = spec_has r0 fin L j.
Proof.
  induction L as [|x L IH]; intros r0 Hlen Hok; cbn [fold_left].
  - split; [exact Hlen|]. intros j Hj. reflexivity.
  - cbn [order_ok] in Hok. apply andb_prop in Hok. destruct Hok as [Hok HokL].
    apply andb_prop in Hok. destruct Hok as [Hok Hxn]. apply andb_prop in Hok. destruct Hok as [HxL Hch].
    apply Nat.ltb_lt in Hxn. apply negb_true_iff in HxL.
    assert (Hx : x < length r0) by (rewrite Hlen; exact Hxn).
    set (r1 := main_step r0 x).
    assert (Hlen1 : length r1 = n) by (unfold r1; rewrite step_length by exact Hx; exact Hlen).
    destruct (IH r1 Hlen1 HokL) as [Hfl Hspec]. cbv zeta in *. set (fin := fold_left main_step L r1) in *.
    split; [exact Hfl|]. intros j Hj.
    assert (Hjr : j < length r0) by (rewrite Hlen; exact Hj).
    (* x itself is frozen after its own step *)
    assert (Hfx : has fin x = chas (own_val r0 x)).
    { rewrite (Hspec x Hxn). unfold spec_has. rewrite HxL. unfold r1. rewrite step_has by assumption.
      rewrite Nat.eqb_refl. destruct (pushes_from x x (own_val r0 x)) eqn:E; [|apply orb_false_r].
      apply pushes_from_in in E. rewrite forallb_forall in Hch. specialize (Hch x E). congruence. }
    assert (Hpx : pushes_from x j (nth x fin cs_empty) = pushes_from x j (own_val r0 x))
      by (apply pushes_from_has; exact Hfx).
    rewrite (Hspec j Hj). unfold spec_has. cbn [memn existsb]. fold (memn j L).
    destruct (Nat.eqb_spec j x) as [->|Hne]; cbn [orb].
    + (* j = x *)
      rewrite HxL. unfold r1. rewrite step_has by assumption. rewrite Nat.eqb_refl.
      assert (E : pushes_from x x (own_val r0 x) = false).
      { destruct (pushes_from x x (own_val r0 x)) eqn:E; [|reflexivity]. apply pushes_from_in in E.
        rewrite forallb_forall in Hch. specialize (Hch x E). congruence. }
      rewrite E, orb_false_r, chas_own_val. destruct (override x); [reflexivity|].
      assert (P : pushed fin (x :: L) x = false).
      { destruct (pushed fin (x :: L) x) eqn:P; [|reflexivity]. apply pushed_only_children in P. destruct P as [p [Hp Hc]].
        destruct Hp as [<-|Hp].
        - rewrite forallb_forall in Hch. specialize (Hch x Hc). congruence.
        - (* p is later than x, so x cannot be a dependency of p *)
          exfalso. clear - HokL Hp Hc HxL. induction L as [|y L IH']; [destruct Hp|].
          cbn [order_ok] in HokL. apply andb_prop in HokL. destruct HokL as [H1 H2]. apply andb_prop in H1. destruct H1 as [H1 _].
          apply andb_prop in H1. destruct H1 as [_ H1]. cbn [memn existsb] in HxL. apply orb_false_iff in HxL. destruct HxL as [Hxy HxL].
          destruct Hp as [->|Hp].
          + rewrite forallb_forall in H1. specialize (H1 x Hc). unfold memn in H1. congruence.
          + apply IH'; assumption. }
      rewrite P, orb_false_r. reflexivity.
    + (* j <> x *)
      destruct (memn j L) eqn:HjL.
      * destruct (override j); [reflexivity|]. unfold r1 at 1. rewrite step_has by assumption.
        destruct (Nat.eqb_spec j x); [congruence|]. unfold pushed. cbn [existsb]. rewrite Hpx.
        fold (pushed fin L j).
        destruct (has r0 j), (pushes_from x j (own_val r0 x)), (is_root j && chas dflt), (pushed fin L j); reflexivity.
      * unfold r1. rewrite step_has by assumption. destruct (Nat.eqb_spec j x); [congruence|].
        destruct (pushes_from x j (own_val r0 x)) eqn:E; [|apply orb_false_r].
        apply pushes_from_in in E. rewrite forallb_forall in Hch. specialize (Hch j E). congruence.
Qed.

(* ---- the dev pass ---- *)
Definition dev_crit_of (p : pkg) : cset :=
  match pk_policy p with
  | Some {| pol_dev_criteria := Some c |} => from_list t c
  | _ => from_list t [DEFAULT_POLICY_DEV_CRITERIA]
  end.
Definition dev_cv (i d : nat) : cset :=
  match dep_criteria t (pk_policy (get_pkg ps i)) ps d with Some dc => dc | None => dev_crit_of (get_pkg ps i) end.

Definition dev_step (reqs : list cset) (ip : nat * pkg) : list cset :=
  let '(i, p) := ip in
  let devs := nth i (g_dev_deps g) [] in
  match devs with
  | [] => reqs
  | _ =>
    let dev_crit := match pk_policy p with
                    | Some {| pol_dev_criteria := Some c |} => from_list t c
                    | _ => from_list t [DEFAULT_POLICY_DEV_CRITERIA]
                    end in
    fold_left (fun reqs d =>
        union_at reqs d (match dep_criteria t (pk_policy p) (g_pkgs g) d with
                         | Some dc => dc | None => dev_crit end)) devs reqs
  end.
Lemma dev_pass_is reqs : dev_pass t g reqs = fold_left dev_step (enumerate (g_pkgs g)) reqs.
Proof. reflexivity. Qed.

Definition dev_pushes (i j : nat) : bool :=
  existsb (fun d => Nat.eqb d j && chas (dev_cv i d)) (nth i (g_dev_deps g) []).

Lemma dev_step_has r i p j : j < length r -> p = get_pkg ps i ->
  length (dev_step r (i, p)) = length r /\ has (dev_step r (i, p)) j = has r j || dev_pushes i j.
Proof.
  intros Hj ->. unfold dev_step, dev_pushes, dev_cv, dev_crit_of. fold ps.
  destruct (nth i (g_dev_deps g) []) as [|d0 ds] eqn:E.
  - cbn. rewrite orb_false_r. split; reflexivity.
  - split; [apply push_length|]. apply (push_has (fun d => match dep_criteria t (pk_policy (get_pkg ps i)) ps d with
                                                         | Some dc => dc | None => _ end)). exact Hj.
Qed.

Lemma dev_fold_has l : forall r j, j < length r -> (forall i p, In (i, p) l -> p = get_pkg ps i) ->
  length (fold_left dev_step l r) = length r /\
  has (fold_left dev_step l r) j = has r j || existsb (fun ip => dev_pushes (fst ip) j) l.
Proof.
  induction l as [|[i p] l IH]; intros r j Hj Hl; cbn [fold_left existsb].
  - rewrite orb_false_r. split; reflexivity.
  - destruct (dev_step_has r i p j Hj (Hl i p (or_introl eq_refl))) as [L1 H1].
    destruct (IH (dev_step r (i, p)) j) as [L2 H2]; [rewrite L1; exact Hj|intros; apply Hl; right; assumption|].
    split; [rewrite L2; exact L1|]. rewrite H2, H1. cbn [fst]. symmetry; apply orb_assoc.
Qed.

Lemma dev_step_length r ip : length (dev_step r ip) = length r.
Proof.
  destruct ip as [i p]. unfold dev_step. destruct (nth i (g_dev_deps g) []); [reflexivity|].
  apply (push_length (fun d => match dep_criteria t (pk_policy p) (g_pkgs g) d with Some dc => dc | None => _ end)).
Qed.
Lemma dev_fold_length l r : length (fold_left dev_step l r) = length r.
Proof. revert r; induction l as [|ip l IH]; intros r; cbn [fold_left]; [reflexivity|]. rewrite IH. apply dev_step_length. Qed.

Definition dev_demand (j : nat) : bool := existsb (fun i => dev_pushes i j) (seq 0 n).

Lemma enumerate_from_fst {A} (l : list A) s : map fst (enumerate_from s l) = seq s (length l).
Proof. revert s; induction l as [|x l IH]; intros s; cbn; [reflexivity|]. f_equal. apply IH. Qed.

Lemma dev_pass_has j : j < n ->
  let r := dev_pass t g (repeat cs_empty n) in
  length r = n /\ has r j = dev_demand j.
Proof.
  intros Hj. cbv zeta. rewrite dev_pass_is.
  destruct (dev_fold_has (enumerate (g_pkgs g)) (repeat cs_empty n) j) as [L H].
  - rewrite repeat_length. exact Hj.
  - intros i p Hin. apply (in_enumerate dummy_pkg) in Hin. destruct Hin as [_ Hin]. unfold get_pkg. fold ps. symmetry. exact Hin.
  - rewrite repeat_length in L. split; [exact L|]. rewrite H. unfold has at 1.
    assert (E : nth j (repeat cs_empty n) cs_empty = cs_empty).
    { clear. revert j; induction n as [|k IH]; intros [|j]; cbn; auto. }
    rewrite E. unfold chas at 1. rewrite cs_has_empty. cbn [orb]. unfold dev_demand.
    unfold enumerate. fold ps. unfold n.
    rewrite <- (enumerate_from_fst ps 0). generalize (enumerate_from 0 ps). intros l.
    induction l as [|[i p] l IH]; cbn; [reflexivity|]. rewrite IH. reflexivity.
Qed.

(* ---- the whole of resolve_requirements ---- *)
Let topo_ok := DepGraph.topo_ok g.

Definition req_equation (fin : list cset) (j : nat) : bool :=
  if memn j (g_topo g) then
    match override j with
    | Some cl => chas (from_list t cl)
    | None => dev_demand j || (is_root j && chas dflt) || pushed fin (rev (g_topo g)) j
    end
  else dev_demand j.

Lemma memn_rev x l : memn x (rev l) = memn x l.
Proof.
  destruct (memn x l) eqn:E.
  - apply memn_spec. apply in_rev. rewrite rev_involutive. apply memn_spec. exact E.
  - destruct (memn x (rev l)) eqn:E2; [|reflexivity]. apply memn_spec in E2. apply in_rev in E2. apply memn_spec in E2. congruence.
Qed.

Theorem requirements_satisfy_equations : topo_ok = true ->
  let fin := resolve_requirements t g in
  length fin = n /\ forall j, j < n -> has fin j = req_equation fin j.
Proof.
  intros Hok. cbv zeta. unfold resolve_requirements. rewrite main_pass_is. fold ps. fold n.
  set (r0 := dev_pass t g (repeat cs_empty n)).
  assert (Hr0 : length r0 = n) by (unfold r0; rewrite dev_pass_is, dev_fold_length; apply repeat_length).
  destruct (main_fold_spec (rev (g_topo g)) r0 Hr0 Hok) as [L H]. cbv zeta in *.
  split; [exact L|]. intros j Hj. rewrite (H j Hj). unfold spec_has, req_equation. rewrite memn_rev.
  unfold r0. rewrite (proj2 (dev_pass_has j Hj)). reflexivity.
Qed.

(* uniqueness: over a topological order the equations have exactly one solution, so the
   computed demand is THE least (and greatest) one *)
Theorem equations_have_one_solution L : order_ok ps L = true ->
  forall (a b : list cset) (base : nat -> bool),
  (forall j, In j L -> has a j = match override j with Some cl => chas (from_list t cl)
                                 | None => base j || pushed a L j end) ->
  (forall j, In j L -> has b j = match override j with Some cl => chas (from_list t cl)
                                 | None => base j || pushed b L j end) ->
  forall j, In j L -> has a j = has b j.
Proof.
  intros Hok a b base Ha Hb.
  (* strong statement: agreement on a prefix-closed set, by induction on L from the front with an accumulator *)
  assert (G : forall pre suf, L = pre ++ suf -> (forall j, In j pre -> has a j = has b j) -> forall j, In j suf -> has a j = has b j).
  { intros pre suf; revert pre; induction suf as [|x suf IH]; intros pre E Hpre j Hj; [destruct Hj|].
    assert (Hx : has a x = has b x).
    { rewrite Ha, Hb by (rewrite E; apply in_or_app; right; left; reflexivity).
      destruct (override x); [reflexivity|]. f_equal.
      (* only nodes of [pre] push onto x *)
      unfold pushed. rewrite E, !existsb_app. cbn [existsb].
      assert (Hsuf : forall fin, existsb (fun p => pushes_from p x (nth p fin cs_empty)) suf = false /\ pushes_from x x (nth x fin cs_empty) = false).
      { intros fin. clear - Hok E. subst L. induction pre as [|y pre IHp]; cbn [app] in Hok.
        - cbn [order_ok] in Hok. apply andb_prop in Hok. destruct Hok as [H1 H2]. apply andb_prop in H1. destruct H1 as [H1 _].
          apply andb_prop in H1. destruct H1 as [Hx Hc]. apply negb_true_iff in Hx. split.
          + destruct (existsb _ suf) eqn:X; [|reflexivity]. apply existsb_exists in X. destruct X as [p [Hp X]].
            apply pushes_from_in in X. exfalso. clear - H2 Hp X Hx. induction suf as [|z suf IHs]; [destruct Hp|].
            cbn [order_ok] in H2. apply andb_prop in H2. destruct H2 as [K1 K2]. apply andb_prop in K1. destruct K1 as [K1 _].
            apply andb_prop in K1. destruct K1 as [_ K1]. cbn [memn existsb] in Hx. apply orb_false_iff in Hx. destruct Hx as [Hxz Hx].
            destruct Hp as [->|Hp].
            * rewrite forallb_forall in K1. specialize (K1 x X). unfold memn in K1. congruence.
            * apply IHs; assumption.
          + destruct (pushes_from x x _) eqn:X; [|reflexivity]. apply pushes_from_in in X. rewrite forallb_forall in Hc.
            specialize (Hc x X). congruence.
        - cbn [order_ok] in Hok. apply andb_prop in Hok. destruct Hok as [_ Hok]. apply IHp. exact Hok. }
      rewrite (proj1 (Hsuf a)), (proj2 (Hsuf a)), (proj1 (Hsuf b)), (proj2 (Hsuf b)). f_equal.
      clear - Hpre. induction pre as [|p pre IHp]; cbn [existsb]; [reflexivity|].
      rewrite IHp by (intros; apply Hpre; right; assumption). f_equal.
      apply pushes_from_has. apply Hpre. left. reflexivity. }
    destruct Hj as [<-|Hj]; [exact Hx|].
    apply (IH (pre ++ [x])); [rewrite <- app_assoc; exact E| |exact Hj].
    intros k Hk. apply in_app_or in Hk. destruct Hk as [Hk|[<-|[]]]; [apply Hpre; exact Hk|exact Hx]. }
  apply (G [] L eq_refl). intros j [].
Qed.

Lemma order_ok_lt L x : order_ok ps L = true -> In x L -> x < n.
Proof.
  induction L as [|y L IH]; intros Hok Hin; [destruct Hin|].
  cbn [order_ok] in Hok. apply andb_prop in Hok. destruct Hok as [H1 H2]. apply andb_prop in H1. destruct H1 as [_ H1].
  destruct Hin as [<-|Hin]; [apply Nat.ltb_lt; exact H1|apply IH; assumption].
Qed.

(* any assignment of demands that satisfies the policy equations on the processed crates IS
   the computed one: "the least set satisfying ..." is this unique solution *)
Theorem requirements_are_the_solution : topo_ok = true ->
  forall b : list cset,
  (forall j, In j (g_topo g) -> has b j = req_equation b j) ->
  forall j, In j (g_topo g) -> has b j = has (resolve_requirements t g) j.
Proof.
  intros Hok b Hb j Hj.
  destruct (requirements_satisfy_equations Hok) as [_ Hfin]. cbv zeta in Hfin.
  apply (equations_have_one_solution (rev (g_topo g)) Hok b (resolve_requirements t g)
           (fun j => dev_demand j || (is_root j && chas dflt))).
  - intros k Hk. apply in_rev in Hk. rewrite (Hb k Hk). unfold req_equation.
    rewrite (proj2 (memn_spec k (g_topo g)) Hk). destruct (override k); reflexivity.
  - intros k Hk. assert (Hkn : k < n) by (eapply order_ok_lt; [exact Hok|exact Hk]). apply in_rev in Hk.
    rewrite (Hfin k Hkn). unfold req_equation.
    rewrite (proj2 (memn_spec k (g_topo g)) Hk). destruct (override k); reflexivity.
  - apply in_rev. rewrite rev_involutive. exact Hj.
Qed.

End Req.
