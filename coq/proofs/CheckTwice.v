(* CheckTwice.v — C13: what the update of a successful check writes is in written form, hence a second check
   (on the store as written) writes the same store again. *)
Require Import Base Extracted Criteria Search AuditGraph DepGraph Resolve Update Commands Serde.
Require Import CriteriaProofs SearchProofs AuditGraphProofs ResolveProofs UpdateProofs UpdateKeep PreserveProofs EndToEnd SerdeProofs CheckFixpoint.
Local Open Scope N_scope.

(* ---- lists written as minimal names are canonical, closed or not ---- *)
Lemma filter_eq_of_iff {A} (p q : A -> bool) l : (forall x, In x l -> (p x = true <-> q x = true)) -> filter p l = filter q l.
Proof.
  intros H. apply filter_ext_in. intros x Hx. specialize (H x Hx). destruct (p x), (q x); try reflexivity; [symmetry|]; intuition.
Qed.

Lemma filter_filter' {A} (p q : A -> bool) l : filter p (filter q l) = filter (fun x => q x && p x) l.
Proof. induction l as [|x l IH]; cbn; [reflexivity|]. destruct (q x); cbn; [destruct (p x); rewrite IH; reflexivity|exact IH]. Qed.

Lemma minimal_pred t s x : In x (nseq 0 (ct_len t)) ->
  ((cs_has x s && forallb (fun other => N.eqb x other || negb (cs_has x (closure t other))) (cs_indices (ct_len t) s))%bool = true
   <-> In x (minimal_indices t s)).
Proof.
  intros Hx. unfold minimal_indices. cbv zeta. rewrite filter_In. unfold cs_indices at 2. rewrite filter_In, andb_true_iff. tauto.
Qed.

Lemma minimal_indices_two_filters t s :
  minimal_indices t s =
  filter (fun x => cs_has x s && forallb (fun other => N.eqb x other || negb (cs_has x (closure t other))) (cs_indices (ct_len t) s))
         (nseq 0 (ct_len t)).
Proof. unfold minimal_indices. cbv zeta. unfold cs_indices at 2. apply filter_filter'. Qed.

Lemma minimal_of_generated t s : (forall c, ~ reachp t c c) ->
  minimal_indices t (from_list t (minimal_indices t s)) = minimal_indices t s.
Proof.
  intros Hac. set (M := minimal_indices t s). set (C := from_list t M).
  change (minimal_indices t C = minimal_indices t s).
  rewrite (minimal_indices_two_filters t C), (minimal_indices_two_filters t s).
  apply filter_eq_of_iff. intros x Hxn. rewrite (minimal_pred t C x Hxn), (minimal_pred t s x Hxn). fold M.
  destruct (in_dec N.eq_dec x (minimal_indices t C)) as [H1|H1], (in_dec N.eq_dec x M) as [H2|H2]; try tauto; exfalso.
  - (* minimal in C but not in M *)
    apply minimal_spec in H1. destruct H1 as [Hx [HxC Hmin]]. apply from_list_spec in HxC. destruct HxC as [m0 [Hm Hxm]].
    assert (HmC : cs_has m0 C = true) by (apply from_list_spec; exists m0; split; [exact Hm|apply closure_refl]).
    assert (Hm0 : m0 < N.of_nat (ct_len t)) by (apply minimal_spec in Hm; tauto).
    destruct (Hmin m0 Hm0 HmC) as [->|E]; [exact (H2 Hm)|congruence].
  - (* in M but not minimal in C *)
    apply H1. apply minimal_spec. pose proof H2 as H2'. apply minimal_spec in H2'. destruct H2' as [Hx [Hxs _]].
    split; [exact Hx|]. split; [apply from_list_spec; exists x; split; [exact H2|apply closure_refl]|].
    intros o Ho HoC. destruct (N.eq_dec o x) as [->|Hne]; [left; reflexivity|right].
    destruct (cs_has x (closure t o)) eqn:E; [exfalso|reflexivity].
    apply from_list_spec in HoC. destruct HoC as [m0 [Hm Hom]].
    assert (Hxm : cs_has x (closure t m0) = true).
    { apply closure_spec in E. apply closure_spec in Hom. apply closure_spec.
      destruct E as [->|E]; [exact Hom|]. destruct Hom as [->|Hom]; [right; exact E|right; eapply reachp_trans; eauto]. }
    pose proof (minimal_irredundant t s x m0 H2 Hm Hxm) as Exm. subst m0.
    apply closure_spec in E. apply closure_spec in Hom. destruct E as [E|E]; [congruence|]. destruct Hom as [Hom|Hom]; [congruence|].
    exact (Hac x (reachp_trans t _ _ _ Hom E)).
Qed.

(* ---- sorting + de-duplication is idempotent ---- *)
Section Dedup.
Variable A : Type.
Variables (leb eqb : A -> A -> bool).
Hypothesis leb_total : forall a b, leb a b = true \/ leb b a = true.
Hypothesis leb_trans : forall a b c, leb a b = true -> leb b c = true -> leb a c = true.
Hypothesis eqb_eq : forall a b, eqb a b = true -> a = b.

Lemma dedup_head x r : exists r', dedup_adj eqb (x :: r) = x :: r'.
Proof.
  revert x; induction r as [|y r IH]; intros x; cbn [dedup_adj]; [eexists; reflexivity|].
  destruct (eqb x y) eqn:E; [apply eqb_eq in E; subst y; apply IH|eexists; reflexivity].
Qed.

Lemma dedup_idem l : dedup_adj eqb (dedup_adj eqb l) = dedup_adj eqb l.
Proof.
  induction l as [|x r IH]; [reflexivity|]. destruct r as [|y r]; [reflexivity|].
  change (dedup_adj eqb (x :: y :: r)) with (if eqb x y then dedup_adj eqb (y :: r) else x :: dedup_adj eqb (y :: r)).
  destruct (eqb x y) eqn:E; [exact IH|].
  destruct (dedup_head y r) as [r' Er]. rewrite Er in *.
  change (dedup_adj eqb (x :: y :: r')) with (if eqb x y then dedup_adj eqb (y :: r') else x :: dedup_adj eqb (y :: r')).
  rewrite E. f_equal. exact IH.
Qed.

Lemma dedup_sorted l : sorted A leb l -> sorted A leb (dedup_adj eqb l).
Proof.
  induction 1 as [|x|x y l Hxy Hs IH]; [constructor|constructor|].
  change (dedup_adj eqb (x :: y :: l)) with (if eqb x y then dedup_adj eqb (y :: l) else x :: dedup_adj eqb (y :: l)).
  destruct (eqb x y); [exact IH|]. destruct (dedup_head y l) as [r' Er]. rewrite Er in *. constructor; assumption.
Qed.

Theorem tidy_dedup_idem l :
  dedup_adj eqb (sort_by leb (dedup_adj eqb (sort_by leb l))) = dedup_adj eqb (sort_by leb l).
Proof.
  rewrite (sort_of_sorted A leb leb_trans); [apply dedup_idem|]. apply dedup_sorted. apply (sort_sorted A leb leb_total).
Qed.
End Dedup.

Lemma unpub_eqb_eq a b : unpub_eqb a b = true -> a = b.
Proof.
  unfold unpub_eqb. intros H. repeat (apply andb_prop in H; destruct H as [H ?]).
  apply N.eqb_eq in H, H2. apply Bool.eqb_prop in H1, H0. destruct a, b; cbn in *; subst; reflexivity.
Qed.
Lemma unpub_leb_total a b : unpub_leb a b = true \/ unpub_leb b a = true.
Proof.
  unfold unpub_leb. rewrite (N.compare_antisym (u_ver a) (u_ver b)), (N.compare_antisym (u_as a) (u_as b)).
  destruct (N.compare (u_ver a) (u_ver b)); cbn; auto. destruct (N.compare (u_as a) (u_as b)); cbn; auto.
  destruct (u_still a), (u_still b); cbn; auto.
Qed.
Lemma unpub_leb_trans a b c : unpub_leb a b = true -> unpub_leb b c = true -> unpub_leb a c = true.
Proof.
  unfold unpub_leb.
  destruct (N.compare_spec (u_ver a) (u_ver b)) as [E1|L1|G1]; try discriminate;
  destruct (N.compare_spec (u_ver b) (u_ver c)) as [E2|L2|G2]; try discriminate;
  destruct (N.compare_spec (u_ver a) (u_ver c)) as [E3|L3|G3]; try lia; try reflexivity;
  destruct (N.compare_spec (u_as a) (u_as b)) as [F1|M1|N1]; try discriminate;
  destruct (N.compare_spec (u_as b) (u_as c)) as [F2|M2|N2]; try discriminate;
  destruct (N.compare_spec (u_as a) (u_as c)) as [F3|M3|N3]; try lia; try reflexivity.
  destruct (u_still a), (u_still b), (u_still c); cbn; auto.
Qed.

(* ---- what the check's update writes is in written form ---- *)
Section Written.
Variables (t : ctable) (ing : bool) (re : option rmap) (ps : pkg_store).
Hypothesis table_acyclic : forall c, ~ reachp t c c.
Hypothesis exemptions_valid : forall x c, In x (ps_exemptions ps) -> In c (x_crit x) -> c < N.of_nat (ct_len t).
Hypothesis re_ok : forall rm, re = Some rm ->
  rmap_inv (exemption_ok t ps) rm /\ (forall k s, In (k, s) rm -> exists c0, cs_has c0 s = true).
Let u := update_pkg t mode_check_update ing re ps.
Let ps' := apply_pkg_update ps u.

Lemma in_nth_list {A} (L : list (list A)) l : In l L -> exists k, nth k L [] = l.
Proof. intros H. destruct (In_nth L l [] H) as [k [_ Hk]]. exists k. exact Hk. Qed.

Theorem check_update_writes_written_form : written_form t ps'.
Proof.
  unfold written_form. split; [|split; [|split]].
  - (* settled *)
    repeat split.
    + intros l a Hl Ha. unfold ps', apply_pkg_update in Hl. cbn [ps_imported] in Hl. destruct (in_nth_list _ _ Hl) as [k Hk].
      rewrite <- Hk in Ha. destruct (update_imported_from_live t mode_check_update ing re ps k a Ha) as [a0 [_ ->]]. reflexivity.
    + intros l w Hl Hw. unfold ps', apply_pkg_update in Hl. cbn [ps_wild_imported] in Hl. destruct (in_nth_list _ _ Hl) as [k Hk].
      rewrite <- Hk in Hw. destruct (update_wildcards_from_live t mode_check_update ing re ps k w Hw) as [w0 [_ ->]]. reflexivity.
    + intros p Hp. unfold ps', apply_pkg_update in Hp. cbn [ps_publishers] in Hp.
      destruct (update_publishers_from_live t mode_check_update ing re ps p Hp) as [p0 [_ ->]]. reflexivity.
  - intros u0 Hu. unfold ps', apply_pkg_update in Hu. cbn [ps_unpublished] in Hu.
    destruct (update_unpublished_from_live t mode_check_update ing re ps u0 Hu) as [u1 [_ ->]]. reflexivity.
  - unfold ps', apply_pkg_update, u, update_pkg. cbn [ps_unpublished pu_unpublished].
    apply (tidy_dedup_idem unpublished unpub_leb unpub_eqb unpub_leb_total unpub_leb_trans unpub_eqb_eq).
  - intros x Hx. unfold ps', apply_pkg_update, u, update_pkg in Hx. cbn [ps_exemptions pu_exemptions] in Hx.
    rewrite (check_update_no_fresh_exemptions t re ps re_ok) in Hx.
    assert (Hx' : In x (update_exemptions t mode_check_update re (ps_exemptions ps))) by (destruct ing; rewrite app_nil_r in Hx; exact Hx).
    clear Hx. unfold update_exemptions in Hx'. apply in_flat_map in Hx'. destruct Hx' as [[i x0] [Hi Hx']].
    assert (Hx0 : In x0 (ps_exemptions ps)).
    { apply (in_enumerate x0) in Hi. destruct Hi as [H1 H2]. rewrite <- H2. apply nth_In. exact H1. }
    cbv zeta in Hx'. cbn [um_prune_exemptions mode_check_update] in Hx'.
    set (original := from_list t (x_crit x0)) in *.
    set (useful0 := match re with
                    | Some rm => match rmap_get rm (RExemption (N.of_nat i)) with Some s => s | None => cs_empty end
                    | None => original end) in *.
    assert (Hsub : forall c, cs_has c useful0 = true -> cs_has c original = true).
    { unfold useful0. destruct re as [rm|]; [|auto]. destruct (rmap_get rm (RExemption (N.of_nat i))) as [s0|] eqn:Eg.
      - intros c Hc. destruct (re_ok rm eq_refl) as [Hinv _]. specialize (Hinv _ _ _ Eg Hc). cbn in Hinv.
        destruct Hinv as [x1 [Hn Hc0]]. rewrite Nat2N.id in Hn.
        apply (in_enumerate x0) in Hi. destruct Hi as [H1 H2]. rewrite (nth_error_nth' _ x0 H1), H2 in Hn. inversion Hn; subst x1. exact Hc0.
      - intros c Hc. rewrite cs_has_empty in Hc. discriminate. }
    assert (Eu : cs_union useful0 original = original).
    { apply cs_ext. intros c. rewrite cs_has_union. destruct (cs_has c useful0) eqn:E; [rewrite (Hsub c E); reflexivity|reflexivity]. }
    rewrite Eu in Hx'. destruct (cs_is_empty original) eqn:Ee; [destruct Hx'|].
    assert (Hc : cs_contains original original = true) by (apply cs_contains_spec; auto).
    rewrite Hc, andb_false_r in Hx'. destruct Hx' as [<-|[]]. cbn [x_crit]. unfold names_of.
    split; [symmetry; apply minimal_of_generated; exact table_acyclic|].
    (* the written list still denotes a non-empty set *)
    assert (Hb : bounded t original) by (apply from_list_bounded; intros c Hc0; eapply exemptions_valid; eauto).
    rewrite (minimal_generates t table_acyclic original Hb (from_list_is_closed t _)). exact Ee.
Qed.
End Written.

(* ---- the second check writes what the first wrote ---- *)
Theorem check_twice inp s s1 :
  store_ok inp s -> NoDup (map fst (st_pkgs s)) ->
  cmd_check false inp s = Some s1 -> cmd_check false inp s1 = Some s1.
Proof.
  intros Hok Hnd H. pose proof (check_then_locked inp s s1 Hok H) as Hs1.
  assert (E : cmd_check false inp s1 = Some (update_store inp s1 (fun _ => mode_check_update))).
  { unfold cmd_check. rewrite Hs1. reflexivity. }
  rewrite E. f_equal.
  assert (Es1 : s1 = update_store inp s (fun _ => mode_check_update)).
  { unfold cmd_check in H. destruct (has_errors (resolve inp s)); [discriminate|]. inversion H. reflexivity. }
  subst s1. set (s1 := update_store inp s (fun _ => mode_check_update)) in *.
  apply (check_on_written_store inp s1 (update_store inp s1 (fun _ => mode_check_update))); [| |exact E].
  - intros name ps1 Hin. unfold s1 in Hin. change (st_criteria s1) with (st_criteria s).
    rewrite update_store_pkgs in Hin. apply in_map_iff in Hin. destruct Hin as [[n ps] [Eq Hin]]. inversion Eq; subst name ps1. clear Eq.
    destruct Hok as [A [B C]].
    assert (Eps : store_for s n = ps).
    { unfold store_for. clear C B. induction (st_pkgs s) as [|[k q] l IH]; [destruct Hin|]. cbn [find].
      cbn [map] in Hnd. inversion Hnd as [|? ? Hk Hnd']; subst. destruct Hin as [Ei|Hin].
      - inversion Ei; subst. rewrite N.eqb_refl. reflexivity.
      - destruct (N.eqb_spec k n) as [->|Hne]; [exfalso; apply Hk; apply in_map_iff; exists (n, ps); auto|apply IH; assumption]. }
    apply check_update_writes_written_form.
    + apply ct_acyclic_spec. exact A.
    + intros x c Hx Hc. rewrite <- Eps in Hx. eapply B; eauto.
    + intros rm Hre. unfold re_of in Hre. destruct (name_in_graph (depgraph_new inp) n).
      * split; [rewrite <- Eps; eapply required_entries_exemptions; [|exact Hre]; cbn; discriminate|eapply required_entries_nonempty; exact Hre].
      * inversion Hre. split; [apply rmap_inv_nil|intros k s0 []].
  - unfold s1. rewrite update_store_pkgs, map_map.
    erewrite map_ext; [exact Hnd|]. intros [n ps]. reflexivity.
Qed.
