Require Import Base Extracted Imports Aggregate.
Require Import ImportsProofs.
Local Open Scope N_scope.

(* C16 contents: per crate, the merged audits are exactly the importable audits of
   the sources, in source order, each tagged with the source it came from *)
Theorem aggregate_audits sources k :
  Forall (fun '(_, f) => keys_nodup (af_audits f)) sources ->
  assoc_get (af_audits (fst (aggregate sources))) k =
  flat_map (fun '(src, f) => map (tag src) (filter ae_importable (assoc_get (af_audits f) k))) sources.
Proof.
  intros H. unfold aggregate. cbn [fst af_audits]. rewrite merge_tables_union.
  - rewrite flat_map_concat_map, map_map, <- flat_map_concat_map. apply flat_map_ext. intros [src f].
    unfold assoc_get. induction (af_audits f) as [|[n l] m IH]; cbn [map find]; [reflexivity|].
    destruct (N.eqb n k); [reflexivity|exact IH].
  - apply Forall_forall. intros m Hm. apply in_map_iff in Hm. destruct Hm as [[src f] [<- Hin]].
    rewrite Forall_forall in H. specialize (H _ Hin). cbn in H. unfold keys_nodup in *.
    rewrite map_map. erewrite map_ext; [exact H|]. intros [n l]. reflexivity.
Qed.

Theorem aggregate_wildcards sources k :
  Forall (fun '(_, f) => keys_nodup (af_wild f)) sources ->
  assoc_get (af_wild (fst (aggregate sources))) k =
  flat_map (fun '(src, f) => map (tag src) (assoc_get (af_wild f) k)) sources.
Proof.
  intros H. unfold aggregate. cbn [fst af_wild]. rewrite merge_tables_union.
  - rewrite flat_map_concat_map, map_map, <- flat_map_concat_map. apply flat_map_ext. intros [src f].
    unfold assoc_get. induction (af_wild f) as [|[n l] m IH]; cbn [map find]; [reflexivity|].
    destruct (N.eqb n k); [|exact IH]. f_equal. induction l as [|x l IHl]; cbn; [reflexivity|]. f_equal. exact IHl.
  - apply Forall_forall. intros m Hm. apply in_map_iff in Hm. destruct Hm as [[src f] [<- Hin]].
    rewrite Forall_forall in H. specialize (H _ Hin). cbn in H. unfold keys_nodup in *.
    rewrite map_map. erewrite map_ext; [exact H|]. intros [n l]. reflexivity.
Qed.

(* nothing non-importable gets in *)
Theorem aggregate_only_importable sources k e :
  Forall (fun '(_, f) => keys_nodup (af_audits f)) sources ->
  In e (assoc_get (af_audits (fst (aggregate sources))) k) -> ae_importable e = true.
Proof.
  intros H He. rewrite aggregate_audits in He by exact H. apply in_flat_map in He. destruct He as [[src f] [_ He]].
  apply in_map_iff in He. destruct He as [e0 [<- He0]]. apply filter_In in He0. cbn. tauto.
Qed.

(* C16 fails-iff: an error is reported exactly when a later definition of a criterion
   differs from the first one in description, description-url or implies *)
Definition same_def (a b : agg_crit) : bool :=
  optN_eq (ac_desc a) (ac_desc b) && optN_eq (ac_url a) (ac_url b) && list_eqb (ac_implies a) (ac_implies b).

Lemma add_criterion_errors src cs errs c :
  snd (add_criterion src (cs, errs) c) =
  errs ++ match find (fun o => N.eqb (ac_name o) (ac_name c)) cs with
          | None => []
          | Some o => (if optN_eq (ac_desc o) (ac_desc c) && optN_eq (ac_url o) (ac_url c) then [] else [DescriptionMismatch (ac_name c)])
                      ++ (if list_eqb (ac_implies o) (ac_implies c) then [] else [ImpliesMismatch (ac_name c)])
          end.
Proof. unfold add_criterion. destruct (find _ cs); cbn; [reflexivity|rewrite app_nil_r; reflexivity]. Qed.

Theorem add_criterion_no_error_iff src cs c :
  snd (add_criterion src (cs, []) c) = [] <->
  match find (fun o => N.eqb (ac_name o) (ac_name c)) cs with None => True | Some o => same_def o c = true end.
Proof.
  rewrite add_criterion_errors. cbn [app]. destruct (find _ cs) as [o|]; [|tauto]. unfold same_def.
  destruct (optN_eq (ac_desc o) (ac_desc c) && optN_eq (ac_url o) (ac_url c)), (list_eqb (ac_implies o) (ac_implies c)); cbn;
    split; intros; try reflexivity; try discriminate.
Qed.

(* errors only accumulate: once a mismatch is recorded the aggregation fails *)
Lemma add_criterion_errors_grow src acc c e : In e (snd acc) -> In e (snd (add_criterion src acc c)).
Proof. destruct acc as [cs errs]. rewrite add_criterion_errors. intros H. apply in_app_iff. left. exact H. Qed.
