Require Import Base Extracted Imports Aggregate.
Require Import ImportsProofs.
Local Open Scope N_scope.

(* C16 contents: per crate, the merged audits are exactly the importable audits of
   the sources, in source order, each tagged with the source it came from *)
Theorem aggregate_audits sources k :
  Forall (fun '(_, f) => keys_nodup (af_audits f)) sources ->
  assoc_get (af_audits (fst (aggregate sources))) k =
  flat_map (fun '(src, f) => map (tag src) (filter ae_importable (assoc_get (af_audits f) k))) sources.
Proof.
  intros H. unfold aggregate. cbn [fst af_audits]. rewrite merge_tables_union.
  - rewrite flat_map_concat_map, map_map, <- flat_map_concat_map. apply flat_map_ext. intros [src f].
    unfold assoc_get. induction (af_audits f) as [|[n l] m IH]; cbn [map find]; [reflexivity|].
    destruct (N.eqb n k); [reflexivity|exact IH].
  - apply Forall_forall. intros m Hm. apply in_map_iff in Hm. destruct Hm as [[src f] [<- Hin]].
    rewrite Forall_forall in H. specialize (H _ Hin). cbn in H. unfold keys_nodup in *.
    rewrite map_map. erewrite map_ext; [exact H|]. intros [n l]. reflexivity.
Qed.

Theorem aggregate_wildcards sources k :
  Forall (fun '(_, f) => keys_nodup (af_wild f)) sources ->
  assoc_get (af_wild (fst (aggregate sources))) k =
  flat_map (fun '(src, f) => map (tag src) (assoc_get (af_wild f) k)) sources.
Proof.
  intros H. unfold aggregate. cbn [fst af_wild]. rewrite merge_tables_union.
  - rewrite flat_map_concat_map, map_map, <- flat_map_concat_map. apply flat_map_ext. intros [src f].
    unfold assoc_get. induction (af_wild f) as [|[n l] m IH]; cbn [map find]; [reflexivity|].
    destruct (N.eqb n k); [|exact IH]. f_equal. induction l as [|x l IHl]; cbn; [reflexivity|]. f_equal. exact IHl.
  - apply Forall_forall. intros m Hm. apply in_map_iff in Hm. destruct Hm as [[src f] [<- Hin]].
    rewrite Forall_forall in H. specialize (H _ Hin). cbn in H. unfold keys_nodup in *.
    rewrite map_map. erewrite map_ext; [exact H|]. intros [n l]. reflexivity.
Qed.

(* nothing non-importable gets in *)
Theorem aggregate_only_importable sources k e :
  Forall (fun '(_, f) => keys_nodup (af_audits f)) sources ->
  In e (assoc_get (af_audits (fst (aggregate sources))) k) -> ae_importable e = true.
Proof.
  intros H He. rewrite aggregate_audits in He by exact H. apply in_flat_map in He. destruct He as [[src f] [_ He]].
  apply in_map_iff in He. destruct He as [e0 [<- He0]]. apply filter_In in He0. cbn. tauto.
Qed.

(* C16 fails-iff: an error is reported exactly when a later definition of a criterion
   differs from the first one in description, description-url or implies *)
Definition same_def (a b : agg_crit) : bool :=
  optN_eq (ac_desc a) (ac_desc b) && optN_eq (ac_url a) (ac_url b) && list_eqb (ac_implies a) (ac_implies b).

Lemma add_criterion_errors src cs errs c :
  snd (add_criterion src (cs, errs) c) =
  errs ++ match find (fun o => N.eqb (ac_name o) (ac_name c)) cs with
          | None => []
          | Some o => (if optN_eq (ac_desc o) (ac_desc c) && optN_eq (ac_url o) (ac_url c) then [] else [DescriptionMismatch (ac_name c)])
                      ++ (if list_eqb (ac_implies o) (ac_implies c) then [] else [ImpliesMismatch (ac_name c)])
          end.
Proof. unfold add_criterion. destruct (find _ cs); cbn; [reflexivity|rewrite app_nil_r; reflexivity]. Qed.

Theorem add_criterion_no_error_iff src cs c :
  snd (add_criterion src (cs, []) c) = [] <->
  match find (fun o => N.eqb (ac_name o) (ac_name c)) cs with None => True | Some o => same_def o c = true end.
Proof.
  rewrite add_criterion_errors. cbn [app]. destruct (find _ cs) as [o|]; [|tauto]. unfold same_def.
  destruct (optN_eq (ac_desc o) (ac_desc c) && optN_eq (ac_url o) (ac_url c)), (list_eqb (ac_implies o) (ac_implies c)); cbn;
    split; intros; try reflexivity; try discriminate.
Qed.

(* errors only accumulate: once a mismatch is recorded the aggregation fails *)
Lemma add_criterion_errors_grow src acc c e : In e (snd acc) -> In e (snd (add_criterion src acc c)).
Proof. destruct acc as [cs errs]. rewrite add_criterion_errors. intros H. apply in_app_iff. left. exact H. Qed.

(* ---- the merged criteria table defines every source criterion as its source does ---- *)
Definition defined_as (cs : list agg_crit) (c : agg_crit) : Prop :=
  exists m, In m cs /\ ac_name m = ac_name c /\ same_def m c = true.

Lemma same_def_refl_new src c :
  same_def {| ac_name := ac_name c; ac_desc := ac_desc c; ac_url := ac_url c; ac_implies := ac_implies c; ac_from := ac_from c ++ [src] |} c = true.
Proof.
  unfold same_def. cbn. assert (O : forall o, optN_eq o o = true) by (intros [x|]; cbn; [apply N.eqb_refl|reflexivity]).
  rewrite !O. cbn. induction (ac_implies c) as [|x l IH]; cbn; [reflexivity|]. rewrite N.eqb_refl. exact IH.
Qed.

Lemma add_criterion_keeps src cs errs c d : defined_as cs d -> defined_as (fst (add_criterion src (cs, errs) c)) d.
Proof.
  intros [m [Hm [Hn Hs]]]. unfold add_criterion. destruct (find _ cs); cbn [fst]; [exists m; auto|].
  exists m. split; [apply in_or_app; left; exact Hm|auto].
Qed.

Lemma add_criterion_defines src cs errs c :
  snd (add_criterion src (cs, errs) c) = errs -> defined_as (fst (add_criterion src (cs, errs) c)) c.
Proof.
  rewrite add_criterion_errors. unfold add_criterion. destruct (find (fun o => N.eqb (ac_name o) (ac_name c)) cs) as [o|] eqn:F; cbn [fst].
  - intros E. apply find_some in F. destruct F as [Ho Hn]. apply N.eqb_eq in Hn. exists o. split; [exact Ho|]. split; [exact Hn|].
    assert (E' : (if optN_eq (ac_desc o) (ac_desc c) && optN_eq (ac_url o) (ac_url c) then [] else [DescriptionMismatch (ac_name c)])
                 ++ (if list_eqb (ac_implies o) (ac_implies c) then [] else [ImpliesMismatch (ac_name c)]) = []).
    { rewrite <- (app_nil_r errs) in E at 2. apply app_inv_head in E. exact E. }
    unfold same_def. destruct (optN_eq (ac_desc o) (ac_desc c) && optN_eq (ac_url o) (ac_url c)); [|discriminate].
    destruct (list_eqb (ac_implies o) (ac_implies c)); [reflexivity|discriminate].
  - intros _. eexists. split; [apply in_or_app; right; left; reflexivity|]. split; [reflexivity|apply same_def_refl_new].
Qed.

Lemma add_criterion_errs_prefix src cs errs c : exists more, snd (add_criterion src (cs, errs) c) = errs ++ more.
Proof. rewrite add_criterion_errors. eexists. reflexivity. Qed.

Lemma fold_criteria_spec src l : forall cs errs,
  snd (fold_left (add_criterion src) l (cs, errs)) = [] ->
  errs = [] /\ (forall d, defined_as cs d -> defined_as (fst (fold_left (add_criterion src) l (cs, errs))) d) /\
  (forall c, In c l -> defined_as (fst (fold_left (add_criterion src) l (cs, errs))) c).
Proof.
  induction l as [|c l IH]; intros cs errs H; cbn [fold_left] in *.
  - cbn in H. subst. repeat split; auto. intros c [].
  - destruct (add_criterion src (cs, errs) c) as [cs1 errs1] eqn:E.
    destruct (IH cs1 errs1 H) as [E1 [K1 K2]]. subst errs1.
    destruct (add_criterion_errs_prefix src cs errs c) as [more Em]. rewrite E in Em. cbn [snd] in Em.
    symmetry in Em. apply app_eq_nil in Em. destruct Em as [-> ->].
    split; [reflexivity|]. split.
    + intros d Hd. apply K1. pose proof (add_criterion_keeps src cs [] c d Hd) as X. rewrite E in X. exact X.
    + intros c' [<-|Hc']; [|apply K2; exact Hc'].
      apply K1. pose proof (add_criterion_defines src cs [] c) as X. rewrite E in X. cbn [fst snd] in X. apply X. reflexivity.
Qed.

Theorem aggregate_defines_every_source_criterion sources :
  snd (aggregate sources) = [] ->
  forall src f c, In (src, f) sources -> In c (af_criteria f) -> defined_as (af_criteria (fst (aggregate sources))) c.
Proof.
  unfold aggregate. cbn [fst snd af_criteria].
  assert (G : forall l cs errs,
     snd (fold_left (fun acc '(src, f) => fold_left (add_criterion src) (af_criteria f) acc) l (cs, errs)) = [] ->
     errs = [] /\ (forall d, defined_as cs d -> defined_as (fst (fold_left (fun acc '(src, f) => fold_left (add_criterion src) (af_criteria f) acc) l (cs, errs))) d) /\
     (forall src f c, In (src, f) l -> In c (af_criteria f) ->
        defined_as (fst (fold_left (fun acc '(src, f) => fold_left (add_criterion src) (af_criteria f) acc) l (cs, errs))) c)).
  { induction l as [|[src f] l IH]; intros cs errs H; cbn [fold_left] in *.
    - cbn in H. subst. repeat split; auto. intros ? ? ? [].
    - destruct (fold_left (add_criterion src) (af_criteria f) (cs, errs)) as [cs1 errs1] eqn:E.
      destruct (IH cs1 errs1 H) as [E1 [K1 K2]]. subst errs1.
      assert (X : snd (fold_left (add_criterion src) (af_criteria f) (cs, errs)) = []) by (rewrite E; reflexivity).
      destruct (fold_criteria_spec src (af_criteria f) cs errs X) as [-> [L1 L2]]. rewrite E in L1, L2. cbn [fst] in L1, L2.
      split; [reflexivity|]. split; [intros d Hd; apply K1; apply L1; exact Hd|].
      intros src' f' c [Eq|Hin] Hc; [inversion Eq; subst; apply K1; apply L2; exact Hc|eapply K2; eauto]. }
  intros H src f c Hin Hc. destruct (G sources [] [] H) as [_ [_ K]]. eapply K; eauto.
Qed.
