(* RewriteProofs.v — rewriting every (non-violation) criteria list of a store to another
   list with the same meaning ([from_list]) changes NOTHING the resolver computes: the whole
   report — verdict, failures, classification — is identical (C05 at the verdict level). *)
Require Import Base Extracted Criteria Search AuditGraph DepGraph Resolve.
Require Import CriteriaProofs.
Local Open Scope N_scope.

Lemma enumerate_from_map {A B} (f : A -> B) (l : list A) s :
  enumerate_from s (map f l) = map (fun '(i, x) => (i, f x)) (enumerate_from s l).
Proof. revert s; induction l as [|x l IH]; intros s; cbn; [reflexivity|]. rewrite IH. reflexivity. Qed.
Lemma enumerate_map {A B} (f : A -> B) (l : list A) :
  enumerate (map f l) = map (fun '(i, x) => (i, f x)) (enumerate l).
Proof. apply enumerate_from_map. Qed.

Lemma flat_map_map {A B C} (f : A -> B) (g : B -> list C) (l : list A) :
  flat_map g (map f l) = flat_map (fun x => g (f x)) l.
Proof. induction l as [|x l IH]; cbn; [reflexivity|]. rewrite IH. reflexivity. Qed.
Lemma map_flat_map {A B C} (h : B -> C) (g : A -> list B) (l : list A) :
  map h (flat_map g l) = flat_map (fun x => map h (g x)) l.
Proof. induction l as [|x l IH]; cbn; [reflexivity|]. rewrite map_app, IH. reflexivity. Qed.
Lemma flat_map_ext' {A B} (f g : A -> list B) (l : list A) : (forall x, In x l -> f x = g x) -> flat_map f l = flat_map g l.
Proof. induction l as [|x l IH]; intros H; cbn; [reflexivity|]. rewrite (H x (or_introl eq_refl)), IH; [reflexivity|]. intros y Hy. apply H. right. exact Hy. Qed.

Section Rewrite.
Variable t : ctable.
Variable rw : list N -> list N.
Hypothesis rw_same : forall l, from_list t (rw l) = from_list t l.

Definition rw_audit (a : audit) : audit :=
  match au_kind a with
  | KViolation _ => a
  | _ => {| au_kind := au_kind a; au_crit := rw (au_crit a); au_importable := au_importable a; au_fresh := au_fresh a |}
  end.
Definition rw_wild (w : wildcard) : wildcard :=
  {| w_user := w_user w; w_start := w_start w; w_end := w_end w; w_crit := rw (w_crit w); w_fresh := w_fresh w |}.
Definition rw_trusted (e : trusted) : trusted :=
  {| t_user := t_user e; t_start := t_start e; t_end := t_end e; t_crit := rw (t_crit e) |}.
Definition rw_exemption (x : exemption) : exemption :=
  {| x_ver := x_ver x; x_crit := rw (x_crit x); x_suggest := x_suggest x |}.

Definition rw_pkg (ps : pkg_store) : pkg_store :=
  {| ps_imported := map (map rw_audit) (ps_imported ps);
     ps_local := map rw_audit (ps_local ps);
     ps_wild_imported := map (map rw_wild) (ps_wild_imported ps);
     ps_wild_local := map rw_wild (ps_wild_local ps);
     ps_trusted := map rw_trusted (ps_trusted ps);
     ps_publishers := ps_publishers ps;
     ps_unpublished := ps_unpublished ps;
     ps_exemptions := map rw_exemption (ps_exemptions ps) |}.

Definition rw_store (s : store) : store :=
  {| st_criteria := st_criteria s; st_pkgs := map (fun '(n, ps) => (n, rw_pkg ps)) (st_pkgs s) |}.

Lemma rw_audit_kind a : au_kind (rw_audit a) = au_kind a.
Proof. unfold rw_audit. destruct (au_kind a) eqn:E; cbn; auto. Qed.
Lemma rw_audit_importable a : au_importable (rw_audit a) = au_importable a.
Proof. unfold rw_audit. destruct (au_kind a); reflexivity. Qed.
Lemma rw_audit_fresh a : au_fresh (rw_audit a) = au_fresh a.
Proof. unfold rw_audit. destruct (au_kind a); reflexivity. Qed.
Lemma rw_audit_crit a : from_list t (au_crit (rw_audit a)) = from_list t (au_crit a).
Proof. unfold rw_audit. destruct (au_kind a); cbn; try apply rw_same; reflexivity. Qed.
Lemma rw_audit_violation a r : au_kind a = KViolation r -> rw_audit a = a.
Proof. intros H. unfold rw_audit. rewrite H. reflexivity. Qed.

Lemma all_audits_rw ps :
  all_audits (rw_pkg ps) = map (fun '(src, o, a) => (src, o, rw_audit a)) (all_audits ps).
Proof.
  unfold all_audits. cbn [ps_imported ps_local rw_pkg]. rewrite map_app. f_equal.
  - rewrite enumerate_map, flat_map_map, map_flat_map.
    apply flat_map_ext'. intros [imp l] _. rewrite enumerate_map, !map_map. apply map_ext. intros [i a]. reflexivity.
  - rewrite enumerate_map, !map_map. apply map_ext. intros [i a]. rewrite rw_audit_importable. reflexivity.
Qed.

Lemma all_wildcards_rw ps :
  all_wildcards (rw_pkg ps) = map (fun '(imp, ai, w) => (imp, ai, rw_wild w)) (all_wildcards ps).
Proof.
  unfold all_wildcards. cbn [ps_wild_imported ps_wild_local rw_pkg]. rewrite map_app. f_equal.
  - rewrite enumerate_map, flat_map_map, map_flat_map.
    apply flat_map_ext'. intros [imp l] _. rewrite enumerate_map, !map_map. apply map_ext. intros [i w]. reflexivity.
  - rewrite enumerate_map, !map_map. apply map_ext. intros [i w]. reflexivity.
Qed.

Lemma all_edges_rw ps : all_edges t (rw_pkg ps) = all_edges t ps.
Proof.
  assert (E1 : audit_edges t (rw_pkg ps) = audit_edges t ps).
  { unfold audit_edges. rewrite all_audits_rw, flat_map_map. apply flat_map_ext'. intros [[src o] a] _.
    rewrite rw_audit_kind, rw_audit_crit, rw_audit_fresh. reflexivity. }
  assert (E2 : publisher_edges t (rw_pkg ps) = publisher_edges t ps).
  { unfold publisher_edges. cbn [ps_publishers rw_pkg]. apply flat_map_ext'. intros [pi p] _. f_equal.
    - rewrite all_wildcards_rw, flat_map_map. apply flat_map_ext'. intros [[imp ai] w] _.
      unfold rw_wild. cbn [w_user w_start w_end w_crit w_fresh]. rewrite rw_same. reflexivity.
    - cbn [ps_trusted rw_pkg]. rewrite flat_map_map. apply flat_map_ext'. intros e _.
      unfold rw_trusted. cbn [t_user t_start t_end t_crit]. rewrite rw_same. reflexivity. }
  assert (E3 : unpublished_edges t (rw_pkg ps) = unpublished_edges t ps) by reflexivity.
  assert (E4 : exemption_edges t (rw_pkg ps) = exemption_edges t ps).
  { unfold exemption_edges. cbn [ps_exemptions rw_pkg]. rewrite enumerate_map, map_map. apply map_ext. intros [i x].
    unfold rw_exemption. cbn [x_ver x_crit x_suggest]. rewrite rw_same. reflexivity. }
  unfold all_edges. rewrite E1, E2, E3, E4. reflexivity.
Qed.

Lemma violation_conflicts_rw ps : violation_conflicts t (rw_pkg ps) = violation_conflicts t ps.
Proof.
  unfold violation_conflicts. rewrite all_audits_rw, flat_map_map. apply flat_map_ext'. intros [[vsrc vo] va] _.
  rewrite rw_audit_kind. destruct (au_kind va) as [| |range] eqn:K; try reflexivity.
  rewrite (rw_audit_violation va range K). f_equal.
  - cbn [ps_exemptions rw_pkg]. rewrite enumerate_map, flat_map_map. apply flat_map_ext'. intros [xi x] _. unfold rw_exemption. cbn [x_ver x_crit x_suggest]. rewrite rw_same. reflexivity.
  - rewrite flat_map_map. apply flat_map_ext'. intros [[asrc ao] a] _. rewrite rw_audit_crit, rw_audit_kind. reflexivity.
Qed.

Lemma build_rw ps : build t (rw_pkg ps) = build t ps.
Proof. unfold build. rewrite violation_conflicts_rw, all_edges_rw. reflexivity. Qed.

Lemma rw_pkg_empty : rw_pkg empty_pkg_store = empty_pkg_store.
Proof. reflexivity. Qed.

Lemma store_for_rw s name : store_for (rw_store s) name = rw_pkg (store_for s name).
Proof.
  unfold store_for, rw_store. cbn [st_pkgs]. induction (st_pkgs s) as [|[k ps] l IH]; cbn [map find]; [reflexivity|].
  destruct (N.eqb k name); [reflexivity|exact IH].
Qed.

Theorem resolve_pkg_rw s p req : st_criteria s = t -> resolve_pkg t (rw_store s) p req = resolve_pkg t s p req.
Proof. intros _. unfold resolve_pkg. rewrite store_for_rw, build_rw. reflexivity. Qed.

(* the whole report is unchanged *)
Theorem resolve_rw inp s : st_criteria s = t -> resolve inp (rw_store s) = resolve inp s.
Proof.
  intros Ht. unfold resolve. cbn [st_criteria rw_store]. rewrite Ht. f_equal.
  - apply map_ext. intros [i p]. apply resolve_pkg_rw. exact Ht.
  - f_equal. apply map_ext. intros [i p]. apply resolve_pkg_rw. exact Ht.
Qed.
End Rewrite.
