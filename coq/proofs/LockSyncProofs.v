(* LockSyncProofs.v — what a locked load that passes the lock-freshness test may rely on. *)
Require Import Base Extracted Criteria Validate Imports LockSync ValidateLock EmbedProofs ValidateProofs.
Local Open Scope N_scope.

Lemma sides_differ_false cfg lock : sides_differ cfg lock = false -> map ic_name cfg = map ls_name lock.
Proof.
  unfold sides_differ. change LOCK_SYNC_COMPARES_KEYS with true. cbv iota. intros H.
  apply list_eqb_eq. destruct (list_eqb _ _); [reflexivity|discriminate].
Qed.

Lemma section_of_some lock n s : section_of lock n = Some s -> In s lock /\ ls_name s = n.
Proof. unfold section_of. intros H. apply find_some in H. destruct H as [H1 H2]. apply N.eqb_eq in H2. auto. Qed.

Lemma section_of_present lock n : In n (map ls_name lock) -> section_of lock n <> None.
Proof.
  unfold section_of. intros H F. apply in_map_iff in H. destruct H as [s [E Hs]].
  pose proof (find_none _ _ F s Hs) as G. cbn in G. rewrite E, N.eqb_refl in G. discriminate.
Qed.

(* the section lookup never fails once the names agree: imports_lock_outdated cannot crash *)
Lemma exclude_scan_no_panic cfg lock :
  (forall c, In c cfg -> In (ic_name c) (map ls_name lock)) -> exclude_scan cfg lock <> LPanic.
Proof.
  induction cfg as [|c rest IH]; cbn [exclude_scan]; intros H; [discriminate|].
  destruct (section_of lock (ic_name c)) as [s|] eqn:E.
  - destruct (existsb _ (ic_exclude c)); [discriminate|]. apply IH. intros c0 Hc0. apply H. right. exact Hc0.
  - exfalso. eapply section_of_present; [apply H; left; reflexivity|exact E].
Qed.

Theorem lock_outdated_never_panics live cfg lock : lock_outdated live cfg lock <> LPanic.
Proof.
  unfold lock_outdated. destruct live; [discriminate|]. destruct (sides_differ cfg lock) eqn:D; [discriminate|].
  apply exclude_scan_no_panic. intros c Hc. rewrite <- (sides_differ_false _ _ D). apply in_map. exact Hc.
Qed.

Lemma exclude_scan_in_sync cfg lock : exclude_scan cfg lock = LInSync ->
  forall c, In c cfg -> exists s, section_of lock (ic_name c) = Some s /\
    forall n, In n (ic_exclude c) -> ~ In n (ls_audit_crates s) /\ ~ In n (ls_wild_crates s).
Proof.
  induction cfg as [|c0 rest IH]; cbn [exclude_scan]; intros H c Hc; [destruct Hc|].
  destruct (section_of lock (ic_name c0)) as [s|] eqn:E; [|discriminate].
  destruct (existsb _ (ic_exclude c0)) eqn:X; [discriminate|].
  destruct Hc as [<-|Hc]; [|apply IH; assumption].
  exists s. split; [exact E|]. intros n Hn.
  assert (G : mem n (ls_audit_crates s) || mem n (ls_wild_crates s) = false).
  { destruct (mem n (ls_audit_crates s) || mem n (ls_wild_crates s)) eqn:M; [|reflexivity].
    assert (existsb (fun n0 => mem n0 (ls_audit_crates s) || mem n0 (ls_wild_crates s)) (ic_exclude c0) = true)
      by (apply existsb_exists; exists n; auto). congruence. }
  apply orb_false_elim in G. destruct G as [G1 G2]. unfold mem in *.
  split; intros Hin.
  - assert (existsb (N.eqb n) (ls_audit_crates s) = true) by (apply existsb_exists; exists n; split; [exact Hin|apply N.eqb_refl]). congruence.
  - assert (existsb (N.eqb n) (ls_wild_crates s) = true) by (apply existsb_exists; exists n; split; [exact Hin|apply N.eqb_refl]). congruence.
Qed.

(* A LOCKED LOAD THAT IS ACCEPTED (not live, verdict "in sync"): the sections of imports.lock are exactly the configured
   imports, name by name, and the section of an import holds no audit and no wildcard audit of a crate that import
   excludes — wherever the import stands in the list *)
Theorem accepted_lock_is_in_step cfg lock : lock_outdated false cfg lock = LInSync ->
  map ic_name cfg = map ls_name lock /\
  forall c, In c cfg -> exists s, In s lock /\ ls_name s = ic_name c /\
    forall n, In n (ic_exclude c) -> ~ In n (ls_audit_crates s) /\ ~ In n (ls_wild_crates s).
Proof.
  unfold lock_outdated. destruct (sides_differ cfg lock) eqn:D; [discriminate|]. intros H. split; [apply sides_differ_false; exact D|].
  intros c Hc. destruct (exclude_scan_in_sync _ _ H c Hc) as [s [Es Hx]]. apply section_of_some in Es. destruct Es as [E1 E2].
  exists s. auto.
Qed.

(* and conversely a stale entry of an excluded crate, under whichever import, is always noticed *)
Theorem stale_excluded_entry_is_refused cfg lock c s n :
  map ic_name cfg = map ls_name lock -> NoDup (map ls_name lock) ->
  In c cfg -> In s lock -> ls_name s = ic_name c -> In n (ic_exclude c) ->
  (In n (ls_audit_crates s) \/ In n (ls_wild_crates s)) ->
  lock_outdated false cfg lock = LOutdated.
Proof.
  intros En Hnd Hc Hs Ename Hn Hst. unfold lock_outdated.
  destruct (sides_differ cfg lock); [reflexivity|].
  assert (Hsec : forall c0, In c0 cfg -> In (ic_name c0) (map ls_name lock)) by (intros c0 H0; rewrite <- En; apply in_map; exact H0).
  clear En. induction cfg as [|c0 rest IH]; [destruct Hc|]. cbn [exclude_scan].
  destruct (section_of lock (ic_name c0)) as [s0|] eqn:E0.
  2:{ exfalso. eapply section_of_present; [apply Hsec; left; reflexivity|exact E0]. }
  destruct (existsb _ (ic_exclude c0)) eqn:X; [reflexivity|].
  destruct Hc as [->|Hc].
  - exfalso. apply section_of_some in E0. destruct E0 as [Hs0 En0].
    assert (s0 = s).
    { clear - Hnd Hs0 Hs En0 Ename. rewrite <- Ename in En0. induction lock as [|x l IH]; [destruct Hs|]. cbn in Hnd. inversion Hnd as [|? ? Hx Hl]; subst.
      destruct Hs0 as [->|Hs0], Hs as [->|Hs]; auto.
      - exfalso. apply Hx. rewrite En0. apply in_map. exact Hs.
      - exfalso. apply Hx. rewrite <- En0. apply in_map. exact Hs0. }
    subst s0.
    assert (existsb (fun n0 => mem n0 (ls_audit_crates s) || mem n0 (ls_wild_crates s)) (ic_exclude c) = true).
    { apply existsb_exists. exists n. split; [exact Hn|]. unfold mem. apply orb_true_iff.
      destruct Hst as [H|H]; [left|right]; apply existsb_exists; exists n; split; auto; apply N.eqb_refl. }
    congruence.
  - apply IH; [exact Hc|]. intros c1 H1. apply Hsec. right. exact H1.
Qed.

(* the whole load: no crash, with the lock-freshness test included *)
Theorem load_never_crashes locked shadows t max_end ends r ps cfg lock :
  load_outcome_lock locked shadows t max_end ends r ps cfg lock <> Panics.
Proof.
  unfold load_outcome_lock. pose proof (lock_outdated_never_panics (negb locked) cfg lock) as H.
  destruct (lock_outdated (negb locked) cfg lock); [discriminate| |congruence].
  apply no_crash; reflexivity.
Qed.

(* a locked load that gets past validate has a lock in step with the configuration *)
Theorem locked_load_accepted_means_in_step shadows t max_end ends r ps cfg lock :
  load_outcome_lock true shadows t max_end ends r ps cfg lock <> Refused ->
  map ic_name cfg = map ls_name lock /\
  forall c, In c cfg -> exists s, In s lock /\ ls_name s = ic_name c /\
    forall n, In n (ic_exclude c) -> ~ In n (ls_audit_crates s) /\ ~ In n (ls_wild_crates s).
Proof.
  unfold load_outcome_lock. cbn [negb]. intros H. apply accepted_lock_is_in_step.
  pose proof (lock_outdated_never_panics false cfg lock) as Hp.
  destruct (lock_outdated false cfg lock); [congruence|reflexivity|congruence].
Qed.
