(* UpdateKeep.v — every entry a chosen path requires survives the update, in every
   mode ("required_kept"); RegenerateExemptions searches cannot fail; a settled
   store is left alone by the check update. *)
Require Import Base Extracted Criteria Search AuditGraph DepGraph Resolve Update.
Require Import CriteriaProofs SearchProofs AuditGraphProofs ResolveProofs UpdateProofs.
Local Open Scope N_scope.

Lemma in_map_snd_filter_intro {A} (f : nat * A -> bool) (l : list A) i x :
  nth_error l i = Some x -> f (i, x) = true -> In x (map snd (filter f (enumerate l))).
Proof.
  intros Hn Hf. apply in_map_iff. exists (i, x). split; [reflexivity|]. apply filter_In. split; [|exact Hf].
  apply (in_enumerate x). split; [apply nth_error_Some; congruence|apply nth_error_nth; exact Hn].
Qed.

Section Kept.
Variables (t : ctable) (mode : update_mode) (ing : bool) (rm : rmap) (ps : pkg_store).
Let u := update_pkg t mode ing (Some rm) ps.

Theorem kept_local i a :
  nth_error (ps_local ps) (N.to_nat i) = Some a -> rmap_has rm (RLocalAudit i) = true -> In a (pu_local u).
Proof.
  intros Hn Hr. unfold u, update_pkg. cbn [pu_local]. destruct (ing && um_prune_audits mode).
  - eapply in_map_snd_filter_intro; [exact Hn|]. cbn. rewrite N2Nat.id, Hr. apply orb_true_r.
  - eapply nth_error_In; eauto.
Qed.

Theorem kept_imported imp i a :
  nth_audit (ps_imported ps) imp i = Some a -> is_violation a = false -> rmap_has rm (RAudit imp i) = true ->
  In (clear_audit a) (nth (N.to_nat imp) (pu_imported u) []).
Proof.
  unfold nth_audit. destruct (nth_error (ps_imported ps) (N.to_nat imp)) as [l|] eqn:El; [|discriminate].
  intros Hn Hv Hr. unfold u, update_pkg. cbn [pu_imported].
  rewrite (nth_map_enumerate _ _ _ _ []) by (apply nth_error_Some; congruence).
  rewrite (nth_error_nth _ _ _ El). apply in_map. eapply in_map_snd_filter_intro; [exact Hn|].
  cbn. rewrite Hv, !N2Nat.id, Hr. destruct (_ && _); reflexivity.
Qed.

Theorem kept_wildcard imp i w :
  nth_wild (ps_wild_imported ps) imp i = Some w -> rmap_has rm (RWildcard imp i) = true ->
  In (clear_wild w) (nth (N.to_nat imp) (pu_wild_imported u) []).
Proof.
  unfold nth_wild. destruct (nth_error (ps_wild_imported ps) (N.to_nat imp)) as [l|] eqn:El; [|discriminate].
  intros Hn Hr. unfold u, update_pkg. cbn [pu_wild_imported].
  rewrite (nth_map_enumerate _ _ _ _ []) by (apply nth_error_Some; congruence).
  rewrite (nth_error_nth _ _ _ El). apply in_map. eapply in_map_snd_filter_intro; [exact Hn|].
  cbn. rewrite !N2Nat.id, Hr. destruct (_ && _); reflexivity.
Qed.

Theorem kept_publisher i p :
  nth_error (ps_publishers ps) (N.to_nat i) = Some p -> rmap_has rm (RPublisher i) = true ->
  In (clear_pub p) (pu_publishers u).
Proof.
  intros Hn Hr. unfold u, update_pkg. cbn [pu_publishers]. apply in_map.
  eapply in_map_snd_filter_intro; [exact Hn|]. cbn. rewrite N2Nat.id, Hr. destruct (_ && _); reflexivity.
Qed.

End Kept.

(* ---- RegenerateExemptions searches cannot fail ---- *)
Theorem regenerate_search_total g c v fuel vis :
  search fuel g c RegenerateExemptions (Some v) None <> RErr vis.
Proof.
  intros E. pose proof (search_spec g c RegenerateExemptions (Some v) None fuel) as S.
  rewrite E in S. cbn in S. destruct S as [Hvis Hnt]. apply Hnt. apply Hvis.
  eexists. eapply reach_snoc; [apply reach_nil|]. right. repeat split; eauto.
Qed.

(* ---- a settled package store is left alone by the check update ---- *)
Lemma map_snd_filter_all {A} (f : nat * A -> bool) (l : list A) :
  (forall i x, In (i, x) (enumerate l) -> f (i, x) = true) -> map snd (filter f (enumerate l)) = l.
Proof.
  unfold enumerate. generalize 0%nat. induction l as [|x l IH]; intros k H; cbn; [reflexivity|].
  rewrite (H k x (or_introl eq_refl)). cbn. f_equal. apply IH. intros i y Hy. apply H. right. exact Hy.
Qed.

Definition settled (ps : pkg_store) : Prop :=
  (forall l a, In l (ps_imported ps) -> In a l -> au_fresh a = false) /\
  (forall l w, In l (ps_wild_imported ps) -> In w l -> w_fresh w = false) /\
  (forall p, In p (ps_publishers ps) -> p_fresh p = false).

Lemma settled_no_prune ps re : settled ps -> should_prune_imports ps re mode_check_update = false.
Proof.
  intros [S1 [S2 S3]]. unfold should_prune_imports. cbn. destruct re as [rm|]; [|reflexivity].
  apply not_true_is_false. intros H. apply existsb_exists in H. destruct H as [[e s] [_ H]].
  destruct e; try discriminate.
  - unfold nth_audit in H. destruct (nth_error (ps_imported ps) (N.to_nat imp)) as [l|] eqn:E1; [|discriminate].
    destruct (nth_error l (N.to_nat idx)) as [a|] eqn:E2; [|discriminate].
    rewrite (S1 l a (nth_error_In _ _ E1) (nth_error_In _ _ E2)) in H. discriminate.
  - unfold nth_wild in H. destruct (nth_error (ps_wild_imported ps) (N.to_nat imp)) as [l|] eqn:E1; [|discriminate].
    destruct (nth_error l (N.to_nat idx)) as [w|] eqn:E2; [|discriminate].
    rewrite (S2 l w (nth_error_In _ _ E1) (nth_error_In _ _ E2)) in H. discriminate.
  - destruct (nth_error (ps_publishers ps) (N.to_nat idx)) as [p|] eqn:E1; [|discriminate].
    rewrite (S3 p (nth_error_In _ _ E1)) in H. discriminate.
Qed.

Lemma clear_audit_id a : au_fresh a = false -> clear_audit a = a.
Proof. destruct a; cbn; intros ->; reflexivity. Qed.
Lemma clear_wild_id w : w_fresh w = false -> clear_wild w = w.
Proof. destruct w; cbn; intros ->; reflexivity. Qed.
Lemma clear_pub_id p : p_fresh p = false -> clear_pub p = p.
Proof. destruct p; cbn; intros ->; reflexivity. Qed.
Lemma map_id_in {A} (f : A -> A) l : (forall x, In x l -> f x = x) -> map f l = l.
Proof. induction l as [|x l IH]; intros H; cbn; [reflexivity|]. rewrite H by (left; reflexivity). f_equal. apply IH. intros; apply H; right; assumption. Qed.

Lemma map_enumerate_id {A} (f : nat * list A -> list A) (l : list (list A)) :
  (forall i x, In (i, x) (enumerate l) -> f (i, x) = x) -> map f (enumerate l) = l.
Proof.
  unfold enumerate. generalize 0%nat. induction l as [|x l IH]; intros k H; cbn; [reflexivity|].
  rewrite (H k x (or_introl eq_refl)). f_equal. apply IH. intros i y Hy. apply H. right. exact Hy.
Qed.

Theorem settled_check_update_keeps t ing re ps :
  settled ps ->
  let u := update_pkg t mode_check_update ing re ps in
  pu_local u = ps_local ps /\ pu_imported u = ps_imported ps /\
  pu_wild_imported u = ps_wild_imported ps /\ pu_publishers u = ps_publishers ps.
Proof.
  intros S u. pose proof (settled_no_prune ps re S) as Hnp. destruct S as [S1 [S2 S3]].
  unfold u, update_pkg. rewrite Hnp. cbn [pu_local pu_imported pu_wild_imported pu_publishers um_prune_audits mode_check_update].
  rewrite andb_false_r. split; [reflexivity|]. split; [|split].
  - apply map_enumerate_id. intros i l Hl. apply (in_enumerate []) in Hl. destruct Hl as [Hl1 Hl2].
    assert (Hin : In l (ps_imported ps)) by (rewrite <- Hl2; apply nth_In; exact Hl1).
    rewrite map_snd_filter_all.
    + apply map_id_in. intros a Ha. apply clear_audit_id. eapply S1; eauto.
    + intros j a Ha. apply (in_enumerate a) in Ha. destruct Ha as [Ha1 Ha2].
      assert (In a l) by (rewrite <- Ha2; apply nth_In; exact Ha1).
      cbn. rewrite (S1 l a Hin H). reflexivity.
  - apply map_enumerate_id. intros i l Hl. apply (in_enumerate []) in Hl. destruct Hl as [Hl1 Hl2].
    assert (Hin : In l (ps_wild_imported ps)) by (rewrite <- Hl2; apply nth_In; exact Hl1).
    rewrite map_snd_filter_all.
    + apply map_id_in. intros w Hw. apply clear_wild_id. eapply S2; eauto.
    + intros j w Hw. apply (in_enumerate w) in Hw. destruct Hw as [Hw1 Hw2].
      assert (In w l) by (rewrite <- Hw2; apply nth_In; exact Hw1).
      cbn. rewrite (S2 l w Hin H). reflexivity.
  - rewrite map_snd_filter_all.
    + apply map_id_in. intros p Hp. apply clear_pub_id. apply S3; exact Hp.
    + intros j p Hp. apply (in_enumerate p) in Hp. destruct Hp as [Hp1 Hp2].
      assert (In p (ps_publishers ps)) by (rewrite <- Hp2; apply nth_In; exact Hp1).
      cbn. rewrite (S3 p H). reflexivity.
Qed.

(* written criteria lists are canonical: rewriting an already written list
   reproduces it *)
Theorem names_canonical t s :
  ct_acyclic t = true -> bounded t s -> closed t s ->
  names_of t (from_list t (names_of t s)) = names_of t s.
Proof. intros Ha Hb Hc. unfold names_of. rewrite (minimal_generates t (ct_acyclic_spec t Ha) s Hb Hc). reflexivity. Qed.
