(* CheckFixpoint.v — C13: the automatic update of a successful check is the IDENTITY on a store that is in the
   form cargo-vet writes (no freshness marks, unpublished records sorted and de-duplicated, exemption criteria
   written as the minimal names of a non-empty set): re-running the check on what it wrote changes nothing,
   whatever certification paths the second run happens to choose. *)
Require Import Base Extracted Criteria Search AuditGraph DepGraph Resolve Update Commands.
Require Import CriteriaProofs SearchProofs AuditGraphProofs ResolveProofs UpdateProofs UpdateKeep PreserveProofs EndToEnd.
Local Open Scope N_scope.

Definition written_form (t : ctable) (ps : pkg_store) : Prop :=
  settled ps /\
  (forall u, In u (ps_unpublished ps) -> u_fresh u = false) /\
  dedup_adj unpub_eqb (sort_by unpub_leb (ps_unpublished ps)) = ps_unpublished ps /\
  (forall x, In x (ps_exemptions ps) ->
     x_crit x = names_of t (from_list t (x_crit x)) /\ cs_is_empty (from_list t (x_crit x)) = false).

(* every key of a required-entry map has a non-empty set *)
Lemma rmap_add_nonempty rm e c : (forall k s, In (k, s) rm -> exists c0, cs_has c0 s = true) ->
  forall k s, In (k, s) (rmap_add rm e c) -> exists c0, cs_has c0 s = true.
Proof.
  induction rm as [|[k0 s0] rm IH]; intros H k s Hin; cbn [rmap_add] in Hin.
  - destruct Hin as [E|[]]. assert (Es : s = cs_set c cs_empty) by congruence. subst s. exists c. rewrite cs_has_set, N.eqb_refl. reflexivity.
  - destruct (rentry_eqb k0 e).
    + destruct Hin as [E|Hin]; [assert (Es : s = cs_set c s0) by congruence; subst s; exists c; rewrite cs_has_set, N.eqb_refl; reflexivity|].
      apply (H k s). right. exact Hin.
    + destruct Hin as [E|Hin]; [assert (Es : s = s0) by congruence; subst s; apply (H k0 s0); left; reflexivity|].
      apply (IH (fun k' s' H' => H k' s' (or_intror H')) k s Hin).
Qed.

Lemma clear_unpub_id u : u_fresh u = false -> clear_unpub u = u.
Proof. destruct u; cbn; intros ->; reflexivity. Qed.

Lemma flat_map_singleton_enumerate {A} (f : nat * A -> list A) (l : list A) :
  (forall i x, In (i, x) (enumerate l) -> f (i, x) = [x]) -> flat_map f (enumerate l) = l.
Proof.
  unfold enumerate. generalize 0%nat. induction l as [|x l IH]; intros k H; cbn; [reflexivity|].
  rewrite (H k x (or_introl eq_refl)). cbn. f_equal. apply IH. intros i y Hy. apply H. right. exact Hy.
Qed.

Section OneCrate.
Variables (t : ctable) (ing : bool) (re : option rmap) (ps : pkg_store).
Hypothesis W : written_form t ps.
(* what required_entries guarantees outside RegenerateExemptions (required_entries_exemptions, _nonempty below) *)
Hypothesis re_ok : forall rm, re = Some rm ->
  rmap_inv (exemption_ok t ps) rm /\ (forall k s, In (k, s) rm -> exists c0, cs_has c0 s = true).

Lemma check_update_exemptions : update_exemptions t mode_check_update re (ps_exemptions ps) = ps_exemptions ps.
Proof.
  destruct W as [_ [_ [_ WX]]]. unfold update_exemptions. apply flat_map_singleton_enumerate. intros i x Hin.
  assert (Hx : In x (ps_exemptions ps)).
  { apply (in_enumerate x) in Hin. destruct Hin as [H1 H2]. rewrite <- H2. apply nth_In. exact H1. }
  destruct (WX x Hx) as [Hcanon Hne]. cbv zeta. cbn [um_prune_exemptions mode_check_update].
  set (original := from_list t (x_crit x)) in *.
  set (useful0 := match re with
                  | Some rm => match rmap_get rm (RExemption (N.of_nat i)) with Some s => s | None => cs_empty end
                  | None => original end).
  assert (Hsub : forall c, cs_has c useful0 = true -> cs_has c original = true).
  { unfold useful0. destruct re as [rm|]; [|auto]. destruct (rmap_get rm (RExemption (N.of_nat i))) as [s0|] eqn:Eg.
    - intros c Hc. destruct (re_ok rm eq_refl) as [Hinv _]. specialize (Hinv _ _ _ Eg Hc). cbn in Hinv.
      destruct Hinv as [x0 [Hn Hc0]]. rewrite Nat2N.id in Hn.
      apply (in_enumerate x) in Hin. destruct Hin as [H1 H2]. rewrite (nth_error_nth' _ x H1), H2 in Hn. inversion Hn; subst x0. exact Hc0.
    - intros c Hc. rewrite cs_has_empty in Hc. discriminate. }
  assert (Eu : cs_union useful0 original = original).
  { apply cs_ext. intros c. rewrite cs_has_union. destruct (cs_has c useful0) eqn:E; [rewrite (Hsub c E); reflexivity|reflexivity]. }
  rewrite Eu, Hne.
  assert (Hc : cs_contains original original = true) by (apply cs_contains_spec; auto).
  rewrite Hc, andb_false_r. fold original in Hcanon. rewrite <- Hcanon. destruct x; reflexivity.
Qed.

Lemma check_update_no_fresh_exemptions : fresh_exemptions t re = [].
Proof.
  unfold fresh_exemptions. destruct re as [rm|]; [|reflexivity]. destruct (re_ok rm eq_refl) as [Hinv Hne].
  assert (G : forall l, (forall k s, In (k, s) l -> In (k, s) rm) ->
              flat_map (fun '(e, s) => match e with RFreshExemption v => [ {| x_ver := v; x_crit := names_of t s; x_suggest := true |} ] | _ => [] end) l = []).
  { induction l as [|[k s] l IH]; intros H; cbn [flat_map]; [reflexivity|].
    rewrite IH by (intros k' s' H'; apply H; right; exact H').
    destruct k; try reflexivity. exfalso.
    destruct (Hne _ _ (H _ _ (or_introl eq_refl))) as [c0 Hc0].
    (* the first binding of this key in rm has a member too, and the invariant says False for it *)
    destruct (rmap_get rm (RFreshExemption v)) as [s1|] eqn:Eg.
    - destruct (Hne (RFreshExemption v) s1 (rmap_get_in _ _ _ Eg)) as [c1 Hc1]. exact (Hinv _ _ _ Eg Hc1).
    - unfold rmap_get in Eg. destruct (find _ rm) as [[k1 s1]|] eqn:F; [discriminate|].
      pose proof (find_none _ _ F _ (H _ _ (or_introl eq_refl))) as Hf.
      change (rentry_eqb (RFreshExemption v) (RFreshExemption v) = false) in Hf.
      destruct (rentry_eqb_spec (RFreshExemption v) (RFreshExemption v)); [discriminate|congruence]. }
  apply G. auto.
Qed.

Theorem check_update_is_identity : apply_pkg_update ps (update_pkg t mode_check_update ing re ps) = ps.
Proof.
  destruct (settled_check_update_keeps t ing re ps (proj1 W)) as [H1 [H2 [H3 H4]]].
  pose proof W as [_ [WU [WS _]]].
  assert (H5 : pu_unpublished (update_pkg t mode_check_update ing re ps) = ps_unpublished ps).
  { unfold update_pkg. cbn [pu_unpublished um_prune_exemptions mode_check_update negb andb].
    rewrite map_snd_filter_all.
    - rewrite (map_id_in clear_unpub) by (intros u Hu; apply clear_unpub_id; apply WU; exact Hu). exact WS.
    - intros j u Hu. apply (in_enumerate u) in Hu. destruct Hu as [Hu1 Hu2].
      assert (In u (ps_unpublished ps)) by (rewrite <- Hu2; apply nth_In; exact Hu1).
      rewrite (WU u H). reflexivity. }
  assert (H6 : pu_exemptions (update_pkg t mode_check_update ing re ps) = ps_exemptions ps).
  { unfold update_pkg. cbn [pu_exemptions]. rewrite check_update_exemptions, check_update_no_fresh_exemptions.
    destruct ing; apply app_nil_r. }
  unfold apply_pkg_update. rewrite H1, H2, H3, H4, H5, H6. destruct ps; reflexivity.
Qed.
End OneCrate.

Lemma required_entries_nonempty t g reqs s name m rm :
  required_entries t g reqs s name m = Some rm -> forall k s0, In (k, s0) rm -> exists c0, cs_has c0 s0 = true.
Proof.
  apply (required_entries_ind (fun rm => forall k s0, In (k, s0) rm -> exists c0, cs_has c0 s0 = true)).
  - intros k s0 [].
  - intros rm0 e c _ IH. apply rmap_add_nonempty. exact IH.
Qed.

(* the whole store: a successful unlocked check on a store in written form writes that very store *)
Theorem check_on_written_store inp s s1 :
  (forall name ps, In (name, ps) (st_pkgs s) -> written_form (st_criteria s) ps) ->
  NoDup (map fst (st_pkgs s)) ->
  cmd_check false inp s = Some s1 -> s1 = s.
Proof.
  intros HW Hnd H. unfold cmd_check in H. destruct (has_errors (resolve inp s)); [discriminate|]. inversion H; subst s1. clear H.
  destruct s as [t pkgs]. unfold update_store. cbn [st_criteria st_pkgs] in *. f_equal.
  pose proof (update_store_pkgs inp {| st_criteria := t; st_pkgs := pkgs |} (fun _ => mode_check_update)) as E.
  unfold update_store in E. cbn [st_pkgs st_criteria] in E. rewrite E. clear E.
  rewrite <- (map_id pkgs) at 2. apply map_ext_in. intros [name ps] Hin. f_equal.
  apply check_update_is_identity; [apply (HW name ps Hin)|].
  intros rm Hre. unfold re_of in Hre. cbn [st_criteria] in Hre.
  assert (Eps : store_for {| st_criteria := t; st_pkgs := pkgs |} name = ps).
  { unfold store_for. cbn [st_pkgs]. clear HW Hre. induction pkgs as [|[k q] l IH]; [destruct Hin|]. cbn [find].
    inversion Hnd as [|? ? Hk Hnd']; subst. destruct Hin as [E|Hin].
    - inversion E; subst. rewrite N.eqb_refl. reflexivity.
    - destruct (N.eqb_spec k name) as [->|Hne]; [exfalso; apply Hk; apply in_map_iff; exists (name, ps); auto|apply IH; assumption]. }
  destruct (name_in_graph (depgraph_new inp) name).
  - split; [rewrite <- Eps; eapply required_entries_exemptions; [|exact Hre]; cbn; discriminate|eapply required_entries_nonempty; exact Hre].
  - inversion Hre. split; [apply rmap_inv_nil|intros k s0 []].
Qed.
