(* NeverWidens.v — C11 at the level of meaning: an automatic store update (any update whose search
   is not RegenerateExemptions: check, prune with any flags, regenerate imports, the clean-ups after
   certify / trust / import) never makes anything certifiable that was not certifiable from the store
   the command loaded (the live store: what peers and crates.io serve now, or what was locked).
   For EVERY crate, criterion and pair of versions — not only the versions in the graph. *)
Require Import Base Extracted Criteria Search AuditGraph DepGraph Resolve Update.
Require Import CriteriaProofs SearchProofs AuditGraphProofs ResolveProofs UpdateProofs PreserveProofs EndToEnd RecordSets.
Local Open Scope N_scope.

Definition sub (t : ctable) (l l' : list N) : Prop :=
  forall c, cs_has c (from_list t l) = true -> cs_has c (from_list t l') = true.
Lemma sub_refl t l : sub t l l. Proof. intros c H. exact H. Qed.

(* every record of ps1 is (a copy of) a record of ps2 that says at least as much *)
Record sub_records (t : ctable) (ps1 ps2 : pkg_store) : Prop := {
  sb_audits : forall a, In a (audits_flat ps1) ->
    exists a', In a' (audits_flat ps2) /\ au_kind a' = au_kind a /\ sub t (au_crit a) (au_crit a');
  sb_wilds : forall w, In w (wilds_flat ps1) ->
    exists w', In w' (wilds_flat ps2) /\ w_user w' = w_user w /\ w_start w' = w_start w /\ w_end w' = w_end w /\ sub t (w_crit w) (w_crit w');
  sb_trusted : forall e, In e (ps_trusted ps1) -> In e (ps_trusted ps2);
  sb_publishers : forall p, In p (ps_publishers ps1) -> exists p', In p' (ps_publishers ps2) /\ pkey p' = pkey p;
  sb_unpublished : forall u, In u (ps_unpublished ps1) -> exists u', In u' (ps_unpublished ps2) /\ ukey u' = ukey u;
  sb_exemptions : forall x, In x (ps_exemptions ps1) ->
    (forall c, cs_has c (from_list t (x_crit x)) = false) \/
    exists x', In x' (ps_exemptions ps2) /\ x_ver x' = x_ver x /\ sub t (x_crit x) (x_crit x')
}.

Definition ewider (e e' : fedge) : Prop :=
  fe_from e = fe_from e' /\ fe_to e = fe_to e' /\ forall c, cs_has c (fe_crit e) = true -> cs_has c (fe_crit e') = true.

Section Edges.
Variables (t : ctable) (ps1 ps2 : pkg_store).
Hypothesis SB : sub_records t ps1 ps2.

Lemma audit_edges_sub e : In e (audit_edges t ps1) -> exists e', In e' (audit_edges t ps2) /\ ewider e e'.
Proof.
  unfold audit_edges. intros H. apply in_flat_map in H. destruct H as [[[src o] a] [Ha H]].
  assert (Hf : In a (audits_flat ps1)) by (apply in_all_audits; eauto).
  destruct (sb_audits _ _ _ SB a Hf) as [a' [Ha' [Ekind Ecrit]]].
  apply in_all_audits in Ha'. destruct Ha' as [src' [o' Ha']].
  destruct (au_kind a) as [v|f v|r] eqn:K; [| |destruct H].
  - destruct H as [<-|[]]. eexists. split.
    + apply in_flat_map. exists (src', o', a'). split; [exact Ha'|]. rewrite Ekind. left. reflexivity.
    + unfold ewider. cbn. auto.
  - destruct H as [<-|[]]. eexists. split.
    + apply in_flat_map. exists (src', o', a'). split; [exact Ha'|]. rewrite Ekind. left. reflexivity.
    + unfold ewider. cbn. auto.
Qed.

Lemma publisher_edges_sub e : In e (publisher_edges t ps1) -> exists e', In e' (publisher_edges t ps2) /\ ewider e e'.
Proof.
  unfold publisher_edges. intros H. apply in_flat_map in H. destruct H as [[pi p] [Hp H]].
  apply in_enumerate_elim in Hp.
  destruct (sb_publishers _ _ _ SB p Hp) as [p' [Hp' Ek]]. unfold pkey in Ek. inversion Ek as [[Ev Eu Ew]].
  destruct (in_enumerate_intro' _ _ Hp') as [pi' Hpi'].
  apply in_app_iff in H. destruct H as [H|H].
  - apply in_flat_map in H. destruct H as [[[imp ai] w] [Hw H]].
    assert (Hf : In w (wilds_flat ps1)) by (apply in_all_wildcards; eauto).
    destruct (sb_wilds _ _ _ SB w Hf) as [w' [Hw' [E1 [E2 [E3 E4]]]]].
    apply in_all_wildcards in Hw'. destruct Hw' as [imp' [ai' Hw']].
    destruct (wildcard_guard (w_user w) (p_user p) (w_start w) (w_end w) (p_when p)) eqn:G; [|destruct H].
    destruct H as [<-|[]]. eexists. split.
    + apply in_flat_map. exists (pi', p'). split; [exact Hpi'|]. apply in_app_iff. left.
      apply in_flat_map. exists (imp', ai', w'). split; [exact Hw'|]. rewrite E1, E2, E3, Eu, Ew, G. left. reflexivity.
    + unfold ewider. cbn. rewrite Ev. auto.
  - apply in_flat_map in H. destruct H as [e0 [He0 H]].
    pose proof (sb_trusted _ _ _ SB e0 He0) as He0'.
    destruct (trusted_guard (t_user e0) (p_user p) (t_start e0) (t_end e0) (p_when p)) eqn:G; [|destruct H].
    destruct H as [<-|[]]. eexists. split.
    + apply in_flat_map. exists (pi', p'). split; [exact Hpi'|]. apply in_app_iff. right.
      apply in_flat_map. exists e0. split; [exact He0'|]. rewrite Eu, Ew, G. left. reflexivity.
    + unfold ewider. cbn. rewrite Ev. auto.
Qed.

Lemma unpublished_edges_sub e : In e (unpublished_edges t ps1) -> exists e', In e' (unpublished_edges t ps2) /\ ewider e e'.
Proof.
  unfold unpublished_edges. intros H. apply in_map_iff in H. destruct H as [[i u] [<- Hu]]. apply in_enumerate_elim in Hu.
  destruct (sb_unpublished _ _ _ SB u Hu) as [u' [Hu' Ek]]. unfold ukey in Ek. inversion Ek as [[E1 E2]].
  destruct (in_enumerate_intro' _ _ Hu') as [i' Hi']. eexists. split.
  - apply in_map_iff. exists (i', u'). split; [reflexivity|exact Hi'].
  - unfold ewider. cbn. rewrite E1, E2. auto.
Qed.

Lemma exemption_edges_sub e : In e (exemption_edges t ps1) ->
  (forall c, cs_has c (fe_crit e) = false) \/ exists e', In e' (exemption_edges t ps2) /\ ewider e e'.
Proof.
  unfold exemption_edges. intros H. apply in_map_iff in H. destruct H as [[i x] [<- Hx]]. apply in_enumerate_elim in Hx.
  destruct (sb_exemptions _ _ _ SB x Hx) as [Hnone|[x' [Hx' [E1 E2]]]]; [left; exact Hnone|right].
  destruct (in_enumerate_intro' _ _ Hx') as [i' Hi']. eexists. split.
  - apply in_map_iff. exists (i', x'). split; [reflexivity|exact Hi'].
  - unfold ewider. cbn. rewrite E1. auto.
Qed.

Lemma all_edges_sub e : In e (all_edges t ps1) ->
  (forall c, cs_has c (fe_crit e) = false) \/ exists e', In e' (all_edges t ps2) /\ ewider e e'.
Proof.
  unfold all_edges. rewrite !in_app_iff. intros [H|[H|[H|H]]].
  - right. destruct (audit_edges_sub e H) as [e' [H' S]]. exists e'. rewrite !in_app_iff. auto.
  - right. destruct (publisher_edges_sub e H) as [e' [H' S]]. exists e'. rewrite !in_app_iff. auto.
  - right. destruct (unpublished_edges_sub e H) as [e' [H' S]]. exists e'. rewrite !in_app_iff. auto.
  - destruct (exemption_edges_sub e H) as [Hn|[e' [H' S]]]; [left; exact Hn|right]. exists e'. rewrite !in_app_iff. auto.
Qed.

Lemma fpath_sub c x y : fpath t ps1 c x y -> fpath t ps2 c x y.
Proof.
  intros P. induction P as [v|e w He Hc P IH]; [constructor|].
  destruct (all_edges_sub e He) as [Hn|[e' [He' [Ef [Et Ec]]]]]; [rewrite Hn in Hc; discriminate|].
  rewrite Ef. eapply fp_cons; [exact He'|apply Ec; exact Hc|rewrite <- Et; exact IH].
Qed.
End Edges.

(* ---- an update yields a sub-store ---- *)
Section OneCrate.
Variables (t : ctable) (mode : update_mode) (ing : bool) (re : option rmap) (ps : pkg_store).
Hypothesis re_ok : forall rm, re = Some rm -> rmap_inv (exemption_ok t ps) rm /\ NoDup (map fst rm).
Let u := update_pkg t mode ing re ps.
Let ps' := apply_pkg_update ps u.

Lemma in_concat_nth {A} (L : list (list A)) x : In x (concat L) -> exists k, In x (nth k L []).
Proof.
  intros H. apply in_concat in H. destruct H as [l [Hl Hx]]. destruct (In_nth L l [] Hl) as [k [_ Hk]]. exists k. rewrite Hk. exact Hx.
Qed.
Lemma nth_in_concat {A} (L : list (list A)) k x : In x (nth k L []) -> In x (concat L).
Proof. intros H. apply in_concat. exists (nth k L []). split; [eapply in_nth_default; exact H|exact H]. Qed.

Lemma update_sub_records : sub_records t ps' ps.
Proof.
  constructor.
  - intros a H. unfold audits_flat, ps', apply_pkg_update in H. cbn [ps_imported ps_local] in H. apply in_app_iff in H. destruct H as [H|H].
    + apply in_concat_nth in H. destruct H as [imp H]. destruct (update_imported_from_live t mode ing re ps imp a H) as [a0 [Ha0 ->]].
      exists a0. split; [unfold audits_flat; apply in_app_iff; left; eapply nth_in_concat; exact Ha0|]. split; [reflexivity|apply sub_refl].
    + apply update_local_audits_subset in H. exists a. split; [unfold audits_flat; apply in_app_iff; right; exact H|]. split; [reflexivity|apply sub_refl].
  - intros w H. unfold wilds_flat, ps', apply_pkg_update in H. cbn [ps_wild_imported ps_wild_local] in H. apply in_app_iff in H. destruct H as [H|H].
    + apply in_concat_nth in H. destruct H as [imp H]. destruct (update_wildcards_from_live t mode ing re ps imp w H) as [w0 [Hw0 ->]].
      exists w0. split; [unfold wilds_flat; apply in_app_iff; left; eapply nth_in_concat; exact Hw0|]. cbn. repeat split; apply sub_refl.
    + exists w. split; [unfold wilds_flat; apply in_app_iff; right; exact H|]. repeat split; apply sub_refl.
  - intros e H. exact H.
  - intros p H. unfold ps', apply_pkg_update in H. cbn [ps_publishers] in H.
    destruct (update_publishers_from_live t mode ing re ps p H) as [p0 [Hp0 ->]]. exists p0. split; [exact Hp0|reflexivity].
  - intros u0 H. unfold ps', apply_pkg_update in H. cbn [ps_unpublished] in H.
    destruct (update_unpublished_from_live t mode ing re ps u0 H) as [u1 [Hu1 ->]]. exists u1. split; [exact Hu1|reflexivity].
  - intros x H. unfold ps', apply_pkg_update, u, update_pkg in H. cbn [ps_exemptions pu_exemptions] in H. apply in_app_iff in H. destruct H as [H|H].
    + right. destruct (update_exemptions_narrowed t mode re (ps_exemptions ps) x) as [x0 [Hx0 [Hv [_ Hsub]]]]; [|exact H|].
      * intros rm E i s c Hg Hc. destruct (re_ok rm E) as [Hinv _]. exact (Hinv _ _ _ Hg Hc).
      * exists x0. split; [exact Hx0|]. split; [symmetry; exact Hv|exact Hsub].
    + left. destruct ing; [|destruct H]. unfold fresh_exemptions in H. destruct re as [rm|]; [|destruct H].
      destruct (re_ok rm eq_refl) as [Hinv Hnd].
      apply in_flat_map in H. destruct H as [[e s] [Hin H]]. destruct e; try contradiction. destruct H as [<-|[]]. cbn [x_crit].
      intros c. destruct (cs_has c (from_list t (names_of t s))) eqn:Ec; [exfalso|reflexivity].
      apply from_list_spec in Ec. destruct Ec as [m0 [Hm _]]. unfold names_of in Hm. apply minimal_subset in Hm.
      exact (Hinv _ _ _ (nodup_get _ Hnd _ _ Hin) Hm).
Qed.

Lemma update_pkg_never_widens c x y : fpath t ps' c x y -> fpath t ps c x y.
Proof. apply fpath_sub. exact update_sub_records. Qed.
End OneCrate.

Lemma fpath_empty t c x y : fpath t empty_pkg_store c x y -> x = y.
Proof. intros P. destruct P as [v|e w He _ _]; [reflexivity|destruct He]. Qed.

Theorem update_never_widens inp s mode name c x y :
  um_search (mode name) <> RegenerateExemptions ->
  fpath (st_criteria s) (store_for (update_store inp s mode) name) c x y -> fpath (st_criteria s) (store_for s name) c x y.
Proof.
  intros Hm. rewrite store_for_update. unfold store_for.
  destruct (find (fun '(n, _) => N.eqb n name) (st_pkgs s)) as [[k ps]|] eqn:F; [|intros H; exact H].
  apply update_pkg_never_widens. intros rm E. unfold re_of in E.
  assert (Eps : store_for s name = ps) by (unfold store_for; rewrite F; reflexivity).
  destruct (name_in_graph (depgraph_new inp) name).
  - split; [rewrite <- Eps; eapply required_entries_exemptions; [exact Hm|exact E]|eapply required_entries_nodup; exact E].
  - inversion E. split; [apply rmap_inv_nil|constructor].
Qed.

Corollary update_certifies_nothing_new inp s mode :
  (forall name, um_search (mode name) <> RegenerateExemptions) ->
  forall name c v, certified (st_criteria s) (store_for (update_store inp s mode) name) c v ->
                   certified (st_criteria s) (store_for s name) c v.
Proof. intros Hm name c v. unfold certified. apply update_never_widens. apply Hm. Qed.
