Require Import Base Extracted Serde.
From Coq Require Import Sorting.Permutation.
Local Open Scope N_scope.

Theorem sv_roundtrip l : dec_sv (enc_sv l) = Some l.
Proof. destruct l as [|x [|y l]]; reflexivity. Qed.

(* looking up a key in a concatenation of single-field tables *)
Lemma get_app t1 t2 k : get (t1 ++ t2) k = match get t1 k with Some v => Some v | None => get t2 k end.
Proof.
  unfold get. induction t1 as [|[k' v] t1 IH]; cbn [app find]; [reflexivity|].
  destruct (key_eqb k' k); [reflexivity|exact IH].
Qed.
Lemma get_field k v k' : get (field k v) k' = if key_eqb k k' then Some v else None.
Proof. unfold get, field. cbn. destruct (key_eqb k k'); reflexivity. Qed.
Lemma get_opt_field k o k' : get (opt_field k o) k' = if key_eqb k k' then option_map VStr o else None.
Proof. destruct o; cbn; [apply get_field|destruct (key_eqb k k'); reflexivity]. Qed.
Lemma get_sv_unless_empty k l k' :
  get (sv_unless_empty k l) k' = if key_eqb k k' then (match l with [] => None | _ => Some (enc_sv l) end) else None.
Proof. destruct l as [|x l]; cbn; [destruct (key_eqb k k'); reflexivity|apply get_field]. Qed.

Lemma sv_default_roundtrip l : match (match l with [] => None | _ => Some (enc_sv l) end) with None => Some [] | Some v => dec_sv v end = Some l.
Proof. destruct l as [|x [|y l]]; reflexivity. Qed.

Ltac solve_get :=
  repeat (rewrite ?get_app, ?get_field, ?get_opt_field, ?get_sv_unless_empty; cbn [key_eqb]).

(* C14: every audit entry is read back as the same entry *)
Theorem audit_roundtrip a : dec_audit (enc_audit a) = Some a.
Proof.
  destruct a as [who crit kind imp notes agg]. unfold dec_audit, enc_audit, get_sv_default, get_opt_str.
  cbn [ae_who ae_criteria ae_kind ae_importable ae_notes ae_agg].
  destruct kind as [v|f t|r], imp, notes as [n|]; solve_get;
    rewrite ?sv_default_roundtrip, ?sv_roundtrip; cbn;
    destruct who as [|w1 [|w2 who]], agg as [|g1 [|g2 agg]]; cbn; rewrite ?sv_roundtrip; reflexivity.
Qed.

Theorem exemption_roundtrip x : dec_exemption (enc_exemption x) = Some x.
Proof.
  destruct x as [v crit sug notes]. unfold dec_exemption, enc_exemption, get_sv_default, get_opt_str.
  cbn [xe_version xe_criteria xe_suggest xe_notes].
  destruct sug, notes as [n|]; solve_get; rewrite ?sv_roundtrip; reflexivity.
Qed.

Theorem wildcard_roundtrip w : dec_wildcard (enc_wildcard w) = Some w.
Proof.
  destruct w as [who crit u s e renew notes agg]. unfold dec_wildcard, enc_wildcard, get_sv_default, get_opt_str.
  cbn [we_who we_criteria we_user we_start we_end we_renew we_notes we_agg].
  destruct renew as [[|]|], notes as [n|]; solve_get;
    destruct who as [|w1 [|w2 who]], agg as [|g1 [|g2 agg]]; cbn; rewrite ?sv_roundtrip; reflexivity.
Qed.

Theorem criteria_roundtrip c : dec_criteria (enc_criteria c) = Some c.
Proof.
  destruct c as [d u i a]. unfold dec_criteria, enc_criteria, get_sv_default, get_opt_str.
  cbn [ce_description ce_url ce_implies ce_agg].
  destruct d as [d|], u as [u|]; solve_get;
    destruct i as [|i1 [|i2 i]], a as [|a1 [|a2 a]]; cbn; reflexivity.
Qed.

(* tidy is canonical: tidying twice is tidying once (for a total, transitive order) *)
Section TidyProofs.
Variable A : Type.
Variable leb : A -> A -> bool.
Hypothesis leb_total : forall a b, leb a b = true \/ leb b a = true.
Hypothesis leb_trans : forall a b c, leb a b = true -> leb b c = true -> leb a c = true.

Inductive sorted : list A -> Prop :=
| sorted_nil : sorted []
| sorted_one x : sorted [x]
| sorted_cons x y l : leb x y = true -> sorted (y :: l) -> sorted (x :: y :: l).

Lemma insert_sorted x l : sorted l -> sorted (insert_by leb x l).
Proof.
  induction 1 as [|y|y z l Hyz Hs IH]; cbn.
  - constructor.
  - destruct (leb x y) eqn:E; [constructor; [exact E|constructor]|].
    destruct (leb_total x y) as [H|H]; [congruence|]. constructor; [exact H|constructor].
  - destruct (leb x y) eqn:E; [constructor; [exact E|constructor; assumption]|].
    destruct (leb_total x y) as [H|Hyx]; [congruence|].
    cbn in IH. destruct (leb x z) eqn:E2.
    + constructor; [exact Hyx|]. exact IH.
    + constructor; [exact Hyz|exact IH].
Qed.

Lemma sort_sorted l : sorted (sort_by leb l).
Proof.
  induction l as [|x l IH]; [constructor|].
  change (sort_by leb (x :: l)) with (insert_by leb x (sort_by leb l)). apply insert_sorted; exact IH.
Qed.

Lemma insert_sorted_head x l : sorted (x :: l) -> insert_by leb x l = x :: l \/ True.
Proof. auto. Qed.

Lemma insert_into_sorted x l : sorted (x :: l) -> (forall y, In y l -> leb x y = true) -> insert_by leb x l = x :: l.
Proof.
  intros _ H. destruct l as [|y l]; cbn; [reflexivity|]. rewrite (H y (or_introl eq_refl)). reflexivity.
Qed.

Lemma sorted_head_le x l : sorted (x :: l) -> forall y, In y l -> leb x y = true.
Proof.
  revert x; induction l as [|z l IH]; intros x Hs y Hy; [destruct Hy|].
  inversion Hs; subst. destruct Hy as [<-|Hy]; [assumption|]. eapply leb_trans; [eassumption|]. apply IH; assumption.
Qed.

Lemma sort_of_sorted l : sorted l -> sort_by leb l = l.
Proof.
  induction l as [|x l IH]; intros Hs; [reflexivity|].
  assert (Hl : sorted l) by (inversion Hs; subst; [constructor|assumption]).
  change (sort_by leb (x :: l)) with (insert_by leb x (sort_by leb l)).
  rewrite (IH Hl). apply insert_into_sorted; [exact Hs|apply sorted_head_le; exact Hs].
Qed.

Theorem tidy_list_idempotent l : tidy_list A leb (tidy_list A leb l) = tidy_list A leb l.
Proof. unfold tidy_list. apply sort_of_sorted. apply sort_sorted. Qed.

Lemma sort_nonempty l : l <> [] -> sort_by leb l <> [].
Proof.
  destruct l as [|x l]; [congruence|]. intros _.
  change (sort_by leb (x :: l)) with (insert_by leb x (sort_by leb l)).
  destruct (sort_by leb l) as [|y r]; cbn; [discriminate|]. destruct (leb x y); discriminate.
Qed.

Theorem tidy_map_idempotent m : tidy_map A leb (tidy_map A leb m) = tidy_map A leb m.
Proof.
  unfold tidy_map. induction m as [|[k l] m IH]; cbn [filter map]; [reflexivity|].
  destruct l as [|x l]; [exact IH|]. cbn [map filter].
  destruct (tidy_list A leb (x :: l)) eqn:E.
  - exfalso. unfold tidy_list in E. eapply sort_nonempty; [|exact E]. discriminate.
  - cbn [map]. rewrite <- E, tidy_list_idempotent. f_equal. exact IH.
Qed.
End TidyProofs.

(* ---- policy keys ---- *)
Lemma split_colon_app n r : no_chr COLON n = true -> split_colon (n ++ COLON :: r) = Some (n, r).
Proof.
  unfold no_chr. induction n as [|c n IH]; intros H; cbn [app split_colon].
  - rewrite N.eqb_refl. reflexivity.
  - cbn [existsb] in H. apply negb_true_iff in H. apply orb_false_elim in H. destruct H as [H1 H2].
    rewrite N.eqb_sym in H1. rewrite H1. rewrite IH by (apply negb_true_iff; exact H2). reflexivity.
Qed.
Lemma split_colon_none n : no_chr COLON n = true -> split_colon n = None.
Proof.
  unfold no_chr. induction n as [|c n IH]; intros H; cbn [split_colon]; [reflexivity|].
  cbn [existsb] in H. apply negb_true_iff in H. apply orb_false_elim in H. destruct H as [H1 H2].
  rewrite N.eqb_sym in H1. rewrite H1. rewrite IH by (apply negb_true_iff; exact H2). reflexivity.
Qed.
Lemma split_at_app s r : no_chr AT s = true -> split_at (s ++ AT :: r) = (s, Some r).
Proof.
  unfold no_chr. induction s as [|c s IH]; intros H; cbn [app split_at].
  - rewrite N.eqb_refl. reflexivity.
  - cbn [existsb] in H. apply negb_true_iff in H. apply orb_false_elim in H. destruct H as [H1 H2].
    rewrite N.eqb_sym in H1. rewrite H1. rewrite IH by (apply negb_true_iff; exact H2). reflexivity.
Qed.
Lemma split_at_none s : no_chr AT s = true -> split_at s = (s, None).
Proof.
  unfold no_chr. induction s as [|c s IH]; intros H; cbn [split_at]; [reflexivity|].
  cbn [existsb] in H. apply negb_true_iff in H. apply orb_false_elim in H. destruct H as [H1 H2].
  rewrite N.eqb_sym in H1. rewrite H1. rewrite IH by (apply negb_true_iff; exact H2). reflexivity.
Qed.

Theorem vetver_roundtrip v : POLICY_KEY_USES_FULL_VERSION = true -> no_chr AT (vv_semver v) = true ->
  parse_vetver (show_vetver v) = Some v.
Proof.
  intros K H. unfold show_vetver, parse_vetver. rewrite K. destruct v as [s [r|]]; cbn [vv_semver vv_git] in *.
  - change (GIT_TAG ++ r) with (AT :: [103; 105; 116; 58] ++ r). rewrite split_at_app by exact H.
    cbn [strip_prefix app]. rewrite !N.eqb_refl. reflexivity.
  - rewrite app_nil_r, split_at_none by exact H. reflexivity.
Qed.

Theorem pkey_roundtrip name ver : POLICY_KEY_USES_FULL_VERSION = true ->
  no_chr COLON name = true -> (forall v, ver = Some v -> no_chr AT (vv_semver v) = true) ->
  pkey_decode (pkey_encode name ver) = Some (name, ver).
Proof.
  intros K Hn Hv. unfold pkey_encode, pkey_decode. destruct ver as [v|].
  - rewrite split_colon_app by exact Hn. rewrite vetver_roundtrip; [reflexivity|exact K|apply Hv; reflexivity].
  - rewrite split_colon_none by exact Hn. reflexivity.
Qed.

(* hence distinct (name, version) pairs never share a key: no entry can be lost by a collision *)
Theorem pkey_injective n1 v1 n2 v2 : POLICY_KEY_USES_FULL_VERSION = true ->
  no_chr COLON n1 = true -> no_chr COLON n2 = true ->
  (forall v, v1 = Some v -> no_chr AT (vv_semver v) = true) -> (forall v, v2 = Some v -> no_chr AT (vv_semver v) = true) ->
  pkey_encode n1 v1 = pkey_encode n2 v2 -> n1 = n2 /\ v1 = v2.
Proof.
  intros K H1 H2 Hv1 Hv2 E.
  pose proof (pkey_roundtrip n1 v1 K H1 Hv1) as R1. pose proof (pkey_roundtrip n2 v2 K H2 Hv2) as R2.
  rewrite E in R1. rewrite R1 in R2. inversion R2. auto.
Qed.
