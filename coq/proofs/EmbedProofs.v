(* EmbedProofs.v — C16: an entry's criteria mean the same under the MERGED criteria table of an
   aggregate as under its own source's table.  A source table t1 sits inside the merged table t2
   through a renaming rho of criteria indices (names are kept; positions change) such that the
   merged definition of every source criterion is the source's own definition (which is what
   do_aggregate_audits guarantees: the first definition is kept, a differing one is an error).
   Then closures, listed-criteria sets and the localised (criteria-mapped) lists coincide. *)
Require Import Base Extracted Criteria Search AuditGraph Update Imports.
Require Import CriteriaProofs ImportsProofs.
Local Open Scope N_scope.

Section Embed.
Variables (t1 t2 : ctable) (rho : N -> N).
Let n1 := N.of_nat (ct_len t1).
(* the merged table defines rho a exactly as the source defines a *)
Hypothesis same_definition : forall a b', a < n1 -> (step t2 (rho a) b' <-> exists b, b' = rho b /\ step t1 a b).
Hypothesis rho_in_range : forall a, a < n1 -> rho a < N.of_nat (ct_len t2).

Lemma reachp_embed a y : a < n1 -> reachp t2 (rho a) y -> exists b, y = rho b /\ reachp t1 a b.
Proof.
  intros Ha H. remember (rho a) as ra eqn:Era. revert a Ha Era.
  induction H as [x y S|x m y S R IH]; intros a Ha ->.
  - apply (same_definition a y Ha) in S. destruct S as [b [-> Sb]]. exists b. split; [reflexivity|constructor; exact Sb].
  - apply (same_definition a m Ha) in S. destruct S as [b [-> Sb]].
    destruct (IH b (step_lt t1 a b Sb) eq_refl) as [c [-> Rc]]. exists c. split; [reflexivity|eapply rp_cons; eauto].
Qed.

Lemma reachp_embed_back a b : a < n1 -> reachp t1 a b -> reachp t2 (rho a) (rho b).
Proof.
  intros Ha H. induction H as [x y S|x m y S R IH].
  - constructor. apply (same_definition x (rho y) Ha). exists y. auto.
  - eapply rp_cons; [apply (same_definition x (rho m) Ha); exists m; auto|]. apply IH. exact (step_lt t1 x m S).
Qed.

Theorem closure_embed c y : c < n1 ->
  (cs_has y (closure t2 (rho c)) = true <-> exists x, y = rho x /\ cs_has x (closure t1 c) = true).
Proof.
  intros Hc. rewrite closure_spec. split.
  - intros [->|H].
    + exists c. split; [reflexivity|apply closure_refl].
    + destruct (reachp_embed c y Hc H) as [b [-> Rb]]. exists b. split; [reflexivity|apply closure_spec; right; exact Rb].
  - intros [x [-> Hx]]. apply closure_spec in Hx. destruct Hx as [->|Hx]; [left; reflexivity|right; apply reachp_embed_back; assumption].
Qed.

Theorem from_list_embed l y : (forall c, In c l -> c < n1) ->
  (cs_has y (from_list t2 (map rho l)) = true <-> exists x, y = rho x /\ cs_has x (from_list t1 l) = true).
Proof.
  intros Hl. rewrite from_list_spec. split.
  - intros [c' [Hc' Hy]]. apply in_map_iff in Hc'. destruct Hc' as [c [<- Hc]].
    apply (closure_embed c y (Hl c Hc)) in Hy. destruct Hy as [x [-> Hx]]. exists x. split; [reflexivity|].
    apply from_list_spec. exists c. auto.
  - intros [x [-> Hx]]. apply from_list_spec in Hx. destruct Hx as [c [Hc Hx]]. exists (rho c). split; [apply in_map; exact Hc|].
    apply (closure_embed c (rho x) (Hl c Hc)). exists x. auto.
Qed.

(* ---- through the criteria map ---- *)
Variables (lt : ctable) (cm1 cm2 : cmap).
(* the same configured criteria-map (keyed by criterion NAME in config.toml), re-keyed to each file's indices *)
Hypothesis same_map : forall f, f < n1 -> map_one lt cm2 (rho f) = map_one lt cm1 f.

Theorem local_set_embed crit : (forall c, In c crit -> c < n1) ->
  local_set lt t2 cm2 (map rho crit) = local_set lt t1 cm1 crit.
Proof.
  intros Hl. apply cs_ext. intros x.
  destruct (cs_has x (local_set lt t2 cm2 (map rho crit))) eqn:E2; destruct (cs_has x (local_set lt t1 cm1 crit)) eqn:E1; try reflexivity; exfalso.
  - apply local_set_spec in E2. destruct E2 as [f' [_ [Hf' Hx]]].
    apply (from_list_embed crit f' Hl) in Hf'. destruct Hf' as [f [-> Hf]].
    assert (Hfl : f < n1) by (apply (from_list_bounded t1 crit); [exact Hl|exact Hf]).
    rewrite same_map in Hx by exact Hfl.
    assert (X : cs_has x (local_set lt t1 cm1 crit) = true) by (apply local_set_spec; exists f; auto).
    congruence.
  - apply local_set_spec in E1. destruct E1 as [f [Hfl [Hf Hx]]].
    assert (X : cs_has x (local_set lt t2 cm2 (map rho crit)) = true).
    { apply local_set_spec. exists (rho f). split; [apply rho_in_range; exact Hfl|]. split.
      - apply (from_list_embed crit (rho f) Hl). exists f. auto.
      - rewrite same_map by exact Hfl. exact Hx. }
    congruence.
Qed.

(* the criteria list written into the importing project for the entry is literally the same *)
Theorem localise_embed crit : (forall c, In c crit -> c < n1) ->
  localise lt t2 cm2 (map rho crit) = localise lt t1 cm1 crit.
Proof. intros Hl. unfold localise. rewrite local_set_embed by exact Hl. reflexivity. Qed.

Definition rename_audit (a : audit) : audit :=
  {| au_kind := au_kind a; au_crit := map rho (au_crit a); au_importable := au_importable a; au_fresh := au_fresh a |}.
Definition rename_wild (w : wildcard) : wildcard :=
  {| w_user := w_user w; w_start := w_start w; w_end := w_end w; w_crit := map rho (w_crit w); w_fresh := w_fresh w |}.

(* importing the entry from the aggregate (criteria renamed into the merged table) yields exactly the entry
   that importing it from its own source yields *)
Theorem import_audit_embed a : (forall c, In c (au_crit a) -> c < n1) ->
  import_audit lt t2 cm2 (rename_audit a) = import_audit lt t1 cm1 a.
Proof. intros Hl. unfold import_audit, rename_audit. cbn [au_kind au_crit au_importable]. rewrite localise_embed by exact Hl. reflexivity. Qed.
Theorem import_wild_embed w : (forall c, In c (w_crit w) -> c < n1) ->
  import_wild lt t2 cm2 (rename_wild w) = import_wild lt t1 cm1 w.
Proof. intros Hl. unfold import_wild, rename_wild. cbn [w_user w_start w_end w_crit]. rewrite localise_embed by exact Hl. reflexivity. Qed.
End Embed.

(* an executable sufficient condition for [same_definition]: index by index, the direct implications of
   rho a in the merged table are the rho-images of those of a in the source table *)
Definition embeds (t1 t2 : ctable) (rho : N -> N) : bool :=
  forallb (fun a => list_eqb (D t2 (rho a)) (map rho (D t1 a)) && N.ltb (rho a) (N.of_nat (ct_len t2))) (nseq 0 (ct_len t1)).

Lemma list_eqb_eq a b : list_eqb a b = true -> a = b.
Proof.
  revert b; induction a as [|x a IH]; intros [|y b]; cbn; try discriminate; [reflexivity|].
  intros H. apply andb_prop in H. destruct H as [H1 H2]. apply N.eqb_eq in H1. subst. f_equal. apply IH. exact H2.
Qed.

Lemma embeds_spec t1 t2 rho : embeds t1 t2 rho = true ->
  (forall a b', a < N.of_nat (ct_len t1) -> (step t2 (rho a) b' <-> exists b, b' = rho b /\ step t1 a b)) /\
  (forall a, a < N.of_nat (ct_len t1) -> rho a < N.of_nat (ct_len t2)).
Proof.
  unfold embeds. rewrite forallb_forall. intros H. split.
  - intros a b' Ha. assert (Hin : In a (nseq 0 (ct_len t1))) by (apply in_nseq; lia).
    specialize (H a Hin). apply andb_prop in H. destruct H as [H _]. apply list_eqb_eq in H.
    unfold step. rewrite H, in_map_iff. split; intros [b [E Hb]]; exists b; auto.
  - intros a Ha. assert (Hin : In a (nseq 0 (ct_len t1))) by (apply in_nseq; lia).
    specialize (H a Hin). apply andb_prop in H. destruct H as [_ H]. apply N.ltb_lt. exact H.
Qed.
