Require Import Base Serde SerdePolicy.
Local Open Scope N_scope.

Lemma dec_enc_psv l : dec_psv (enc_psv l) = Some l.
Proof. destruct l as [|x [|y l]]; reflexivity. Qed.

(* every policy entry decodes to itself — in particular an explicitly EMPTY criteria list stays an empty list
   and an absent one stays absent *)
Theorem policy_roundtrip p : dec_policy (enc_policy p) = Some p.
Proof.
  destruct p as [aa c d m n]. unfold dec_policy, enc_policy, dec_opt_sv, pget. cbn [pe_audit_as pe_criteria pe_dev_criteria pe_dep_criteria pe_notes].
  destruct aa as [b|], c as [c|], d as [d|], m as [|m0 m], n as [n|]; cbn; rewrite ?dec_enc_psv; reflexivity.
Qed.

Example empty_list_is_not_absent :
  enc_policy {| pe_audit_as := None; pe_criteria := Some []; pe_dev_criteria := None; pe_dep_criteria := []; pe_notes := None |}
  <> enc_policy {| pe_audit_as := None; pe_criteria := None; pe_dev_criteria := None; pe_dep_criteria := []; pe_notes := None |}.
Proof. cbn. discriminate. Qed.
