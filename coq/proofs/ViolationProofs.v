(* ViolationProofs.v — the violation check of AuditGraph::build (C04). *)
Require Import Base Extracted Criteria Search AuditGraph DepGraph Resolve.
Require Import CriteriaProofs SearchProofs AuditGraphProofs ResolveProofs ResolveTheorems.
Local Open Scope N_scope.

(* a violation entry of the crate (own or imported) whose range covers version v
   and which lists criterion cv *)
Definition violation_covers (s : pkg_store) (v cv : N) : Prop :=
  exists src o a range, In (src, o, a) (all_audits s) /\ au_kind a = KViolation range /\
    In v range /\ In cv (au_crit a).

(* an audit or exemption record that touches version v and claims criterion c *)
Definition audit_touches (t : ctable) (s : pkg_store) (v c : N) : Prop :=
  (exists src o a, In (src, o, a) (all_audits s) /\ cs_has c (from_list t (au_crit a)) = true /\
     (au_kind a = KFull v \/ (exists w, au_kind a = KDelta v w) \/ (exists w, au_kind a = KDelta w v))) \/
  (exists x, In x (ps_exemptions s) /\ x_ver x = v /\ cs_has c (from_list t (x_crit x)) = true).

Lemma hit_true t crit cv l :
  In cv l -> cs_has cv (from_list t crit) = true ->
  existsb (fun v => cs_contains (from_list t crit) v) (map (fun c => from_list t [c]) l) = true.
Proof.
  intros Hin Hc. apply existsb_exists. exists (from_list t [cv]). split; [apply (in_map (fun c => from_list t [c])); exact Hin|].
  apply cs_contains_spec. intros x Hx. apply from_list_spec in Hx. destruct Hx as [c [[<-|[]] Hx]].
  eapply from_list_closed; eauto.
Qed.

Lemma inr_true v range : In v range -> existsb (N.eqb v) range = true.
Proof. intros H. apply existsb_exists. exists v. split; [exact H|apply N.eqb_refl]. Qed.

(* "any audit or exemption that touches a violating version while claiming a
   violated criterion makes the audit graph fail with a conflict, even if unused" *)
Theorem conflict_any_audit t s v cv :
  violation_covers s v cv -> audit_touches t s v cv -> violation_conflicts t s <> [].
Proof.
  intros [vsrc [vo [va [range [Hva [Hk [Hv Hcv]]]]]]] Ht Hnil.
  assert (Hin : forall c, In c (violation_conflicts t s) -> False) by (rewrite Hnil; intros c []).
  destruct Ht as [[asrc [ao [a [Ha [Hc Hkind]]]]]|[x [Hx [Hxv Hc]]]].
  - eapply Hin. unfold violation_conflicts. apply in_flat_map. exists (vsrc, vo, va). split; [exact Hva|].
    rewrite Hk. apply in_app_iff. right. apply in_flat_map. exists (asrc, ao, a). split; [exact Ha|].
    rewrite (hit_true t (au_crit a) cv (au_crit va) Hcv Hc).
    destruct Hkind as [E|[[w E]|[w E]]]; rewrite E.
    + rewrite (inr_true v range Hv). left. reflexivity.
    + rewrite (inr_true v range Hv). cbn. left. reflexivity.
    + rewrite (inr_true v range Hv), orb_true_r. left. reflexivity.
  - apply In_nth with (d := x) in Hx. destruct Hx as [i [Hi Hnth]].
    eapply Hin. unfold violation_conflicts. apply in_flat_map. exists (vsrc, vo, va). split; [exact Hva|].
    rewrite Hk. apply in_app_iff. left. apply in_flat_map. exists (i, x). split.
    + apply (in_enumerate x). split; [exact Hi|exact Hnth].
    + rewrite (hit_true t (x_crit x) cv (au_crit va) Hcv Hc), Hxv, (inr_true v range Hv). left. reflexivity.
Qed.

(* last link of a non-trivial chain *)
Lemma fpath_last t s c x w :
  fpath t s c x w -> x <> w -> exists e, In e (all_edges t s) /\ fe_to e = w /\ cs_has c (fe_crit e) = true.
Proof.
  induction 1 as [v|e w He Hc Hp IH]; intros Hne; [congruence|].
  destruct (ver_dec (fe_to e) w) as [E|E]; [exists e; auto|apply IH; exact E].
Qed.

Definition is_audit_or_exemption (o : origin) : bool :=
  match o with OLocal _ _ | OImported _ _ | OExemption _ => true | _ => false end.

Lemma audit_edge_touches t s e c :
  In e (audit_edges t s) -> cs_has c (fe_crit e) = true ->
  forall v, fe_to e = Some v -> audit_touches t s v c.
Proof.
  unfold audit_edges. intros H Hc v Hv. apply in_flat_map in H. destruct H as [[[src o] a] [Ha H]].
  left. exists src, o, a. destruct (au_kind a) eqn:K; cbn in H; try contradiction; destruct H as [<-|[]]; cbn in *.
  - inversion Hv; subst. auto.
  - inversion Hv; subst. split; [exact Ha|]. split; [exact Hc|]. right. right. eauto.
Qed.

Lemma exemption_edge_touches t s e c :
  In e (exemption_edges t s) -> cs_has c (fe_crit e) = true ->
  forall v, fe_to e = Some v -> audit_touches t s v c.
Proof.
  unfold exemption_edges. intros H Hc v Hv. apply in_map_iff in H. destruct H as [[i x] [<- Hi]]. cbn in *.
  right. exists x. apply (in_enumerate x) in Hi. destruct Hi as [H1 H2]. inversion Hv; subst.
  split; [rewrite <- H2; apply nth_In; exact H1|]. split; [reflexivity|exact Hc].
Qed.

(* edge criteria sets are closed under implication *)
Lemma edge_crit_closed t s e a x :
  In e (all_edges t s) -> cs_has a (fe_crit e) = true -> cs_has x (closure t a) = true -> cs_has x (fe_crit e) = true.
Proof.
  intros He Ha Hx. destruct (edge_crit_form t s e He) as [[l El]|El]; rewrite El in *.
  - eapply from_list_closed; eauto.
  - unfold all_criteria, cs_has in *. apply closure_spec in Hx. destruct Hx as [->|Hr]; [exact Ha|].
    apply N.ones_spec_low. eapply reachp_lt. exact Hr.
Qed.

(* C04, the part that holds: with no conflict, a crate whose version is covered
   by a violation for a criterion implied by a required one can only be certified
   for it through a publisher grant or an unpublished link as LAST link *)
Theorem violation_only_dodged_by_grants t s v r cv :
  violation_conflicts t s = [] -> violation_covers s v cv ->
  cs_has cv (closure t r) = true -> certified t s r v ->
  exists e, In e (all_edges t s) /\ fe_to e = Some v /\ cs_has r (fe_crit e) = true /\
            (In e (publisher_edges t s) \/ In e (unpublished_edges t s)).
Proof.
  intros Hnil Hv Hcl Hcert. unfold certified in Hcert.
  assert (Hne : None <> Some v) by discriminate.
  destruct (fpath_last _ _ _ _ _ Hcert Hne) as [e [He [Hto Hc]]].
  exists e. repeat split; auto.
  assert (Hcv : cs_has cv (fe_crit e) = true) by (eapply edge_crit_closed; eauto).
  unfold all_edges in He. rewrite !in_app_iff in He. destruct He as [H|[H|[H|H]]]; auto; exfalso.
  - eapply conflict_any_audit; eauto. eapply audit_edge_touches; eauto.
  - eapply conflict_any_audit; eauto. eapply exemption_edge_touches; eauto.
Qed.

(* resolve level: a conflict for a third-party crate in the graph makes vet fail
   with a violation conflict, whatever else the store contains *)
Theorem conflict_fails_vet inp s i p :
  pkg_at inp s i p -> pk_third_party p = true ->
  violation_conflicts (st_criteria s) (store_for s (pk_name p)) <> [] ->
  exists vs, r_conclusion (resolve inp s) = FailForViolationConflict vs /\ exists cs, In (i, cs) vs.
Proof.
  intros Hp Ht Hv. pose proof (resolve_outcome inp s i p Hp) as Ho.
  set (o := resolve_pkg (st_criteria s) s p (nth i (r_requirements (resolve inp s)) cs_empty)) in *.
  assert (Hres : exists cs, po_result o = PViolation cs).
  { unfold o, resolve_pkg. rewrite Ht. cbn [negb]. cbv iota. unfold build.
    destruct (violation_conflicts (st_criteria s) (store_for s (pk_name p))) as [|c cs] eqn:E; [congruence|].
    eexists. reflexivity. }
  destruct Hres as [cs Hcs].
  assert (Hin : In (i, cs) (flat_map (fun '(i, o) => match po_result o with PViolation cs => [(i, cs)] | _ => [] end)
                              (enumerate (r_outcomes (resolve inp s))))).
  { apply in_flat_map. exists (i, o). split.
    - apply (in_enumerate o). split; [apply nth_error_Some; congruence|apply nth_error_nth; exact Ho].
    - rewrite Hcs. left. reflexivity. }
  assert (Hc : r_conclusion (resolve inp s) = conclude (r_outcomes (resolve inp s))) by reflexivity.
  rewrite Hc. unfold conclude.
  destruct (flat_map (fun '(i, o) => match po_result o with PViolation cs => [(i, cs)] | _ => [] end)
                     (enumerate (r_outcomes (resolve inp s)))) as [|v0 vs] eqn:E; [destruct Hin|].
  eexists. split; [reflexivity|]. exists cs. exact Hin.
Qed.

(* ---- an entry that means nothing conflicts with nothing ----
   fetch_single_imported_audit rewrites a peer entry whose criteria are all unmapped to `criteria = []` (violations are kept
   whatever they say): such a violation names no criterion, so it conflicts with no audit and no exemption *)
Lemma flat_map_all_nil {A B} (f : A -> list B) l : (forall x, In x l -> f x = []) -> flat_map f l = [].
Proof. induction l as [|x l IH]; intros H; cbn; [reflexivity|]. rewrite (H x (or_introl eq_refl)), IH; auto. intros y Hy. apply H. right. exact Hy. Qed.

Theorem violations_without_criteria_conflict_with_nothing t s :
  (forall src o a r, In (src, o, a) (all_audits s) -> au_kind a = KViolation r -> au_crit a = []) ->
  violation_conflicts t s = [].
Proof.
  intros H. unfold violation_conflicts. apply flat_map_all_nil. intros [[vsrc vo] va] Hin.
  destruct (au_kind va) as [v|f v|r] eqn:K; try reflexivity.
  rewrite (H _ _ _ _ Hin K). cbn [map existsb]. cbn [andb].
  rewrite flat_map_all_nil; [|intros [xi x] _; reflexivity].
  rewrite flat_map_all_nil; [reflexivity|intros [[asrc ao] a] _; reflexivity].
Qed.
