(* ImportsProofs.v — what an import can contribute (C07). *)
Require Import Base Extracted Criteria Search AuditGraph Update Imports.
Require Import CriteriaProofs.
Local Open Scope N_scope.

Lemma local_set_fold lt cm l s0 x :
  cs_has x (fold_left (fun s f => cs_union s (map_one lt cm f)) l s0) = true <->
  cs_has x s0 = true \/ exists f, In f l /\ cs_has x (map_one lt cm f) = true.
Proof.
  revert s0; induction l as [|f l IH]; intros s0; cbn [fold_left].
  - split; [auto|intros [H|[f [[] _]]]; exact H].
  - rewrite IH, cs_has_union, orb_true_iff. split.
    + intros [[H|H]|[f' [H1 H2]]]; [left; exact H|right; exists f; split; [left; reflexivity|exact H]|
                                     right; exists f'; split; [right; exact H1|exact H2]].
    + intros [H|[f' [[<-|H1] H2]]]; [left; left; exact H|left; right; exact H2|right; exists f'; auto].
Qed.

(* the set an imported entry denotes locally: the union, over the closure of its
   criteria in the PEER's table, of what the criteria-map (or the built-in rule)
   maps each peer criterion to *)
Theorem local_set_spec lt ft cm crit x :
  cs_has x (local_set lt ft cm crit) = true <->
  exists f, f < N.of_nat (ct_len ft) /\ cs_has f (from_list ft crit) = true /\ cs_has x (map_one lt cm f) = true.
Proof.
  unfold local_set. rewrite local_set_fold, cs_has_empty. split.
  - intros [H|[f [Hf Hx]]]; [discriminate|]. apply in_cs_indices in Hf. exists f. tauto.
  - intros [f [H1 [H2 H3]]]. right. exists f. split; [apply in_cs_indices; auto|exact H3].
Qed.

Definition cmap_bounded (lt : ctable) (cm : cmap) : Prop :=
  forall k l c, In (k, l) cm -> In c l -> c < N.of_nat (ct_len lt).

Lemma map_one_form lt cm f : exists l, map_one lt cm f = from_list lt l /\
  (forall c, In c l -> (exists k, In (k, l) cm) \/ c = SAFE_TO_DEPLOY_IDX \/ c = SAFE_TO_RUN_IDX).
Proof.
  unfold map_one. destruct (find _ cm) as [[k l]|] eqn:E.
  - exists l. split; [reflexivity|]. intros c Hc. left. exists k. apply find_some in E. tauto.
  - destruct (N.eqb f SAFE_TO_DEPLOY_IDX); [eexists; split; [reflexivity|]; intros c [<-|[]]; auto|].
    destruct (N.eqb f SAFE_TO_RUN_IDX); [eexists; split; [reflexivity|]; intros c [<-|[]]; auto|].
    exists []. split; [reflexivity|]. intros c [].
Qed.

Lemma local_set_closed lt ft cm crit : closed lt (local_set lt ft cm crit).
Proof.
  intros a x Ha Hx. apply local_set_spec in Ha. destruct Ha as [f [H1 [H2 H3]]].
  apply local_set_spec. exists f. repeat split; auto.
  destruct (map_one_form lt cm f) as [l [El _]]. rewrite El in *. eapply from_list_closed; eauto.
Qed.

Lemma local_set_bounded lt ft cm crit : cmap_bounded lt cm -> bounded lt (local_set lt ft cm crit).
Proof.
  intros Hb x Hx. apply local_set_spec in Hx. destruct Hx as [f [_ [_ H3]]].
  destruct (map_one_form lt cm f) as [l [El Hl]]. rewrite El in H3.
  eapply from_list_bounded; [|exact H3]. intros c Hc. destruct (Hl c Hc) as [[k Hk]|[E|E]]; try subst c.
  - eapply Hb; eauto.
  - unfold SAFE_TO_DEPLOY_IDX, ct_len. lia.
  - unfold SAFE_TO_RUN_IDX, ct_len. lia.
Qed.

(* C07 mapping: the criteria list written for an imported entry denotes exactly
   that set *)
Theorem localise_spec lt ft cm crit :
  ct_acyclic lt = true -> cmap_bounded lt cm ->
  forall x, cs_has x (from_list lt (localise lt ft cm crit)) = true <->
    exists f, f < N.of_nat (ct_len ft) /\ cs_has f (from_list ft crit) = true /\ cs_has x (map_one lt cm f) = true.
Proof.
  intros Ha Hb x. unfold localise, names_of.
  rewrite (minimal_generates lt (ct_acyclic_spec lt Ha) _ (local_set_bounded lt ft cm crit Hb) (local_set_closed lt ft cm crit)).
  apply local_set_spec.
Qed.

(* unmapped peer criteria contribute nothing; built-ins map to themselves unless overridden *)
Theorem unmapped_contributes_nothing lt cm f :
  (forall l, ~ In (f, l) cm) -> f <> SAFE_TO_DEPLOY_IDX -> f <> SAFE_TO_RUN_IDX -> map_one lt cm f = cs_empty.
Proof.
  intros Hn H1 H2. unfold map_one. destruct (find _ cm) as [[k l]|] eqn:E.
  - apply find_some in E. destruct E as [E1 E2]. apply N.eqb_eq in E2. subst. exfalso. eapply Hn; eauto.
  - destruct (N.eqb_spec f SAFE_TO_DEPLOY_IDX); [congruence|]. destruct (N.eqb_spec f SAFE_TO_RUN_IDX); [congruence|]. reflexivity.
Qed.
Theorem builtin_maps_to_itself lt cm f :
  (forall l, ~ In (f, l) cm) -> f = SAFE_TO_DEPLOY_IDX \/ f = SAFE_TO_RUN_IDX -> map_one lt cm f = from_list lt [f].
Proof.
  intros Hn Hf. unfold map_one. destruct (find _ cm) as [[k l]|] eqn:E.
  - apply find_some in E. destruct E as [E1 E2]. apply N.eqb_eq in E2. subst. exfalso. eapply Hn; eauto.
  - destruct Hf as [->| ->]; reflexivity.
Qed.
Theorem mapped_uses_the_map lt cm f l :
  find (fun '(k, _) => N.eqb k f) cm = Some (f, l) -> map_one lt cm f = from_list lt l.
Proof. intros E. unfold map_one. rewrite E. reflexivity. Qed.

(* exclude: nothing of an excluded crate is imported *)
Theorem exclude_audits lt cm exclude pf n l :
  In (n, l) (fst (import_source lt cm exclude pf)) -> mem_N n exclude = false.
Proof.
  unfold import_source. cbn [fst]. intros H. apply in_map_iff in H. destruct H as [[n' l'] [E H]].
  inversion E; subst. apply filter_In in H. destruct H as [_ H]. apply negb_true_iff in H. exact H.
Qed.
Theorem exclude_wildcards lt cm exclude pf n l :
  EXCLUDE_KEEPS_WILDCARDS = false ->
  In (n, l) (snd (import_source lt cm exclude pf)) -> mem_N n exclude = false.
Proof.
  intros K. unfold import_source. cbn [snd]. intros H. apply in_map_iff in H. destruct H as [[n' l'] [E H]].
  inversion E; subst. apply filter_In in H. destruct H as [_ H]. rewrite K, orb_false_r in H.
  apply negb_true_iff in H. exact H.
Qed.

(* an imported entry is the rewriting of a peer entry for the same crate, nothing else *)
Theorem imported_entries_come_from_the_peer lt cm exclude pf n l a' :
  In (n, l) (fst (import_source lt cm exclude pf)) -> In a' l ->
  exists l0 a, In (n, l0) (pf_audits pf) /\ In a l0 /\ a' = import_audit lt (pf_table pf) cm a.
Proof.
  unfold import_source. cbn [fst]. intros H Ha. apply in_map_iff in H. destruct H as [[n' l'] [E H]].
  inversion E; subst. apply filter_In in H. destruct H as [H _]. apply in_map_iff in Ha. destruct Ha as [a [<- Ha]].
  exists l', a. auto.
Qed.

(* multi-URL imports: the merged table of a crate is the concatenation of the
   sources' tables for that crate *)
Lemma assoc_get_append {A} (m : list (N * list A)) k v k' :
  assoc_get (assoc_append m k v) k' = if N.eqb k k' then assoc_get m k' ++ v else assoc_get m k'.
Proof.
  unfold assoc_get. induction m as [|[k0 v0] m IH]; cbn [assoc_append find].
  - destruct (N.eqb k k'); reflexivity.
  - destruct (N.eqb_spec k k0) as [->|Hne]; cbn [find].
    + destruct (N.eqb_spec k0 k') as [->|Hne']; [reflexivity|reflexivity].
    + destruct (N.eqb_spec k0 k') as [->|Hne'].
      * destruct (N.eqb_spec k k'); [congruence|reflexivity].
      * exact IH.
Qed.

Definition keys_nodup {A} (m : list (N * list A)) : Prop := NoDup (map fst m).

Lemma assoc_get_cons {A} (k0 : N) (v0 : list A) m k :
  assoc_get ((k0, v0) :: m) k = if N.eqb k0 k then v0 else assoc_get m k.
Proof. unfold assoc_get. cbn [find]. destruct (N.eqb k0 k); reflexivity. Qed.

Lemma assoc_get_absent {A} (m : list (N * list A)) k : ~ In k (map fst m) -> assoc_get m k = [].
Proof.
  intros Hn. unfold assoc_get. destruct (find _ m) as [[k1 v1]|] eqn:F; [|reflexivity].
  apply find_some in F. destruct F as [F1 F2]. apply N.eqb_eq in F2. subst.
  exfalso. apply Hn. apply in_map_iff. exists (k, v1). auto.
Qed.

Lemma fold_append_get {A} (m : list (N * list A)) acc k :
  keys_nodup m ->
  assoc_get (fold_left (fun acc '(k, v) => assoc_append acc k v) m acc) k = assoc_get acc k ++ assoc_get m k.
Proof.
  revert acc; induction m as [|[k0 v0] m IH]; intros acc Hnd; cbn [fold_left].
  - unfold assoc_get at 3. cbn. rewrite app_nil_r. reflexivity.
  - inversion Hnd as [|? ? Hnotin Hnd']; subst. rewrite IH by exact Hnd'.
    rewrite assoc_get_append, assoc_get_cons. destruct (N.eqb_spec k0 k) as [->|Hne].
    + rewrite (assoc_get_absent m k Hnotin), app_nil_r. reflexivity.
    + reflexivity.
Qed.

Theorem merge_tables_union {A} (ms : list (list (N * list A))) k :
  Forall keys_nodup ms ->
  assoc_get (merge_tables ms) k = flat_map (fun m => assoc_get m k) ms.
Proof.
  unfold merge_tables. intros H.
  assert (G : forall acc, assoc_get (fold_left (fun acc m => fold_left (fun acc '(k, v) => assoc_append acc k v) m acc) ms acc) k
                          = assoc_get acc k ++ flat_map (fun m => assoc_get m k) ms).
  { induction H as [|m ms Hm Hms IH]; intros acc; cbn [fold_left flat_map].
    - rewrite app_nil_r. reflexivity.
    - rewrite IH, fold_append_get by exact Hm. rewrite app_assoc. reflexivity. }
  rewrite G. reflexivity.
Qed.

(* freshness marking never changes an entry's content, only its flag *)
Lemma mark_first_content {A B} (fresh same : A -> bool) (stale : A -> A) (f : A -> B) l :
  (forall x, f (stale x) = f x) -> map f (mark_first fresh same stale l) = map f l.
Proof.
  intros H. induction l as [|x l IH]; cbn; [reflexivity|]. destruct (fresh x && same x); cbn; [rewrite H; reflexivity|rewrite IH; reflexivity].
Qed.
Theorem freshen_keeps_content existing news :
  map (fun a => (au_kind a, au_crit a, au_importable a)) (freshen_audits existing news) =
  map (fun a => (au_kind a, au_crit a, au_importable a)) news.
Proof.
  unfold freshen_audits. revert news. induction existing as [|e ex IH]; intros news; cbn [fold_left]; [reflexivity|].
  rewrite IH. apply mark_first_content. intros x. reflexivity.
Qed.
