(* CollapseProofs.v — what `certify` records when it folds the new delta with an adjacent prior audit
   (CertifyCollapse.v) certifies exactly what the unfolded delta would: nothing new (C05: a record for X keeps
   counting for X and what X implies only; C11: nothing is widened) and nothing lost. *)
Require Import Base Extracted Criteria Search AuditGraph DepGraph Resolve Imports CertifyCollapse.
Require Import CriteriaProofs SearchProofs AuditGraphProofs ResolveProofs SuggestProofs FuelProofs EndToEnd RecordSets EmbedProofs.
Local Open Scope N_scope.

(* ---- what a successful fold looks like ---- *)
Definition kind_span (k : akind) : option (ver * N) :=
  match k with KFull v => Some (None, v) | KDelta f v => Some (Some f, v) | KViolation _ => None end.

Lemma try_collapse_spec imp_of new prior m :
  try_collapse imp_of new prior = Some m ->
  exists f t pf,
    au_kind new = KDelta f t /\ kind_span (au_kind prior) = Some (pf, f) /\
    kind_span (au_kind m) = Some (pf, t) /\ au_crit m = au_crit new /\
    crit_lists_agree (au_crit prior) (au_crit new) = true.
Proof.
  unfold try_collapse. destruct (au_kind new) as [v|f t|r] eqn:Kn; try discriminate.
  destruct (au_kind prior) as [v|pf pt|r] eqn:Kp; try discriminate.
  - destruct (N.eqb v f) eqn:E; cbn [andb]; [|discriminate].
    destruct (crit_lists_agree (au_crit prior) (au_crit new)) eqn:A; [|discriminate].
    intros H. inversion H; subst m; clear H. apply N.eqb_eq in E. subst v.
    exists f, t, None. cbn. auto.
  - destruct (N.eqb pt f) eqn:E; cbn [andb]; [|discriminate].
    destruct (crit_lists_agree (au_crit prior) (au_crit new)) eqn:A; [|discriminate].
    intros H. inversion H; subst m; clear H. apply N.eqb_eq in E. subst pt.
    exists f, t, (Some pf). cbn. auto.
Qed.

(* the test the code makes, as re-read from the source: the two written lists are equal *)
Lemma crit_lists_agree_eq a b : crit_lists_agree a b = true -> a = b.
Proof. unfold crit_lists_agree. change COLLAPSE_REQUIRES_EQUAL_CRITERIA_LISTS with true. cbv iota. apply list_eqb_eq. Qed.

(* ---- the edges of a store with one more local audit ---- *)
Lemma audits_flat_add ps a : audits_flat (add_local_audit ps a) = audits_flat ps ++ [a].
Proof. unfold audits_flat, add_local_audit. cbn [ps_imported ps_local]. rewrite app_assoc. reflexivity. Qed.

Lemma audit_edge_char t ps e : In e (audit_edges t ps) ->
  exists a, In a (audits_flat ps) /\ kind_span (au_kind a) = Some (fe_from e, match fe_to e with Some v => v | None => 0 end) /\
            fe_to e <> None /\ fe_crit e = from_list t (au_crit a).
Proof.
  unfold audit_edges. intros H. apply in_flat_map in H. destruct H as [[[src o] a] [Ha H]].
  exists a. split; [apply in_all_audits; eauto|].
  destruct (au_kind a) as [v|f v|r]; [| |destruct H]; destruct H as [<-|[]]; cbn; repeat split; congruence.
Qed.

Lemma audit_edge_intro t ps a pf v : In a (audits_flat ps) -> kind_span (au_kind a) = Some (pf, v) ->
  exists e, In e (audit_edges t ps) /\ fe_from e = pf /\ fe_to e = Some v /\ fe_crit e = from_list t (au_crit a).
Proof.
  intros Ha K. apply in_all_audits in Ha. destruct Ha as [src [o Ha]].
  destruct (au_kind a) as [v0|f v0|r] eqn:Ka; cbn in K; inversion K; subst.
  - eexists. split; [unfold audit_edges; apply in_flat_map; exists (src, o, a); split; [exact Ha|rewrite Ka; left; reflexivity]|].
    cbn. auto.
  - eexists. split; [unfold audit_edges; apply in_flat_map; exists (src, o, a); split; [exact Ha|rewrite Ka; left; reflexivity]|].
    cbn. auto.
Qed.

(* an edge of the store with [a] added is an edge of the store (up to origin and freshness) or the edge of [a] *)
Lemma all_edges_add_char t ps a e : In e (all_edges t (add_local_audit ps a)) ->
  (exists e', In e' (all_edges t ps) /\ esim e e') \/
  (exists v, kind_span (au_kind a) = Some (fe_from e, v) /\ fe_to e = Some v /\ fe_crit e = from_list t (au_crit a)).
Proof.
  unfold all_edges. rewrite !in_app_iff. intros [H|H].
  - destruct (audit_edge_char _ _ _ H) as [a0 [Ha0 [K [Hto Ec]]]]. rewrite audits_flat_add in Ha0.
    destruct (fe_to e) as [v|] eqn:Et; [|congruence].
    apply in_app_iff in Ha0. destruct Ha0 as [Ha0|[<-|[]]].
    + left. destruct (audit_edge_intro t ps a0 _ _ Ha0 K) as [e' [He' [E1 [E2 E3]]]].
      exists e'. split; [rewrite !in_app_iff; left; exact He'|]. unfold esim. rewrite E1, E2, E3, Et, Ec. auto.
    + right. exists v. auto.
  - left. exists e. split; [|unfold esim; auto]. rewrite !in_app_iff. right. exact H.
Qed.

Lemma all_edges_add_new t ps a pf v : kind_span (au_kind a) = Some (pf, v) ->
  exists e, In e (all_edges t (add_local_audit ps a)) /\ fe_from e = pf /\ fe_to e = Some v /\ fe_crit e = from_list t (au_crit a).
Proof.
  intros K. destruct (audit_edge_intro t (add_local_audit ps a) a pf v) as [e [He R]]; [|exact K|].
  - rewrite audits_flat_add. apply in_app_iff. right. left. reflexivity.
  - exists e. split; [unfold all_edges; rewrite !in_app_iff; left; exact He|exact R].
Qed.

Lemma all_edges_prior t ps a pf v : In a (ps_local ps) -> kind_span (au_kind a) = Some (pf, v) ->
  exists e, In e (all_edges t ps) /\ fe_from e = pf /\ fe_to e = Some v /\ fe_crit e = from_list t (au_crit a).
Proof.
  intros Ha K. destruct (audit_edge_intro t ps a pf v) as [e [He R]]; [|exact K|].
  - unfold audits_flat. apply in_app_iff. right. exact Ha.
  - exists e. split; [unfold all_edges; rewrite !in_app_iff; left; exact He|exact R].
Qed.

Lemma fpath_cons_sim t ps c e e' w : In e' (all_edges t ps) -> esim e e' -> cs_has c (fe_crit e) = true ->
  fpath t ps c (fe_to e) w -> fpath t ps c (fe_from e) w.
Proof.
  intros He' [E1 [E2 E3]] Hc P. rewrite E1. eapply fp_cons; [exact He'|rewrite <- E3; exact Hc|rewrite <- E2; exact P].
Qed.

Section Fold.
Variables (t : ctable) (ps : pkg_store) (imp_of : akind -> bool) (new prior m : audit).
Hypothesis prior_in : In prior (ps_local ps).
Hypothesis folded : try_collapse imp_of new prior = Some m.

(* NOTHING NEW: every chain of records in the store holding the folded audit is a chain in the store holding the new
   delta as it was asked for (the prior audit being there in both) — for every criterion and every pair of versions *)
Theorem fold_certifies_nothing_new c x y :
  fpath t (add_local_audit ps m) c x y -> fpath t (add_local_audit ps new) c x y.
Proof.
  destruct (try_collapse_spec _ _ _ _ folded) as [f [tv [pf [Kn [Kp [Km [Ecm Ag]]]]]]].
  apply crit_lists_agree_eq in Ag.
  intros P. induction P as [v|e w He Hc P IH]; [constructor|].
  destruct (all_edges_add_char _ _ _ _ He) as [[e' [He' Hs]]|[v [K [Et Ec]]]].
  - eapply fpath_cons_sim; [apply all_edges_add; exact He'|exact Hs|exact Hc|exact IH].
  - (* the folded edge pf -> tv: go through the prior audit pf -> f, then the new delta f -> tv *)
    rewrite Km in K. inversion K; subst v. clear K.
    destruct (all_edges_prior t ps prior pf f prior_in Kp) as [e1 [He1 [F1 [T1 C1]]]].
    destruct (all_edges_add_new t ps new (Some f) tv) as [e2 [He2 [F2 [T2 C2]]]]; [rewrite Kn; reflexivity|].
    rewrite Ec, Ecm in Hc.
    rewrite <- H0. rewrite <- F1. eapply fp_cons; [apply all_edges_add; exact He1|rewrite C1, Ag; exact Hc|].
    rewrite T1, <- F2. eapply fp_cons; [exact He2|rewrite C2; exact Hc|]. rewrite T2, <- Et. exact IH.
Qed.

(* NOTHING LOST: provided the start of the prior audit is certified for the criteria being certified (what
   is_rooted_for_criteria establishes, see rooted_sound), every version certified with the unfolded delta is certified
   with the folded audit *)
Hypothesis prior_rooted : forall c pf, cs_has c (from_list t (au_crit new)) = true ->
  kind_span (au_kind prior) = Some (Some pf, match au_kind new with KDelta f _ => f | _ => 0 end) -> certified t ps c pf.

Theorem fold_loses_nothing c v :
  certified t (add_local_audit ps new) c v -> certified t (add_local_audit ps m) c v.
Proof.
  destruct (try_collapse_spec _ _ _ _ folded) as [f [tv [pf [Kn [Kp [Km [Ecm Ag]]]]]]].
  unfold certified.
  assert (G : forall x y, fpath t (add_local_audit ps new) c x y ->
                fpath t (add_local_audit ps m) c x y \/ fpath t (add_local_audit ps m) c None y).
  { intros x y P. induction P as [v0|e w He Hc P IH]; [left; constructor|].
    destruct IH as [IH|IH]; [|right; exact IH].
    destruct (all_edges_add_char _ _ _ _ He) as [[e' [He' Hs]]|[v0 [K [Et Ec]]]].
    - left. eapply fpath_cons_sim; [apply all_edges_add; exact He'|exact Hs|exact Hc|exact IH].
    - right. rewrite Kn in K. inversion K; subst v0. clear K. rewrite Ec in Hc.
      destruct (all_edges_add_new t ps m pf tv Km) as [e2 [He2 [F2 [T2 C2]]]].
      assert (Q : fpath t (add_local_audit ps m) c pf w).
      { rewrite <- F2. eapply fp_cons; [exact He2|rewrite C2, Ecm; exact Hc|]. rewrite T2, <- Et. exact IH. }
      destruct pf as [pv|]; [|exact Q].
      eapply fpath_trans; [|exact Q].
      eapply fpath_mono; [|apply (prior_rooted c pv Hc)]; [intros e0 He0; apply all_edges_add; exact He0|].
      rewrite Kn. exact Kp. }
  intros P. destruct (G _ _ P) as [Q|Q]; exact Q.
Qed.
End Fold.

(* ---- the executable rootedness test establishes the hypothesis of fold_loses_nothing ---- *)
Lemma rooted_sound t ps crit prior c pf pt :
  ct_acyclic t = true -> (forall x, In x crit -> x < N.of_nat (ct_len t)) ->
  rooted t ps crit prior = true -> au_kind prior = KDelta pf pt ->
  cs_has c (from_list t crit) = true -> certified t ps c pf.
Proof.
  intros Hac Hb R K Hc. unfold rooted in R. rewrite K in R.
  destruct (build t ps) as [ag|cs] eqn:B; [|discriminate].
  rewrite forallb_forall in R.
  pose proof (from_list_bounded t crit Hb) as Hbd.
  destruct (minimal_covers t (ct_acyclic_spec t Hac) (from_list t crit) Hbd c Hc) as [m0 [Hm0 Hcl]].
  specialize (R m0 Hm0). destruct (ag_search ag m0 pf PreferExemptions) as [p| |] eqn:S; try discriminate.
  destruct (ag_search_ok t ps ag m0 pf PreferExemptions p) as [P _]; [discriminate|exact B|exact S|].
  unfold certified. eapply fpath_weaken; [apply Hbd; exact Hc|exact Hcl|exact P].
Qed.

(* ---- the loop: the recorded audit is the new delta itself or its fold with one of the candidates ---- *)
Lemma collapse_first_spec imp_of new cands :
  collapse_first imp_of new cands = new \/
  exists prior, In prior cands /\ try_collapse imp_of new prior = Some (collapse_first imp_of new cands).
Proof.
  induction cands as [|a rest IH]; cbn [collapse_first]; [left; reflexivity|].
  destruct (try_collapse imp_of new a) as [m|] eqn:E.
  - right. exists a. split; [left; reflexivity|exact E].
  - destruct IH as [IH|[prior [Hin Hp]]]; [left; exact IH|right]. exists prior. split; [right; exact Hin|exact Hp].
Qed.

(* THE COMMAND: whatever `certify` records for a delta — folded or not, with or without --no-collapse — certifies exactly
   what the delta the user asked for certifies: for every criterion and every version *)
Theorem certify_records_what_was_asked imp_of t ps from_is_git no_collapse new c v :
  ct_acyclic t = true -> (forall x, In x (au_crit new) -> x < N.of_nat (ct_len t)) ->
  (certified t (add_local_audit ps (certified_entry imp_of t ps from_is_git no_collapse new)) c v
   <-> certified t (add_local_audit ps new) c v).
Proof.
  intros Hac Hb. unfold certified_entry. destruct (from_is_git && negb no_collapse); [|reflexivity].
  set (cands := filter _ (ps_local ps)).
  destruct (collapse_first_spec imp_of new cands) as [E|[prior [Hin Hf]]]; [rewrite E; reflexivity|].
  unfold cands in Hin. apply filter_In in Hin. destruct Hin as [Hin Hg]. apply andb_prop in Hg. destruct Hg as [_ Hr].
  split.
  - apply (fold_certifies_nothing_new t ps imp_of new prior _ Hin Hf).
  - apply (fold_loses_nothing t ps imp_of new prior _ Hf).
    intros c0 pf Hc0 K. destruct (au_kind prior) as [v0|pf0 pt0|r] eqn:Kp; cbn in K; try discriminate.
    inversion K; subst pf0. eapply rooted_sound; eauto.
Qed.

(* the criteria list that is written is the list that was asked for, never the prior audit's nor a mixture *)
Theorem certify_writes_the_requested_criteria imp_of t ps from_is_git no_collapse new :
  au_crit (certified_entry imp_of t ps from_is_git no_collapse new) = au_crit new.
Proof.
  unfold certified_entry. destruct (from_is_git && negb no_collapse); [|reflexivity].
  set (cands := filter _ (ps_local ps)).
  destruct (collapse_first_spec imp_of new cands) as [E|[prior [_ Hf]]]; [rewrite E; reflexivity|].
  destruct (try_collapse_spec _ _ _ _ Hf) as [f [tv [pf [_ [_ [_ [E _]]]]]]]. exact E.
Qed.

(* ---- why the lists must be EQUAL: folding with a prior audit recorded for less certifies something new ---- *)
Definition try_collapse_superset (t : ctable) (imp_of : akind -> bool) (new prior : audit) : option audit :=
  match au_kind new, au_kind prior with
  | KDelta f tv, KDelta pf pt =>
      if N.eqb pt f && cs_contains (from_list t (au_crit new)) (from_list t (au_crit prior))
      then Some {| au_kind := KDelta pf tv; au_crit := au_crit new; au_importable := imp_of (KDelta pf tv); au_fresh := false |}
      else None
  | _, _ => None
  end.

(* table: safe-to-run = 0, safe-to-deploy = 1 (implies 0); versions 0 < 1 < 2; store: full audit of 0 for both, delta 0 -> 1
   for safe-to-run only; certified: delta 1 -> 2 for safe-to-deploy *)
Definition cw_table : ctable := [].   (* built-ins only *)
Definition cw_full := {| au_kind := KFull 0; au_crit := [1]; au_importable := true; au_fresh := false |}.
Definition cw_prior := {| au_kind := KDelta 0 1; au_crit := [0]; au_importable := false; au_fresh := false |}.
Definition cw_new := {| au_kind := KDelta 1 2; au_crit := [1]; au_importable := false; au_fresh := false |}.
Definition cw_ps := add_local_audit (add_local_audit empty_pkg_store cw_full) cw_prior.

(* decide "is certified" on the witness by the model's own search (sound and complete, ResolveProofs) *)
Definition cw_certified (ps : pkg_store) (c v : N) : bool :=
  match build cw_table ps with
  | inl ag => match ag_search ag c v PreferExemptions with SOk _ => true | _ => false end
  | inr _ => false
  end.

Lemma cw_certified_spec ps c v : violation_conflicts cw_table ps = [] ->
  (cw_certified ps c v = true <-> certified cw_table ps c v).
Proof.
  intros Hv. unfold cw_certified. destruct (build cw_table ps) as [ag|cs] eqn:B.
  - destruct (ag_search ag c v PreferExemptions) as [p|fr ft|] eqn:S.
    + split; [intros _|reflexivity]. destruct (ag_search_ok cw_table ps ag c v PreferExemptions p) as [P _]; [discriminate|exact B|exact S|]. exact P.
    + split; [discriminate|]. intros P. exfalso. eapply ag_search_err; eauto. discriminate.
    + exfalso. exact (ag_search_never_runs_out _ _ _ c v PreferExemptions B S).
  - unfold build in B. rewrite Hv in B. discriminate.
Qed.

(* the superset test folds the witness ... *)
Example superset_test_folds :
  try_collapse_superset cw_table (fun _ => false) cw_new cw_prior =
  Some {| au_kind := KDelta 0 2; au_crit := [1]; au_importable := false; au_fresh := false |}.
Proof. vm_compute. reflexivity. Qed.
(* ... the code's equality test does not ... *)
Example equality_test_refuses : try_collapse (fun _ => false) cw_new cw_prior = None.
Proof. vm_compute. reflexivity. Qed.

(* ... and with the superset test version 2 becomes certified for safe-to-deploy although the delta 0 -> 1 was recorded for
   safe-to-run only: a record counts for a criterion it does not imply *)
Theorem superset_fold_certifies_something_new :
  exists m, try_collapse_superset cw_table (fun _ => false) cw_new cw_prior = Some m /\
            certified cw_table (add_local_audit cw_ps m) 1 2 /\ ~ certified cw_table (add_local_audit cw_ps cw_new) 1 2.
Proof.
  eexists. split; [exact superset_test_folds|]. split.
  - apply cw_certified_spec; vm_compute; reflexivity.
  - intros H. apply cw_certified_spec in H; [|vm_compute; reflexivity]. vm_compute in H. discriminate.
Qed.
