(* WrittenFormProofs.v — the executable check implies the proposition the C13 theorems use. *)
Require Import Base Extracted Criteria Search AuditGraph DepGraph Resolve Update Imports WrittenForm.
Require Import CriteriaProofs UpdateProofs UpdateKeep CheckFixpoint CheckTwice EmbedProofs.
Local Open Scope N_scope.

Lemma all2b_eq {A} (eqb : A -> A -> bool) : (forall a b, eqb a b = true -> a = b) -> forall a b, all2b eqb a b = true -> a = b.
Proof.
  intros H. induction a as [|x a IH]; intros [|y b]; cbn; try discriminate; [reflexivity|].
  intros E. apply andb_prop in E. destruct E as [E1 E2]. f_equal; [apply H; exact E1|apply IH; exact E2].
Qed.

Theorem written_formb_ok t ps : written_formb t ps = true -> written_form t ps.
Proof.
  unfold written_formb, written_form, settled. intros H.
  apply andb_prop in H. destruct H as [H Hx]. apply andb_prop in H. destruct H as [H Hs].
  apply andb_prop in H. destruct H as [H Hu]. apply andb_prop in H. destruct H as [H Hp].
  apply andb_prop in H. destruct H as [Hi Hw].
  rewrite forallb_forall in Hi, Hw, Hp, Hu, Hx.
  split; [split; [|split]|split; [|split]].
  - intros l a Hl Ha. specialize (Hi l Hl). rewrite forallb_forall in Hi. apply negb_true_iff. apply Hi. exact Ha.
  - intros l w Hl Hw0. specialize (Hw l Hl). rewrite forallb_forall in Hw. apply negb_true_iff. apply Hw. exact Hw0.
  - intros p Hp0. apply negb_true_iff. apply Hp. exact Hp0.
  - intros u Hu0. apply negb_true_iff. apply Hu. exact Hu0.
  - apply (all2b_eq unpub_eqb unpub_eqb_eq). exact Hs.
  - intros x Hx0. specialize (Hx x Hx0). apply andb_prop in Hx. destruct Hx as [E1 E2]. split.
    + apply list_eqb_eq. exact E1.
    + apply negb_true_iff. exact E2.
Qed.
