(* SearchProofs.v — specification of Search.search: soundness (a returned path is
   a chain of usable edges), completeness (a failure returns exactly the
   reachable set, which misses the target) and minimax optimality (no chain has a
   smaller maximum caveat level than the returned one).  Only the fact that the
   caveat level is the PRIMARY component of the heap key is used. *)
Require Import Base Extracted Search.
Local Open Scope N_scope.

(* specification: chains *)
Inductive chain (g : graph) (c : N) (m : search_mode) : ver -> ver -> list origin -> N -> Prop :=
| chain_nil v : chain g c m v v [] CV_None
| chain_snoc a b e p lv :
    chain g c m a b p lv -> In e (lookup g b) -> usable m c e = true ->
    chain g c m a (e_to e) (p ++ [e_origin e]) (N_max lv (edge_caveat m e))
| chain_fresh a v p lv :
    m = RegenerateExemptions ->
    chain g c m a (Some v) p lv ->
    chain g c m a None (p ++ [OFreshExemption v]) (N_max lv CV_FreshExemption).

Definition node_ok g c m start (n : node) : Prop :=
  chain g c m start (n_ver n) (n_path n) (n_cav n).

Lemma extract_min_aux_perm best acc rest n q :
  extract_min_aux best acc rest = (n, q) ->
  forall x, In x (n :: q) <-> In x (best :: acc ++ rest).
Proof.
  revert best acc; induction rest as [|y rest IH]; intros best acc H x; cbn in H.
  - inversion H; subst. rewrite app_nil_r. reflexivity.
  - destruct (key_ltb y best).
    + apply IH with (x := x) in H. rewrite H. cbn. rewrite !in_app_iff. cbn. tauto.
    + apply IH with (x := x) in H. rewrite H. cbn. rewrite !in_app_iff. cbn. tauto.
Qed.

Lemma extract_min_in q n q' : extract_min q = Some (n, q') ->
  forall x, In x q <-> In x (n :: q').
Proof.
  destruct q as [|y q]; cbn; [discriminate|]. intros H x. inversion H as [H1].
  apply extract_min_aux_perm with (x := x) in H1. cbn in H1. symmetry. exact H1.
Qed.

Lemma push_edges_ok g c m start visited n :
  node_ok g c m start n ->
  forall es, (forall e, In e es -> In e (lookup g (n_ver n))) ->
  forall x, In x (push_edges m c visited n es) -> node_ok g c m start x.
Proof.
  intros Hn es Hes x Hx. unfold push_edges in Hx. apply in_flat_map in Hx.
  destruct Hx as [e [He Hx]].
  destruct (usable m c e) eqn:Hu; cbn in Hx; [|contradiction].
  destruct (negb (mem_ver (e_to e) visited)); cbn in Hx; [|contradiction].
  destruct Hx as [<-|[]]. unfold node_ok; cbn.
  eapply chain_snoc; eauto.
Qed.

Theorem loop_sound fuel g c m start target :
  forall q visited p,
  (forall n, In n q -> node_ok g c m start n) ->
  loop fuel g c m target q visited = ROk p ->
  exists lv, chain g c m start target p lv.
Proof.
  induction fuel as [|fuel IH]; intros q visited p Hq H; cbn in H; [discriminate|].
  destruct (extract_min q) as [[n q']|] eqn:Hex; [|discriminate].
  pose proof (extract_min_in _ _ _ Hex) as Hin.
  assert (Hn : node_ok g c m start n) by (apply Hq, Hin; left; reflexivity).
  assert (Hq' : forall x, In x q' -> node_ok g c m start x) by (intros x Hx; apply Hq, Hin; right; exact Hx).
  destruct (mem_ver (n_ver n) visited).
  - eapply IH; eauto.
  - destruct (ver_eqb_spec (n_ver n) target) as [Heq|Hne].
    + inversion H; subst. exists (n_cav n). exact Hn.
    + eapply IH; [|exact H]. intros x Hx. rewrite !in_app_iff in Hx.
      destruct Hx as [Hx|[Hx|Hx]].
      * eapply push_edges_ok; eauto.
      * destruct m; try contradiction. destruct (n_ver n) as [v|] eqn:Hv; [|contradiction].
        destruct Hx as [<-|[]]. unfold node_ok; cbn.
        eapply chain_fresh; eauto. unfold node_ok in Hn. rewrite Hv in Hn. exact Hn.
      * apply Hq'; exact Hx.
Qed.

Theorem search_sound fuel g c m start target p :
  search fuel g c m start target = ROk p -> exists lv, chain g c m start target p lv.
Proof.
  unfold search. apply loop_sound. intros n [<-|[]]. unfold node_ok; cbn. constructor.
Qed.


(* the popped node has the least caveat *)
Lemma key_ltb_cav x y : key_ltb x y = true -> n_cav x <= n_cav y.
Proof.
  unfold key_ltb, key_cmp, lex. destruct (N.compare_spec (n_cav x) (n_cav y)); try lia; discriminate.
Qed.
Lemma key_nltb_cav x y : key_ltb x y = false -> n_cav y <= n_cav x.
Proof.
  unfold key_ltb, key_cmp, lex. destruct (N.compare_spec (n_cav x) (n_cav y)); try lia; discriminate.
Qed.

Lemma extract_min_aux_least best acc rest n q :
  extract_min_aux best acc rest = (n, q) ->
  (forall x, In x acc -> n_cav best <= n_cav x) ->
  forall x, In x q -> n_cav n <= n_cav x.
Proof.
  revert best acc; induction rest as [|y rest IH]; intros best acc H Hacc x Hx; cbn in H.
  - inversion H; subst. apply Hacc; exact Hx.
  - destruct (key_ltb y best) eqn:Hlt.
    + eapply IH; [exact H| |exact Hx]. intros z [<-|Hz].
      * apply key_ltb_cav; exact Hlt.
      * pose proof (key_ltb_cav _ _ Hlt). specialize (Hacc z Hz). lia.
    + eapply IH; [exact H| |exact Hx]. intros z [<-|Hz].
      * apply key_nltb_cav; exact Hlt.
      * apply Hacc; exact Hz.
Qed.

Lemma extract_min_least q n q' : extract_min q = Some (n, q') ->
  forall x, In x q' -> n_cav n <= n_cav x.
Proof.
  destruct q as [|y q]; cbn; [discriminate|]. intros H. inversion H as [H1].
  eapply extract_min_aux_least; [exact H1|]. intros x [].
Qed.

(* ------------------------------------------------------------------ *)
(* generalised edges: real edges plus the fresh-exemption pseudo edge *)
Definition step (g : graph) (c : N) (m : search_mode) (a b : ver) (lv : N) : Prop :=
  (exists e, In e (lookup g a) /\ usable m c e = true /\ e_to e = b /\ lv = edge_caveat m e)
  \/ (m = RegenerateExemptions /\ (exists v, a = Some v) /\ b = None /\ lv = CV_FreshExemption).

(* reachability with level, by snoc *)
Inductive reach (g : graph) (c : N) (m : search_mode) (s : ver) : ver -> N -> Prop :=
| reach_nil : reach g c m s s CV_None
| reach_snoc a b lv l : reach g c m s a lv -> step g c m a b l -> reach g c m s b (N_max lv l).

Lemma chain_reach g c m s t p lv : chain g c m s t p lv -> reach g c m s t lv.
Proof.
  induction 1.
  - constructor.
  - econstructor; [eassumption|]. left. eauto.
  - econstructor; [eassumption|]. right. subst; eauto.
Qed.

(* ------------------------------------------------------------------ *)
(* the invariant *)
Section Inv.
Variables (g : graph) (c : N) (m : search_mode) (start target : ver).

Record inv (q : list node) (visited : list ver) (pc : ver -> N) : Prop := {
  inv_nodes : forall n, In n q -> exists p, chain g c m start (n_ver n) (n_path n) (n_cav n) /\ p = n_path n;
  inv_start : (In start visited /\ pc start = 0) \/ (exists n, In n q /\ n_ver n = start /\ n_cav n = 0);
  inv_target : ~ In target visited;
  inv_vis_reach : forall x, In x visited -> exists lv, reach g c m start x lv;
  inv_M3 : forall x lv, In x visited -> reach g c m start x lv -> pc x <= lv;
  inv_M4 : forall x b l, In x visited -> step g c m x b l -> ~ In b visited ->
           exists n, In n q /\ n_ver n = b /\ n_cav n <= N_max (pc x) l
}.

Lemma frontier q visited pc : inv q visited pc ->
  forall u lv, reach g c m start u lv ->
  (In u visited /\ pc u <= lv) \/ (exists n, In n q /\ n_cav n <= lv).
Proof.
  intros I u lv H. induction H as [|a b lv l Hr IH Hs].
  - destruct (inv_start _ _ _ I) as [[Hv Hp]|[n [Hn [_ Hc]]]].
    + left. split; [exact Hv|lia].
    + right. exists n. split; [exact Hn|lia].
  - destruct IH as [[Hv Hp]|[n [Hn Hc]]].
    + destruct (in_dec (fun x y => match ver_eqb_spec x y with ReflectT _ e => left e | ReflectF _ ne => right ne end) b visited) as [Hb|Hb].
      * left. split; [exact Hb|]. apply (inv_M3 _ _ _ I); [exact Hb|]. econstructor; eassumption.
      * right. destruct (inv_M4 _ _ _ I a b l Hv Hs Hb) as [n [Hn [_ Hc]]].
        exists n. split; [exact Hn|]. pose proof (N_max_mono _ _ l Hp). lia.
    + right. exists n. split; [exact Hn|]. pose proof (N_max_le_l lv l). lia.
Qed.

End Inv.

Definition upd (pc : ver -> N) (x : ver) (v : N) : ver -> N :=
  fun y => if ver_eqb y x then v else pc y.
Lemma upd_same pc x v : upd pc x v x = v.
Proof. unfold upd. destruct (ver_eqb_spec x x); congruence. Qed.
Lemma upd_other pc x v y : y <> x -> upd pc x v y = pc y.
Proof. unfold upd. destruct (ver_eqb_spec y x); congruence. Qed.


Lemma in_push_edges m c visited n es e :
  In e es -> usable m c e = true -> ~ In (e_to e) visited ->
  exists x, In x (push_edges m c visited n es) /\ n_ver x = e_to e /\
            n_cav x = N_max (n_cav n) (edge_caveat m e).
Proof.
  intros He Hu Hv. unfold push_edges.
  eexists. split.
  - apply in_flat_map. exists e. split; [exact He|]. rewrite Hu.
    destruct (mem_ver (e_to e) visited) eqn:Hm.
    + apply mem_ver_In in Hm. contradiction.
    + cbn. left. reflexivity.
  - cbn. split; reflexivity.
Qed.

Lemma push_edges_inv m c visited n es x :
  In x (push_edges m c visited n es) ->
  exists e, In e es /\ usable m c e = true /\
    x = {| n_ver := e_to e; n_orig := n_ver n; n_path := n_path n ++ [e_origin e];
           n_cav := N_max (n_cav n) (edge_caveat m e) |}.
Proof.
  unfold push_edges. intros Hx. apply in_flat_map in Hx. destruct Hx as [e [He Hx]].
  destruct (usable m c e) eqn:Hu; cbn in Hx; [|contradiction].
  destruct (negb (mem_ver (e_to e) visited)); cbn in Hx; [|contradiction].
  destruct Hx as [<-|[]]. exists e. auto.
Qed.

Section Spec.
Variables (g : graph) (c : N) (m : search_mode) (start target : ver).

Definition post (r : result) : Prop :=
  match r with
  | ROk p => exists lv, chain g c m start target p lv /\
                        forall lv', reach g c m start target lv' -> lv <= lv'
  | RErr vis => (forall x, In x vis <-> exists lv, reach g c m start x lv) /\ ~ In target vis
  | RFuel => True
  end.

Theorem loop_spec fuel : forall q visited pc,
  inv g c m start target q visited pc -> post (loop fuel g c m target q visited).
Proof.
  induction fuel as [|fuel IH]; intros q visited pc I; cbn; [exact Logic.I|].
  destruct (extract_min q) as [[n q']|] eqn:Hex.
  2:{ (* empty queue *)
    destruct q as [|? ?]; [|cbn in Hex; discriminate]. cbn. split.
    - intros x. split.
      + apply (inv_vis_reach _ _ _ _ _ _ _ _ I).
      + intros [lv Hr]. destruct (frontier _ _ _ _ _ _ _ _ I x lv Hr) as [[Hv _]|[n [[] _]]]. exact Hv.
    - apply (inv_target _ _ _ _ _ _ _ _ I). }
  pose proof (extract_min_in _ _ _ Hex) as Hin.
  pose proof (extract_min_least _ _ _ Hex) as Hleast.
  assert (Hnq : In n q) by (apply Hin; left; reflexivity).
  assert (Hq'q : forall x, In x q' -> In x q) by (intros x Hx; apply Hin; right; exact Hx).
  assert (Hmin : forall x, In x q -> n_cav n <= n_cav x).
  { intros x Hx. apply Hin in Hx. destruct Hx as [<-|Hx]; [lia|apply Hleast; exact Hx]. }
  destruct (mem_ver (n_ver n) visited) eqn:Hmem.
  - (* already visited: drop the node *)
    apply mem_ver_In in Hmem. apply (IH q' visited pc). destruct I as [I1 I2 I3 I4 I5 I6]. constructor; auto.
    + destruct I2 as [I2|[n0 [Hn0 [Hv0 Hc0]]]]; [left; exact I2|].
      apply Hin in Hn0. destruct Hn0 as [<-|Hn0].
      * left. rewrite <- Hv0. split; [exact Hmem|].
        assert (pc (n_ver n) <= 0) by (apply I5; [exact Hmem|rewrite Hv0; constructor]). lia.
      * right. exists n0. auto.
    + intros x b l Hx Hs Hb. destruct (I6 x b l Hx Hs Hb) as [n0 [Hn0 [Hv0 Hc0]]].
      apply Hin in Hn0. destruct Hn0 as [<-|Hn0].
      * exfalso. apply Hb. rewrite <- Hv0. exact Hmem.
      * exists n0. auto.
  - assert (Hnv : ~ In (n_ver n) visited).
    { intros H. apply mem_ver_In in H. congruence. }
    destruct (inv_nodes _ _ _ _ _ _ _ _ I n Hnq) as [_ [Hchain _]].
    destruct (ver_eqb_spec (n_ver n) target) as [Heq|Hne].
    + (* found *)
      cbn. exists (n_cav n). split; [rewrite <- Heq; exact Hchain|].
      intros lv' Hr. rewrite <- Heq in Hr.
      destruct (frontier _ _ _ _ _ _ _ _ I _ _ Hr) as [[Hv _]|[n' [Hn' Hc']]]; [contradiction|].
      specialize (Hmin n' Hn'). lia.
    + (* expand *)
      set (x0 := n_ver n). set (pc' := upd pc x0 (n_cav n)).
      apply (IH _ (x0 :: visited) pc').
      destruct I as [I1 I2 I3 I4 I5 I6]. constructor.
      * intros y Hy. rewrite !in_app_iff in Hy. destruct Hy as [Hy|[Hy|Hy]].
        -- apply push_edges_inv in Hy. destruct Hy as [e [He [Hu ->]]].
           cbn. eexists. split; [|reflexivity]. eapply chain_snoc; eauto.
        -- destruct m; try contradiction. fold x0 in Hy. destruct x0 as [v|] eqn:Hx0; [|contradiction].
           destruct Hy as [<-|[]]. cbn. eexists. split; [|reflexivity].
           eapply chain_fresh; eauto. unfold x0 in Hx0. rewrite Hx0 in Hchain. exact Hchain.
        -- apply I1. apply Hq'q. exact Hy.
      * destruct I2 as [[Hs Hp]|[n0 [Hn0 [Hv0 Hc0]]]].
        -- left. split; [right; exact Hs|]. unfold pc'. rewrite upd_other; [exact Hp|].
           intros E. apply Hnv. fold x0. rewrite <- E. exact Hs.
        -- apply Hin in Hn0. destruct Hn0 as [<-|Hn0].
           ++ left. split; [left; exact Hv0|]. unfold pc'. rewrite <- Hv0. fold x0. rewrite upd_same. exact Hc0.
           ++ right. exists n0. split; [|auto]. rewrite !in_app_iff. right; right. exact Hn0.
      * intros [E|H]; [apply Hne; exact E|apply I3; exact H].
      * intros y [<-|Hy]; [exists (n_cav n); eapply chain_reach; exact Hchain|apply I4; exact Hy].
      * intros y lv [<-|Hy] Hr.
        -- unfold pc'. rewrite upd_same.
           assert (Iold : inv g c m start target q visited pc) by (constructor; auto).
           destruct (frontier _ _ _ _ _ _ _ _ Iold _ _ Hr) as [[Hv _]|[n' [Hn' Hc']]]; [contradiction|].
           specialize (Hmin n' Hn'). lia.
        -- unfold pc'. rewrite upd_other; [apply I5; assumption|]. intros E. apply Hnv. fold x0. rewrite <- E. exact Hy.
      * intros y b l [<-|Hy] Hs Hb.
        -- (* edges of the newly visited version *)
           unfold pc'. rewrite upd_same. destruct Hs as [[e [He [Hu [Hto Hl]]]]|[Hm [[v Hv] [Hb' Hl]]]].
           ++ subst b l. destruct (in_push_edges m c (x0 :: visited) n _ e He Hu Hb) as [z [Hz [Hzv Hzc]]].
              exists z. split; [rewrite !in_app_iff; left; exact Hz|]. split; [exact Hzv|]. rewrite Hzc. lia.
           ++ subst b l. eexists. split.
              ** rewrite !in_app_iff. right; left. rewrite Hm. fold x0. rewrite Hv. left. reflexivity.
              ** cbn. split; [reflexivity|lia].
        -- assert (Hb0 : ~ In b visited) by (intros H; apply Hb; right; exact H).
           destruct (I6 y b l Hy Hs Hb0) as [n0 [Hn0 [Hv0 Hc0]]].
           apply Hin in Hn0. destruct Hn0 as [<-|Hn0].
           ++ exfalso. apply Hb. left. exact Hv0.
           ++ exists n0. split; [rewrite !in_app_iff; right; right; exact Hn0|]. split; [exact Hv0|].
              unfold pc'. rewrite upd_other; [exact Hc0|]. intros E. apply Hnv. fold x0. rewrite <- E. exact Hy.
Qed.

Theorem search_spec fuel : post (search fuel g c m start target).
Proof.
  unfold search. apply (loop_spec fuel _ [] (fun _ => 0)). constructor.
  - intros n [<-|[]]. cbn. eexists. split; [constructor|reflexivity].
  - right. eexists. split; [left; reflexivity|]. cbn. auto.
  - intros [].
  - intros x [].
  - intros x lv [].
  - intros x b l [].
Qed.

End Spec.
Print Assumptions search_spec.
