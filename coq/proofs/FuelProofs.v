(* FuelProofs.v — the model's search fuel is an artefact: [search_fuel g] always
   suffices, so [RFuel] (and hence [SFuel] in [ag_search]) never occurs. *)
Require Import Base Extracted Search SearchProofs.
Local Open Scope nat_scope.

Lemma ver_eq_dec (a b : ver) : {a = b} + {a <> b}.
Proof. destruct (ver_eqb_spec a b); [left|right]; assumption. Qed.

Definition is_some (v : ver) : nat := match v with Some _ => 1 | None => 0 end.
(* what expanding version v can push: its edges, plus the fresh-exemption node *)
Definition weight (g : graph) (v : ver) : nat := length (lookup g v) + is_some v.

(* remaining potential: the weights of the not-yet-visited versions of the universe U *)
Fixpoint wsum (g : graph) (U vis : list ver) : nat :=
  match U with
  | [] => 0
  | v :: U' => (if mem_ver v vis then 0 else weight g v) + wsum g U' vis
  end.

Lemma wsum_visit_other g U vis x : ~ In x U -> wsum g U (x :: vis) = wsum g U vis.
Proof.
  induction U as [|v U IH]; intros Hx; cbn [wsum]; [reflexivity|].
  rewrite IH by (intros H; apply Hx; right; exact H). f_equal.
  cbn [mem_ver existsb]. destruct (ver_eqb_spec v x) as [->|Hne]; [exfalso; apply Hx; left; reflexivity|reflexivity].
Qed.

Lemma wsum_visit g U vis x : NoDup U -> In x U -> ~ In x vis ->
  wsum g U (x :: vis) + weight g x = wsum g U vis.
Proof.
  induction U as [|v U IH]; intros ND Hin Hv; [destruct Hin|].
  inversion ND as [|? ? Hnv ND']; subst. cbn [wsum].
  destruct Hin as [->|Hin].
  - rewrite wsum_visit_other by exact Hnv. cbn [mem_ver existsb].
    destruct (ver_eqb_spec x x); [|congruence]. cbn [orb].
    destruct (mem_ver x vis) eqn:E; [apply mem_ver_In in E; contradiction|]. lia.
  - specialize (IH ND' Hin Hv).
    assert (Hne : v <> x) by (intros ->; contradiction).
    cbn [mem_ver existsb]. destruct (ver_eqb_spec v x); [congruence|]. cbn [orb]. fold (mem_ver v vis). lia.
Qed.

Lemma push_edges_length m c visited n es : length (push_edges m c visited n es) <= length es.
Proof.
  unfold push_edges. induction es as [|e es IH]; cbn; [lia|]. rewrite app_length.
  destruct (usable m c e && negb (mem_ver (e_to e) visited)); cbn; lia.
Qed.

Lemma extract_min_length q n q' : extract_min q = Some (n, q') -> length q = S (length q').
Proof.
  destruct q as [|x q]; cbn; [discriminate|]. intros H. inversion H as [H1]. clear H.
  assert (G : forall best acc rest n q', extract_min_aux best acc rest = (n, q') ->
              length q' = length acc + length rest).
  { clear. intros best acc rest; revert best acc; induction rest as [|y rest IH]; intros best acc n q' H; cbn in H.
    - inversion H; subst. cbn. lia.
    - destruct (key_ltb y best); apply IH in H; cbn in *; lia. }
  apply G in H1. cbn in H1. lia.
Qed.

Section Fuel.
Variables (g : graph) (c : N) (m : search_mode) (target : ver) (U : list ver).
Hypothesis ND : NoDup U.
Hypothesis closed : forall v e, In v U -> In e (lookup g v) -> In (e_to e) U.
Hypothesis none_in : In None U.

Lemma loop_fuel_enough fuel : forall q vis,
  (forall n, In n q -> In (n_ver n) U) ->
  length q + wsum g U vis < fuel ->
  loop fuel g c m target q vis <> RFuel.
Proof.
  induction fuel as [|fuel IH]; intros q vis Hq Hm; [lia|]. cbn [loop].
  destruct (extract_min q) as [[n q']|] eqn:Hex; [|discriminate].
  pose proof (extract_min_in _ _ _ Hex) as Hin. pose proof (extract_min_length _ _ _ Hex) as Hlen.
  assert (HnU : In (n_ver n) U) by (apply Hq, Hin; left; reflexivity).
  assert (Hq' : forall x, In x q' -> In (n_ver x) U) by (intros x Hx; apply Hq, Hin; right; exact Hx).
  destruct (mem_ver (n_ver n) vis) eqn:Hmem.
  - apply IH; [exact Hq'|lia].
  - destruct (ver_eqb (n_ver n) target); [discriminate|].
    assert (Hnv : ~ In (n_ver n) vis) by (intros H; apply mem_ver_In in H; congruence).
    pose proof (wsum_visit g U vis (n_ver n) ND HnU Hnv) as Hw.
    apply IH.
    + intros x Hx. rewrite !in_app_iff in Hx. destruct Hx as [Hx|[Hx|Hx]].
      * apply push_edges_inv in Hx. destruct Hx as [e [He [_ ->]]]. cbn. eapply closed; [exact HnU|exact He].
      * destruct m; try contradiction. destruct (n_ver n); [|contradiction]. destruct Hx as [<-|[]]. exact none_in.
      * apply Hq'. exact Hx.
    + rewrite !app_length.
      pose proof (push_edges_length m c (n_ver n :: vis) n (lookup g (n_ver n))) as Hp.
      assert (He : length (match m, n_ver n with
                           | RegenerateExemptions, Some v =>
                               [ {| n_ver := None; n_orig := n_ver n; n_path := n_path n ++ [OFreshExemption v];
                                    n_cav := N_max (n_cav n) CV_FreshExemption |} ]
                           | _, _ => [] end) <= is_some (n_ver n)).
      { destruct m; destruct (n_ver n); cbn; lia. }
      unfold weight in Hw. lia.
Qed.
End Fuel.

(* ---- the universe of a search, and the bound ---- *)
Definition targets (g : graph) : list ver := flat_map (fun p => map e_to (snd p)) g.
Definition universe (g : graph) (start : ver) : list ver := nodup ver_eq_dec (start :: None :: targets g).

Lemma lookup_in_targets g v e : In e (lookup g v) -> In (e_to e) (targets g).
Proof.
  induction g as [|[k es] g IH]; cbn [lookup]; [intros []|].
  unfold targets. cbn [flat_map snd]. rewrite in_app_iff. destruct (ver_eqb k v).
  - intros H. left. apply in_map. exact H.
  - intros H. right. apply IH. exact H.
Qed.

Lemma targets_length g : length (targets g) = graph_edges g.
Proof.
  unfold targets, graph_edges. induction g as [|[k es] g IH]; cbn; [reflexivity|].
  rewrite app_length, map_length, IH. reflexivity.
Qed.

(* sum of edge-list lengths over distinct versions is at most the number of edges *)
Fixpoint lsum (g : graph) (U : list ver) : nat :=
  match U with [] => 0 | v :: U' => length (lookup g v) + lsum g U' end.

Lemma lsum_cons_absent k es g U : ~ In k U -> lsum ((k, es) :: g) U = lsum g U.
Proof.
  induction U as [|v U IH]; intros Hk; cbn [lsum]; [reflexivity|].
  rewrite IH by (intros H; apply Hk; right; exact H). cbn [lookup].
  destruct (ver_eqb_spec k v) as [->|]; [exfalso; apply Hk; left; reflexivity|reflexivity].
Qed.

Lemma lsum_le g : forall U, NoDup U -> lsum g U <= graph_edges g.
Proof.
  induction g as [|[k es] g IH]; intros U ND.
  - induction U as [|v U IHU]; cbn; [lia|]. inversion ND; subst. specialize (IHU H2). cbn in IHU. lia.
  - cbn [graph_edges fold_right snd]. fold (graph_edges g).
    assert (G : forall U, NoDup U -> lsum ((k, es) :: g) U <= (if in_dec ver_eq_dec k U then length es else 0) + lsum g (filter (fun v => negb (ver_eqb k v)) U)).
    { clear - IH. induction U as [|v U IHU]; intros ND; [cbn; destruct (in_dec ver_eq_dec k []); lia|].
      inversion ND as [|? ? Hnv ND']; subst. specialize (IHU ND'). cbn [lsum lookup filter].
      destruct (ver_eqb_spec k v) as [->|Hne]; cbn [negb].
      - rewrite lsum_cons_absent by exact Hnv.
        destruct (in_dec ver_eq_dec v (v :: U)) as [_|n]; [|exfalso; apply n; left; reflexivity].
        assert (E : filter (fun v0 => negb (ver_eqb v v0)) U = U).
        { clear - Hnv. induction U as [|x U IH]; cbn; [reflexivity|].
          destruct (ver_eqb_spec v x) as [->|]; [exfalso; apply Hnv; left; reflexivity|]. cbn. f_equal. apply IH.
          intros H. apply Hnv. right. exact H. }
        rewrite E. lia.
      - cbn [lsum]. destruct (in_dec ver_eq_dec k U) as [i|n]; destruct (in_dec ver_eq_dec k (v :: U)) as [i'|n'].
        + lia.
        + exfalso. apply n'. right. exact i.
        + destruct i' as [->|i']; [congruence|contradiction].
        + lia. }
    specialize (G U ND).
    assert (ND' : NoDup (filter (fun v => negb (ver_eqb k v)) U)) by (apply NoDup_filter; exact ND).
    specialize (IH _ ND'). destruct (in_dec ver_eq_dec k U); lia.
Qed.

Lemma wsum_le_lsum g U : wsum g U [] = lsum g U + fold_right (fun v acc => is_some v + acc) 0 U.
Proof. induction U as [|v U IH]; cbn; [reflexivity|]. unfold weight. rewrite IH. lia. Qed.

Lemma somes_le (U : list ver) : fold_right (fun v acc => is_some v + acc) 0 U <= length U.
Proof. induction U as [|[v|] U IH]; cbn [fold_right length is_some]; lia. Qed.

Lemma somes_with_none (U : list ver) : In None U -> S (fold_right (fun v acc => is_some v + acc) 0 U) <= length U.
Proof.
  induction U as [|[v|] U IH]; intros H; [destruct H| |].
  - destruct H as [H|H]; [discriminate|]. specialize (IH H). cbn [fold_right length is_some]. apply le_n_S. exact IH.
  - cbn [fold_right length is_some]. apply le_n_S. apply somes_le.
Qed.

Theorem search_never_runs_out g c m start target :
  search (search_fuel g) g c m start target <> RFuel.
Proof.
  unfold search. set (U := universe g start).
  assert (ND : NoDup U) by apply NoDup_nodup.
  assert (Hstart : In start U) by (apply nodup_In; left; reflexivity).
  assert (Hnone : In None U) by (apply nodup_In; right; left; reflexivity).
  apply (loop_fuel_enough g c m target U ND).
  - intros v e Hv He. apply nodup_In. right. right. eapply lookup_in_targets. exact He.
  - exact Hnone.
  - intros n [<-|[]]. exact Hstart.
  - cbn [length]. rewrite wsum_le_lsum. pose proof (lsum_le g U ND) as H1.
    pose proof (somes_with_none U Hnone) as H2.
    assert (H3 : length U <= 2 + graph_edges g).
    { unfold U, universe. etransitivity; [apply NoDup_incl_length; [apply NoDup_nodup|]|].
      - intros x Hx. apply nodup_In in Hx. exact Hx.
      - cbn [length]. rewrite targets_length. lia. }
    unfold search_fuel. clearbody U. revert H1 H2 H3.
    generalize (lsum g U) (fold_right (fun v acc => is_some v + acc) 0 U) (length U) (graph_edges g) (length g).
    intros a b d e f H1 H2 H3. lia.
Qed.

(* ---- the second (forward) search of ag_search cannot succeed after the first failed ---- *)
Require Import Criteria AuditGraph AuditGraphProofs.

Lemma reach_trans g c m s a b l1 l2 : reach g c m s a l1 -> reach g c m a b l2 -> exists l, reach g c m s b l.
Proof.
  intros H1 H2. induction H2 as [|x y lv l Hr IH Hs]; [eexists; exact H1|].
  destruct IH as [l' IH]. eexists. eapply reach_snoc; [exact IH|exact Hs].
Qed.

Lemma regenerate_search_total_local g c v fuel vis :
  search fuel g c RegenerateExemptions (Some v) None = RErr vis -> False.
Proof.
  intros E. pose proof (search_spec g c RegenerateExemptions (Some v) None fuel) as S.
  rewrite E in S. cbn in S. destruct S as [Hvis Hnt]. apply Hnt. apply Hvis.
  eexists. eapply reach_snoc; [apply reach_nil|]. right. repeat split; eauto.
Qed.

Lemma usable_dir m c fe : usable m c (bwd_of fe) = usable m c (fwd_of fe).
Proof. reflexivity. Qed.

Lemma chain_transpose es c m a b p lv : m <> RegenerateExemptions ->
  chain (forward_graph es) c m a b p lv -> exists l, reach (backward_graph es) c m b a l.
Proof.
  intros Hm H. induction H as [v|a b e p lv Hc IH He Hu|a v p lv Hm' _ _].
  - eexists. apply reach_nil.
  - destruct IH as [l IH]. apply in_forward_graph in He. destruct He as [fe [Hfe [Hfrom ->]]].
    assert (S1 : reach (backward_graph es) c m (e_to (fwd_of fe)) b (N_max CV_None (edge_caveat m (bwd_of fe)))).
    { eapply reach_snoc; [apply reach_nil|]. left. exists (bwd_of fe). split; [|split; [|split]].
      - apply in_backward_graph. exists fe. split; [exact Hfe|split; reflexivity].
      - rewrite usable_dir. exact Hu.
      - cbn. exact Hfrom.
      - reflexivity. }
    eapply reach_trans; [exact S1|exact IH].
  - contradiction.
Qed.

Theorem ag_search_never_runs_out t s ag c v m :
  build t s = inl ag -> ag_search ag c v m <> SFuel.
Proof.
  unfold build. destruct (violation_conflicts t s); [|discriminate]. intros E. inversion E; subst ag; clear E.
  unfold ag_search. cbn [ag_forward ag_backward].
  set (es := all_edges t s).
  destruct (search (search_fuel (backward_graph es)) (backward_graph es) c m (Some v) None) as [p|ft|] eqn:E1.
  - discriminate.
  - destruct (search (search_fuel (forward_graph es)) (forward_graph es) c m None (Some v)) as [p|fr|] eqn:E2.
    + exfalso.
      assert (Hm : m <> RegenerateExemptions).
      { intros ->. eapply regenerate_search_total_local. exact E1. }
      apply search_sound in E2. destruct E2 as [lv Hc].
      destruct (chain_transpose es c m None (Some v) p lv Hm Hc) as [l Hr].
      pose proof (search_spec (backward_graph es) c m (Some v) None (search_fuel (backward_graph es))) as S.
      rewrite E1 in S. cbn in S. destruct S as [Hvis Hnt]. apply Hnt. apply Hvis. exists l. exact Hr.
    + discriminate.
    + exfalso. eapply search_never_runs_out. exact E2.
  - exfalso. eapply search_never_runs_out. exact E1.
Qed.

(* ---- hence the executable side condition of the C02 theorems always holds ---- *)
Require Import DepGraph Resolve ResolveProofs ResolveTheorems.

Lemma resolve_pkg_no_fuel t s p req : outcome_no_fuel (resolve_pkg t s p req) = true.
Proof.
  unfold resolve_pkg. destruct (negb (pk_third_party p)); [reflexivity|].
  destruct (build t (store_for s (pk_name p))) as [ag|cs] eqn:B; [|reflexivity].
  destruct (fold_left _ _ _) as [[ne de] cf].
  unfold outcome_no_fuel. cbn [po_result]. apply forallb_forall. intros x Hx.
  apply in_map_iff in Hx. destruct Hx as [c [<- _]].
  pose proof (ag_search_never_runs_out t _ ag c (pk_version p) PreferExemptions B) as H.
  destruct (ag_search ag c (pk_version p) PreferExemptions); [reflexivity|reflexivity|congruence].
Qed.

Theorem no_fuel_always inp s : no_fuel inp s = true.
Proof.
  unfold no_fuel, resolve. cbn [r_outcomes]. apply forallb_forall. intros o Ho.
  apply in_map_iff in Ho. destruct Ho as [[i p] [<- _]]. apply resolve_pkg_no_fuel.
Qed.
