(* ResolveTheorems.v — the verdict-level theorems behind C01, C02, C12. *)
Require Import Base Extracted Criteria Search AuditGraph DepGraph Resolve.
Require Import SearchProofs AuditGraphProofs ResolveProofs.
Local Open Scope N_scope.

Lemma HmPE : PreferExemptions <> RegenerateExemptions.
Proof. discriminate. Qed.

Section Verdict.
Variables (inp : depgraph_in) (s : store).
Let r := resolve inp s.
Let t := st_criteria s.
Let n := N.of_nat (ct_len t).
Definition required_of (i : nat) : cset := nth i (r_requirements (resolve inp s)) cs_empty.
Definition pkg_at (i : nat) (p : pkg) : Prop := nth_error (g_pkgs (r_graph (resolve inp s))) i = Some p.

Lemma third_party_result i p :
  pkg_at i p -> pk_third_party p = true ->
  exists o, nth_error (r_outcomes r) i = Some o /\ o = resolve_pkg t s p (required_of i) /\
    ((exists cs, po_result o = PViolation cs) \/ (exists rs, po_result o = PSearched rs)).
Proof.
  intros Hp Ht. eexists. split; [apply resolve_outcome; exact Hp|]. split; [reflexivity|].
  fold t. unfold resolve_pkg. rewrite Ht. cbn [negb]. cbv iota.
  destruct (build t (store_for s (pk_name p))); cbv zeta.
  - right. destruct (fold_left _ _ _) as [[ne de] cf]. eexists. reflexivity.
  - left. eexists. reflexivity.
Qed.

(* ---------------- C01 ---------------- *)
Theorem success_sound a b c0 :
  r_conclusion r = Success a b c0 ->
  forall i p, pkg_at i p -> pk_third_party p = true ->
  forall c, c < n -> cs_has c (required_of i) = true ->
    certified t (store_for s (pk_name p)) c (pk_version p).
Proof.
  intros Hc i p Hp Ht c Hlt Hreq.
  destruct (third_party_result i p Hp Ht) as [o [Ho [Eo Hres]]].
  pose proof (conclude_success _ _ _ _ Hc i o Ho) as [Hnv Hf].
  destruct Hres as [[cs Hcs]|[rs Hrs]]; [exfalso; eapply Hnv; eauto|].
  assert (Hs : is_searched o = true) by (unfold is_searched; rewrite Hrs; reflexivity).
  specialize (Hf Hs). rewrite cs_is_empty_spec in Hf.
  subst o. pose proof (resolve_pkg_failures _ _ _ _ _ Hrs c) as Hfail.
  destruct (resolve_pkg_searched _ _ _ _ _ Hrs) as [_ [ag [Hb Hrs']]].
  destruct (nth (N.to_nat c) rs SFuel) as [path|fr ft|] eqn:E.
  - rewrite Hrs' in E. rewrite nth_map_nseq in E by exact Hlt.
    apply (ag_search_ok _ _ _ _ _ _ _ HmPE Hb) in E. exact (proj1 E).
  - exfalso. assert (X : cs_has c (po_failures (resolve_pkg t s p (required_of i))) = true).
    { apply (proj2 Hfail). repeat split; auto. intros path; try rewrite E; discriminate. }
    rewrite Hf in X. discriminate.
  - exfalso. assert (X : cs_has c (po_failures (resolve_pkg t s p (required_of i))) = true).
    { apply (proj2 Hfail). repeat split; auto. intros path; try rewrite E; discriminate. }
    rewrite Hf in X. discriminate.
Qed.

(* ---------------- C02 ---------------- *)
(* the model's fuelled search never ran out of fuel on this input (executable;
   checked for every correspondence case) *)
Definition outcome_no_fuel (o : pkg_outcome) : bool :=
  match po_result o with
  | PSearched rs => forallb (fun x => match x with SFuel => false | _ => true end) rs
  | _ => true
  end.
Definition no_fuel : bool := forallb outcome_no_fuel (r_outcomes (resolve inp s)).

Lemma no_fuel_at i o rs c :
  no_fuel = true -> nth_error (r_outcomes r) i = Some o -> po_result o = PSearched rs ->
  (N.to_nat c < length rs)%nat -> nth (N.to_nat c) rs SFuel <> SFuel.
Proof.
  unfold no_fuel. rewrite forallb_forall. intros H Ho Hrs Hlen E.
  specialize (H o (nth_error_In _ _ Ho)). unfold outcome_no_fuel in H. rewrite Hrs in H.
  rewrite forallb_forall in H. specialize (H _ (nth_In rs SFuel Hlen)). rewrite E in H. discriminate.
Qed.

(* the failure set reported for a package is exactly its required, uncertified criteria *)
Theorem failures_exact fs :
  r_conclusion r = FailForVet fs -> no_fuel = true ->
  forall i cf, In (i, cf) fs ->
    exists p, pkg_at i p /\ pk_third_party p = true /\
      forall c, cs_has c cf = true <->
        (c < n /\ cs_has c (required_of i) = true /\ ~ certified t (store_for s (pk_name p)) c (pk_version p)).
Proof.
  intros Hc Hnf i cf Hin. apply (conclude_failvet _ _ Hc) in Hin.
  destruct Hin as [o [Ho [Hs [-> Hne]]]].
  destruct (outcome_pkg inp s i o Ho) as [p [Hp Eo]]. exists p. split; [exact Hp|].
  unfold is_searched in Hs. destruct (po_result o) as [|cs|rs] eqn:Hrs; try discriminate.
  rewrite Eo in Hrs. destruct (resolve_pkg_searched _ _ _ _ _ Hrs) as [Ht [ag [Hb Hrs']]].
  split; [exact Ht|]. intros c. rewrite Eo. rewrite (resolve_pkg_failures _ _ _ _ _ Hrs c).
  fold t n. unfold required_of. split.
  - intros [H1 [H2 H3]]. repeat split; auto. intros Hcert.
    assert (Hl : (N.to_nat c < length rs)%nat).
    { rewrite Hrs', map_length, nseq_length. unfold n, t in *. lia. }
    destruct (nth (N.to_nat c) rs SFuel) as [path|fr ft|] eqn:E.
    + eapply H3; reflexivity.
    + rewrite Hrs' in E. rewrite nth_map_nseq in E by exact H1.
      eapply (ag_search_err t); [exact HmPE | exact Hb | exact E | exact Hcert].
    + eapply (no_fuel_at i o rs c Hnf Ho); [rewrite Eo; exact Hrs|exact Hl|exact E].
  - intros [H1 [H2 H3]]. repeat split; auto. intros path E. apply H3.
    rewrite Hrs' in E. rewrite nth_map_nseq in E by exact H1.
    apply (ag_search_ok _ _ _ _ _ _ _ HmPE Hb) in E. exact (proj1 E).
Qed.

(* every third-party package with a required, uncertified criterion is reported *)
Theorem failures_complete fs :
  r_conclusion r = FailForVet fs ->
  forall i p c, pkg_at i p -> pk_third_party p = true -> c < n -> cs_has c (required_of i) = true ->
    ~ certified t (store_for s (pk_name p)) c (pk_version p) ->
    exists cf, In (i, cf) fs /\ cs_has c cf = true.
Proof.
  intros Hc i p c Hp Ht Hlt Hreq Hnc.
  destruct (third_party_result i p Hp Ht) as [o [Ho [Eo Hres]]].
  destruct Hres as [[cs Hcs]|[rs Hrs]].
  - (* a violation conflict would have made the conclusion FailForViolationConflict *)
    exfalso. unfold r, resolve in Hc. cbn [r_conclusion] in Hc. unfold conclude in Hc.
    match type of Hc with context [match ?V with [] => _ | _ :: _ => _ end] => destruct V eqn:EV end; [|discriminate].
    assert (X : In (i, cs) (flat_map (fun '(i, o) => match po_result o with PViolation cs => [(i, cs)] | _ => [] end)
                   (enumerate (r_outcomes r)))).
    { apply in_flat_map. exists (i, o). split.
      - apply (in_enumerate o). split; [apply nth_error_Some; congruence|apply nth_error_nth; exact Ho].
      - rewrite Hcs. left. reflexivity. }
    unfold r, resolve in X. cbn [r_outcomes] in X. rewrite EV in X. destruct X.
  - exists (po_failures o).
    assert (Hcf : cs_has c (po_failures o) = true).
    { subst o. rewrite (resolve_pkg_failures _ _ _ _ _ Hrs c). repeat split; auto.
      intros path E. apply Hnc. destruct (resolve_pkg_searched _ _ _ _ _ Hrs) as [_ [ag [Hb Hrs']]].
      rewrite Hrs' in E. rewrite nth_map_nseq in E by exact Hlt.
      apply (ag_search_ok _ _ _ _ _ _ _ HmPE Hb) in E. exact (proj1 E). }
    split; [|exact Hcf]. apply (conclude_failvet _ _ Hc). exists o. repeat split; auto.
    + unfold is_searched. rewrite Hrs. reflexivity.
    + destruct (cs_is_empty (po_failures o)) eqn:E; [|reflexivity].
      rewrite cs_is_empty_spec in E. rewrite E in Hcf. discriminate.
Qed.

(* no false failure: when every required pair is certified and no audit graph
   has a violation conflict, the conclusion is Success *)
Theorem success_complete :
  no_fuel = true ->
  (forall i p, pkg_at i p -> pk_third_party p = true ->
     violation_conflicts t (store_for s (pk_name p)) = [] /\
     forall c, c < n -> cs_has c (required_of i) = true -> certified t (store_for s (pk_name p)) c (pk_version p)) ->
  exists a b c0, r_conclusion r = Success a b c0.
Proof.
  intros Hnf H. destruct (r_conclusion r) as [a b c0|vs|fs] eqn:Hc; [eauto| |]; exfalso.
  - (* violation conflict *)
    destruct (conclude_violation _ _ Hc) as [i [cs [o [Ho Hres]]]].
    destruct (outcome_pkg inp s i o Ho) as [p [Hp Eo]].
    rewrite Eo in Hres. unfold resolve_pkg in Hres.
    destruct (pk_third_party p) eqn:Ht; cbn [negb] in Hres; cbv iota in Hres; [|cbn [po_result] in Hres; discriminate].
    destruct (H i p Hp Ht) as [Hv _]. fold t in Hres. unfold build in Hres. rewrite Hv in Hres.
    cbv zeta in Hres. destruct (fold_left _ _ _) as [[ne de] cf] in Hres. cbn [po_result] in Hres. discriminate.
  - destruct (conclude_failvet_nonempty _ _ Hc) as [i [cf Hin]].
    destruct (failures_exact _ Hc Hnf i cf Hin) as [p [Hp [Ht Hcf]]].
    apply (conclude_failvet _ _ Hc) in Hin. destruct Hin as [o [_ [_ [_ Hne]]]].
    destruct (cs_nonempty_has _ Hne) as [c Hcc].
    apply Hcf in Hcc. destruct Hcc as [H1 [H2 H3]]. apply H3. apply (proj2 (H i p Hp Ht)); auto.
Qed.

(* ---------------- C12 ---------------- *)
(* paths and their levels *)
Lemma chain_exemption_level g c x y p lv k :
  chain g c PreferExemptions x y p lv -> In (OExemption k) p -> CV_PreferredExemption <= lv.
Proof.
  intros H. induction H as [v|a b e p lv Hc IH He Hu|a v p lv Hm Hc IH]; intros Hin.
  - destruct Hin.
  - apply in_app_iff in Hin. destruct Hin as [Hin|[Hin|[]]].
    + specialize (IH Hin). pose proof (N_max_le_l lv (edge_caveat PreferExemptions e)). lia.
    + unfold edge_caveat. rewrite Hin. cbn [mode_eqb]. apply N_max_le_r.
  - discriminate.
Qed.

Definition fully_vetted (i : nat) : Prop :=
  exists a b c0, r_conclusion r = Success a b c0 /\ In i c0.

Theorem fully_only_if i :
  fully_vetted i ->
  exists p, pkg_at i p /\ pk_third_party p = true /\
    forall c, c < n -> cs_has c (required_of i) = true ->
      fpath_avoiding is_exemption t (store_for s (pk_name p)) c None (Some (pk_version p)).
Proof.
  intros [a [b [c0 [Hc Hin]]]].
  assert (Hc' := Hc). unfold r, resolve in Hc. cbn [r_conclusion] in Hc. unfold conclude in Hc.
  match type of Hc with context [match ?V with [] => _ | _ :: _ => _ end] => destruct V eqn:EV end; [|discriminate].
  match type of Hc with context [match ?V with [] => _ | _ :: _ => _ end] => destruct V eqn:EF end; [|discriminate].
  inversion Hc; subst c0. clear Hc. apply in_sel_iff in Hin. destruct Hin as [o [Ho [Hs Hne]]].
  apply negb_true_iff in Hne.
  destruct (outcome_pkg inp s i o Ho) as [p [Hp Eo]]. exists p. split; [exact Hp|].
  unfold is_searched in Hs. destruct (po_result o) as [|cs|rs] eqn:Hrs; try discriminate.
  rewrite Eo in Hrs. destruct (resolve_pkg_searched _ _ _ _ _ Hrs) as [Ht [ag [Hb Hrs']]].
  split; [exact Ht|]. intros c Hlt Hreq.
  pose proof (conclude_success _ _ _ _ Hc' i o) as CS. cbn [r_outcomes] in CS.
  destruct (CS Ho) as [_ Hf]. rewrite Eo in Hf. unfold is_searched in Hf. rewrite Hrs in Hf. specialize (Hf eq_refl).
  rewrite cs_is_empty_spec in Hf.
  destruct (nth (N.to_nat c) rs SFuel) as [path|fr ft|] eqn:E.
  - assert (Hnoex : existsb is_exemption path = false).
    { destruct (existsb is_exemption path) eqn:Ex; [|reflexivity]. exfalso.
      rewrite Eo in Hne. rewrite (proj2 (resolve_pkg_needed _ _ _ _ _ Hrs)) in Hne; [discriminate|].
      exists c, path. repeat split; auto. }
    rewrite Hrs' in E. rewrite nth_map_nseq in E by exact Hlt.
    apply (ag_search_ok _ _ _ _ _ _ _ HmPE Hb) in E. apply (proj2 E).
    clear - Hnoex. induction path as [|o path IH]; cbn in *; [reflexivity|].
    apply orb_false_elim in Hnoex. destruct Hnoex as [H1 H2]. rewrite H1, (IH H2). reflexivity.
  - exfalso. pose proof (proj2 (resolve_pkg_failures _ _ _ _ _ Hrs c)) as X.
    rewrite Hf in X. assert (false = true); [|discriminate].
    apply X. repeat split; auto. intros path; try rewrite E; discriminate.
  - exfalso. pose proof (proj2 (resolve_pkg_failures _ _ _ _ _ Hrs c)) as X.
    rewrite Hf in X. assert (false = true); [|discriminate].
    apply X. repeat split; auto. intros path; try rewrite E; discriminate.
Qed.

(* if every required criterion has a chain at level <= NonImportableAudit (stored,
   non-fresh audits and grants only), the package is reported fully audited *)
Theorem fully_if a b c0 i p :
  r_conclusion r = Success a b c0 -> pkg_at i p -> pk_third_party p = true ->
  (forall c, c < n -> cs_has c (required_of i) = true ->
     exists lv, reach (backward_graph (all_edges t (store_for s (pk_name p)))) c PreferExemptions
                      (Some (pk_version p)) None lv /\ lv <= CV_NonImportableAudit) ->
  In i c0.
Proof.
  intros Hc Hp Ht H.
  assert (Hc' := Hc). unfold r, resolve in Hc. cbn [r_conclusion] in Hc. unfold conclude in Hc.
  match type of Hc with context [match ?V with [] => _ | _ :: _ => _ end] => destruct V eqn:EV end; [|discriminate].
  match type of Hc with context [match ?V with [] => _ | _ :: _ => _ end] => destruct V eqn:EF end; [|discriminate].
  inversion Hc; subst. clear Hc.
  destruct (third_party_result i p Hp Ht) as [o [Ho [Eo Hres]]].
  pose proof (conclude_success _ _ _ _ Hc' i o Ho) as [Hnv _].
  destruct Hres as [[cs Hcs]|[rs Hrs]]; [exfalso; eapply Hnv; eauto|].
  apply in_sel_iff. exists o. split; [exact Ho|]. split; [unfold is_searched; rewrite Hrs; reflexivity|].
  apply negb_true_iff. destruct (po_needed_exemptions o) eqn:Hne; [exfalso|reflexivity].
  subst o. apply (resolve_pkg_needed _ _ _ _ _ Hrs) in Hne. destruct Hne as [c [path [Hlt [Hreq [E Hex]]]]].
  destruct (resolve_pkg_searched _ _ _ _ _ Hrs) as [_ [ag [Hb Hrs']]].
  rewrite Hrs' in E. rewrite nth_map_nseq in E by exact Hlt.
  apply (ag_search_minimax _ _ _ _ _ _ _ Hb) in E. destruct E as [lv [Hch Hmin]].
  destruct (H c Hlt Hreq) as [lv' [Hr Hle]]. specialize (Hmin lv' Hr).
  apply existsb_exists in Hex. destruct Hex as [o [Hin Ho']]. destruct o; try discriminate.
  pose proof (chain_exemption_level _ _ _ _ _ _ _ Hch Hin) as Hlv.
  unfold CV_PreferredExemption, CV_NonImportableAudit in *. lia.
Qed.

End Verdict.
