Require Import Base Extracted Lock.

(* the action lists read from the source are the ones this development reasons about *)
Definition writer_lit : list act := [ALock; ARead 0; ARead 1; ARead 2; AWrite 1; AWrite 0; AWrite 2; AUnlock].
Definition reader_lit : list act := [ALock; ARead 0; ARead 1; ARead 2; AUnlock].
Lemma writer_prog_is : writer_prog = writer_lit. Proof. reflexivity. Qed.
Lemma reader_prog_is : reader_prog = reader_lit. Proof. reflexivity. Qed.
Lemma store_lock_exclusive : STORE_LOCK_EXCLUSIVE = true. Proof. reflexivity. Qed.

Lemma updf_same {A} (m : nat -> A) k v : updf m k v k = v.
Proof. unfold updf. rewrite Nat.eqb_refl. reflexivity. Qed.
Lemma updf_other {A} (m : nat -> A) k v x : x <> k -> updf m k v x = m x.
Proof. unfold updf. intros H. destruct (Nat.eqb_spec x k); [congruence|reflexivity]. Qed.

Section Inv.
Variable role : nat -> bool.

Definition len (p : nat) : nat := length (prog_of role p).
Definition outside (s : st) (p : nat) : Prop := pos (procs s p) = 0 \/ pos (procs s p) = len p.

(* position bookkeeping: which reads / writes a process at position n has done *)
Definition read_done (n f : nat) : bool := Nat.leb (f + 2) n.
Definition wrote (w : bool) (n f : nat) : bool :=
  w && match f with 1 => Nat.leb 5 n | 0 => Nat.leb 6 n | 2 => Nat.leb 7 n | _ => false end.

(* the process holding the lock, relative to the content [base] it found *)
Definition inside_ok (s : st) (p : nat) (base : list nat) : Prop :=
  let n := pos (procs s p) in
  0 < n < len p /\
  (forall f, f < 3 -> files s f = if wrote (role p) n f then base ++ [p] else base) /\
  (forall f, f < 3 -> read_done n f = true -> snap (procs s p) f = base).

Record inv (s : st) : Prop := {
  inv_free : holder s = None -> (forall p, outside s p) /\ (forall f, f < 3 -> files s f = log s);
  inv_held : forall h, holder s = Some h -> inside_ok s h (log s) /\ (forall q, q <> h -> outside s q)
}.

Lemma inv_init content : inv (init content).
Proof.
  constructor; cbn.
  - intros _. split; [intros p; left; reflexivity|reflexivity].
  - intros h H. discriminate.
Qed.

Ltac f3 f := destruct f as [|[|[|f]]]; try lia.

(* the state after a step of the holder h: still inside, everybody else untouched *)
Ltac close_eq Hfiles Hsnap :=
  first [ apply Hfiles; lia
        | apply Hsnap; [lia|reflexivity]
        | f_equal; apply Hsnap; [lia|reflexivity]
        | reflexivity ].

Ltac holder_moves h R Hfiles Hsnap Hout :=
  let h' := fresh "h'" in let Hh' := fresh "Hh'" in
  intros h' Hh'; inversion Hh'; subst h'; split;
  [ unfold inside_ok; cbn [procs files pos snap]; rewrite !updf_same; cbn [pos snap];
    split; [unfold len, prog_of; rewrite R; cbn; lia|]; rewrite R; split;
    [ let f := fresh "f" in let Hf := fresh "Hf" in
      intros f Hf; f3 f; cbn [wrote andb Nat.leb];
      rewrite ?updf_same; rewrite ?updf_other by lia; close_eq Hfiles Hsnap
    | let f := fresh "f" in let Hf := fresh "Hf" in let Hr := fresh "Hr" in
      intros f Hf Hr; f3 f; cbn in Hr; try discriminate Hr;
      rewrite ?updf_same; rewrite ?updf_other by lia; close_eq Hfiles Hsnap ]
  | let q := fresh "q" in let Hq := fresh "Hq" in
    intros q Hq; unfold outside; cbn [procs]; rewrite updf_other by exact Hq; apply Hout; exact Hq ].

Ltac holder_unlocks h R Hfiles Hout :=
  intros _; split;
  [ let q := fresh "q" in intros q; unfold outside; cbn [procs];
    let Hq := fresh "Hq" in destruct (Nat.eq_dec q h) as [->|Hq];
    [ rewrite updf_same; cbn [pos]; right; unfold len, prog_of; rewrite R; reflexivity
    | rewrite updf_other by exact Hq; apply Hout; exact Hq ]
  | let f := fresh "f" in let Hf := fresh "Hf" in
    intros f Hf; rewrite (Hfiles f Hf); f3 f; reflexivity ].

Lemma step_inv s p : inv s -> inv (step role s p).
Proof.
  intros [Ifree Iheld]. unfold step. cbv zeta.
  destruct (nth_error (prog_of role p) (pos (procs s p))) as [a|] eqn:E; [|constructor; assumption].
  assert (Hlt : pos (procs s p) < len p) by (apply nth_error_Some; unfold len; congruence).
  destruct (holder s) as [h|] eqn:H.
  - (* the lock is held by h *)
    destruct (Iheld h eq_refl) as [[Hpos [Hfiles Hsnap]] Hout].
    destruct (Nat.eq_dec p h) as [->|Hne].
    + (* the holder moves *)
      unfold prog_of, len, prog_of in *. remember (pos (procs s h)) as n eqn:En.
      rewrite writer_prog_is, reader_prog_is in *. destruct (role h) eqn:R; cbn [length writer_lit reader_lit] in *.
      * (* writer *)
        assert (Hn : n = 1 \/ n = 2 \/ n = 3 \/ n = 4 \/ n = 5 \/ n = 6 \/ n = 7) by lia.
        destruct Hn as [->|[->|[->|[->|[->|[->| ->]]]]]]; cbn in E; inversion E; subst a; clear E;
          rewrite <- ?En; constructor; cbn [holder files procs log]; try (intros Hn; discriminate Hn).
        -- holder_moves h R Hfiles Hsnap Hout.
        -- holder_moves h R Hfiles Hsnap Hout.
        -- holder_moves h R Hfiles Hsnap Hout.
        -- holder_moves h R Hfiles Hsnap Hout.
        -- holder_moves h R Hfiles Hsnap Hout.
        -- holder_moves h R Hfiles Hsnap Hout.
        -- holder_unlocks h R Hfiles Hout.
        -- intros h' Hh'. discriminate Hh'.
      * (* reader *)
        assert (Hn : n = 1 \/ n = 2 \/ n = 3 \/ n = 4) by lia.
        destruct Hn as [->|[->|[->| ->]]]; cbn in E; inversion E; subst a; clear E;
          rewrite <- ?En; constructor; cbn [holder files procs log]; try (intros Hn; discriminate Hn).
        -- holder_moves h R Hfiles Hsnap Hout.
        -- holder_moves h R Hfiles Hsnap Hout.
        -- holder_moves h R Hfiles Hsnap Hout.
        -- holder_unlocks h R Hfiles Hout.
        -- intros h' Hh'. discriminate Hh'.
    + (* someone else: it is outside, i.e. at its ALock (blocked) *)
      destruct (Hout p Hne) as [Hz|Hend]; [|lia].
      rewrite Hz in E. unfold prog_of in E. destruct (role p); cbn in E; inversion E; subst a.
      * rewrite store_lock_exclusive. constructor; [intros Hn; rewrite H in Hn; discriminate|intros h0 Hh0; rewrite H in Hh0; apply Iheld; exact Hh0].
      * rewrite store_lock_exclusive. constructor; [intros Hn; rewrite H in Hn; discriminate|intros h0 Hh0; rewrite H in Hh0; apply Iheld; exact Hh0].
  - (* the lock is free: everybody is outside; only a process at position 0 can move, by locking *)
    destruct (Ifree eq_refl) as [Hall Hfiles].
    destruct (Hall p) as [Hz|Hend]; [|lia].
    rewrite Hz in E. assert (a = ALock) by (unfold prog_of in E; destruct (role p); cbn in E; inversion E; reflexivity). subst a.
    constructor; cbn [holder files procs log].
    + intros Hn. discriminate.
    + intros h' Hh'. inversion Hh'; subst h'. split.
      * unfold inside_ok. cbn [procs files pos snap]. rewrite updf_same. cbn [pos snap]. rewrite Hz. split.
        -- unfold len, prog_of. destruct (role p); cbn; lia.
        -- split.
           ++ intros f Hf. rewrite (Hfiles f Hf). unfold wrote. f3 f; cbn; rewrite ?andb_false_r; reflexivity.
           ++ intros f Hf Hr. f3 f; cbn in Hr; discriminate.
      * intros q Hq. unfold outside. cbn [procs]. rewrite updf_other by exact Hq. apply Hall.
Qed.

Theorem run_inv sched s : inv s -> inv (run role sched s).
Proof. revert s; induction sched as [|p sched IH]; intros s I; cbn; [exact I|]. apply IH. apply step_inv. exact I. Qed.

(* ---- the theorems ---- *)

(* mutual exclusion: whenever the lock is held, every other process is outside its
   critical section (has not started, or has finished) *)
Theorem mutex sched content h q :
  holder (run role sched (init content)) = Some h -> q <> h -> outside (run role sched (init content)) q.
Proof. intros H Hq. destruct (run_inv sched _ (inv_init content)) as [_ I]. exact (proj2 (I h H) q Hq). Qed.

(* no torn read: the three reads of a process all return one and the same content —
   the triple a single committer left (or the initial one) *)
Theorem no_torn_read sched content h :
  let s := run role sched (init content) in
  holder s = Some h -> 4 <= pos (procs s h) ->
  snap (procs s h) 0 = log s /\ snap (procs s h) 1 = log s /\ snap (procs s h) 2 = log s.
Proof.
  intros s H Hp. destruct (run_inv sched _ (inv_init content)) as [_ I].
  destruct (I h H) as [[_ [_ Hs]] _]. fold s in Hs.
  repeat split; apply Hs; try lia; unfold read_done; apply Nat.leb_le; lia.
Qed.

(* and when nobody is inside, the three files agree (= the ghost log) *)
Theorem quiescent_files_agree sched content f :
  let s := run role sched (init content) in
  holder s = None -> f < 3 -> files s f = log s.
Proof. intros s H Hf. destruct (run_inv sched _ (inv_init content)) as [I _]. exact (proj2 (I H) f Hf). Qed.

(* ---- no lost update ---- *)
Definition done_in_log (s : st) : Prop :=
  forall p, role p = true -> pos (procs s p) = len p -> In p (log s).

Lemma step_log_grows s p x : In x (log s) -> In x (log (step role s p)).
Proof.
  intros H. unfold step. cbv zeta. destruct (nth_error _ _) as [[| f | f |]|]; cbn [log]; try exact H.
  - destruct (holder s); exact H.
  - destruct (role p); [apply in_app_iff; left; exact H|exact H].
Qed.

Lemma step_done s p : done_in_log s -> done_in_log (step role s p).
Proof.
  intros D q Rq Hq. destruct (Nat.eq_dec q p) as [->|Hne].
  - (* the stepping process itself *)
    unfold step in *. cbv zeta in *.
    destruct (nth_error (prog_of role p) (pos (procs s p))) as [a|] eqn:E; [|apply D; assumption].
    assert (Hlt : pos (procs s p) < len p) by (apply nth_error_Some; unfold len; congruence).
    destruct a as [| f | f |].
    + destruct (holder s); [apply D; assumption|]. cbn [procs log] in *. rewrite updf_same in Hq. cbn [pos] in Hq.
      unfold len, prog_of in *. rewrite Rq in *. cbn in *.
      assert (pos (procs s p) = 7) by lia. rewrite H in E. cbn in E. discriminate.
    + cbn [procs log] in *. rewrite updf_same in Hq. cbn [pos] in Hq. unfold len, prog_of in *. rewrite Rq in *. cbn in *.
      assert (pos (procs s p) = 7) by lia. rewrite H in E. cbn in E. discriminate.
    + cbn [procs log] in *. rewrite updf_same in Hq. cbn [pos] in Hq. unfold len, prog_of in *. rewrite Rq in *. cbn in *.
      assert (pos (procs s p) = 7) by lia. rewrite H in E. cbn in E. discriminate.
    + cbn [log]. rewrite Rq. apply in_app_iff. right. left. reflexivity.
  - (* another process: its position is untouched, the log only grows *)
    apply step_log_grows. apply D; [exact Rq|].
    unfold step in Hq. cbv zeta in Hq. destruct (nth_error _ _) as [[| f | f |]|] in Hq; cbn [procs] in Hq;
      try (rewrite updf_other in Hq by exact Hne); try exact Hq.
    destruct (holder s); cbn [procs] in Hq; try (rewrite updf_other in Hq by exact Hne); exact Hq.
Qed.

Theorem run_done sched s : done_in_log s -> done_in_log (run role sched s).
Proof. revert s; induction sched as [|p sched IH]; intros s D; cbn; [exact D|]. apply IH. apply step_done. exact D. Qed.

(* no lost update: whenever the lock is free, each of the three files contains the
   marker of every committing invocation that has finished (reported success), for
   every number of processes, every interleaving and every think time *)
Theorem no_lost_update sched content p f :
  let s := run role sched (init content) in
  holder s = None -> role p = true -> pos (procs s p) = len p -> f < 3 -> In p (files s f).
Proof.
  intros s H R Hp Hf. unfold s in *. rewrite (quiescent_files_agree sched content f H Hf).
  apply (run_done sched (init content)); [|exact R|exact Hp].
  intros q Rq Hq. cbn in Hq. unfold len, prog_of in Hq. rewrite Rq in Hq. cbn in Hq. discriminate.
Qed.

(* ... and nothing else: the content is the initial content followed by the committing
   invocations that have finished, each exactly once, in the order they released the lock;
   no reader, no unfinished writer and no invocation twice *)
Definition log_exact (content : list nat) (s : st) : Prop :=
  exists l, log s = content ++ l /\ NoDup l /\
            (forall p, In p l <-> (role p = true /\ pos (procs s p) = len p)).

Lemma NoDup_snoc (l : list nat) (p : nat) : NoDup l -> ~ In p l -> NoDup (l ++ [p]).
Proof.
  induction l as [|x l IH]; cbn; intros Hnd Hni; [constructor; [intros []|constructor]|].
  inversion Hnd as [|? ? Hx Hl]; subst. constructor.
  - rewrite in_app_iff. cbn. intros [H|[H|[]]]; [tauto|]. apply Hni. left. symmetry. exact H.
  - apply IH; [exact Hl|]. intros H. apply Hni. right. exact H.
Qed.

Lemma unlock_iff_last p n : nth_error (prog_of role p) n = Some AUnlock <-> S n = len p.
Proof.
  unfold len, prog_of. destruct (role p).
  - rewrite writer_prog_is. unfold writer_lit.
    do 8 (destruct n as [|n]; [cbn; split; intros E; try discriminate E; try reflexivity; try lia|]).
    cbn. split; intros E; [destruct n; discriminate E|lia].
  - rewrite reader_prog_is. unfold reader_lit.
    do 5 (destruct n as [|n]; [cbn; split; intros E; try discriminate E; try reflexivity; try lia|]).
    cbn. split; intros E; [destruct n; discriminate E|lia].
Qed.

Lemma step_pos_other s p q : q <> p -> pos (procs (step role s p) q) = pos (procs s q).
Proof.
  intros Hne. unfold step. cbv zeta. destruct (nth_error _ _) as [[| f | f |]|]; cbn [procs];
    try (rewrite updf_other by exact Hne); try reflexivity.
  destruct (holder s); [destruct STORE_LOCK_EXCLUSIVE|]; cbn [procs]; try (rewrite updf_other by exact Hne); reflexivity.
Qed.

Lemma step_finished_stutters s p : pos (procs s p) = len p -> step role s p = s.
Proof.
  intros H. unfold step. cbv zeta.
  assert (E : nth_error (prog_of role p) (pos (procs s p)) = None) by (apply nth_error_None; unfold len in H; lia).
  rewrite E. reflexivity.
Qed.

(* the position of the stepping process: unchanged or one further *)
Lemma step_pos_self s p :
  pos (procs (step role s p) p) = pos (procs s p) \/
  (pos (procs (step role s p) p) = S (pos (procs s p)) /\
   exists a, nth_error (prog_of role p) (pos (procs s p)) = Some a /\
             log (step role s p) = match a with AUnlock => if role p then log s ++ [p] else log s | _ => log s end).
Proof.
  unfold step. cbv zeta. destruct (nth_error (prog_of role p) (pos (procs s p))) as [a|] eqn:E; [|left; reflexivity].
  destruct a as [| f | f |].
  - destruct (holder s); [destruct STORE_LOCK_EXCLUSIVE; [left; reflexivity|]|];
      right; cbn [procs log]; rewrite updf_same; cbn [pos]; (split; [reflexivity|eexists; split; [reflexivity|reflexivity]]).
  - right; cbn [procs log]; rewrite updf_same; cbn [pos]; (split; [reflexivity|eexists; split; [reflexivity|reflexivity]]).
  - right; cbn [procs log]; rewrite updf_same; cbn [pos]; (split; [reflexivity|eexists; split; [reflexivity|reflexivity]]).
  - right; cbn [procs log]; rewrite updf_same; cbn [pos]; (split; [reflexivity|eexists; split; [reflexivity|reflexivity]]).
Qed.

Lemma step_log_same s p :
  (nth_error (prog_of role p) (pos (procs s p)) = Some AUnlock /\ role p = true /\ log (step role s p) = log s ++ [p]) \/
  ((nth_error (prog_of role p) (pos (procs s p)) <> Some AUnlock \/ role p = false) /\ log (step role s p) = log s).
Proof.
  unfold step. cbv zeta. destruct (nth_error (prog_of role p) (pos (procs s p))) as [a|] eqn:E.
  - destruct a as [| f | f |].
    + right. split; [left; discriminate|]. destruct (holder s); [destruct STORE_LOCK_EXCLUSIVE|]; reflexivity.
    + right. split; [left; discriminate|reflexivity].
    + right. split; [left; discriminate|reflexivity].
    + cbn [log]. destruct (role p) eqn:R; [left; auto|right; auto].
  - right. split; [left; discriminate|reflexivity].
Qed.

Lemma step_log_exact content s p : log_exact content s -> log_exact content (step role s p).
Proof.
  intros (l & Hl & Hnd & Hin).
  destruct (Nat.eq_dec (pos (procs s p)) (len p)) as [Hfin|Hnf].
  { rewrite (step_finished_stutters s p Hfin). exists l. auto. }
  assert (Hnotin : ~ In p l) by (intros Hp; apply Hin in Hp; tauto).
  destruct (step_log_same s p) as [(E & R & HL)|(E & HL)].
  - (* a committing invocation releases the lock: it is finished now and enters the list *)
    exists (l ++ [p]). split; [rewrite HL, Hl, app_assoc; reflexivity|]. split; [apply NoDup_snoc; assumption|].
    intros q. rewrite in_app_iff. destruct (Nat.eq_dec q p) as [->|Hne].
    + split; [intros _|intros _; right; left; reflexivity]. split; [exact R|].
      destruct (step_pos_self s p) as [Hs|(Hs & _)].
      * exfalso. apply unlock_iff_last in E.
        (* an unlock step always advances *)
        unfold step in Hs. cbv zeta in Hs. apply unlock_iff_last in E. rewrite E in Hs. cbn [procs] in Hs.
        rewrite updf_same in Hs. cbn [pos] in Hs. lia.
      * rewrite Hs. apply unlock_iff_last. exact E.
    + rewrite step_pos_other by exact Hne. rewrite Hin. split; [intros [H|[H|[]]]; [exact H|congruence]|intros H; left; exact H].
  - (* any other step: nobody finishes as a committer *)
    exists l. split; [rewrite HL; exact Hl|]. split; [exact Hnd|].
    intros q. destruct (Nat.eq_dec q p) as [->|Hne]; [|rewrite step_pos_other by exact Hne; apply Hin].
    split; [intros H; tauto|]. intros [R Hq]. exfalso.
    destruct (step_pos_self s p) as [Hs|(Hs & _)]; [rewrite Hs in Hq; tauto|].
    rewrite Hs in Hq. apply unlock_iff_last in Hq. destruct E as [E|E]; congruence.
Qed.

Theorem run_log_exact content sched s : log_exact content s -> log_exact content (run role sched s).
Proof. revert s; induction sched as [|p sched IH]; intros s D; cbn; [exact D|]. apply IH. apply step_log_exact. exact D. Qed.

(* the files contain exactly the commits: whenever the lock is free, each file is the initial
   content followed by a duplicate-free list whose members are precisely the committing
   invocations that have finished *)
Theorem files_are_exactly_the_commits sched content f :
  let s := run role sched (init content) in
  holder s = None -> f < 3 ->
  exists l, files s f = content ++ l /\ NoDup l /\
            (forall p, In p l <-> (role p = true /\ pos (procs s p) = len p)).
Proof.
  intros s H Hf. unfold s in *.
  destruct (run_log_exact content sched (init content)) as (l & Hl & Hnd & Hin).
  { exists []. cbn. rewrite app_nil_r. split; [reflexivity|]. split; [constructor|]. intros p. split; [intros []|].
    intros [R Hp]. unfold len, prog_of in Hp. rewrite R in Hp. cbn in Hp. discriminate. }
  exists l. rewrite (quiescent_files_agree sched content f H Hf). auto.
Qed.

(* ---- every invocation saw a state of the serial history ---- *)
(* what a process has read of file f is a prefix of the serial history: the log as it stood
   when the process held the lock; later commits only append *)
Definition reads_serial (s : st) : Prop :=
  forall q f, f < 3 -> read_done (pos (procs s q)) f = true -> exists t, log s = snap (procs s q) f ++ t.

Lemma step_procs_other s p q : q <> p -> procs (step role s p) q = procs s q.
Proof.
  intros Hne. unfold step. cbv zeta. destruct (nth_error _ _) as [[| f | f |]|]; cbn [procs];
    try (rewrite updf_other by exact Hne); try reflexivity.
  destruct (holder s); [destruct STORE_LOCK_EXCLUSIVE|]; cbn [procs]; try (rewrite updf_other by exact Hne); reflexivity.
Qed.

Lemma step_log_appends s p : exists t, log (step role s p) = log s ++ t.
Proof.
  destruct (step_log_same s p) as [(_ & _ & H)|(_ & H)]; rewrite H; [exists [p]; reflexivity|exists []; rewrite app_nil_r; reflexivity].
Qed.

(* where the reads stand in both programs *)
Lemma read_position p n f : nth_error (prog_of role p) n = Some (ARead f) -> n = S f /\ f < 3.
Proof.
  unfold prog_of. destruct (role p).
  - rewrite writer_prog_is. unfold writer_lit.
    do 8 (destruct n as [|n]; [cbn; intros E; try discriminate E; inversion E; subst; lia|]).
    cbn. intros E; destruct n; discriminate E.
  - rewrite reader_prog_is. unfold reader_lit.
    do 5 (destruct n as [|n]; [cbn; intros E; try discriminate E; inversion E; subst; lia|]).
    cbn. intros E; destruct n; discriminate E.
Qed.

Lemma nonread_position p n a : nth_error (prog_of role p) n = Some a -> (forall f, a <> ARead f) -> n = 0 \/ 4 <= n.
Proof.
  unfold prog_of. destruct (role p).
  - rewrite writer_prog_is. unfold writer_lit.
    do 4 (destruct n as [|n]; [cbn; intros E Hn; inversion E; subst; try (left; reflexivity); exfalso; eapply Hn; reflexivity|]).
    intros _ _. right. lia.
  - rewrite reader_prog_is. unfold reader_lit.
    do 4 (destruct n as [|n]; [cbn; intros E Hn; inversion E; subst; try (left; reflexivity); exfalso; eapply Hn; reflexivity|]).
    intros _ _. right. lia.
Qed.

Lemma reader_is_holder s p f : inv s -> nth_error (prog_of role p) (pos (procs s p)) = Some (ARead f) -> files s f = log s.
Proof.
  intros [Ifree Iheld] E. destruct (read_position _ _ _ E) as [Hn Hf].
  assert (Hlt : pos (procs s p) < len p) by (apply nth_error_Some; unfold len; congruence).
  assert (Hnot : ~ outside s p) by (unfold outside; lia).
  destruct (holder s) as [h|] eqn:Hh.
  - destruct (Iheld h eq_refl) as [Hin Hout]. destruct (Nat.eq_dec p h) as [->|Hne]; [|exfalso; apply Hnot; apply Hout; exact Hne].
    destruct Hin as (_ & Hfiles & _). rewrite (Hfiles f Hf). rewrite Hn.
    assert (W : wrote (role h) (S f) f = false).
    { unfold wrote. destruct (role h); [|reflexivity]. cbn [andb]. f3 f; reflexivity. }
    rewrite W. reflexivity.
  - exfalso. apply Hnot. apply (proj1 (Ifree eq_refl)).
Qed.

Lemma step_self_shape s p :
  step role s p = s \/
  exists a, nth_error (prog_of role p) (pos (procs s p)) = Some a /\
            pos (procs (step role s p) p) = S (pos (procs s p)) /\
            snap (procs (step role s p) p) =
              match a with ARead f0 => updf (snap (procs s p)) f0 (files s f0) | _ => snap (procs s p) end.
Proof.
  unfold step. cbv zeta. destruct (nth_error (prog_of role p) (pos (procs s p))) as [a|] eqn:E; [|left; reflexivity].
  destruct a as [| f | f |].
  - destruct (holder s); [destruct STORE_LOCK_EXCLUSIVE; [left; reflexivity|]|];
      right; eexists; (split; [reflexivity|]); cbn [procs]; rewrite updf_same; cbn [pos snap]; split; reflexivity.
  - right; eexists; (split; [reflexivity|]); cbn [procs]; rewrite updf_same; cbn [pos snap]; split; reflexivity.
  - right; eexists; (split; [reflexivity|]); cbn [procs]; rewrite updf_same; cbn [pos snap]; split; reflexivity.
  - right; eexists; (split; [reflexivity|]); cbn [procs]; rewrite updf_same; cbn [pos snap]; split; reflexivity.
Qed.

Lemma step_reads_serial s p : inv s -> reads_serial s -> reads_serial (step role s p).
Proof.
  intros I RS q f Hf Hr. destruct (step_log_appends s p) as [t0 Ht0].
  destruct (Nat.eq_dec q p) as [->|Hne].
  2:{ rewrite step_procs_other in * by exact Hne. destruct (RS q f Hf Hr) as [t Ht]. exists (t ++ t0). rewrite Ht0, Ht, app_assoc. reflexivity. }
  destruct (step_self_shape s p) as [Hst|(a & E & Hpos & Hsnap)].
  { rewrite Hst in *. apply RS; assumption. }
  rewrite Hpos in Hr. rewrite Hsnap. unfold read_done in Hr. apply Nat.leb_le in Hr.
  assert (Keep : f + 2 <= pos (procs s p) -> exists t, log (step role s p) = snap (procs s p) f ++ t).
  { intros Hr0. destruct (RS p f Hf) as [t Ht]; [unfold read_done; apply Nat.leb_le; exact Hr0|].
    exists (t ++ t0). rewrite Ht0, Ht, app_assoc. reflexivity. }
  destruct a as [| f0 | f0 |].
  - apply Keep. destruct (nonread_position _ _ _ E ltac:(discriminate)); lia.
  - destruct (read_position _ _ _ E) as [Hn Hf0]. destruct (Nat.eq_dec f f0) as [->|Hff].
    + rewrite updf_same. rewrite (reader_is_holder s p f0 I E). exists t0. exact Ht0.
    + rewrite updf_other by exact Hff. apply Keep. lia.
  - apply Keep. destruct (nonread_position _ _ _ E ltac:(discriminate)); lia.
  - apply Keep. destruct (nonread_position _ _ _ E ltac:(discriminate)); lia.
Qed.

Theorem run_reads_serial sched s : inv s -> reads_serial s -> reads_serial (run role sched s).
Proof.
  revert s; induction sched as [|p sched IH]; intros s I D; cbn; [exact D|].
  apply IH; [apply step_inv; exact I|apply step_reads_serial; assumption].
Qed.

(* every invocation that got as far as reading a file read a state of the serial history: the
   initial content followed by the first k commits, for some k — never a mixture, never a
   state that no serial execution of the committing invocations passes through *)
Theorem every_read_is_a_serial_state sched content q f :
  let s := run role sched (init content) in
  f < 3 -> f + 2 <= pos (procs s q) -> exists t, log s = snap (procs s q) f ++ t.
Proof.
  intros s Hf Hp. apply (run_reads_serial sched (init content)); [apply inv_init| |exact Hf|unfold read_done; apply Nat.leb_le; exact Hp].
  intros p g _ Hr. cbn in Hr. unfold read_done in Hr. apply Nat.leb_le in Hr. lia.
Qed.
End Inv.
