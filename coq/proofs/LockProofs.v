Require Import Base Extracted Lock.

(* the action lists read from the source are the ones this development reasons about *)
Definition writer_lit : list act := [ALock; ARead 0; ARead 1; ARead 2; AWrite 1; AWrite 0; AWrite 2; AUnlock].
Definition reader_lit : list act := [ALock; ARead 0; ARead 1; ARead 2; AUnlock].
Lemma writer_prog_is : writer_prog = writer_lit. Proof. reflexivity. Qed.
Lemma reader_prog_is : reader_prog = reader_lit. Proof. reflexivity. Qed.
Lemma store_lock_exclusive : STORE_LOCK_EXCLUSIVE = true. Proof. reflexivity. Qed.

Lemma updf_same {A} (m : nat -> A) k v : updf m k v k = v.
Proof. unfold updf. rewrite Nat.eqb_refl. reflexivity. Qed.
Lemma updf_other {A} (m : nat -> A) k v x : x <> k -> updf m k v x = m x.
Proof. unfold updf. intros H. destruct (Nat.eqb_spec x k); [congruence|reflexivity]. Qed.

Section Inv.
Variable role : nat -> bool.

Definition len (p : nat) : nat := length (prog_of role p).
Definition outside (s : st) (p : nat) : Prop := pos (procs s p) = 0 \/ pos (procs s p) = len p.

(* position bookkeeping: which reads / writes a process at position n has done *)
Definition read_done (n f : nat) : bool := Nat.leb (f + 2) n.
Definition wrote (w : bool) (n f : nat) : bool :=
  w && match f with 1 => Nat.leb 5 n | 0 => Nat.leb 6 n | 2 => Nat.leb 7 n | _ => false end.

(* the process holding the lock, relative to the content [base] it found *)
Definition inside_ok (s : st) (p : nat) (base : list nat) : Prop :=
  let n := pos (procs s p) in
  0 < n < len p /\
  (forall f, f < 3 -> files s f = if wrote (role p) n f then base ++ [p] else base) /\
  (forall f, f < 3 -> read_done n f = true -> snap (procs s p) f = base).

Record inv (s : st) : Prop := {
  inv_free : holder s = None -> (forall p, outside s p) /\ (forall f, f < 3 -> files s f = log s);
  inv_held : forall h, holder s = Some h -> inside_ok s h (log s) /\ (forall q, q <> h -> outside s q)
}.

Lemma inv_init content : inv (init content).
Proof.
  constructor; cbn.
  - intros _. split; [intros p; left; reflexivity|reflexivity].
  - intros h H. discriminate.
Qed.

Ltac f3 f := destruct f as [|[|[|f]]]; try lia.

(* the state after a step of the holder h: still inside, everybody else untouched *)
Ltac close_eq Hfiles Hsnap :=
  first [ apply Hfiles; lia
        | apply Hsnap; [lia|reflexivity]
        | f_equal; apply Hsnap; [lia|reflexivity]
        | reflexivity ].

Ltac holder_moves h R Hfiles Hsnap Hout :=
  let h' := fresh "h'" in let Hh' := fresh "Hh'" in
  intros h' Hh'; inversion Hh'; subst h'; split;
  [ unfold inside_ok; cbn [procs files pos snap]; rewrite !updf_same; cbn [pos snap];
    split; [unfold len, prog_of; rewrite R; cbn; lia|]; rewrite R; split;
    [ let f := fresh "f" in let Hf := fresh "Hf" in
      intros f Hf; f3 f; cbn [wrote andb Nat.leb];
      rewrite ?updf_same; rewrite ?updf_other by lia; close_eq Hfiles Hsnap
    | let f := fresh "f" in let Hf := fresh "Hf" in let Hr := fresh "Hr" in
      intros f Hf Hr; f3 f; cbn in Hr; try discriminate Hr;
      rewrite ?updf_same; rewrite ?updf_other by lia; close_eq Hfiles Hsnap ]
  | let q := fresh "q" in let Hq := fresh "Hq" in
    intros q Hq; unfold outside; cbn [procs]; rewrite updf_other by exact Hq; apply Hout; exact Hq ].

Ltac holder_unlocks h R Hfiles Hout :=
  intros _; split;
  [ let q := fresh "q" in intros q; unfold outside; cbn [procs];
    let Hq := fresh "Hq" in destruct (Nat.eq_dec q h) as [->|Hq];
    [ rewrite updf_same; cbn [pos]; right; unfold len, prog_of; rewrite R; reflexivity
    | rewrite updf_other by exact Hq; apply Hout; exact Hq ]
  | let f := fresh "f" in let Hf := fresh "Hf" in
    intros f Hf; rewrite (Hfiles f Hf); f3 f; reflexivity ].

Lemma step_inv s p : inv s -> inv (step role s p).
Proof.
  intros [Ifree Iheld]. unfold step. cbv zeta.
  destruct (nth_error (prog_of role p) (pos (procs s p))) as [a|] eqn:E; [|constructor; assumption].
  assert (Hlt : pos (procs s p) < len p) by (apply nth_error_Some; unfold len; congruence).
  destruct (holder s) as [h|] eqn:H.
  - (* the lock is held by h *)
    destruct (Iheld h eq_refl) as [[Hpos [Hfiles Hsnap]] Hout].
    destruct (Nat.eq_dec p h) as [->|Hne].
    + (* the holder moves *)
      unfold prog_of, len, prog_of in *. remember (pos (procs s h)) as n eqn:En.
      rewrite writer_prog_is, reader_prog_is in *. destruct (role h) eqn:R; cbn [length writer_lit reader_lit] in *.
      * (* writer *)
        assert (Hn : n = 1 \/ n = 2 \/ n = 3 \/ n = 4 \/ n = 5 \/ n = 6 \/ n = 7) by lia.
        destruct Hn as [->|[->|[->|[->|[->|[->| ->]]]]]]; cbn in E; inversion E; subst a; clear E;
          rewrite <- ?En; constructor; cbn [holder files procs log]; try (intros Hn; discriminate Hn).
        -- holder_moves h R Hfiles Hsnap Hout.
        -- holder_moves h R Hfiles Hsnap Hout.
        -- holder_moves h R Hfiles Hsnap Hout.
        -- holder_moves h R Hfiles Hsnap Hout.
        -- holder_moves h R Hfiles Hsnap Hout.
        -- holder_moves h R Hfiles Hsnap Hout.
        -- holder_unlocks h R Hfiles Hout.
        -- intros h' Hh'. discriminate Hh'.
      * (* reader *)
        assert (Hn : n = 1 \/ n = 2 \/ n = 3 \/ n = 4) by lia.
        destruct Hn as [->|[->|[->| ->]]]; cbn in E; inversion E; subst a; clear E;
          rewrite <- ?En; constructor; cbn [holder files procs log]; try (intros Hn; discriminate Hn).
        -- holder_moves h R Hfiles Hsnap Hout.
        -- holder_moves h R Hfiles Hsnap Hout.
        -- holder_moves h R Hfiles Hsnap Hout.
        -- holder_unlocks h R Hfiles Hout.
        -- intros h' Hh'. discriminate Hh'.
    + (* someone else: it is outside, i.e. at its ALock (blocked) *)
      destruct (Hout p Hne) as [Hz|Hend]; [|lia].
      rewrite Hz in E. unfold prog_of in E. destruct (role p); cbn in E; inversion E; subst a.
      * rewrite store_lock_exclusive. constructor; [intros Hn; rewrite H in Hn; discriminate|intros h0 Hh0; rewrite H in Hh0; apply Iheld; exact Hh0].
      * rewrite store_lock_exclusive. constructor; [intros Hn; rewrite H in Hn; discriminate|intros h0 Hh0; rewrite H in Hh0; apply Iheld; exact Hh0].
  - (* the lock is free: everybody is outside; only a process at position 0 can move, by locking *)
    destruct (Ifree eq_refl) as [Hall Hfiles].
    destruct (Hall p) as [Hz|Hend]; [|lia].
    rewrite Hz in E. assert (a = ALock) by (unfold prog_of in E; destruct (role p); cbn in E; inversion E; reflexivity). subst a.
    constructor; cbn [holder files procs log].
    + intros Hn. discriminate.
    + intros h' Hh'. inversion Hh'; subst h'. split.
      * unfold inside_ok. cbn [procs files pos snap]. rewrite updf_same. cbn [pos snap]. rewrite Hz. split.
        -- unfold len, prog_of. destruct (role p); cbn; lia.
        -- split.
           ++ intros f Hf. rewrite (Hfiles f Hf). unfold wrote. f3 f; cbn; rewrite ?andb_false_r; reflexivity.
           ++ intros f Hf Hr. f3 f; cbn in Hr; discriminate.
      * intros q Hq. unfold outside. cbn [procs]. rewrite updf_other by exact Hq. apply Hall.
Qed.

Theorem run_inv sched s : inv s -> inv (run role sched s).
Proof. revert s; induction sched as [|p sched IH]; intros s I; cbn; [exact I|]. apply IH. apply step_inv. exact I. Qed.

(* ---- the theorems ---- *)

(* mutual exclusion: whenever the lock is held, every other process is outside its
   critical section (has not started, or has finished) *)
Theorem mutex sched content h q :
  holder (run role sched (init content)) = Some h -> q <> h -> outside (run role sched (init content)) q.
Proof. intros H Hq. destruct (run_inv sched _ (inv_init content)) as [_ I]. exact (proj2 (I h H) q Hq). Qed.

(* no torn read: the three reads of a process all return one and the same content —
   the triple a single committer left (or the initial one) *)
Theorem no_torn_read sched content h :
  let s := run role sched (init content) in
  holder s = Some h -> 4 <= pos (procs s h) ->
  snap (procs s h) 0 = log s /\ snap (procs s h) 1 = log s /\ snap (procs s h) 2 = log s.
Proof.
  intros s H Hp. destruct (run_inv sched _ (inv_init content)) as [_ I].
  destruct (I h H) as [[_ [_ Hs]] _]. fold s in Hs.
  repeat split; apply Hs; try lia; unfold read_done; apply Nat.leb_le; lia.
Qed.

(* and when nobody is inside, the three files agree (= the ghost log) *)
Theorem quiescent_files_agree sched content f :
  let s := run role sched (init content) in
  holder s = None -> f < 3 -> files s f = log s.
Proof. intros s H Hf. destruct (run_inv sched _ (inv_init content)) as [I _]. exact (proj2 (I H) f Hf). Qed.

(* ---- no lost update ---- *)
Definition done_in_log (s : st) : Prop :=
  forall p, role p = true -> pos (procs s p) = len p -> In p (log s).

Lemma step_log_grows s p x : In x (log s) -> In x (log (step role s p)).
Proof.
  intros H. unfold step. cbv zeta. destruct (nth_error _ _) as [[| f | f |]|]; cbn [log]; try exact H.
  - destruct (holder s); exact H.
  - destruct (role p); [apply in_app_iff; left; exact H|exact H].
Qed.

Lemma step_done s p : done_in_log s -> done_in_log (step role s p).
Proof.
  intros D q Rq Hq. destruct (Nat.eq_dec q p) as [->|Hne].
  - (* the stepping process itself *)
    unfold step in *. cbv zeta in *.
    destruct (nth_error (prog_of role p) (pos (procs s p))) as [a|] eqn:E; [|apply D; assumption].
    assert (Hlt : pos (procs s p) < len p) by (apply nth_error_Some; unfold len; congruence).
    destruct a as [| f | f |].
    + destruct (holder s); [apply D; assumption|]. cbn [procs log] in *. rewrite updf_same in Hq. cbn [pos] in Hq.
      unfold len, prog_of in *. rewrite Rq in *. cbn in *.
      assert (pos (procs s p) = 7) by lia. rewrite H in E. cbn in E. discriminate.
    + cbn [procs log] in *. rewrite updf_same in Hq. cbn [pos] in Hq. unfold len, prog_of in *. rewrite Rq in *. cbn in *.
      assert (pos (procs s p) = 7) by lia. rewrite H in E. cbn in E. discriminate.
    + cbn [procs log] in *. rewrite updf_same in Hq. cbn [pos] in Hq. unfold len, prog_of in *. rewrite Rq in *. cbn in *.
      assert (pos (procs s p) = 7) by lia. rewrite H in E. cbn in E. discriminate.
    + cbn [log]. rewrite Rq. apply in_app_iff. right. left. reflexivity.
  - (* another process: its position is untouched, the log only grows *)
    apply step_log_grows. apply D; [exact Rq|].
    unfold step in Hq. cbv zeta in Hq. destruct (nth_error _ _) as [[| f | f |]|] in Hq; cbn [procs] in Hq;
      try (rewrite updf_other in Hq by exact Hne); try exact Hq.
    destruct (holder s); cbn [procs] in Hq; try (rewrite updf_other in Hq by exact Hne); exact Hq.
Qed.

Theorem run_done sched s : done_in_log s -> done_in_log (run role sched s).
Proof. revert s; induction sched as [|p sched IH]; intros s D; cbn; [exact D|]. apply IH. apply step_done. exact D. Qed.

(* no lost update: whenever the lock is free, each of the three files contains the
   marker of every committing invocation that has finished (reported success), for
   every number of processes, every interleaving and every think time *)
Theorem no_lost_update sched content p f :
  let s := run role sched (init content) in
  holder s = None -> role p = true -> pos (procs s p) = len p -> f < 3 -> In p (files s f).
Proof.
  intros s H R Hp Hf. unfold s in *. rewrite (quiescent_files_agree sched content f H Hf).
  apply (run_done sched (init content)); [|exact R|exact Hp].
  intros q Rq Hq. cbn in Hq. unfold len, prog_of in Hq. rewrite Rq in Hq. cbn in Hq. discriminate.
Qed.

(* ... and nothing else: the content is the initial content followed by committed writers *)
End Inv.
