(* PruneProofs.v — what `prune` keeps of an exemption it keeps only because it is needed
   (C12, second half): every criterion a pruned store still lists on an exemption was put
   there by a search that found NO chain made of audits and grants alone. *)
Require Import Base Extracted Criteria Search AuditGraph DepGraph Resolve Update.
Require Import CriteriaProofs SearchProofs AuditGraphProofs ResolveProofs UpdateProofs PreserveProofs.
Local Open Scope N_scope.

(* ---- provenance of what the required-entry map records ---- *)
Lemma add_entries_inv P c es : forall rm, rmap_inv P rm -> (forall e, In e es -> P e c) -> rmap_inv P (add_entries c rm es).
Proof.
  induction es as [|e es IH]; intros rm I H; cbn [add_entries fold_left]; [exact I|].
  apply IH; [apply rmap_inv_add; [exact I|apply H; left; reflexivity]|intros e' He'; apply H; right; exact He'].
Qed.
Lemma add_path_inv P c p : forall rm, rmap_inv P rm -> (forall o e, In o p -> In e (entries_of_origin o) -> P e c) -> rmap_inv P (add_path c rm p).
Proof.
  induction p as [|o p IH]; intros rm I H; cbn [add_path fold_left]; [exact I|].
  fold (add_entries c rm (entries_of_origin o)). apply IH.
  - apply add_entries_inv; [exact I|intros e He; apply (H o e); [left; reflexivity|exact He]].
  - intros o' e Ho' He. apply (H o' e); [right; exact Ho'|exact He].
Qed.

Section Prov.
Variables (t : ctable) (g : depgraph) (reqs : list cset) (name : N) (m : search_mode) (ag : audit_graph).

Definition on_a_path (e : rentry) (c : N) : Prop :=
  exists i p path o, In (i, p) (enumerate (g_pkgs g)) /\ pk_name p = name /\ pk_third_party p = true /\
    In c (minimal_indices t (nth i reqs cs_empty)) /\ ag_search ag c (pk_version p) m = SOk path /\
    In o path /\ In e (entries_of_origin o).

Lemma inner_prov i p cl : In (i, p) (enumerate (g_pkgs g)) -> pk_name p = name -> pk_third_party p = true ->
  (forall c, In c cl -> In c (minimal_indices t (nth i reqs cs_empty))) ->
  forall acc rm', (forall r, acc = Some r -> rmap_inv on_a_path r) ->
  fold_left (inner_step ag m (pk_version p)) cl acc = Some rm' -> rmap_inv on_a_path rm'.
Proof.
  intros Hin Hn Ht. induction cl as [|c cl IH]; intros Hcl acc rm' Hacc H; cbn [fold_left] in H; [apply Hacc; exact H|].
  eapply IH; [intros c' Hc'; apply Hcl; right; exact Hc'| |exact H].
  intros r Hr. unfold inner_step in Hr. destruct acc as [rm0|]; [|discriminate].
  destruct (ag_search ag c (pk_version p) m) as [path| |] eqn:Es; try discriminate. inversion Hr; subst r.
  fold (add_path c rm0 path). apply add_path_inv; [apply Hacc; reflexivity|].
  intros o e Ho He. exists i, p, path, o. repeat split; auto. apply Hcl. left. reflexivity.
Qed.

Lemma outer_prov l : (forall i p, In (i, p) l -> In (i, p) (enumerate (g_pkgs g)) /\ pk_name p = name /\ pk_third_party p = true) ->
  forall acc rm', (forall r, acc = Some r -> rmap_inv on_a_path r) ->
  fold_left (fun acc '(i, p) => fold_left (inner_step ag m (pk_version p)) (minimal_indices t (nth i reqs cs_empty)) acc) l acc = Some rm' ->
  rmap_inv on_a_path rm'.
Proof.
  induction l as [|[i p] l IH]; intros Hl acc rm' Hacc H; cbn [fold_left] in H; [apply Hacc; exact H|].
  eapply IH; [intros i' p' H'; apply Hl; right; exact H'| |exact H].
  intros r Hr. destruct (Hl i p (or_introl eq_refl)) as [H1 [H2 H3]].
  eapply (inner_prov i p _ H1 H2 H3 (fun c Hc => Hc)); [exact Hacc|exact Hr].
Qed.
End Prov.

Theorem required_entries_prov t g reqs s name m rm ag :
  required_entries t g reqs s name m = Some rm -> build t (store_for s name) = inl ag ->
  rmap_inv (on_a_path t g reqs name m ag) rm.
Proof.
  intros H Hb. unfold required_entries in H.
  set (flt := filter (fun '(i, p) => N.eqb (pk_name p) name && pk_third_party p) (enumerate (g_pkgs g))) in *.
  assert (Hflt : forall i p, In (i, p) flt -> In (i, p) (enumerate (g_pkgs g)) /\ pk_name p = name /\ pk_third_party p = true).
  { intros i p Hin. apply filter_In in Hin. destruct Hin as [Hin Hf]. apply andb_prop in Hf. destruct Hf as [Hn Ht].
    apply N.eqb_eq in Hn. auto. }
  destruct flt as [|pk pkgs]; [inversion H; apply rmap_inv_nil|]. rewrite Hb in H.
  eapply (outer_prov t g reqs name m ag (pk :: pkgs) Hflt (Some [])); [|exact H].
  intros r Hr. inversion Hr. apply rmap_inv_nil.
Qed.

(* ---- levels ---- *)
Definition needs_more_than_audits (o : origin) : bool :=
  match o with OExemption _ | OUnpublished _ | OFreshExemption _ => true | _ => false end.

Lemma audit_grant_caveat m e : needs_more_than_audits (e_origin e) = false -> edge_caveat m e <= CV_FreshImport.
Proof.
  unfold edge_caveat, needs_more_than_audits.
  destruct (e_origin e) as [i [|]| | | | | |]; try discriminate; intros _;
    destruct m, (e_fresh e); vm_compute; discriminate.
Qed.

Lemma fpath_avoiding_level t s c m x w :
  m <> RegenerateExemptions ->
  fpath_avoiding needs_more_than_audits t s c x w ->
  exists lv, reach (backward_graph (all_edges t s)) c m w x lv /\ lv <= CV_FreshImport.
Proof.
  intros Hm H. induction H as [v|e w He Hc Hbad Hp [lv [IH Hle]]].
  - exists CV_None. split; [constructor|unfold CV_None, CV_FreshImport; lia].
  - exists (N_max lv (edge_caveat m (bwd_of e))). split.
    + eapply reach_snoc; [exact IH|]. left. exists (bwd_of e). split; [|split; [|split; reflexivity]].
      * apply in_backward_graph. exists e. auto.
      * destruct m; [rewrite usable_PE|rewrite usable_PFI|congruence]; exact Hc.
    + pose proof (audit_grant_caveat m (bwd_of e) Hbad) as Hcv. unfold N_max. destruct (N.leb_spec lv (edge_caveat m (bwd_of e))); lia.
Qed.

Lemma chain_exemption_level_PFI g c x y p lv k :
  chain g c PreferFreshImports x y p lv -> In (OExemption k) p -> CV_Exemption <= lv.
Proof.
  intros H. induction H as [v|a b e p lv Hc IH He Hu|a v p lv Hm Hc IH]; intros Hin.
  - destruct Hin.
  - apply in_app_iff in Hin. destruct Hin as [Hin|[Hin|[]]].
    + specialize (IH Hin). pose proof (N_max_le_l lv (edge_caveat PreferFreshImports e)). lia.
    + unfold edge_caveat. rewrite Hin. cbn [mode_eqb]. apply N_max_le_r.
  - discriminate.
Qed.

Lemma entry_exemption_origin o i : In (RExemption i) (entries_of_origin o) -> o = OExemption i.
Proof.
  destruct o as [| |[a|] ? ?| | | |]; cbn; intros H;
    repeat match goal with
           | H : _ \/ _ |- _ => destruct H as [H|H]
           | H : False |- _ => destruct H
           | H : _ = RExemption _ |- _ => first [discriminate H | inversion H; reflexivity]
           end.
Qed.

(* ---- the theorem ---- *)
(* prune searches in PreferFreshImports mode (re-read from main.rs); whatever criterion it records
   for an exemption, some in-graph version of the crate needs that criterion and has NO certifying
   chain made of audits and grants (local, imported, importable) alone *)
Theorem recorded_exemption_is_needed t g reqs s name rm ag i c :
  required_entries t g reqs s name PreferFreshImports = Some rm -> build t (store_for s name) = inl ag ->
  has_c rm (RExemption i) c ->
  exists k p, In (k, p) (enumerate (g_pkgs g)) /\ pk_name p = name /\ pk_third_party p = true /\
    In c (minimal_indices t (nth k reqs cs_empty)) /\
    ~ fpath_avoiding needs_more_than_audits t (store_for s name) c None (Some (pk_version p)).
Proof.
  intros Hre Hb [s0 [Hg Hc]].
  destruct (required_entries_prov _ _ _ _ _ _ _ _ Hre Hb _ _ _ Hg Hc) as [k [p [path [o [Hin [Hn [Ht [Hmin [Es [Ho He]]]]]]]]]].
  exists k, p. repeat split; auto. intros Hav.
  apply entry_exemption_origin in He. subst o.
  destruct (ag_search_minimax _ _ _ _ _ _ _ Hb Es) as [lv [Hch Hmin']].
  pose proof (chain_exemption_level_PFI _ _ _ _ _ _ _ Hch Ho) as Hlv.
  destruct (fpath_avoiding_level t (store_for s name) c PreferFreshImports None (Some (pk_version p)) ltac:(discriminate) Hav) as [lv' [Hr Hle]].
  specialize (Hmin' lv' Hr). unfold CV_Exemption, CV_FreshImport in *. lia.
Qed.

(* ... and a pruned exemption lists nothing else: with exemption pruning on, every criterion
   written on a kept exemption implies-covers only what was recorded for it *)
Theorem pruned_exemption_lists_only_recorded t mode rm xs x' c :
  um_prune_exemptions mode = true ->
  (forall i s0 c0, rmap_get rm (RExemption i) = Some s0 -> cs_has c0 s0 = true ->
      exists x, nth_error xs (N.to_nat i) = Some x /\ cs_has c0 (from_list t (x_crit x)) = true) ->
  In x' (update_exemptions t mode (Some rm) xs) -> In c (x_crit x') ->
  exists i, has_c rm (RExemption i) c.
Proof.
  intros Hp Hok H Hc. unfold update_exemptions in H. apply in_flat_map in H. destruct H as [[i x] [Hi H]].
  apply (in_enumerate x) in Hi. destruct Hi as [Hi1 Hi2].
  assert (Hnth : nth_error xs i = Some x) by (rewrite (nth_error_nth' _ x Hi1), Hi2; reflexivity).
  cbv zeta in H. rewrite Hp in H.
  destruct (rmap_get rm (RExemption (N.of_nat i))) as [s0|] eqn:Eg.
  2:{ assert (E : cs_is_empty cs_empty = true) by (apply cs_is_empty_spec; intros; apply cs_has_empty). rewrite E in H. destruct H. }
  destruct (cs_is_empty s0); [destruct H|].
  assert (Hcont : cs_contains (from_list t (x_crit x)) s0 = true).
  { apply cs_contains_spec. intros c0 Hc0. destruct (Hok _ _ _ Eg Hc0) as [x0 [Hx0 Hcc]]. rewrite Nat2N.id in Hx0.
    assert (x0 = x) by congruence. subst x0. exact Hcc. }
  rewrite Hcont, andb_false_r in H. destruct H as [<-|[]]. cbn [x_crit] in Hc.
  exists (N.of_nat i). exists s0. split; [exact Eg|]. unfold names_of in Hc. eapply minimal_subset. exact Hc.
Qed.
