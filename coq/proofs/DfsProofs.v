(* DfsProofs.v — the order DepGraph::new produces (two DFS passes with shared
   visited marks) lists every crate once and after all its normal/build
   dependencies, whenever those edges are acyclic and in range.  Discharges the
   side condition [topo_ok] of the C03 theorems. *)
Require Import Base Extracted Criteria DepGraph.
Local Open Scope nat_scope.

Section Dfs.
Variable ps : list pkg.
Let n := length ps.
(* normal/build edges are acyclic (a rank function decreases along them) and in range *)
Variable rk : nat -> nat.
Hypothesis acyclic : forall x d, x < n -> In d (nb_deps (get_pkg ps x)) -> rk d < rk x.
Hypothesis in_range : forall x d, x < n -> In d (nb_deps (get_pkg ps x)) -> d < n.

Definition vis (st : dfs) (x : nat) : bool := nth x (df_visited st) true.
Fixpoint ucount (l : list bool) : nat :=
  match l with [] => 0 | b :: r => (if b then 0 else 1) + ucount r end.

Lemma nth_false_lt (l : list bool) i : nth i l true = false -> i < length l.
Proof.
  revert i; induction l as [|b l IH]; intros [|i] H; cbn in *; try discriminate; try lia.
  specialize (IH i H). lia.
Qed.

Lemma mark_length l i : length (mark l i) = length l.
Proof. unfold mark. apply update_length. Qed.
Lemma mark_same l i : i < length l -> nth i (mark l i) true = true.
Proof. intros H. unfold mark. rewrite nth_update_same by exact H. reflexivity. Qed.
Lemma mark_other l i x : x <> i -> nth x (mark l i) true = nth x l true.
Proof. intros H. unfold mark. apply nth_update_other. congruence. Qed.
Lemma mark_mono l i x : nth x l true = true -> nth x (mark l i) true = true.
Proof.
  intros H. destruct (Nat.eq_dec x i) as [->|Hne]; [|rewrite mark_other by exact Hne; exact H].
  destruct (Nat.lt_ge_cases i (length l)) as [Hl|Hl]; [apply mark_same; exact Hl|].
  apply nth_overflow. rewrite mark_length. exact Hl.
Qed.
Lemma ucount_mark l i : nth i l true = false -> S (ucount (mark l i)) = ucount l.
Proof.
  unfold mark. revert i; induction l as [|b l IH]; intros [|i] H; cbn in *; try discriminate.
  - subst b. reflexivity.
  - rewrite <- (IH i H). destruct b; cbn; lia.
Qed.
Lemma ucount_le l : ucount l <= length l.
Proof. induction l as [|[|] l IH]; cbn; lia. Qed.

(* a post-order: each element is new, in range, and after all its dependencies *)
Inductive good : list nat -> Prop :=
| good_nil : good []
| good_snoc T x : good T -> x < n -> ~ In x T -> (forall d, In d (nb_deps (get_pkg ps x)) -> In d T) -> good (T ++ [x]).

Lemma good_order_ok T : good T -> order_ok ps (rev T) = true.
Proof.
  induction 1 as [|T x HT IH Hx Hnin Hdeps]; [reflexivity|].
  rewrite rev_unit. cbn [order_ok]. rewrite IH, andb_true_r. fold n.
  apply andb_true_intro. split; [apply andb_true_intro; split|].
  - apply negb_true_iff. apply not_true_is_false. intros H. apply memn_spec in H. apply in_rev in H. contradiction.
  - apply forallb_forall. intros d Hd. apply memn_spec. apply in_rev. rewrite rev_involutive. apply Hdeps. exact Hd.
  - apply Nat.ltb_lt. exact Hx.
Qed.

Record inv (G : list nat) (st : dfs) : Prop := {
  i_len : length (df_visited st) = n;
  i_good : good (df_topo st);
  i_topo_vis : forall x, In x (df_topo st) -> vis st x = true;
  i_gray : forall x, x < n -> vis st x = true -> In x (df_topo st) \/ In x G
}.

Record ext (st st' : dfs) : Prop := {
  e_topo : exists new, df_topo st' = df_topo st ++ new /\ forall x, In x new -> vis st x = false;
  e_vis : forall x, vis st x = true -> vis st' x = true;
  e_count : ucount (df_visited st') <= ucount (df_visited st)
}.

Lemma ext_refl st : ext st st.
Proof. constructor; [exists []; rewrite app_nil_r; split; [reflexivity|intros x []]|auto|lia]. Qed.

Lemma ext_trans a b c : ext a b -> ext b c -> ext a c.
Proof.
  intros [[n1 [E1 H1]] V1 C1] [[n2 [E2 H2]] V2 C2]. constructor.
  - exists (n1 ++ n2). rewrite E2, E1, app_assoc. split; [reflexivity|].
    intros x Hx. apply in_app_or in Hx. destruct Hx as [Hx|Hx]; [apply H1; exact Hx|].
    specialize (H2 x Hx). destruct (vis a x) eqn:E; [|reflexivity]. rewrite (V1 x E) in H2. discriminate.
  - auto.
  - lia.
Qed.

(* changing only the reverse-dependency flags changes nothing here *)
Definition with_rev (s : dfs) (r : list bool) : dfs := {| df_visited := df_visited s; df_topo := df_topo s; df_rev := r |}.
Lemma inv_with_rev G s r : inv G s -> inv G (with_rev s r).
Proof. intros [A B C D]. constructor; assumption. Qed.
Lemma ext_with_rev a s r : ext a s -> ext a (with_rev s r).
Proof. intros [A B C]. constructor; assumption. Qed.

Definition child_step (f : nat) (s : dfs) (child : nat) : dfs :=
  let s' := visit f ps s child in
  {| df_visited := df_visited s'; df_topo := df_topo s'; df_rev := mark (df_rev s') child |}.

Lemma visit_unfold f st i :
  visit (S f) ps st i =
  if nth i (df_visited st) true then st
  else
    let st0 := {| df_visited := mark (df_visited st) i; df_topo := df_topo st; df_rev := df_rev st |} in
    let st1 := fold_left (child_step f) (nb_deps (get_pkg ps i)) st0 in
    {| df_visited := df_visited st1; df_topo := df_topo st1 ++ [i]; df_rev := df_rev st1 |}.
Proof. reflexivity. Qed.

Lemma in_ext_topo a b x : ext a b -> In x (df_topo a) -> In x (df_topo b).
Proof. intros [[nw [E _]] _ _] H. rewrite E. apply in_or_app. left. exact H. Qed.

Theorem visit_spec fuel : forall G st i,
  inv G st -> (forall g, In g G -> rk i < rk g) -> ucount (df_visited st) < fuel ->
  let st' := visit fuel ps st i in
  inv G st' /\ ext st st' /\ vis st' i = true.
Proof.
  induction fuel as [|f IH]; intros G st i I HG Hu; [lia|]. cbv zeta. rewrite visit_unfold.
  destruct (nth i (df_visited st) true) eqn:Hvi.
  - split; [exact I|]. split; [apply ext_refl|exact Hvi].
  - cbv zeta.
    assert (Hin : i < n) by (rewrite <- (i_len _ _ I); apply nth_false_lt; exact Hvi).
    set (st0 := {| df_visited := mark (df_visited st) i; df_topo := df_topo st; df_rev := df_rev st |}).
    assert (I0 : inv (i :: G) st0).
    { destruct I as [A B C D]. constructor; cbn [df_visited df_topo st0].
      - rewrite mark_length. exact A.
      - exact B.
      - intros x Hx. unfold vis. cbn [df_visited st0]. apply mark_mono. apply C. exact Hx.
      - intros x Hx Hv. unfold vis in Hv. cbn [df_visited st0] in Hv.
        destruct (Nat.eq_dec x i) as [->|Hne]; [right; left; reflexivity|].
        rewrite mark_other in Hv by exact Hne. destruct (D x Hx Hv) as [H|H]; [left; exact H|right; right; exact H]. }
    assert (E0 : ext st st0).
    { constructor; cbn [df_visited df_topo st0].
      - exists []. rewrite app_nil_r. split; [reflexivity|intros x []].
      - intros x Hx. unfold vis. cbn [df_visited st0]. apply mark_mono. exact Hx.
      - pose proof (ucount_mark _ _ Hvi). lia. }
    assert (U0 : ucount (df_visited st0) < f).
    { cbn [df_visited st0]. pose proof (ucount_mark _ _ Hvi). lia. }
    (* the children *)
    assert (L : forall cs s, inv (i :: G) s -> ucount (df_visited s) < f ->
                (forall c, In c cs -> In c (nb_deps (get_pkg ps i))) ->
                let s' := fold_left (child_step f) cs s in
                inv (i :: G) s' /\ ext s s' /\ forall c, In c cs -> In c (df_topo s')).
    { induction cs as [|c cs IHcs]; intros s Is Us Hcs; cbn [fold_left].
      - split; [exact Is|]. split; [apply ext_refl|intros c []].
      - assert (Hc : In c (nb_deps (get_pkg ps i))) by (apply Hcs; left; reflexivity).
        assert (Hrk : rk c < rk i) by (apply (acyclic i c Hin Hc)).
        destruct (IH (i :: G) s c Is) as [I1 [E1 V1]]; [|exact Us|].
        { intros g [<-|Hg]; [exact Hrk|]. specialize (HG g Hg). lia. }
        set (s1 := child_step f s c).
        assert (I1' : inv (i :: G) s1) by (apply (inv_with_rev _ (visit f ps s c)); exact I1).
        assert (E1' : ext s s1) by (apply (ext_with_rev _ (visit f ps s c)); exact E1).
        assert (Hct : In c (df_topo s1)).
        { assert (Hcn : c < n) by (apply (in_range i c Hin Hc)).
          destruct (i_gray _ _ I1' c Hcn V1) as [H|H]; [exact H|exfalso].
          destruct H as [<-|Hg]; [lia|]. specialize (HG c Hg). lia. }
        destruct (IHcs s1 I1') as [I2 [E2 T2]].
        { pose proof (e_count _ _ E1'). lia. }
        { intros c' Hc'. apply Hcs. right. exact Hc'. }
        split; [exact I2|]. split; [eapply ext_trans; eassumption|].
        intros c' [<-|Hc']; [eapply in_ext_topo; [exact E2|exact Hct]|apply T2; exact Hc']. }
    destruct (L (nb_deps (get_pkg ps i)) st0 I0 U0 (fun c H => H)) as [I1 [E1 T1]].
    set (st1 := fold_left (child_step f) (nb_deps (get_pkg ps i)) st0) in *.
    assert (Hvi1 : vis st1 i = true).
    { apply (e_vis _ _ E1). unfold vis. cbn [df_visited st0]. apply mark_same. rewrite (i_len _ _ I). exact Hin. }
    assert (Hnt : ~ In i (df_topo st1)).
    { destruct (e_topo _ _ E1) as [nw [Et Hn]]. rewrite Et. intros H. apply in_app_or in H. destruct H as [H|H].
      - cbn [df_topo st0] in H. pose proof (i_topo_vis _ _ I i H) as V. unfold vis in V. congruence.
      - specialize (Hn i H). unfold vis in Hn. cbn [df_visited st0] in Hn.
        rewrite mark_same in Hn by (rewrite (i_len _ _ I); exact Hin). discriminate. }
    split; [|split].
    + destruct I1 as [A B C D]. constructor; cbn [df_visited df_topo].
      * exact A.
      * apply good_snoc; [exact B|exact Hin|exact Hnt|exact T1].
      * intros x Hx. apply in_app_or in Hx. destruct Hx as [Hx|[<-|[]]]; [apply C; exact Hx|exact Hvi1].
      * intros x Hx Hv. destruct (D x Hx Hv) as [H|[<-|H]].
        -- left. apply in_or_app. left. exact H.
        -- left. apply in_or_app. right. left. reflexivity.
        -- right. exact H.
    + pose proof (ext_trans _ _ _ E0 E1) as E. destruct E as [[nw [Et Hn]] V C]. constructor; cbn [df_visited df_topo].
      * exists (nw ++ [i]). rewrite Et, app_assoc. split; [reflexivity|].
        intros x Hx. apply in_app_or in Hx. destruct Hx as [Hx|[<-|[]]]; [apply Hn; exact Hx|exact Hvi].
      * exact V.
      * exact C.
    + exact Hvi1.
Qed.

(* ---- the reverse-dependency flags ---- *)
Record rinv (st : dfs) : Prop := {
  r_len : length (df_rev st) = n;
  r_sound : forall c, nth c (df_rev st) false = true ->
            exists p, p < n /\ vis st p = true /\ In c (nb_deps (get_pkg ps p));
  r_complete : forall p c, In p (df_topo st) -> In c (nb_deps (get_pkg ps p)) -> nth c (df_rev st) false = true
}.
Definition rmono (st st' : dfs) : Prop := forall c, nth c (df_rev st) false = true -> nth c (df_rev st') false = true.

Lemma markf_same l i : i < length l -> nth i (mark l i) false = true.
Proof. intros H. unfold mark. rewrite nth_update_same by exact H. reflexivity. Qed.
Lemma markf_other l i x : x <> i -> nth x (mark l i) false = nth x l false.
Proof. intros H. unfold mark. apply nth_update_other. congruence. Qed.
Lemma markf_mono l i x : nth x l false = true -> nth x (mark l i) false = true.
Proof.
  intros H. destruct (Nat.eq_dec x i) as [->|Hne]; [|rewrite markf_other by exact Hne; exact H].
  apply markf_same. destruct (Nat.lt_ge_cases i (length l)) as [Hl|Hl]; [exact Hl|].
  rewrite nth_overflow in H by exact Hl. discriminate.
Qed.

Theorem visit_rspec fuel : forall G st i,
  inv G st -> rinv st -> (forall g, In g G -> rk i < rk g) -> ucount (df_visited st) < fuel ->
  let st' := visit fuel ps st i in rinv st' /\ rmono st st'.
Proof.
  induction fuel as [|f IH]; intros G st i I R HG Hu; [lia|]. cbv zeta. rewrite visit_unfold.
  destruct (nth i (df_visited st) true) eqn:Hvi; [split; [exact R|intros c H; exact H]|]. cbv zeta.
  assert (Hin : i < n) by (rewrite <- (i_len _ _ I); apply nth_false_lt; exact Hvi).
  set (st0 := {| df_visited := mark (df_visited st) i; df_topo := df_topo st; df_rev := df_rev st |}).
  assert (I0 : inv (i :: G) st0).
  { destruct I as [A B C D]. constructor; cbn [df_visited df_topo st0].
    - rewrite mark_length. exact A.
    - exact B.
    - intros x Hx. unfold vis. cbn [df_visited st0]. apply mark_mono. apply C. exact Hx.
    - intros x Hx Hv. unfold vis in Hv. cbn [df_visited st0] in Hv.
      destruct (Nat.eq_dec x i) as [->|Hne]; [right; left; reflexivity|].
      rewrite mark_other in Hv by exact Hne. destruct (D x Hx Hv) as [H|H]; [left; exact H|right; right; exact H]. }
  assert (R0 : rinv st0).
  { destruct R as [A B C]. constructor; cbn [df_rev df_topo st0]; [exact A| |exact C].
    intros c Hc. destruct (B c Hc) as [p [Hp [Hv Hd]]]. exists p. repeat split; [exact Hp| |exact Hd].
    unfold vis. cbn [df_visited st0]. apply mark_mono. exact Hv. }
  assert (V0 : vis st0 i = true) by (unfold vis; cbn [df_visited st0]; apply mark_same; rewrite (i_len _ _ I); exact Hin).
  assert (U0 : ucount (df_visited st0) < f) by (cbn [df_visited st0]; pose proof (ucount_mark _ _ Hvi); lia).
  assert (L : forall cs s, inv (i :: G) s -> rinv s -> vis s i = true -> ucount (df_visited s) < f ->
              (forall c, In c cs -> In c (nb_deps (get_pkg ps i))) ->
              let s' := fold_left (child_step f) cs s in
              rinv s' /\ rmono s s' /\ (forall c, In c cs -> nth c (df_rev s') false = true)).
  { induction cs as [|c cs IHcs]; intros s Is Rs Vs Us Hcs; cbn [fold_left].
    - split; [exact Rs|]. split; [intros c H; exact H|intros c []].
    - assert (Hc : In c (nb_deps (get_pkg ps i))) by (apply Hcs; left; reflexivity).
      assert (Hrk : rk c < rk i) by (apply (acyclic i c Hin Hc)).
      assert (Hcn : c < n) by (apply (in_range i c Hin Hc)).
      assert (HG' : forall g, In g (i :: G) -> rk c < rk g).
      { intros g [<-|Hg]; [exact Hrk|]. specialize (HG g Hg). lia. }
      destruct (visit_spec f (i :: G) s c Is HG' Us) as [I1 [E1 _]].
      destruct (IH (i :: G) s c Is Rs HG' Us) as [R1 M1].
      set (s1 := child_step f s c).
      assert (I1' : inv (i :: G) s1) by (apply (inv_with_rev _ (visit f ps s c)); exact I1).
      assert (V1 : vis s1 i = true) by (apply (e_vis _ _ E1); exact Vs).
      assert (R1' : rinv s1).
      { destruct R1 as [A B C]. constructor; cbn [df_rev df_topo df_visited s1 child_step].
        - rewrite mark_length. exact A.
        - intros x Hx. destruct (Nat.eq_dec x c) as [->|Hne].
          + exists i. repeat split; [exact Hin|exact V1|exact Hc].
          + rewrite markf_other in Hx by exact Hne. exact (B x Hx).
        - intros p x Hp Hx. apply markf_mono. exact (C p x Hp Hx). }
      assert (Mc : nth c (df_rev s1) false = true).
      { cbn [df_rev s1 child_step]. apply markf_same. rewrite (r_len _ R1). exact Hcn. }
      assert (M1' : rmono s s1) by (intros x Hx; cbn [df_rev s1 child_step]; apply markf_mono; apply M1; exact Hx).
      destruct (IHcs s1 I1' R1' V1) as [R2 [M2 T2]].
      { pose proof (e_count _ _ E1). cbn [df_visited s1 child_step]. lia. }
      { intros c' Hc'. apply Hcs. right. exact Hc'. }
      split; [exact R2|]. split; [intros x Hx; apply M2; apply M1'; exact Hx|].
      intros c' [<-|Hc']; [apply M2; exact Mc|apply T2; exact Hc']. }
  destruct (L (nb_deps (get_pkg ps i)) st0 I0 R0 V0 U0 (fun c H => H)) as [R1 [M1 T1]].
  set (st1 := fold_left (child_step f) (nb_deps (get_pkg ps i)) st0) in *.
  split.
  - destruct R1 as [A B C]. constructor; cbn [df_rev df_topo df_visited]; [exact A|exact B|].
    intros p c Hp Hc. apply in_app_or in Hp. destruct Hp as [Hp|[<-|[]]]; [exact (C p c Hp Hc)|apply T1; exact Hc].
  - intros c Hc. cbn [df_rev]. apply M1. exact Hc.
Qed.

(* a fold of top-level visits (with or without reverse-flag marking) *)
Lemma visits_spec (step : dfs -> nat -> dfs) :
  (forall s c, exists r, step s c = with_rev (visit (S n) ps s c) r) ->
  forall cs st, inv [] st -> inv [] (fold_left step cs st).
Proof.
  intros Hstep. induction cs as [|c cs IH]; intros st I; cbn [fold_left]; [exact I|].
  apply IH. destruct (Hstep st c) as [r ->]. apply inv_with_rev.
  assert (U : ucount (df_visited st) < S n) by (pose proof (ucount_le (df_visited st)) as H; rewrite (i_len _ _ I) in H; lia).
  destruct (visit_spec (S n) [] st c I (fun g (H : In g []) => match H with end) U) as [H _]. exact H.
Qed.

End Dfs.

(* ---- depgraph_new ---- *)
Definition acyclic_in (inp : depgraph_in) : Prop :=
  exists rk : nat -> nat,
    forall x d, x < length (dg_pkgs inp) -> In d (nb_deps (get_pkg (dg_pkgs inp) x)) ->
      rk d < rk x /\ d < length (dg_pkgs inp).

Lemma nth_repeat_false k x : x < k -> nth x (repeat false k) true = false.
Proof. revert x; induction k as [|k IH]; intros [|x] H; cbn; try lia; try reflexivity. apply IH; lia. Qed.

Theorem depgraph_new_topo_ok inp : acyclic_in inp -> topo_ok (depgraph_new inp) = true.
Proof.
  intros [rk Hrk]. unfold topo_ok, depgraph_new. cbn [g_pkgs g_topo].
  set (ps := dg_pkgs inp). set (n := length ps).
  assert (acy : forall x d, x < n -> In d (nb_deps (get_pkg ps x)) -> rk d < rk x) by (intros x d Hx Hd; apply (Hrk x d Hx Hd)).
  assert (rng : forall x d, x < n -> In d (nb_deps (get_pkg ps x)) -> d < n) by (intros x d Hx Hd; apply (Hrk x d Hx Hd)).
  apply (good_order_ok ps).
  set (init := {| df_visited := repeat false n; df_topo := []; df_rev := repeat false n |}).
  assert (I0 : inv ps [] init).
  { constructor; cbn [df_visited df_topo init].
    - apply repeat_length.
    - constructor.
    - intros x [].
    - intros x Hx Hv. unfold vis in Hv. cbn [df_visited init] in Hv. rewrite nth_repeat_false in Hv by exact Hx. discriminate. }
  set (st1 := fold_left (fun s m => visit (S n) ps s m) (dg_members inp) init).
  assert (I1 : inv ps [] st1).
  { apply (visits_spec ps rk acy rng (fun s m => visit (S n) ps s m)); [|exact I0].
    intros s c. exists (df_rev (visit (S (length ps)) ps s c)). unfold n. destruct (visit (S (length ps)) ps s c); reflexivity. }
  apply (i_good ps [] _).
  (* second pass: nested folds *)
  assert (G : forall ms st, inv ps [] st ->
            inv ps [] (fold_left (fun s m =>
                fold_left (fun s child =>
                   let s' := visit (S n) ps s child in
                   {| df_visited := df_visited s'; df_topo := df_topo s'; df_rev := mark (df_rev s') child |})
                  (dev_deps_of (get_pkg ps m)) s) ms st)).
  { induction ms as [|m ms IHm]; intros st I; cbn [fold_left]; [exact I|]. apply IHm.
    apply (visits_spec ps rk acy rng (fun s child =>
                   let s' := visit (S n) ps s child in
                   {| df_visited := df_visited s'; df_topo := df_topo s'; df_rev := mark (df_rev s') child |})); [|exact I].
    intros s c. exists (mark (df_rev (visit (S n) ps s c)) c). reflexivity. }
  apply G. exact I1.
Qed.

(* ---- the roots ---- *)
Lemma nth_map_enumerate_from {A B} (f : nat * A -> B) (l : list A) s x d db :
  x < length l -> nth x (map f (enumerate_from s l)) db = f (s + x, nth x l d).
Proof.
  revert s x; induction l as [|a l IH]; intros s [|x] H; cbn in *; try lia.
  - rewrite Nat.add_0_r. reflexivity.
  - rewrite IH by lia. f_equal. f_equal. lia.
Qed.

Theorem depgraph_new_roots_ok inp : acyclic_in inp -> roots_ok (depgraph_new inp) = true.
Proof.
  intros [rk Hrk]. unfold roots_ok, depgraph_new. cbn [g_pkgs g_root g_member g_dev_only].
  set (ps := dg_pkgs inp). set (n := length ps).
  assert (acy : forall x d, x < n -> In d (nb_deps (get_pkg ps x)) -> rk d < rk x) by (intros x d Hx Hd; apply (Hrk x d Hx Hd)).
  assert (rng : forall x d, x < n -> In d (nb_deps (get_pkg ps x)) -> d < n) by (intros x d Hx Hd; apply (Hrk x d Hx Hd)).
  set (init := {| df_visited := repeat false n; df_topo := []; df_rev := repeat false n |}).
  assert (I0 : inv ps [] init).
  { constructor; cbn [df_visited df_topo init].
    - apply repeat_length.
    - constructor.
    - intros x [].
    - intros x Hx Hv. unfold vis in Hv. cbn [df_visited init] in Hv. rewrite nth_repeat_false in Hv by exact Hx. discriminate. }
  assert (R0 : rinv ps init).
  { constructor; cbn [df_rev df_topo init].
    - apply repeat_length.
    - intros c Hc. exfalso. clear - Hc. revert c Hc. induction n as [|k IH]; intros [|c] Hc; cbn in Hc; try discriminate. exact (IH c Hc).
    - intros p c []. }
  set (st1 := fold_left (fun s m => visit (S n) ps s m) (dg_members inp) init).
  assert (IR : inv ps [] st1 /\ rinv ps st1).
  { unfold st1. generalize (dg_members inp). intros ms. revert I0 R0. generalize init. induction ms as [|m ms IHm]; intros s Is Rs; cbn [fold_left]; [split; assumption|].
    assert (U : ucount (df_visited s) < S n) by (pose proof (ucount_le ps (df_visited s)) as H; rewrite (i_len _ _ _ Is) in H; unfold n; lia).
    destruct (visit_spec ps rk acy rng (S n) [] s m Is (fun g (H : In g []) => match H with end) U) as [I1 _].
    destruct (visit_rspec ps rk acy rng (S n) [] s m Is Rs (fun g (H : In g []) => match H with end) U) as [R1 _].
    apply IHm; assumption. }
  destruct IR as [I1 R1].
  set (member := fold_left mark (dg_members inp) (repeat false n)).
  assert (Hml : length member = n).
  { unfold member. generalize (dg_members inp). intros ms. assert (H : length (repeat false n) = n) by apply repeat_length.
    revert H. generalize (repeat false n). induction ms as [|m ms IHm]; intros l Hl; cbn [fold_left]; [exact Hl|].
    apply IHm. rewrite mark_length. exact Hl. }
  apply forallb_forall. intros x Hx. apply in_seq in Hx. destruct Hx as [_ Hx]. cbn in Hx.
  unfold enumerate. rewrite (nth_map_enumerate_from _ member 0 x false false) by (rewrite Hml; exact Hx). cbn [Nat.add].
  destruct (nth x member false); cbn [andb]; [|reflexivity].
  assert (E : nth x (df_rev st1) false =
              existsb (fun p => negb (nth p (map negb (df_visited st1)) true) && memn x (nb_deps (get_pkg ps p))) (seq 0 n)).
  { destruct (nth x (df_rev st1) false) eqn:Hr; symmetry.
    - destruct (r_sound ps _ R1 x Hr) as [p [Hp [Hv Hd]]]. apply existsb_exists. exists p. split; [apply in_seq; cbn; lia|].
      apply andb_true_intro. split; [|apply memn_spec; exact Hd].
      change true with (negb false) at 1. rewrite map_nth. rewrite negb_involutive.
      unfold vis in Hv. rewrite (nth_indep _ false true) by (rewrite (i_len ps _ _ I1); exact Hp). exact Hv.
    - apply not_true_is_false. intros H. apply existsb_exists in H. destruct H as [p [Hp H]]. apply in_seq in Hp. cbn in Hp.
      apply andb_prop in H. destruct H as [Hv Hd]. apply memn_spec in Hd.
      change true with (negb false) in Hv at 1. rewrite map_nth, negb_involutive in Hv.
      rewrite (nth_indep _ false true) in Hv by (rewrite (i_len ps _ _ I1); lia).
      destruct (i_gray ps _ _ I1 p ltac:(lia) Hv) as [Ht|[]].
      rewrite (r_complete ps _ R1 p x Ht Hd) in Hr. discriminate. }
  rewrite E. apply eqb_reflx.
Qed.
