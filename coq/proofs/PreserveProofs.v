(* PreserveProofs.v — the store an update writes still certifies everything the update's
   own searches certified: every edge on a chosen path has a counterpart (same
   endpoints, the criterion still carried) in the updated store.  This is the core of
   the end-to-end statements of C09 (check, then --locked) and C10 (prune, regenerate,
   certify clean-up keep a passing store passing). *)
Require Import Base Extracted Criteria Search AuditGraph DepGraph Resolve Update.
Require Import CriteriaProofs SearchProofs AuditGraphProofs ResolveProofs UpdateProofs UpdateKeep.
Local Open Scope N_scope.

(* ------------------------------------------------------------------ *)
(* what the required-entry map records *)
Definition has_c (rm : rmap) (e : rentry) (c : N) : Prop := exists s, rmap_get rm e = Some s /\ cs_has c s = true.
Definition covered (rm : rmap) (o : origin) (c : N) : Prop := forall e, In e (entries_of_origin o) -> has_c rm e c.
Definition rm_le (a b : rmap) : Prop := forall e c, has_c a e c -> has_c b e c.

Lemma rm_le_refl a : rm_le a a. Proof. intros e c H; exact H. Qed.
Lemma rm_le_trans a b c : rm_le a b -> rm_le b c -> rm_le a c.
Proof. intros H1 H2 e x H. apply H2, H1, H. Qed.

Lemma has_c_add_same rm e c : has_c (rmap_add rm e c) e c.
Proof.
  unfold has_c. rewrite rmap_get_add. destruct (rentry_eqb_spec e e); [|congruence].
  eexists. split; [reflexivity|]. rewrite cs_has_set, N.eqb_refl. reflexivity.
Qed.
Lemma rm_le_add rm e c : rm_le rm (rmap_add rm e c).
Proof.
  intros e' c' [s [Hg Hc]]. unfold has_c. rewrite rmap_get_add. destruct (rentry_eqb_spec e e') as [<-|Hne].
  - eexists. split; [reflexivity|]. rewrite Hg, cs_has_set, Hc. apply orb_true_r.
  - exists s. auto.
Qed.
Lemma has_c_has rm e c : has_c rm e c -> rmap_has rm e = true.
Proof. intros [s [H _]]. unfold rmap_has. rewrite H. reflexivity. Qed.

Definition add_entries (c : N) (rm : rmap) (es : list rentry) : rmap := fold_left (fun rm e => rmap_add rm e c) es rm.
Definition add_path (c : N) (rm : rmap) (p : list origin) : rmap :=
  fold_left (fun rm o => fold_left (fun rm e => rmap_add rm e c) (entries_of_origin o) rm) p rm.

Lemma add_entries_spec c es : forall rm, rm_le rm (add_entries c rm es) /\ forall e, In e es -> has_c (add_entries c rm es) e c.
Proof.
  induction es as [|e es IH]; intros rm; cbn [add_entries fold_left]; [split; [apply rm_le_refl|intros e []]|].
  destruct (IH (rmap_add rm e c)) as [L H]. fold (add_entries c (rmap_add rm e c) es) in *. split.
  - eapply rm_le_trans; [apply rm_le_add|exact L].
  - intros e' [<-|He']; [apply L, has_c_add_same|apply H; exact He'].
Qed.

Lemma add_path_spec c p : forall rm, rm_le rm (add_path c rm p) /\ forall o, In o p -> covered (add_path c rm p) o c.
Proof.
  induction p as [|o p IH]; intros rm; cbn [add_path fold_left]; [split; [apply rm_le_refl|intros o []]|].
  fold (add_entries c rm (entries_of_origin o)).
  destruct (add_entries_spec c (entries_of_origin o) rm) as [L1 H1].
  destruct (IH (add_entries c rm (entries_of_origin o))) as [L2 H2]. fold (add_path c (add_entries c rm (entries_of_origin o)) p) in *.
  split; [eapply rm_le_trans; eassumption|].
  intros o' [<-|Ho']; [intros e He; apply L2, H1, He|apply H2; exact Ho'].
Qed.

Section Required.
Variables (t : ctable) (ag : audit_graph) (m : search_mode).

Definition inner_step (v : N) (acc : option rmap) (c : N) : option rmap :=
  match acc with
  | None => None
  | Some rm =>
      match ag_search ag c v m with
      | SOk path => Some (fold_left (fun rm o => fold_left (fun rm e => rmap_add rm e c) (entries_of_origin o) rm) path rm)
      | _ => None
      end
  end.

Lemma inner_spec v cl : forall acc rm',
  fold_left (inner_step v) cl acc = Some rm' ->
  exists rm0, acc = Some rm0 /\ rm_le rm0 rm' /\
    forall c, In c cl -> exists path, ag_search ag c v m = SOk path /\ forall o, In o path -> covered rm' o c.
Proof.
  induction cl as [|c cl IH]; intros acc rm' H; cbn [fold_left] in H.
  - exists rm'. split; [exact H|]. split; [apply rm_le_refl|intros c []].
  - destruct (IH _ _ H) as [rm1 [E1 [L1 C1]]]. unfold inner_step in E1.
    destruct acc as [rm0|]; [|discriminate]. destruct (ag_search ag c v m) as [path| |] eqn:Es; try discriminate.
    inversion E1; subst rm1. fold (add_path c rm0 path) in *.
    destruct (add_path_spec c path rm0) as [L0 C0].
    exists rm0. split; [reflexivity|]. split; [eapply rm_le_trans; eassumption|].
    intros c' [<-|Hc']; [|apply C1; exact Hc'].
    exists path. split; [exact Es|]. intros o Ho e He. apply L1. apply (C0 o Ho e He).
Qed.

Lemma outer_spec (reqs : list cset) l : forall acc rm',
  fold_left (fun acc '(i, p) => fold_left (inner_step (pk_version p)) (minimal_indices t (nth i reqs cs_empty)) acc) l acc = Some rm' ->
  exists rm0, acc = Some rm0 /\ rm_le rm0 rm' /\
    forall i p, In (i, p) l -> forall c, In c (minimal_indices t (nth i reqs cs_empty)) ->
      exists path, ag_search ag c (pk_version p) m = SOk path /\ forall o, In o path -> covered rm' o c.
Proof.
  induction l as [|[i p] l IH]; intros acc rm' H; cbn [fold_left] in H.
  - exists rm'. split; [exact H|]. split; [apply rm_le_refl|intros i p []].
  - destruct (IH _ _ H) as [rm1 [E1 [L1 C1]]].
    destruct (inner_spec _ _ _ _ E1) as [rm0 [E0 [L0 C0]]].
    exists rm0. split; [exact E0|]. split; [eapply rm_le_trans; eassumption|].
    intros i' p' [E|Hin] c Hc; [|apply (C1 i' p' Hin c Hc)].
    inversion E; subst i' p'. destruct (C0 c Hc) as [path [Es Hcov]].
    exists path. split; [exact Es|]. intros o Ho e He. apply L1. apply (Hcov o Ho e He).
Qed.
End Required.

Theorem required_entries_covers t g reqs s name m rm ag :
  required_entries t g reqs s name m = Some rm ->
  build t (store_for s name) = inl ag ->
  forall i p, In (i, p) (enumerate (g_pkgs g)) -> pk_name p = name -> pk_third_party p = true ->
  forall c, In c (minimal_indices t (nth i reqs cs_empty)) ->
  exists path, ag_search ag c (pk_version p) m = SOk path /\ forall o, In o path -> covered rm o c.
Proof.
  intros H Hb i p Hin Hn Ht c Hc. unfold required_entries in H.
  assert (Hf : In (i, p) (filter (fun '(i, p) => N.eqb (pk_name p) name && pk_third_party p) (enumerate (g_pkgs g)))).
  { apply filter_In. split; [exact Hin|]. rewrite Hn, N.eqb_refl, Ht. reflexivity. }
  destruct (filter _ (enumerate (g_pkgs g))) as [|pk pkgs] eqn:Epk; [destruct Hf|].
  rewrite Hb in H.
  destruct (outer_spec t ag m reqs (pk :: pkgs) (Some []) rm H) as [rm0 [_ [_ C]]].
  exact (C i p Hf c Hc).
Qed.

(* ------------------------------------------------------------------ *)
(* "semantic" edges: endpoints and one carried criterion *)
Definition sedge (t : ctable) (s : pkg_store) (a b : ver) (c : N) : Prop :=
  exists fe, In fe (all_edges t s) /\ fe_from fe = a /\ fe_to fe = b /\ cs_has c (fe_crit fe) = true.

Lemma fpath_sedge t s c a b w : sedge t s a b c -> fpath t s c b w -> fpath t s c a w.
Proof. intros [fe [Hin [<- [<- Hc]]]] Hp. eapply fp_cons; eauto. Qed.

Lemma in_enumerate_intro {A} (l : list A) x : In x l -> exists i, In (i, x) (enumerate l).
Proof.
  intros H. destruct (In_nth l x x H) as [i [Hi Hn]]. exists i. apply (in_enumerate x). split; assumption.
Qed.

Lemma sedge_audit t s src o a c :
  In (src, o, a) (all_audits s) -> cs_has c (from_list t (au_crit a)) = true ->
  match au_kind a with
  | KFull v => sedge t s None (Some v) c
  | KDelta f v => sedge t s (Some f) (Some v) c
  | KViolation _ => True
  end.
Proof.
  intros Hin Hc. destruct (au_kind a) as [v|f v|r] eqn:K; [| |exact I].
  - eexists. split; [unfold all_edges; apply in_or_app; left; unfold audit_edges; apply in_flat_map;
      exists (src, o, a); split; [exact Hin|rewrite K; left; reflexivity]|]. cbn. auto.
  - eexists. split; [unfold all_edges; apply in_or_app; left; unfold audit_edges; apply in_flat_map;
      exists (src, o, a); split; [exact Hin|rewrite K; left; reflexivity]|]. cbn. auto.
Qed.

Lemma all_audits_local s a : In a (ps_local s) -> exists o, In (None, o, a) (all_audits s).
Proof.
  intros H. destruct (in_enumerate_intro _ _ H) as [i Hi]. exists (OLocal (N.of_nat i) (au_importable a)).
  unfold all_audits. apply in_or_app. right. apply in_map_iff. exists (i, a). split; [reflexivity|exact Hi].
Qed.
Lemma all_audits_imported s l a : In l (ps_imported s) -> In a l -> exists src o, In (src, o, a) (all_audits s).
Proof.
  intros Hl Ha. destruct (in_enumerate_intro _ _ Hl) as [imp Himp]. destruct (in_enumerate_intro _ _ Ha) as [i Hi].
  exists (Some (N.of_nat imp)), (OImported (N.of_nat imp) (N.of_nat i)).
  unfold all_audits. apply in_or_app. left. apply in_flat_map. exists (imp, l). split; [exact Himp|].
  apply in_map_iff. exists (i, a). split; [reflexivity|exact Hi].
Qed.

Lemma all_wildcards_local s w : In w (ps_wild_local s) -> exists ai, In (None, ai, w) (all_wildcards s).
Proof.
  intros H. destruct (in_enumerate_intro _ _ H) as [i Hi]. exists (N.of_nat i).
  unfold all_wildcards. apply in_or_app. right. apply in_map_iff. exists (i, w). split; [reflexivity|exact Hi].
Qed.
Lemma all_wildcards_imported s l w : In l (ps_wild_imported s) -> In w l -> exists imp ai, In (imp, ai, w) (all_wildcards s).
Proof.
  intros Hl Hw. destruct (in_enumerate_intro _ _ Hl) as [imp Himp]. destruct (in_enumerate_intro _ _ Hw) as [i Hi].
  exists (Some (N.of_nat imp)), (N.of_nat i).
  unfold all_wildcards. apply in_or_app. left. apply in_flat_map. exists (imp, l). split; [exact Himp|].
  apply in_map_iff. exists (i, w). split; [reflexivity|exact Hi].
Qed.

Lemma sedge_wildcard t s p imp ai w c :
  In p (ps_publishers s) -> In (imp, ai, w) (all_wildcards s) ->
  wildcard_guard (w_user w) (p_user p) (w_start w) (w_end w) (p_when p) = true ->
  cs_has c (from_list t (w_crit w)) = true -> sedge t s None (Some (p_ver p)) c.
Proof.
  intros Hp Hw G Hc. destruct (in_enumerate_intro _ _ Hp) as [pi Hpi].
  eexists. split.
  - unfold all_edges. apply in_or_app. right. apply in_or_app. left. unfold publisher_edges.
    apply in_flat_map. exists (pi, p). split; [exact Hpi|]. apply in_or_app. left.
    apply in_flat_map. exists (imp, ai, w). split; [exact Hw|]. rewrite G. left. reflexivity.
  - cbn. auto.
Qed.
Lemma sedge_trusted t s p tr c :
  In p (ps_publishers s) -> In tr (ps_trusted s) ->
  trusted_guard (t_user tr) (p_user p) (t_start tr) (t_end tr) (p_when p) = true ->
  cs_has c (from_list t (t_crit tr)) = true -> sedge t s None (Some (p_ver p)) c.
Proof.
  intros Hp Ht G Hc. destruct (in_enumerate_intro _ _ Hp) as [pi Hpi].
  eexists. split.
  - unfold all_edges. apply in_or_app. right. apply in_or_app. left. unfold publisher_edges.
    apply in_flat_map. exists (pi, p). split; [exact Hpi|]. apply in_or_app. right.
    apply in_flat_map. exists tr. split; [exact Ht|]. rewrite G. left. reflexivity.
  - cbn. auto.
Qed.
Lemma sedge_unpublished t s u c :
  In u (ps_unpublished s) -> cs_has c (all_criteria t) = true -> sedge t s (Some (u_as u)) (Some (u_ver u)) c.
Proof.
  intros Hu Hc. destruct (in_enumerate_intro _ _ Hu) as [i Hi]. eexists. split.
  - unfold all_edges. apply in_or_app. right. apply in_or_app. right. apply in_or_app. left.
    unfold unpublished_edges. apply in_map_iff. exists (i, u). split; [reflexivity|exact Hi].
  - cbn. auto.
Qed.
Lemma sedge_exemption t s x c :
  In x (ps_exemptions s) -> cs_has c (from_list t (x_crit x)) = true -> sedge t s None (Some (x_ver x)) c.
Proof.
  intros Hx Hc. destruct (in_enumerate_intro _ _ Hx) as [i Hi]. eexists. split.
  - unfold all_edges. apply in_or_app. right. apply in_or_app. right. apply in_or_app. right.
    unfold exemption_edges. apply in_map_iff. exists (i, x). split; [reflexivity|exact Hi].
  - cbn. auto.
Qed.

(* ------------------------------------------------------------------ *)
(* small facts *)
Lemma in_nth_default {A} (L : list (list A)) k x : In x (nth k L []) -> In (nth k L []) L.
Proof.
  intros H. destruct (Nat.lt_ge_cases k (length L)) as [Hk|Hk]; [apply nth_In; exact Hk|].
  rewrite nth_overflow in H by exact Hk. destruct H.
Qed.

Lemma unpub_eqb_eq a b : unpub_eqb a b = true -> a = b.
Proof.
  unfold unpub_eqb. intros H. apply andb_prop in H. destruct H as [H H4]. apply andb_prop in H. destruct H as [H H3].
  apply andb_prop in H. destruct H as [H1 H2]. apply N.eqb_eq in H1, H2. apply eqb_prop in H3, H4.
  destruct a, b; cbn in *; subst; reflexivity.
Qed.

Lemma dedup_adj_keeps {A} (eqb : A -> A -> bool) :
  (forall a b, eqb a b = true -> a = b) -> forall l x, In x l -> In x (dedup_adj eqb l).
Proof.
  intros Heq. induction l as [|a l IH]; intros x Hx; [destruct Hx|].
  cbn [dedup_adj]. destruct l as [|b l'].
  - exact Hx.
  - destruct (eqb a b) eqn:E.
    + apply Heq in E. subst b. apply IH. destruct Hx as [<-|Hx]; [left; reflexivity|exact Hx].
    + destruct Hx as [<-|Hx]; [left; reflexivity|right; apply IH; exact Hx].
Qed.

Lemma rmap_get_in rm e s : rmap_get rm e = Some s -> In (e, s) rm.
Proof.
  unfold rmap_get. destruct (find _ rm) as [[k s']|] eqn:F; [|discriminate]. intros H. inversion H; subst s'.
  apply find_some in F. destruct F as [Hin Hk]. destruct (rentry_eqb_spec k e); [subst; exact Hin|discriminate].
Qed.

Section Kept2.
Variables (t : ctable) (mode : update_mode) (rm : rmap) (ps : pkg_store).
Let n := ct_len t.
Hypothesis table_acyclic : forall c, ~ reachp t c c.
Hypothesis exemptions_valid : forall x c, In x (ps_exemptions ps) -> In c (x_crit x) -> c < N.of_nat n.
Hypothesis rm_bounded : forall e s c, rmap_get rm e = Some s -> cs_has c s = true -> c < N.of_nat n.

Let u := update_pkg t mode true (Some rm) ps.
Let ps' := apply_pkg_update ps u.

Lemma names_cover S c : bounded t S -> cs_has c S = true -> cs_has c (from_list t (names_of t S)) = true.
Proof.
  intros Hb Hc. destruct (minimal_covers t table_acyclic S Hb c Hc) as [m0 [Hm Hx]].
  apply from_list_spec. exists m0. split; assumption.
Qed.

Lemma kept_exemption i x c :
  nth_error (ps_exemptions ps) i = Some x -> has_c rm (RExemption (N.of_nat i)) c ->
  sedge t ps' None (Some (x_ver x)) c.
Proof.
  intros Hn [s [Hg Hc]].
  assert (Hin : In (i, x) (enumerate (ps_exemptions ps))).
  { apply (in_enumerate x). split; [apply nth_error_Some; congruence|apply nth_error_nth; exact Hn]. }
  assert (Hxin : In x (ps_exemptions ps)) by (eapply nth_error_In; eauto).
  set (original := from_list t (x_crit x)).
  set (useful := if um_prune_exemptions mode then s else cs_union s original).
  assert (Hbo : bounded t original) by (apply from_list_bounded; intros c0 Hc0; eapply exemptions_valid; eauto).
  assert (Hbs : bounded t s) by (intros c0 Hc0; eapply rm_bounded; eauto).
  assert (Hbu : bounded t useful).
  { unfold useful. destruct (um_prune_exemptions mode); [exact Hbs|].
    intros c0 Hc0. rewrite cs_has_union in Hc0. apply orb_prop in Hc0. destruct Hc0; [apply Hbs|apply Hbo]; assumption. }
  assert (Hcu : cs_has c useful = true).
  { unfold useful. destruct (um_prune_exemptions mode); [exact Hc|]. rewrite cs_has_union, Hc. reflexivity. }
  assert (G : exists x', In x' (update_exemptions t mode (Some rm) (ps_exemptions ps)) /\ x_ver x' = x_ver x /\
                         cs_has c (from_list t (x_crit x')) = true).
  { unfold update_exemptions.
    assert (E : exists l, In l (map (fun '(i, x) =>
        let original := from_list t (x_crit x) in
        let useful0 := match rmap_get rm (RExemption (N.of_nat i)) with Some s => s | None => cs_empty end in
        let useful := if um_prune_exemptions mode then useful0 else cs_union useful0 original in
        if cs_is_empty useful then []
        else if negb (x_suggest x) && negb (cs_contains original useful)
             then [ {| x_ver := x_ver x; x_crit := names_of t (cs_clear useful original); x_suggest := true |};
                    {| x_ver := x_ver x; x_crit := names_of t original; x_suggest := x_suggest x |} ]
             else [ {| x_ver := x_ver x; x_crit := names_of t useful; x_suggest := x_suggest x |} ]) (enumerate (ps_exemptions ps))) /\
          exists x', In x' l /\ x_ver x' = x_ver x /\ cs_has c (from_list t (x_crit x')) = true).
    { eexists. split; [apply in_map_iff; exists (i, x); split; [reflexivity|exact Hin]|].
      cbv zeta. rewrite Hg. fold original. fold useful.
      destruct (cs_is_empty useful) eqn:Em.
      - exfalso. rewrite cs_is_empty_spec in Em. rewrite Em in Hcu. discriminate.
      - destruct (negb (x_suggest x) && negb (cs_contains original useful)).
        + destruct (cs_has c original) eqn:Eo.
          * eexists. split; [right; left; reflexivity|]. cbn. split; [reflexivity|apply names_cover; assumption].
          * eexists. split; [left; reflexivity|]. cbn. split; [reflexivity|]. apply names_cover.
            -- intros c0 Hc0. rewrite cs_has_clear in Hc0. apply andb_prop in Hc0. apply Hbu. tauto.
            -- rewrite cs_has_clear, Hcu, Eo. reflexivity.
        + eexists. split; [left; reflexivity|]. cbn. split; [reflexivity|apply names_cover; assumption]. }
    destruct E as [l [Hl [x' [Hx' H']]]]. exists x'. split; [|exact H'].
    rewrite flat_map_concat_map. apply in_concat. exists l. split; assumption. }
  destruct G as [x' [Hx' [Hv Hcc]]]. rewrite <- Hv. apply sedge_exemption; [|exact Hcc].
  unfold ps', apply_pkg_update, u, update_pkg. cbn [ps_exemptions pu_exemptions]. apply in_or_app. left. exact Hx'.
Qed.

Lemma kept_fresh_exemption v c : has_c rm (RFreshExemption v) c -> sedge t ps' None (Some v) c.
Proof.
  intros [s [Hg Hc]]. pose proof (rmap_get_in _ _ _ Hg) as Hin.
  assert (Hx : In {| x_ver := v; x_crit := names_of t s; x_suggest := true |} (ps_exemptions ps')).
  { unfold ps', apply_pkg_update, u, update_pkg. cbn [ps_exemptions pu_exemptions]. apply in_or_app. right.
    unfold fresh_exemptions. apply in_flat_map. exists (RFreshExemption v, s). split; [exact Hin|left; reflexivity]. }
  change (Some v) with (Some (x_ver {| x_ver := v; x_crit := names_of t s; x_suggest := true |})).
  apply sedge_exemption; [exact Hx|]. cbn [x_crit]. apply names_cover; [|exact Hc].
  intros c0 Hc0. eapply rm_bounded; eauto.
Qed.

(* every real edge of the old store whose origin's entries are recorded for c survives *)
Theorem edge_kept fe c :
  In fe (all_edges t ps) -> covered rm (fe_origin fe) c ->
  (cs_has c (fe_crit fe) = true \/ exists i, fe_origin fe = OExemption i) ->
  sedge t ps' (fe_from fe) (fe_to fe) c.
Proof.
  intros Hin Hcov Hc. unfold all_edges in Hin. rewrite !in_app_iff in Hin. destruct Hin as [H|[H|[H|H]]].
  - (* audits *)
    unfold audit_edges in H. apply in_flat_map in H. destruct H as [[[src o] a] [Ha H]].
    assert (Hk : is_violation a = false /\ fe_origin fe = o /\ fe_crit fe = from_list t (au_crit a) /\
                 match au_kind a with KFull v => fe_from fe = None /\ fe_to fe = Some v
                                    | KDelta f v => fe_from fe = Some f /\ fe_to fe = Some v | KViolation _ => False end).
    { unfold is_violation. destruct (au_kind a); cbn in H; try contradiction; destruct H as [<-|[]]; cbn; auto. }
    destruct Hk as [Hv [Ho [Hcr Hends]]].
    unfold all_audits in Ha. rewrite in_app_iff in Ha. destruct Ha as [Ha|Ha].
    + apply in_flat_map in Ha. destruct Ha as [[imp l] [Himp Ha]]. apply in_map_iff in Ha. destruct Ha as [[i a'] [E Hi]].
      injection E as Es Eo Ea. subst a'. rewrite <- Eo in Ho. rewrite Ho in Hcov, Hc. clear Es Eo.
      assert (Hcc : cs_has c (from_list t (au_crit a)) = true) by (destruct Hc as [Hc|[k Hk]]; [rewrite <- Hcr; exact Hc|discriminate Hk]).
      assert (Hna : nth_audit (ps_imported ps) (N.of_nat imp) (N.of_nat i) = Some a).
      { unfold nth_audit. rewrite !Nat2N.id. apply (in_enumerate []) in Himp. apply (in_enumerate a) in Hi.
        destruct Himp as [H1 H2], Hi as [H3 H4]. rewrite (nth_error_nth' _ [] H1), H2, (nth_error_nth' _ a H3), H4. reflexivity. }
      pose proof (kept_imported t mode true rm ps _ _ _ Hna Hv (has_c_has _ _ _ (Hcov _ (or_introl eq_refl)))) as K.
      pose proof (in_nth_default _ _ _ K) as KL.
      destruct (all_audits_imported ps' _ _ KL K) as [src' [o' Hall]].
      pose proof (sedge_audit t ps' src' o' (clear_audit a) c Hall Hcc) as S. cbn [clear_audit au_kind] in S.
      destruct (au_kind a); [destruct Hends as [-> ->]; exact S|destruct Hends as [-> ->]; exact S|destruct Hends].
    + apply in_map_iff in Ha. destruct Ha as [[i a'] [E Hi]]. injection E as Es Eo Ea. subst a'. rewrite <- Eo in Ho. rewrite Ho in Hcov, Hc. clear Es Eo.
      assert (Hcc : cs_has c (from_list t (au_crit a)) = true) by (destruct Hc as [Hc|[k Hk]]; [rewrite <- Hcr; exact Hc|discriminate Hk]).
      assert (Hna : nth_error (ps_local ps) (N.to_nat (N.of_nat i)) = Some a).
      { rewrite Nat2N.id. apply (in_enumerate a) in Hi. destruct Hi as [H3 H4]. rewrite (nth_error_nth' _ a H3), H4. reflexivity. }
      pose proof (kept_local t mode true rm ps _ _ Hna (has_c_has _ _ _ (Hcov _ (or_introl eq_refl)))) as K.
      destruct (all_audits_local ps' a K) as [o' Hall].
      pose proof (sedge_audit t ps' None o' a c Hall Hcc) as S.
      destruct (au_kind a); [destruct Hends as [-> ->]; exact S|destruct Hends as [-> ->]; exact S|destruct Hends].
  - (* grants *)
    destruct (publisher_edge_spec _ _ _ H) as [pi [p [Hp [Hf [Ht Hkind]]]]]. rewrite Hf, Ht.
    assert (Hcp : has_c rm (RPublisher (N.of_nat pi)) c).
    { destruct Hkind as [[imp [ai [w [Ho _]]]]|[tr [Ho _]]]; rewrite Ho in Hcov; apply Hcov.
      - destruct imp; cbn; auto.
      - left. reflexivity. }
    assert (Hnp : nth_error (ps_publishers ps) (N.to_nat (N.of_nat pi)) = Some p) by (rewrite Nat2N.id; exact Hp).
    pose proof (kept_publisher t mode true rm ps _ _ Hnp (has_c_has _ _ _ Hcp)) as Kp.
    change (p_ver p) with (p_ver (clear_pub p)).
    destruct Hkind as [[imp [ai [w [Ho [Hw [G Hcr]]]]]]|[tr [Ho [Htr [G Hcr]]]]].
    + assert (Hcc : cs_has c (from_list t (w_crit w)) = true).
      { destruct Hc as [Hc|[k Hk]]; [rewrite <- Hcr; exact Hc|rewrite Ho in Hk; discriminate]. }
      destruct imp as [a|].
      * assert (Hcw : has_c rm (RWildcard a ai) c) by (apply Hcov; rewrite Ho; left; reflexivity).
        pose proof (kept_wildcard t mode true rm ps a ai w Hw (has_c_has _ _ _ Hcw)) as Kw.
        pose proof (in_nth_default _ _ _ Kw) as KL.
        destruct (all_wildcards_imported ps' _ _ KL Kw) as [imp' [ai' Hall]].
        eapply sedge_wildcard; [exact Kp|exact Hall|exact G|exact Hcc].
      * cbn in Hw. assert (Hwl : In w (ps_wild_local ps')) by (eapply nth_error_In; exact Hw).
        destruct (all_wildcards_local ps' w Hwl) as [ai' Hall].
        eapply sedge_wildcard; [exact Kp|exact Hall|exact G|exact Hcc].
    + assert (Hcc : cs_has c (from_list t (t_crit tr)) = true).
      { destruct Hc as [Hc|[k Hk]]; [rewrite <- Hcr; exact Hc|rewrite Ho in Hk; discriminate]. }
      eapply sedge_trusted; [exact Kp|exact Htr|exact G|exact Hcc].
  - (* unpublished links *)
    unfold unpublished_edges in H. apply in_map_iff in H. destruct H as [[i u0] [<- Hi]]. cbn [fe_from fe_to fe_origin fe_crit] in *.
    assert (Hcc : cs_has c (all_criteria t) = true) by (destruct Hc as [Hc|[k Hk]]; [exact Hc|discriminate Hk]).
    assert (Hr : rmap_has rm (RUnpublished (N.of_nat i)) = true) by (apply (has_c_has _ _ c), Hcov; left; reflexivity).
    assert (K : In (clear_unpub u0) (ps_unpublished ps')).
    { unfold ps', apply_pkg_update, u, update_pkg. cbn [ps_unpublished pu_unpublished].
      apply (dedup_adj_keeps _ unpub_eqb_eq). apply in_sort_by. apply in_map. apply in_map_iff. exists (i, u0). split; [reflexivity|].
      apply filter_In. split; [exact Hi|]. rewrite Hr. destruct (_ && _); reflexivity. }
    exact (sedge_unpublished t ps' (clear_unpub u0) c K Hcc).
  - (* exemptions *)
    unfold exemption_edges in H. apply in_map_iff in H. destruct H as [[i x] [<- Hi]]. cbn [fe_from fe_to fe_origin fe_crit] in *.
    apply (in_enumerate x) in Hi. destruct Hi as [H1 H2].
    apply (kept_exemption i x c); [rewrite (nth_error_nth' _ x H1), H2; reflexivity|apply Hcov; left; reflexivity].
Qed.

(* a chain found by the update's search, with its origins recorded, is a certifying
   path of the updated store *)
Theorem chain_preserved c m v x p lv :
  chain (backward_graph (all_edges t ps)) c m (Some v) x p lv ->
  (forall o, In o p -> covered rm o c) ->
  fpath t ps' c x (Some v).
Proof.
  intros H. induction H as [y|a b e p lv Hc IH He Hu|a w p lv Hm Hc IH]; intros Hcov.
  - constructor.
  - apply in_backward_graph in He. destruct He as [fe [Hfe [Hto ->]]]. cbn [e_to bwd_of e_origin] in *.
    assert (Hp : forall o, In o p -> covered rm o c) by (intros o Ho; apply Hcov; apply in_or_app; left; exact Ho).
    assert (Ho : covered rm (fe_origin fe) c) by (apply Hcov; apply in_or_app; right; left; reflexivity).
    specialize (IH Hp). rewrite <- Hto in IH.
    eapply fpath_sedge; [|exact IH]. apply edge_kept; [exact Hfe|exact Ho|].
    unfold usable in Hu. cbn [e_origin e_crit bwd_of] in Hu. apply orb_prop in Hu. destruct Hu as [Hu|Hu]; [|left; exact Hu].
    right. destruct m; try discriminate. destruct (fe_origin fe); try discriminate. eauto.
  - assert (Hp : forall o, In o p -> covered rm o c) by (intros o Ho; apply Hcov; apply in_or_app; left; exact Ho).
    assert (Ho : covered rm (OFreshExemption w) c) by (apply Hcov; apply in_or_app; right; left; reflexivity).
    specialize (IH Hp). eapply fpath_sedge; [|exact IH]. apply kept_fresh_exemption. apply Ho. left. reflexivity.
Qed.
End Kept2.

(* ------------------------------------------------------------------ *)
(* no update outside RegenerateExemptions creates a violation conflict *)
Definition hit (t : ctable) (va : audit) (crit : list N) : bool :=
  existsb (fun v => cs_contains (from_list t crit) v) (map (fun c => from_list t [c]) (au_crit va)).
Definition inr (range : list N) (v : N) : bool := existsb (N.eqb v) range.

Lemma conflict_exemption_intro t s vsrc vo va range x :
  In (vsrc, vo, va) (all_audits s) -> au_kind va = KViolation range ->
  In x (ps_exemptions s) -> hit t va (x_crit x) = true -> inr range (x_ver x) = true ->
  violation_conflicts t s <> [].
Proof.
  intros Hva Hk Hx Hh Hr E. destruct (in_enumerate_intro _ _ Hx) as [xi Hxi].
  assert (Hin : In (UnauditedConflict vsrc (origin_audit_index vo) (N.of_nat xi)) (violation_conflicts t s)).
  { unfold violation_conflicts. apply in_flat_map. exists (vsrc, vo, va). split; [exact Hva|]. rewrite Hk.
    apply in_or_app. left. apply in_flat_map. exists (xi, x). split; [exact Hxi|].
    fold (hit t va (x_crit x)). fold (inr range (x_ver x)). rewrite Hh, Hr. left. reflexivity. }
  rewrite E in Hin. destruct Hin.
Qed.

Lemma conflict_audit_intro t s vsrc vo va range asrc ao a :
  In (vsrc, vo, va) (all_audits s) -> au_kind va = KViolation range ->
  In (asrc, ao, a) (all_audits s) -> hit t va (au_crit a) = true ->
  match au_kind a with KFull v => inr range v = true | KDelta f v => inr range f || inr range v = true | KViolation _ => False end ->
  violation_conflicts t s <> [].
Proof.
  intros Hva Hk Ha Hh Hr E.
  assert (Hin : In (AuditConflict vsrc (origin_audit_index vo) asrc (origin_audit_index ao)) (violation_conflicts t s)).
  { unfold violation_conflicts. apply in_flat_map. exists (vsrc, vo, va). split; [exact Hva|]. rewrite Hk.
    apply in_or_app. right. apply in_flat_map. exists (asrc, ao, a). split; [exact Ha|].
    fold (hit t va (au_crit a)). rewrite Hh.
    destruct (au_kind a) as [v|f v|r]; [fold (inr range v); rewrite Hr; left; reflexivity| |destruct Hr].
    fold (inr range f). fold (inr range v). rewrite Hr. left. reflexivity. }
  rewrite E in Hin. destruct Hin.
Qed.

Lemma conflict_elim t s cf : In cf (violation_conflicts t s) ->
  exists vsrc vo va range, In (vsrc, vo, va) (all_audits s) /\ au_kind va = KViolation range /\
   ((exists x, In x (ps_exemptions s) /\ hit t va (x_crit x) = true /\ inr range (x_ver x) = true) \/
    (exists asrc ao a, In (asrc, ao, a) (all_audits s) /\ hit t va (au_crit a) = true /\
       match au_kind a with KFull v => inr range v = true | KDelta f v => inr range f || inr range v = true | KViolation _ => False end)).
Proof.
  unfold violation_conflicts. intros H. apply in_flat_map in H. destruct H as [[[vsrc vo] va] [Hva H]].
  destruct (au_kind va) as [| |range] eqn:Hk; try destruct H.
  exists vsrc, vo, va, range. split; [exact Hva|]. split; [exact Hk|].
  apply in_app_or in H. destruct H as [H|H].
  - left. apply in_flat_map in H. destruct H as [[xi x] [Hxi H]].
    fold (hit t va (x_crit x)) in H. fold (inr range (x_ver x)) in H.
    destruct (hit t va (x_crit x) && inr range (x_ver x)) eqn:E; [|destruct H]. apply andb_prop in E.
    exists x. split; [|exact E]. apply (in_enumerate x) in Hxi. destruct Hxi as [H1 <-]. apply nth_In. exact H1.
  - right. apply in_flat_map in H. destruct H as [[[asrc ao] a] [Ha H]]. fold (hit t va (au_crit a)) in H.
    destruct (hit t va (au_crit a)) eqn:Eh; [|destruct H]. exists asrc, ao, a. split; [exact Ha|]. split; [exact Eh|].
    destruct (au_kind a) as [v|f v|r].
    + fold (inr range v) in H. destruct (inr range v); [reflexivity|destruct H].
    + fold (inr range f) in H. fold (inr range v) in H. destruct (inr range f || inr range v); [reflexivity|destruct H].
    + destruct H.
Qed.

Lemma hit_mono t va l l' :
  (forall c, cs_has c (from_list t l') = true -> cs_has c (from_list t l) = true) ->
  hit t va l' = true -> hit t va l = true.
Proof.
  intros Hsub H. unfold hit in *. apply existsb_exists in H. destruct H as [v [Hv H]]. apply existsb_exists. exists v.
  split; [exact Hv|]. apply cs_contains_spec. intros c Hc. apply Hsub. rewrite cs_contains_spec in H. apply H. exact Hc.
Qed.

(* keys of a required-entry map are unique *)
Lemma rmap_add_keys rm e c : NoDup (map fst rm) -> NoDup (map fst (rmap_add rm e c)).
Proof.
  induction rm as [|[k s0] rm IH]; intros ND; cbn [rmap_add map fst].
  - constructor; [intros []|constructor].
  - inversion ND as [|? ? Hk ND']; subst. destruct (rentry_eqb_spec k e) as [->|Hne]; cbn [map fst].
    + constructor; assumption.
    + constructor; [|apply IH; exact ND'].
      intros H. apply Hk. clear - H Hne. induction rm as [|[k' s'] rm IH]; cbn [rmap_add map fst] in H.
      * destruct H as [H|[]]. congruence.
      * destruct (rentry_eqb_spec k' e) as [->|Hne']; cbn [map fst] in H |- *.
        -- exact H.
        -- destruct H as [H|H]; [left; exact H|right; apply IH; exact H].
Qed.

Lemma nodup_get rm : NoDup (map fst rm) -> forall e s, In (e, s) rm -> rmap_get rm e = Some s.
Proof.
  unfold rmap_get. induction rm as [|[k s0] rm IH]; intros ND e s Hin; [destruct Hin|].
  inversion ND as [|? ? Hk ND']; subst. cbn [find]. destruct Hin as [E|Hin].
  - inversion E; subst. destruct (rentry_eqb_spec e e); [reflexivity|congruence].
  - destruct (rentry_eqb_spec k e) as [->|Hne]; [|apply IH; assumption].
    exfalso. apply Hk. apply in_map_iff. exists (e, s). split; [reflexivity|exact Hin].
Qed.

(* anything true of [] and preserved by rmap_add holds of what required_entries returns *)
Lemma required_entries_ind (Q : rmap -> Prop) t g reqs s name m rm :
  Q [] -> (forall rm e c, c < N.of_nat (ct_len t) -> Q rm -> Q (rmap_add rm e c)) ->
  required_entries t g reqs s name m = Some rm -> Q rm.
Proof.
  intros Q0 Qadd. unfold required_entries.
  destruct (filter _ (enumerate (g_pkgs g))) as [|pk pkgs]; [intros H; inversion H; exact Q0|].
  destruct (build t (store_for s name)) as [ag|]; [|discriminate].
  assert (Qpath : forall c p rm0, c < N.of_nat (ct_len t) -> Q rm0 -> Q (fold_left (fun rm o => fold_left (fun rm e => rmap_add rm e c) (entries_of_origin o) rm) p rm0)).
  { intros c p rm0 Hc. revert rm0. induction p as [|o p IH]; intros rm0 H0; cbn [fold_left]; [exact H0|]. apply IH.
    generalize (entries_of_origin o). intros es. revert rm0 H0. induction es as [|e es IHe]; intros rm0 H0; cbn [fold_left]; [exact H0|].
    apply IHe. apply Qadd; [exact Hc|exact H0]. }
  generalize (pk :: pkgs). intros l.
  assert (G : forall l acc, (forall r, acc = Some r -> Q r) ->
     forall r, fold_left (fun acc '(i, p) =>
          fold_left (fun acc c =>
            match acc with
            | None => None
            | Some rm =>
                match ag_search ag c (pk_version p) m with
                | SOk path => Some (fold_left (fun rm o => fold_left (fun rm e => rmap_add rm e c) (entries_of_origin o) rm) path rm)
                | _ => None
                end
            end) (minimal_indices t (nth i reqs cs_empty)) acc) l acc = Some r -> Q r).
  { induction l0 as [|[i p] l0 IH]; intros acc Hacc r H; cbn [fold_left] in H; [apply Hacc; exact H|].
    eapply IH; [|exact H]. clear H IH.
    assert (Hcl : forall c, In c (minimal_indices t (nth i reqs cs_empty)) -> c < N.of_nat (ct_len t)) by (intros c Hc; apply minimal_spec in Hc; tauto).
    revert Hcl. generalize (minimal_indices t (nth i reqs cs_empty)). intros cl Hcl. revert acc Hacc.
    induction cl as [|c cl IHc]; intros acc Hacc r0 Hr; cbn [fold_left] in Hr; [apply Hacc; exact Hr|].
    eapply IHc; [intros c' Hc'; apply Hcl; right; exact Hc'| |exact Hr]. intros r' Hr'. destruct acc as [rm1|]; [|discriminate].
    destruct (ag_search ag c (pk_version p) m) as [path| |]; try discriminate.
    inversion Hr'; subst. apply Qpath; [apply Hcl; left; reflexivity|]. apply Hacc. reflexivity. }
  intros H. eapply G; [|exact H]. intros r Hr. inversion Hr. exact Q0.
Qed.

Theorem required_entries_nodup t g reqs s name m rm :
  required_entries t g reqs s name m = Some rm -> NoDup (map fst rm).
Proof. apply (required_entries_ind (fun rm => NoDup (map fst rm))); [constructor|intros; apply rmap_add_keys; assumption]. Qed.

(* every recorded criterion is one of the table's *)
Theorem required_entries_bounded t g reqs s name m rm :
  required_entries t g reqs s name m = Some rm ->
  forall e s0 c, rmap_get rm e = Some s0 -> cs_has c s0 = true -> c < N.of_nat (ct_len t).
Proof.
  intros H. pattern rm. revert H. apply required_entries_ind.
  - intros e s0 c H. discriminate.
  - intros rm0 e c Hc IH e' s0 c' Hg Hc'. rewrite rmap_get_add in Hg. destruct (rentry_eqb_spec e e') as [<-|Hne]; [|eapply IH; eauto].
    inversion Hg; subst s0. rewrite cs_has_set in Hc'. apply orb_prop in Hc'. destruct Hc' as [E|E].
    + apply N.eqb_eq in E. subst c'. exact Hc.
    + destruct (rmap_get rm0 e) eqn:Eg; [eapply IH; eauto|rewrite cs_has_empty in E; discriminate].
Qed.

Section NoNewConflicts.
Variables (t : ctable) (mode : update_mode) (rm : rmap) (ps : pkg_store).
Hypothesis rm_ok : rmap_inv (exemption_ok t ps) rm.
Hypothesis rm_nodup : NoDup (map fst rm).
Let u := update_pkg t mode true (Some rm) ps.
Let ps' := apply_pkg_update ps u.

Lemma all_audits_back src' o' a' : In (src', o', a') (all_audits ps') ->
  exists src o a, In (src, o, a) (all_audits ps) /\ au_kind a = au_kind a' /\ au_crit a = au_crit a'.
Proof.
  unfold all_audits at 1. intros H. apply in_app_or in H. destruct H as [H|H].
  - apply in_flat_map in H. destruct H as [[imp l'] [Himp H]]. apply in_map_iff in H. destruct H as [[i a0] [E Hi]].
    injection E as _ _ Ea. subst a0.
    apply (in_enumerate []) in Himp. destruct Himp as [H1 H2].
    assert (Ha' : In a' (nth imp (pu_imported u) [])).
    { unfold ps', apply_pkg_update in H2. cbn [ps_imported] in H2. rewrite H2. apply (in_enumerate a') in Hi. destruct Hi as [H3 <-]. apply nth_In. exact H3. }
    destruct (update_imported_from_live t mode true (Some rm) ps imp a' Ha') as [a [Ha ->]].
    destruct (all_audits_imported ps _ a (in_nth_default _ _ _ Ha) Ha) as [src [o Hall]].
    exists src, o, a. split; [exact Hall|split; reflexivity].
  - apply in_map_iff in H. destruct H as [[i a0] [E Hi]]. injection E as _ _ Ea. subst a0.
    assert (Ha' : In a' (pu_local u)).
    { apply (in_enumerate a') in Hi. destruct Hi as [H3 <-]. apply nth_In. exact H3. }
    apply update_local_audits_subset in Ha'. destruct (all_audits_local ps a' Ha') as [o Hall].
    exists None, o, a'. split; [exact Hall|split; reflexivity].
Qed.

Lemma exemptions_back va x' : In x' (ps_exemptions ps') -> hit t va (x_crit x') = true ->
  exists x, In x (ps_exemptions ps) /\ x_ver x = x_ver x' /\ hit t va (x_crit x) = true.
Proof.
  unfold ps', apply_pkg_update, u, update_pkg. cbn [ps_exemptions pu_exemptions]. intros H Hh. apply in_app_or in H. destruct H as [H|H].
  - destruct (update_exemptions_narrowed t mode (Some rm) (ps_exemptions ps) x') as [x [Hx Hn]]; [|exact H|].
    + intros rm0 E i s c Hg Hc. inversion E; subst rm0. exact (rm_ok _ _ _ Hg Hc).
    + destruct Hn as [Hv [_ Hsub]]. exists x. split; [exact Hx|]. split; [symmetry; exact Hv|]. eapply hit_mono; [exact Hsub|exact Hh].
  - exfalso. unfold fresh_exemptions in H. apply in_flat_map in H. destruct H as [[e s] [Hin H]].
    destruct e; try contradiction. destruct H as [<-|[]]. cbn [x_crit] in Hh.
    unfold hit in Hh. apply existsb_exists in Hh. destruct Hh as [vs [Hvs Hc]].
    apply in_map_iff in Hvs. destruct Hvs as [c0 [<- _]].
    rewrite cs_contains_spec in Hc. specialize (Hc c0).
    assert (Hc0 : cs_has c0 (from_list t [c0]) = true) by (apply from_list_spec; exists c0; split; [left; reflexivity|apply closure_refl]).
    specialize (Hc Hc0). apply from_list_spec in Hc. destruct Hc as [m0 [Hm _]]. apply minimal_subset in Hm.
    exact (rm_ok _ _ _ (nodup_get _ rm_nodup _ _ Hin) Hm).
Qed.
Lemma hit_ext va va' l : au_crit va = au_crit va' -> hit t va l = hit t va' l.
Proof. intros E. unfold hit. rewrite E. reflexivity. Qed.

Theorem no_new_conflicts : violation_conflicts t ps = [] -> violation_conflicts t ps' = [].
Proof.
  intros E0. destruct (violation_conflicts t ps') as [|cf rest] eqn:E1; [reflexivity|exfalso].
  assert (Hcf : In cf (violation_conflicts t ps')) by (rewrite E1; left; reflexivity).
  destruct (conflict_elim _ _ _ Hcf) as [vsrc' [vo' [va' [range [Hva' [Hk' Hcase]]]]]].
  destruct (all_audits_back _ _ _ Hva') as [vsrc [vo [va [Hva [Hkk Hcc]]]]].
  assert (Hk : au_kind va = KViolation range) by congruence.
  destruct Hcase as [[x' [Hx' [Hh Hr]]]|[asrc' [ao' [a' [Ha' [Hh Hr]]]]]].
  - destruct (exemptions_back va' x' Hx' Hh) as [x [Hx [Hv Hhx]]].
    apply (conflict_exemption_intro t ps vsrc vo va range x Hva Hk Hx); [|rewrite Hv; exact Hr|exact E0].
    rewrite (hit_ext va va' _ Hcc). exact Hhx.
  - destruct (all_audits_back _ _ _ Ha') as [asrc [ao [a [Ha [Hka Hca]]]]].
    apply (conflict_audit_intro t ps vsrc vo va range asrc ao a Hva Hk Ha); [| |exact E0].
    + rewrite (hit_ext va va' _ Hcc), Hca. exact Hh.
    + rewrite Hka. exact Hr.
Qed.
End NoNewConflicts.
