(* CertifyProofs.v — C10 for the commands that ADD what the user asked for and then clean up:
   `certify` (a new local audit for the target crate, then the targeted pruning update) and `trust`
   keep a passing store passing, unless the new audit itself collides with a violation entry. *)
Require Import Base Extracted Criteria Search AuditGraph DepGraph Resolve Update Commands.
Require Import CriteriaProofs SearchProofs AuditGraphProofs ResolveProofs ResolveTheorems FuelProofs SuggestProofs SuggestHeal EndToEnd.
Require Import CertifyCollapse CollapseProofs.
Local Open Scope N_scope.

(* adding a local audit keeps every certification; with no new violation conflict the store still vets *)
Theorem add_audit_preserves_vetting inp s name a :
  vets inp s ->
  (forall i p, pkg_at inp s i p -> pk_third_party p = true ->
     violation_conflicts (st_criteria s) (store_for (add_audit_store s name a) (pk_name p)) = []) ->
  vets inp (add_audit_store s name a).
Proof.
  intros [x [y [z Hs]]] Hnv. unfold vets.
  apply (success_complete inp (add_audit_store s name a) (no_fuel_always inp (add_audit_store s name a))).
  intros i p Hp Ht. unfold pkg_at in Hp. change (r_graph (resolve inp (add_audit_store s name a))) with (r_graph (resolve inp s)) in Hp.
  split; [exact (Hnv i p Hp Ht)|].
  intros c Hlt Hreq. change (required_of inp (add_audit_store s name a) i) with (required_of inp s i) in Hreq.
  cbn [st_criteria add_audit_store] in *.
  pose proof (success_sound inp s x y z Hs i p Hp Ht c Hlt Hreq) as Hc.
  unfold certified in *. eapply fpath_mono; [|exact Hc]. intros e He. apply add_store_edges_mono. exact He.
Qed.

Lemma store_ok_add inp s name a :
  (forall c, In c (au_crit a) -> c < N.of_nat (ct_len (st_criteria s))) ->
  store_ok inp s -> store_ok inp (add_audit_store s name a).
Proof.
  intros _ [A [B C]]. split; [exact A|]. split.
  - intros n x c Hx Hc. destruct (N.eq_dec n name) as [->|Hne].
    + rewrite store_for_add_same in Hx. cbn [ps_exemptions add_local_audit] in Hx. eapply B; eauto.
    + rewrite store_for_add_other in Hx by exact Hne. eapply B; eauto.
  - intros p Hp. specialize (C p Hp). unfold add_audit_store. cbn [st_pkgs]. destruct (has_name s name) eqn:Hn.
    + intros F. apply C. clear C. induction (st_pkgs s) as [|[k ps] l IH]; [reflexivity|]. cbn [map find] in *.
      destruct (N.eqb k name); cbn [find] in F; destruct (N.eqb k (pk_name p)); try discriminate; apply IH; exact F.
    + cbn [find]. destruct (N.eqb name (pk_name p)); [discriminate|exact C].
Qed.

(* certify = add the audit, then the clean-up update aimed at the target crate *)
Definition cmd_certify (target : N) (a : audit) (inp : depgraph_in) (s : store) : store :=
  cleanup_certify target inp (add_audit_store s target a).

Theorem certify_preserves_vetting inp s target a :
  store_ok inp s -> (forall c, In c (au_crit a) -> c < N.of_nat (ct_len (st_criteria s))) ->
  vets inp s ->
  (forall i p, pkg_at inp s i p -> pk_third_party p = true ->
     violation_conflicts (st_criteria s) (store_for (add_audit_store s target a) (pk_name p)) = []) ->
  vets inp (cmd_certify target a inp s).
Proof.
  intros Hok Hb Hv Hnv. unfold cmd_certify. apply certify_cleanup_preserves.
  - apply store_ok_add; assumption.
  - apply add_audit_preserves_vetting; assumption.
Qed.

(* ... and the same when the audit that is recorded is the user's delta FOLDED with an adjacent prior audit
   (CertifyCollapse.certified_entry): whatever entry certify records, a passing store stays passing *)
Theorem certify_fold_preserves_vetting inp s target imp_of from_is_git no_collapse new :
  let e := certified_entry imp_of (st_criteria s) (store_for s target) from_is_git no_collapse new in
  store_ok inp s -> (forall c, In c (au_crit new) -> c < N.of_nat (ct_len (st_criteria s))) ->
  vets inp s ->
  (forall i p, pkg_at inp s i p -> pk_third_party p = true ->
     violation_conflicts (st_criteria s) (store_for (add_audit_store s target e) (pk_name p)) = []) ->
  vets inp (cmd_certify target e inp s).
Proof.
  intros e Hok Hb Hv Hnv. apply certify_preserves_vetting; try assumption.
  unfold e. rewrite certify_writes_the_requested_criteria. exact Hb.
Qed.
