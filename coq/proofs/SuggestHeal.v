(* SuggestHeal.v — C17 at the level of the whole resolver: certifying EVERY audit that
   compute_suggest proposes (for the criteria it proposes) turns a FailForVet report into
   Success, unless one of the new audits collides with a violation entry. *)
Require Import Base Extracted Criteria Search AuditGraph DepGraph Resolve Show Suggest.
Require Import CriteriaProofs SearchProofs AuditGraphProofs ResolveProofs ResolveTheorems FuelProofs SuggestProofs EndToEnd.
Local Open Scope N_scope.

(* ---- certifying an audit for a crate name in the whole store ---- *)
Definition has_name (s : store) (name : N) : bool := existsb (fun '(n, _) => N.eqb n name) (st_pkgs s).

Definition add_audit_store (s : store) (name : N) (a : audit) : store :=
  {| st_criteria := st_criteria s;
     st_pkgs := if has_name s name
                then map (fun '(n, ps) => if N.eqb n name then (n, add_local_audit ps a) else (n, ps)) (st_pkgs s)
                else (name, add_local_audit empty_pkg_store a) :: st_pkgs s |}.

Lemma store_for_add_same s name a : store_for (add_audit_store s name a) name = add_local_audit (store_for s name) a.
Proof.
  unfold store_for, add_audit_store, has_name. cbn [st_pkgs].
  destruct (existsb _ (st_pkgs s)) eqn:E.
  - induction (st_pkgs s) as [|[k ps] l IH]; [discriminate|]. cbn [map find existsb] in *.
    destruct (N.eqb k name) eqn:K; cbn [find]; rewrite K; [reflexivity|]. apply IH. exact E.
  - cbn [find]. rewrite N.eqb_refl.
    assert (F : find (fun '(n, _) => N.eqb n name) (st_pkgs s) = None).
    { induction (st_pkgs s) as [|[k ps] l IH]; [reflexivity|]. cbn [existsb find] in *.
      destruct (N.eqb k name); [discriminate|]. apply IH. exact E. }
    rewrite F. reflexivity.
Qed.

Lemma store_for_add_other s name a other : other <> name -> store_for (add_audit_store s name a) other = store_for s other.
Proof.
  intros Hne. unfold store_for, add_audit_store. cbn [st_pkgs]. destruct (has_name s name).
  - induction (st_pkgs s) as [|[k ps] l IH]; [reflexivity|]. cbn [map find].
    destruct (N.eqb k name) eqn:K; cbn [find].
    + apply N.eqb_eq in K. subst k. destruct (N.eqb name other) eqn:K2; [apply N.eqb_eq in K2; congruence|exact IH].
    + destruct (N.eqb k other); [reflexivity|exact IH].
  - cbn [find]. destruct (N.eqb name other) eqn:K2; [apply N.eqb_eq in K2; congruence|reflexivity].
Qed.

(* the audit `cargo vet certify` records for a suggestion: the proposed delta (or full audit,
   when the proposal starts at the root) for the minimal names of the proposed criteria *)
Definition item_audit (t : ctable) (it : sitem) : audit := new_audit (si_from it) (si_to it) (minimal_indices t (si_crit it)).

Definition apply_items (s : store) (items : list sitem) : store :=
  fold_left (fun s it => add_audit_store s (si_name it) (item_audit (st_criteria s) it)) items s.

Lemma apply_items_criteria items : forall s, st_criteria (apply_items s items) = st_criteria s.
Proof. induction items as [|it items IH]; intros s; cbn [apply_items fold_left]; [reflexivity|]. fold (apply_items (add_audit_store s (si_name it) (item_audit (st_criteria s) it)) items). rewrite IH. reflexivity. Qed.

Lemma add_store_edges_mono t s name a other e :
  In e (all_edges t (store_for s other)) -> In e (all_edges t (store_for (add_audit_store s name a) other)).
Proof.
  intros H. destruct (N.eq_dec other name) as [->|Hne].
  - rewrite store_for_add_same. apply all_edges_add. exact H.
  - rewrite store_for_add_other by exact Hne. exact H.
Qed.

Lemma apply_items_edges_mono t items : forall s other e,
  In e (all_edges t (store_for s other)) -> In e (all_edges t (store_for (apply_items s items) other)).
Proof.
  induction items as [|it items IH]; intros s other e H; cbn [apply_items fold_left]; [exact H|].
  fold (apply_items (add_audit_store s (si_name it) (item_audit (st_criteria s) it)) items).
  apply IH. apply add_store_edges_mono. exact H.
Qed.

(* every applied item leaves its edge in the final store *)
Lemma apply_items_edge t items : forall s it, st_criteria s = t -> In it items ->
  exists e, In e (all_edges t (store_for (apply_items s items) (si_name it))) /\
            fe_from e = si_from it /\ fe_to e = Some (si_to it) /\ fe_crit e = from_list t (minimal_indices t (si_crit it)).
Proof.
  induction items as [|x items IH]; intros s it Ht Hin; [destruct Hin|].
  cbn [apply_items fold_left]. fold (apply_items (add_audit_store s (si_name x) (item_audit (st_criteria s) x)) items).
  destruct Hin as [->|Hin].
  - destruct (new_edge t (store_for s (si_name it)) (si_from it) (si_to it) (minimal_indices t (si_crit it))) as [e [He Hf]].
    exists e. split; [|exact Hf]. apply apply_items_edges_mono. rewrite store_for_add_same, Ht. exact He.
  - apply IH; [cbn [add_audit_store st_criteria]; exact Ht|exact Hin].
Qed.

(* ---- the graph and the requirements do not depend on the audits ---- *)
Lemma resolve_graph_same inp s s' : r_graph (resolve inp s') = r_graph (resolve inp s).
Proof. reflexivity. Qed.
Lemma resolve_reqs_same inp s s' : st_criteria s' = st_criteria s -> r_requirements (resolve inp s') = r_requirements (resolve inp s).
Proof. intros H. unfold resolve. cbn [r_requirements]. rewrite H. reflexivity. Qed.

(* ---- sorting and de-duplication keep every proposal (criteria merged) ---- *)
Lemma insert_stable_in dcount x y l : In y (insert_stable dcount x l) <-> y = x \/ In y l.
Proof.
  induction l as [|z l IH]; cbn [insert_stable]; [cbn; intuition congruence|].
  destruct (item_leb dcount z x); cbn [In]; [rewrite IH|]; intuition congruence.
Qed.
Lemma sort_items_in dcount l y : In y (sort_items dcount l) <-> In y l.
Proof.
  unfold sort_items. assert (G : forall l acc, In y (fold_left (fun acc x => insert_stable dcount x acc) l acc) <-> In y l \/ In y acc).
  { induction l0 as [|x l0 IH]; intros acc; cbn [fold_left]; [cbn; tauto|]. rewrite IH, insert_stable_in. cbn [In]. intuition. }
  rewrite G. cbn. tauto.
Qed.

Definition covers_item (x y : sitem) : Prop :=
  si_name y = si_name x /\ si_from y = si_from x /\ si_to y = si_to x /\ forall c, cs_has c (si_crit x) = true -> cs_has c (si_crit y) = true.

Lemma covers_refl x : covers_item x x.
Proof. unfold covers_item. auto. Qed.

Lemma same_suggestion_eq a b : same_suggestion a b = true -> si_name a = si_name b /\ si_from a = si_from b /\ si_to a = si_to b.
Proof.
  unfold same_suggestion. intros H. apply andb_prop in H. destruct H as [H H3]. apply andb_prop in H. destruct H as [H1 H2].
  apply N.eqb_eq in H1, H3. destruct (ver_eqb_spec (si_from a) (si_from b)); [auto|discriminate].
Qed.

Lemma dedup_covers l : forall cur x, (In x l \/ (exists c, cur = Some c /\ covers_item x c)) ->
  exists y, In y (dedup_items true l cur) /\ covers_item x y.
Proof.
  induction l as [|z l IH]; intros cur x H; cbn [dedup_items].
  - destruct H as [[]|[c [-> Hc]]]. exists c. split; [left; reflexivity|exact Hc].
  - destruct cur as [c|].
    + destruct (same_suggestion z c) eqn:E.
      * apply same_suggestion_eq in E. destruct E as [E1 [E2 E3]].
        apply IH. destruct H as [[->|H]|[c' [Hc' Hcov]]].
        -- right. eexists. split; [reflexivity|]. unfold covers_item. cbn [si_name si_from si_to si_crit].
           repeat split; auto. intros c0 Hc0. rewrite cs_has_union, Hc0. apply orb_true_r.
        -- left. exact H.
        -- inversion Hc'; subst c'. right. eexists. split; [reflexivity|]. destruct Hcov as [A [B [C D]]].
           unfold covers_item. cbn [si_name si_from si_to si_crit]. repeat split; auto.
           intros c0 Hc0. rewrite cs_has_union, (D c0 Hc0). reflexivity.
      * destruct H as [[->|H]|[c' [Hc' Hcov]]].
        -- destruct (IH (Some x) x) as [y [Hy Hc]]; [right; eexists; split; [reflexivity|apply covers_refl]|].
           exists y. split; [right; exact Hy|exact Hc].
        -- destruct (IH (Some z) x (or_introl H)) as [y [Hy Hc]]. exists y. split; [right; exact Hy|exact Hc].
        -- inversion Hc'; subst c'. exists c. split; [left; reflexivity|exact Hcov].
    + destruct H as [[->|H]|[c' [Hc' _]]]; [|apply IH; left; exact H|discriminate].
      apply IH. right. eexists. split; [reflexivity|apply covers_refl].
Qed.

(* ---- the theorem ---- *)
Section Heal.
Variable dcount : ver -> N -> N.
Variable has_sources : N -> N -> N -> bool.
Variables (inp : depgraph_in) (s : store).
Let r := resolve inp s.
Let t := st_criteria s.
Let items := compute_suggest dcount has_sources r.
Let s' := apply_items s items.

Hypothesis table_acyclic : forall c, ~ reachp t c c.

Lemma healed_pair fs i p c :
  r_conclusion r = FailForVet fs ->
  (forall i cf, In (i, cf) fs -> item_for dcount has_sources r i cf <> []) ->
  pkg_at inp s i p -> pk_third_party p = true ->
  c < N.of_nat (ct_len t) -> cs_has c (required_of inp s i) = true ->
  certified t (store_for s' (pk_name p)) c (pk_version p).
Proof.
  intros Hc Hall Hp Ht Hlt Hreq.
  assert (Hmono : forall e, In e (all_edges t (store_for s (pk_name p))) -> In e (all_edges t (store_for s' (pk_name p))))
    by (intros e; apply apply_items_edges_mono).
  destruct (third_party_result inp s i p Hp Ht) as [o [Ho [Eo Hres]]].
  destruct Hres as [[cs Hcs]|[rs Hrs]].
  { exfalso. unfold resolve in Hc. cbn [r_conclusion] in Hc. unfold r, resolve in Hc. cbn [r_conclusion] in Hc. unfold conclude in Hc.
    match type of Hc with context [match ?V with [] => _ | _ :: _ => _ end] => destruct V eqn:EV end; [|discriminate].
    assert (X : In (i, cs) (flat_map (fun '(i, o) => match po_result o with PViolation cs => [(i, cs)] | _ => [] end)
                   (enumerate (r_outcomes (resolve inp s))))).
    { apply in_flat_map. exists (i, o). split.
      - apply (in_enumerate o). split; [apply nth_error_Some; congruence|apply nth_error_nth; exact Ho].
      - rewrite Hcs. left. reflexivity. }
    unfold resolve in X. cbn [r_outcomes] in X. rewrite EV in X. destruct X. }
  pose proof Hrs as Hrs0. rewrite Eo in Hrs.
  destruct (resolve_pkg_searched _ _ _ _ _ Hrs) as [_ [ag [Hb Hrs']]]. fold t in Hb, Hrs'.
  assert (Hl : (N.to_nat c < length rs)%nat) by (rewrite Hrs', map_length, nseq_length; lia).
  assert (Hnth : nth (N.to_nat c) rs SFuel = ag_search ag c (pk_version p) PreferExemptions).
  { rewrite Hrs'. exact (nth_map_nseq (fun c1 => ag_search ag c1 (pk_version p) PreferExemptions) SFuel (ct_len t) c Hlt). }
  destruct (ag_search ag c (pk_version p) PreferExemptions) as [path|fr ft|] eqn:Es.
  - (* already certified: more audits do not hurt *)
    apply (ag_search_ok _ _ _ _ _ _ _ HmPE Hb) in Es. eapply fpath_mono; [exact Hmono|exact (proj1 Es)].
  - (* failed: the crate has a proposal that bridges the two reachable sets *)
    assert (Hcf : cs_has c (po_failures o) = true).
    { rewrite Eo. apply (resolve_pkg_failures _ _ _ _ _ Hrs c). repeat split; auto. intros path E. rewrite Hnth in E. discriminate. }
    assert (Hin : In (i, po_failures o) fs).
    { apply (conclude_failvet _ _ Hc). exists o. repeat split; auto.
      - unfold is_searched. rewrite Hrs0. reflexivity.
      - destruct (cs_is_empty (po_failures o)) eqn:E; [|reflexivity]. rewrite cs_is_empty_spec in E. rewrite E in Hcf. discriminate. }
    specialize (Hall _ _ Hin).
    (* the item proposed for this package *)
    assert (Hpk : get_pkg (g_pkgs (r_graph r)) i = p).
    { unfold get_pkg. unfold pkg_at in Hp. fold r in Hp. apply nth_error_nth. exact Hp. }
    unfold item_for in Hall. fold r in Ho.
    rewrite (nth_error_nth _ _ _ Ho) in Hall. rewrite Hrs0 in Hall. rewrite Hpk in Hall.
    set (fails := flat_map (fun c0 => match nth (N.to_nat c0) rs SFuel with SErr fr0 ft0 => [(fr0, ft0)] | _ => [] end)
                           (cs_indices (length rs) (po_failures o))) in Hall.
    destruct (suggest_delta dcount has_sources (pk_name p) (pk_version p) fails) as [[f d]|] eqn:Esd; [|exfalso; apply Hall; reflexivity].
    clear Hall.
    assert (Hfails : In (fr, ft) fails).
    { unfold fails. apply in_flat_map. exists c. split; [apply in_cs_indices; split; [lia|exact Hcf]|]. rewrite Hnth. left. reflexivity. }
    destruct (suggested_pair_in_all_sets _ _ _ _ _ _ _ Esd fr ft Hfails) as [Hf Hd].
    set (it0 := {| si_pkg := i; si_name := pk_name p; si_from := f; si_to := d; si_crit := po_failures o |}).
    assert (Hit0 : In it0 (flat_map (fun '(i, cf) => item_for dcount has_sources r i cf) (failures_of r))).
    { apply in_flat_map. exists (i, po_failures o). split; [unfold failures_of; rewrite Hc; exact Hin|].
      unfold item_for. rewrite (nth_error_nth _ _ _ Ho), Hrs0, Hpk. fold fails. rewrite Esd. left. reflexivity. }
    destruct (dedup_covers (sort_items dcount (flat_map (fun '(i, cf) => item_for dcount has_sources r i cf) (failures_of r))) None it0)
      as [it [Hit [Hn [Hfrom [Hto Hcr]]]]]; [left; apply sort_items_in; exact Hit0|].
    assert (Hit' : In it items) by exact Hit.
    destruct (apply_items_edge t items s it eq_refl Hit') as [e [He [Ef [Et Ec]]]].
    fold s' in He. rewrite Hn in He. cbn [si_name it0] in He.
    destruct (ag_search_err_sets _ _ _ _ _ _ _ _ HmPE Hb Es) as [Hfr Hft].
    unfold certified. eapply fpath_trans; [eapply fpath_mono; [exact Hmono|apply Hfr; exact Hf]|].
    rewrite Hfrom in Ef. cbn [si_from it0] in Ef. rewrite <- Ef. eapply fp_cons; [exact He| |].
    + rewrite Ec. destruct (minimal_covers_lt t table_acyclic (si_crit it) c Hlt (Hcr c Hcf)) as [m0 [Hm0 Hx]].
      apply from_list_spec. exists m0. split; assumption.
    + rewrite Et, Hto. cbn [si_to it0]. eapply fpath_mono; [exact Hmono|apply Hft; exact Hd].
  - (* the search never runs out of fuel *)
    exfalso. eapply (no_fuel_at inp s i o rs c (no_fuel_always inp s) Ho Hrs0 Hl). rewrite Hnth. reflexivity.
Qed.

Theorem suggestions_heal fs :
  r_conclusion r = FailForVet fs ->
  (forall i cf, In (i, cf) fs -> item_for dcount has_sources r i cf <> []) ->
  (forall i p, pkg_at inp s i p -> pk_third_party p = true -> violation_conflicts t (store_for s' (pk_name p)) = []) ->
  exists a b c0, r_conclusion (resolve inp s') = Success a b c0.
Proof.
  intros Hc Hall Hnv.
  assert (Ht' : st_criteria s' = t) by apply apply_items_criteria.
  apply (success_complete inp s' (no_fuel_always inp s')).
  intros i p Hp Htp. unfold pkg_at in Hp. rewrite (resolve_graph_same inp s s') in Hp.
  rewrite Ht'. split; [apply (Hnv i p Hp Htp)|].
  intros c Hlt Hreq. unfold required_of in Hreq. rewrite (resolve_reqs_same inp s s' Ht') in Hreq.
  eapply healed_pair; eauto.
Qed.
End Heal.
