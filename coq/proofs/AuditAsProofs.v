Require Import Base Extracted AuditAs Imports AuditGraph.
Local Open Scope N_scope.

Theorem crates_io_always_third_party p : ap_crates_io p = true -> is_third_party p = true.
Proof. intros H. unfold is_third_party. rewrite H. apply orb_true_r. Qed.

Lemma flat_map_nil {A B} (f : A -> list B) l : flat_map f l = [] -> forall x, In x l -> f x = [].
Proof.
  induction l as [|y l IH]; intros H x Hx; [destruct Hx|]. cbn in H. apply app_eq_nil in H. destruct H as [H1 H2].
  destruct Hx as [<-|Hx]; [exact H1|apply IH; assumption].
Qed.

(* an unlocked run that gets past the checks has an explicit choice for every
   non-crates.io package crates.io seems to know, and no false claim *)
Theorem prechecks_spec pkgs pols :
  unlocked_prechecks_ok pkgs pols = true ->
  forall p, In p pkgs -> ap_crates_io p = false ->
    (ap_registry_match p = true -> ap_audit_as p <> None) /\
    (ap_audit_as p = Some true -> ap_registry_match p = true).
Proof.
  unfold unlocked_prechecks_ok, audit_as_ok. intros H p Hp Hc. apply andb_prop in H. destruct H as [_ H].
  destruct (unused_audit_as pkgs pols); [|discriminate].
  destruct (needs_audit_as pkgs) eqn:N1; [|discriminate].
  destruct (shouldnt_be_audit_as pkgs) eqn:N2; [|discriminate].
  pose proof (flat_map_nil _ _ N1 p Hp) as E1. pose proof (flat_map_nil _ _ N2 p Hp) as E2. cbn in E1, E2.
  rewrite Hc in E1, E2. cbn [negb andb] in E1, E2. split.
  - intros Hm Hn. rewrite Hm, Hn in E1. discriminate.
  - intros Ha. rewrite Ha in E2. destruct (ap_registry_match p); [reflexivity|discriminate].
Qed.

(* hence a path/git package is exempt from vetting only while crates.io does not
   seem to know it or the policy explicitly says audit-as-crates-io = false *)
Theorem exempt_only_if pkgs pols p :
  unlocked_prechecks_ok pkgs pols = true -> In p pkgs -> is_third_party p = false ->
  ap_crates_io p = false /\ (ap_registry_match p = false \/ ap_audit_as p = Some false).
Proof.
  intros H Hp Ht. unfold is_third_party in Ht. apply orb_false_elim in Ht. destruct Ht as [Ha Hc].
  split; [exact Hc|]. destruct (prechecks_spec pkgs pols H p Hp Hc) as [H1 _].
  destruct (ap_registry_match p); [right|left; reflexivity].
  destruct (ap_audit_as p) as [[|]|]; [discriminate|reflexivity|exfalso; apply H1; reflexivity].
Qed.

(* every audit-as-crates-io entry and every policy entry names a package of the graph *)
Theorem entries_match_packages pkgs pols po :
  unlocked_prechecks_ok pkgs pols = true -> In po pols ->
  (exists p, In p pkgs /\ ap_name p = po_name po /\ (forall v, po_version po = Some v -> ap_version p = v)) /\
  (po_audit_as po <> None ->
     exists p, In p pkgs /\ ap_crates_io p = false /\ ap_name p = po_name po /\
               (forall v, po_version po = Some v -> ap_version p = v)).
Proof.
  unfold unlocked_prechecks_ok, audit_as_ok, crate_policies_ok. intros H Hpo. apply andb_prop in H. destruct H as [H1 H2].
  destruct (policy_needs_version pkgs pols); [|discriminate].
  destruct (policy_unused pkgs pols) eqn:U; [|discriminate].
  destruct (unused_audit_as pkgs pols) eqn:UA; [|discriminate]. split.
  - pose proof (flat_map_nil _ _ U po Hpo) as E. cbn in E. destruct (po_version po) as [v|].
    + destruct (existsb _ pkgs) eqn:Ex in E.
      * apply existsb_exists in Ex. destruct Ex as [p [Hp Hq]]. apply andb_prop in Hq. destruct Hq as [Q1 Q2].
        apply N.eqb_eq in Q1. apply N.eqb_eq in Q2. exists p. repeat split; auto. intros v' Hv. congruence.
      * destruct (existsb _ pkgs) in E; discriminate.
    + destruct (existsb _ pkgs) eqn:Ex in E; [|discriminate].
      apply existsb_exists in Ex. destruct Ex as [p [Hp Hq]]. apply N.eqb_eq in Hq. exists p. repeat split; auto. intros v Hv. discriminate.
  - intros Ha. pose proof (flat_map_nil _ _ UA po Hpo) as E. cbn in E.
    destruct (po_audit_as po); [|congruence].
    destruct (existsb _ pkgs) eqn:Ex in E; [|discriminate].
    apply existsb_exists in Ex. destruct Ex as [p [Hp Hq]]. apply andb_prop in Hq. destruct Hq as [Hq Q3].
    apply andb_prop in Hq. destruct Hq as [Q1 Q2]. apply negb_true_iff in Q1. apply N.eqb_eq in Q2.
    exists p. repeat split; auto. intros v Hv. rewrite Hv in Q3. apply N.eqb_eq in Q3. auto.
Qed.

(* ---- the published version an unpublished one is audited as ---- *)
Lemma max_below_fold v l best :
  (match best with Some b => b <= v | None => True end) ->
  match fold_left (fun best p => if N.leb p v then match best with Some b => Some (N.max b p) | None => Some p end else best) l best with
  | Some a => a <= v /\ (Some a = best \/ In a l) /\
              (forall b, (Some b = best \/ In b l) -> b <= v -> b <= a)
  | None => best = None /\ forall b, In b l -> ~ b <= v
  end.
Proof.
  revert best; induction l as [|p l IH]; intros best Hb; cbn [fold_left].
  - destruct best as [b|]; [|split; [reflexivity|intros b []]].
    split; [exact Hb|]. split; [left; reflexivity|]. intros b' [E|[]] _. inversion E; subst. lia.
  - destruct (N.leb_spec p v) as [Hle|Hgt].
    + set (best' := match best with Some b => Some (N.max b p) | None => Some p end).
      specialize (IH best'). assert (Hb' : match best' with Some b => b <= v | None => True end).
      { unfold best'. destruct best as [b|]; [lia|exact Hle]. }
      specialize (IH Hb'). destruct (fold_left _ l best') as [a|].
      * destruct IH as [H1 [H2 H3]]. split; [exact H1|]. split.
        -- destruct H2 as [E|Hin]; [|right; right; exact Hin]. unfold best' in E. destruct best as [b|].
           ++ inversion E. destruct (N.max_spec b p) as [[_ ->]|[_ ->]]; [right; left; reflexivity|left; reflexivity].
           ++ inversion E. right. left. reflexivity.
        -- intros b0 [E|[<-|Hin]] Hle0.
           ++ assert (exists b1, best' = Some b1 /\ b0 <= b1) as [b1 [E1 L1]].
              { unfold best'. rewrite <- E. eexists. split; [reflexivity|lia]. }
              pose proof (H3 b1 (or_introl (eq_sym E1)) ltac:(rewrite E1 in Hb'; exact Hb')). lia.
           ++ assert (exists b1, best' = Some b1 /\ p <= b1) as [b1 [E1 L1]].
              { unfold best'. destruct best as [b|]; eexists; (split; [reflexivity|lia]). }
              pose proof (H3 b1 (or_introl (eq_sym E1)) ltac:(rewrite E1 in Hb'; exact Hb')). lia.
           ++ apply H3; auto.
      * destruct IH as [E _]. unfold best' in E. destruct best; discriminate.
    + specialize (IH best Hb). destruct (fold_left _ l best) as [a|].
      * destruct IH as [H1 [H2 H3]]. split; [exact H1|]. split; [destruct H2; auto; right; right; assumption|].
        intros b0 [E|[<-|Hin]] Hle0; [apply H3; auto|lia|apply H3; auto].
      * destruct IH as [E H]. split; [exact E|]. intros b0 [<-|Hin]; [lia|apply H; exact Hin].
Qed.

Theorem audited_as_prefers_nearest_earlier v published a :
  audited_as v published = Some a -> In a published /\
  ((a <= v /\ forall b, In b published -> b <= v -> b <= a) \/
   (v < a /\ forall b, In b published -> ~ b <= v)).
Proof.
  unfold audited_as. pose proof (max_below_fold v published None Logic.I) as M. unfold max_below.
  destruct (fold_left _ published None) as [m|] eqn:E.
  - intros H. inversion H; subst. destruct M as [M1 [[M2|M2] M3]]; [discriminate|].
    split; [exact M2|]. left. split; [exact M1|]. intros b Hb. apply M3. right. exact Hb.
  - destruct M as [_ M]. intros H. unfold min_above in H.
    assert (G : forall l best, (match best with Some b => v < b /\ In b published | None => True end) ->
              (forall x, In x l -> In x published) ->
              fold_left (fun best p => if N.ltb v p then match best with Some b => Some (N.min b p) | None => Some p end else best) l best = Some a ->
              v < a /\ In a published).
    { induction l as [|p l IH]; intros best Hb Hl Hf; cbn [fold_left] in Hf.
      - subst best. exact Hb.
      - apply IH in Hf; [exact Hf| |intros x Hx; apply Hl; right; exact Hx].
        destruct (N.ltb_spec v p) as [Hlt|Hge]; [|exact Hb].
        destruct best as [b|]; [|split; [exact Hlt|apply Hl; left; reflexivity]].
        destruct Hb as [Hb1 Hb2]. destruct (N.min_spec b p) as [[_ ->]|[_ ->]]; [split; assumption|split; [exact Hlt|apply Hl; left; reflexivity]]. }
    destruct (G published None Logic.I (fun x Hx => Hx) H) as [G1 G2]. split; [exact G2|]. right. split; [exact G1|exact M].
Qed.

(* recorded `unpublished` entries persist across later runs, whatever crates.io says
   by then (so a --locked run keeps passing after the version is published) *)
Theorem recorded_unpublished_persist lock v published u :
  In u lock -> exists u', In u' (live_unpublished lock v published) /\ u_ver u' = u_ver u /\ u_as u' = u_as u /\ u_fresh u' = u_fresh u.
Proof.
  intros Hu. unfold live_unpublished. destruct (audited_as v published) as [a|]; [|exists u; auto].
  destruct (N.eqb a v); [exists u; auto|].
  eexists. split; [apply in_app_iff; left; apply in_map; exact Hu|]. destruct (N.eqb (u_ver u) v); auto.
Qed.
