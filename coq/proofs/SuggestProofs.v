(* SuggestProofs.v — a suggested audit heals every criterion it is suggested for (C17). *)
Require Import Base Extracted Criteria Search AuditGraph DepGraph Resolve Show Suggest.
Require Import CriteriaProofs SearchProofs AuditGraphProofs ResolveProofs.
Local Open Scope N_scope.

Definition add_local_audit (s : pkg_store) (a : audit) : pkg_store :=
  {| ps_imported := ps_imported s; ps_local := ps_local s ++ [a]; ps_wild_imported := ps_wild_imported s;
     ps_wild_local := ps_wild_local s; ps_trusted := ps_trusted s; ps_publishers := ps_publishers s;
     ps_unpublished := ps_unpublished s; ps_exemptions := ps_exemptions s |}.

Lemma enumerate_from_app {A} (l1 l2 : list A) k :
  enumerate_from k (l1 ++ l2) = enumerate_from k l1 ++ enumerate_from (k + length l1) l2.
Proof.
  revert k; induction l1 as [|x l1 IH]; intros k; cbn.
  - rewrite Nat.add_0_r. reflexivity.
  - rewrite IH. f_equal. f_equal. f_equal. lia.
Qed.

Lemma all_audits_add s a x : In x (all_audits s) -> In x (all_audits (add_local_audit s a)).
Proof.
  unfold all_audits, add_local_audit. cbn [ps_imported ps_local]. rewrite !in_app_iff. intros [H|H]; [left; exact H|right].
  unfold enumerate. rewrite enumerate_from_app, map_app, in_app_iff. left. exact H.
Qed.

Lemma all_edges_add t s a e : In e (all_edges t s) -> In e (all_edges t (add_local_audit s a)).
Proof.
  unfold all_edges. rewrite !in_app_iff. intros [H|[H|[H|H]]]; [left|right; left; exact H|right; right; left; exact H|right; right; right; exact H].
  unfold audit_edges in *. apply in_flat_map in H. destruct H as [x [Hx H]]. apply in_flat_map. exists x.
  split; [apply all_audits_add; exact Hx|exact H].
Qed.

Definition new_audit (a : ver) (b : N) (l : list N) : audit :=
  {| au_kind := match a with None => KFull b | Some a' => KDelta a' b end; au_crit := l; au_importable := true; au_fresh := false |}.

Lemma new_edge t s a b l :
  exists e, In e (all_edges t (add_local_audit s (new_audit a b l))) /\
            fe_from e = a /\ fe_to e = Some b /\ fe_crit e = from_list t l.
Proof.
  set (na := new_audit a b l).
  assert (Hin : In (None, OLocal (N.of_nat (length (ps_local s))) true, na) (all_audits (add_local_audit s na))).
  { unfold all_audits, add_local_audit. cbn [ps_imported ps_local]. apply in_app_iff. right.
    unfold enumerate. rewrite enumerate_from_app, map_app, in_app_iff. right. cbn. left. reflexivity. }
  destruct a as [a'|].
  - eexists. split.
    + unfold all_edges. apply in_app_iff. left. unfold audit_edges. apply in_flat_map. eexists. split; [exact Hin|].
      cbn. left. reflexivity.
    + cbn. auto.
  - eexists. split.
    + unfold all_edges. apply in_app_iff. left. unfold audit_edges. apply in_flat_map. eexists. split; [exact Hin|].
      cbn. left. reflexivity.
    + cbn. auto.
Qed.

Lemma fpath_mono t s s' c x y :
  (forall e, In e (all_edges t s) -> In e (all_edges t s')) -> fpath t s c x y -> fpath t s' c x y.
Proof. intros H P. induction P; [constructor|eapply fp_cons; eauto]. Qed.

Lemma fpath_trans t s c x y z : fpath t s c x y -> fpath t s c y z -> fpath t s c x z.
Proof. intros P Q. induction P; [exact Q|eapply fp_cons; eauto]. Qed.

(* forward reachability from the root is a forward path of records *)
Lemma freach_fpath t s c m x lv :
  m <> RegenerateExemptions ->
  reach (forward_graph (all_edges t s)) c m None x lv -> fpath t s c None x.
Proof.
  intros Hm H. induction H as [|a b lv l Hr IH Hs]; [constructor|].
  destruct Hs as [[e [He [Hu [Hto _]]]]|[Hm' _]]; [|congruence].
  apply in_forward_graph in He. destruct He as [fe [Hfe [Hfrom ->]]]. cbn in *.
  assert (Hcs : cs_has c (fe_crit fe) = true).
  { destruct m; [rewrite usable_PE in Hu|rewrite usable_PFI in Hu|congruence]; exact Hu. }
  eapply fpath_trans; [exact IH|]. rewrite <- Hfrom, <- Hto. eapply fp_cons; [exact Hfe|exact Hcs|constructor].
Qed.

(* backward reachability from the target is a forward path to the target *)
Lemma breach_fpath t s c m w x lv :
  m <> RegenerateExemptions ->
  reach (backward_graph (all_edges t s)) c m w x lv -> fpath t s c x w.
Proof.
  intros Hm H. induction H as [|a b lv l Hr IH Hs]; [constructor|].
  destruct Hs as [[e [He [Hu [Hto _]]]]|[Hm' _]]; [|congruence].
  apply in_backward_graph in He. destruct He as [fe [Hfe [Hfto ->]]]. cbn in *.
  assert (Hcs : cs_has c (fe_crit fe) = true).
  { destruct m; [rewrite usable_PE in Hu|rewrite usable_PFI in Hu|congruence]; exact Hu. }
  rewrite <- Hto. rewrite <- Hfto in IH. eapply fp_cons; eauto.
Qed.

(* what the two reachable sets of a failed search are *)
Lemma ag_search_err_sets t s ag c v m fr ft :
  m <> RegenerateExemptions -> build t s = inl ag -> ag_search ag c v m = SErr fr ft ->
  (forall x, In x fr -> fpath t s c None x) /\ (forall x, In x ft -> fpath t s c x (Some v)).
Proof.
  intros Hm Hb Hs. unfold build in Hb. destruct (violation_conflicts t s); [|discriminate].
  inversion Hb; subst ag; clear Hb. unfold ag_search in Hs. cbn [ag_backward ag_forward] in Hs.
  pose proof (search_spec (backward_graph (all_edges t s)) c m (Some v) None (search_fuel (backward_graph (all_edges t s)))) as Sb.
  pose proof (search_spec (forward_graph (all_edges t s)) c m None (Some v) (search_fuel (forward_graph (all_edges t s)))) as Sf.
  destruct (search _ (backward_graph _) c m (Some v) None) as [p|vb|]; try discriminate.
  destruct (search _ (forward_graph _) c m None (Some v)) as [p|vf|]; try discriminate.
  inversion Hs; subst. cbn in Sb, Sf. destruct Sb as [Sb _]. destruct Sf as [Sf _]. split.
  - intros x Hx. apply Sf in Hx. destruct Hx as [lv Hr]. eapply freach_fpath; eauto.
  - intros x Hx. apply Sb in Hx. destruct Hx as [lv Hr]. eapply breach_fpath; eauto.
Qed.

(* C17 core: certifying a delta (or full audit) from a version reachable from the
   root to a version from which the target is reachable, for a list carrying the
   failing criterion, makes the crate certified for it *)
Theorem candidate_heals t s ag c v fr ft a b l :
  build t s = inl ag -> ag_search ag c v PreferExemptions = SErr fr ft ->
  In a fr -> In (Some b) ft -> cs_has c (from_list t l) = true ->
  certified t (add_local_audit s (new_audit a b l)) c v.
Proof.
  intros Hb Hs Ha Hbt Hc. assert (Hm : PreferExemptions <> RegenerateExemptions) by discriminate.
  destruct (ag_search_err_sets _ _ _ _ _ _ _ _ Hm Hb Hs) as [Hfr Hft].
  set (s' := add_local_audit s (new_audit a b l)).
  assert (Hmono : forall e, In e (all_edges t s) -> In e (all_edges t s')) by (intros e; apply all_edges_add).
  destruct (new_edge t s a b l) as [e [He [Ef [Et Ec]]]].
  unfold certified. eapply fpath_trans; [eapply fpath_mono; [exact Hmono|apply Hfr; exact Ha]|].
  rewrite <- Ef. eapply fp_cons; [exact He|rewrite Ec; exact Hc|]. rewrite Et.
  eapply fpath_mono; [exact Hmono|apply Hft; exact Hbt].
Qed.

(* ---- the suggested pair lies in the COMMON reachable sets of all failed criteria ---- *)
Section Pick.
Variable dcount : ver -> N -> N.
Variable has_sources : N -> N -> N -> bool.

Lemma first_min_in l best x : first_min dcount l best = Some x -> In x l \/ best = Some x.
Proof.
  revert best; induction l as [|y l IH]; intros best H; cbn in H; [right; exact H|].
  destruct best as [b|].
  - destruct (N.ltb _ _); apply IH in H; destruct H as [H|H]; auto; [left; right; exact H|inversion H; left; left; reflexivity|left; right; exact H].
  - apply IH in H. destruct H as [H|H]; [left; right; exact H|inversion H; left; left; reflexivity].
Qed.

Lemma in_candidates r tl f d : In (f, d) (candidates r tl) -> In f r /\ In (Some d) tl.
Proof.
  unfold candidates. intros H. apply in_flat_map in H. destruct H as [dest [Hd H]]. destruct dest as [d'|]; [|destruct H].
  apply in_app_iff in H. destruct H as [H|H].
  - unfold opt_pair, closest_below in H. destruct (last_opt _) as [f'|] eqn:E; [|destruct H]. destruct H as [H|[]]. inversion H; subst.
    split; [|exact Hd]. unfold last_opt in E. destruct (rev _) as [|z zs] eqn:R; [discriminate|]. inversion E; subst.
    assert (In f (rev (filter (fun v => ver_ltb v (Some d)) r))) by (rewrite R; left; reflexivity).
    apply in_rev in H0. apply filter_In in H0. tauto.
  - unfold opt_pair, closest_above in H. destruct (hd_error _) as [f'|] eqn:E; [|destruct H]. destruct H as [H|[]]. inversion H; subst.
    split; [|exact Hd]. destruct (filter _ r) as [|z zs] eqn:R; [discriminate|]. inversion E; subst.
    assert (In f (filter (fun v => ver_leb (Some d) v) r)) by (rewrite R; left; reflexivity).
    apply filter_In in H0. tauto.
Qed.

Lemma in_inter a b x : In x (inter a b) -> In x a /\ In x b.
Proof. unfold inter. intros H. apply filter_In in H. destruct H as [H1 H2]. apply mem_ver_In in H2. auto. Qed.

Lemma in_sort_vers l x : In x (sort_vers l) -> In x l.
Proof.
  unfold sort_vers. intros H.
  assert (G : forall l0, In x (dedup_adj ver_eqb l0) -> In x l0).
  { induction l0 as [|y l0 IH]; [auto|]. cbn [dedup_adj]. destruct l0 as [|z l1]; [auto|].
    destruct (ver_eqb y z); [intros H0; right; apply IH; exact H0|intros [<-|H0]; [left; reflexivity|right; apply IH; exact H0]]. }
  apply G in H. apply in_sort_by in H. exact H.
Qed.

Lemma common_reachable_subset name target fails r tl :
  common_reachable has_sources name target fails = Some (r, tl) ->
  forall fr ft, In (fr, ft) fails -> (forall x, In x r -> In x fr) /\ (forall x, In x tl -> In x ft).
Proof.
  unfold common_reachable. destruct fails as [|[fr0 ft0] rest]; [discriminate|]. intros H.
  assert (G : forall rest r0 t0 r tl,
     fold_left (fun '(r, t) '(fr', ft') => (inter r fr', inter t ft')) rest (r0, t0) = (r, tl) ->
     (forall x, In x r -> In x r0) /\ (forall x, In x tl -> In x t0) /\
     (forall fr ft, In (fr, ft) rest -> (forall x, In x r -> In x fr) /\ (forall x, In x tl -> In x ft))).
  { induction rest0 as [|[fr' ft'] rest0 IH]; intros r0 t0 r1 tl1 Hf; cbn [fold_left] in Hf.
    - inversion Hf; subst. split; [auto|split; [auto|intros fr1 ft1 []]].
    - apply IH in Hf. destruct Hf as [A [B C]]. split; [|split].
      + intros x Hx. apply A in Hx. apply in_inter in Hx. tauto.
      + intros x Hx. apply B in Hx. apply in_inter in Hx. tauto.
      + intros fr ft [E|Hin].
        * inversion E; subst. split; intros x Hx; [apply A in Hx|apply B in Hx]; apply in_inter in Hx; tauto.
        * exact (C fr ft Hin). }
  inversion H as [H']. apply G in H'. destruct H' as [A [B C]]. intros fr ft [E|Hin].
  - inversion E; subst. split; intros x Hx.
    + apply A in Hx. apply filter_In in Hx. apply in_sort_vers. tauto.
    + apply B in Hx. apply filter_In in Hx. apply in_sort_vers. tauto.
  - exact (C fr ft Hin).
Qed.

(* the (from, to) of a suggestion is, for EVERY failed criterion, a version reachable
   from the root and a version from which the target is reachable *)
Theorem suggested_pair_in_all_sets name target fails f d :
  suggest_delta dcount has_sources name target fails = Some (f, d) ->
  forall fr ft, In (fr, ft) fails -> In f fr /\ In (Some d) ft.
Proof.
  unfold suggest_delta. destruct (common_reachable has_sources name target fails) as [[r tl]|] eqn:E; [|discriminate].
  intros H fr ft Hin. apply first_min_in in H. destruct H as [H|H]; [|discriminate].
  apply in_candidates in H. destruct H as [H1 H2].
  destruct (common_reachable_subset _ _ _ _ _ E fr ft Hin) as [A B]. auto.
Qed.
End Pick.

(* ---- compute_suggested_criteria: what `certify` pre-selects for a delta ---- *)
Lemma suggested_inner_spec (rs : list search_result) (from : ver) (to : N) (l : list N) : forall acc c,
  cs_has c (fold_left (fun acc c => match nth (N.to_nat c) rs SFuel with
                                    | SErr fr ft => if mem_ver from fr && mem_ver (Some to) ft then cs_set c acc else acc
                                    | _ => acc end) l acc) = true ->
  cs_has c acc = true \/
  (In c l /\ exists fr ft, nth (N.to_nat c) rs SFuel = SErr fr ft /\ In from fr /\ In (Some to) ft).
Proof.
  induction l as [|c0 l IH]; intros acc c H; cbn [fold_left] in H; [left; exact H|].
  apply IH in H. destruct H as [H|[Hin H]]; [|right; split; [right; exact Hin|exact H]].
  destruct (nth (N.to_nat c0) rs SFuel) as [p|fr ft|] eqn:E; [left; exact H| |left; exact H].
  destruct (mem_ver from fr && mem_ver (Some to) ft) eqn:M; [|left; exact H].
  rewrite cs_has_set in H. apply orb_prop in H. destruct H as [H|H]; [|left; exact H].
  apply N.eqb_eq in H. subst c0. right. split; [left; reflexivity|]. exists fr, ft. split; [exact E|].
  apply andb_prop in M. destruct M as [M1 M2]. apply mem_ver_In in M1, M2. auto.
Qed.

(* every criterion pre-selected for certifying (from -> to) of crate [name] is one that some package of that name
   currently fails, with [from] reachable from the root and the target reachable from [to] for exactly that criterion *)
Theorem suggested_criteria_spec (r : report) (name : N) (from : ver) (to : N) c :
  cs_has c (suggested_criteria r name from to) = true ->
  exists i cf rs fr ft, In (i, cf) (failures_of r) /\ pk_name (get_pkg (g_pkgs (r_graph r)) i) = name /\
    po_result (nth i (r_outcomes r) {| po_result := PFirstParty; po_failures := 0; po_needed_exemptions := false; po_directly_exempted := false |}) = PSearched rs /\
    cs_has c cf = true /\ nth (N.to_nat c) rs SFuel = SErr fr ft /\ In from fr /\ In (Some to) ft.
Proof.
  unfold suggested_criteria.
  assert (G : forall l acc, (forall x, In x l -> In x (failures_of r)) ->
     cs_has c (fold_left (fun acc '(i, cf) =>
        if N.eqb (pk_name (get_pkg (g_pkgs (r_graph r)) i)) name then
          match po_result (nth i (r_outcomes r) {| po_result := PFirstParty; po_failures := 0; po_needed_exemptions := false; po_directly_exempted := false |}) with
          | PSearched rs =>
              fold_left (fun acc c => match nth (N.to_nat c) rs SFuel with
                                      | SErr fr ft => if mem_ver from fr && mem_ver (Some to) ft then cs_set c acc else acc
                                      | _ => acc end) (cs_indices (length rs) cf) acc
          | _ => acc
          end
        else acc) l acc) = true ->
     cs_has c acc = true \/
     exists i cf rs fr ft, In (i, cf) (failures_of r) /\ pk_name (get_pkg (g_pkgs (r_graph r)) i) = name /\
       po_result (nth i (r_outcomes r) {| po_result := PFirstParty; po_failures := 0; po_needed_exemptions := false; po_directly_exempted := false |}) = PSearched rs /\
       cs_has c cf = true /\ nth (N.to_nat c) rs SFuel = SErr fr ft /\ In from fr /\ In (Some to) ft).
  { induction l as [|[i cf] l IH]; intros acc Hl H; cbn [fold_left] in H; [left; exact H|].
    apply IH in H; [|intros x Hx; apply Hl; right; exact Hx]. destruct H as [H|H]; [|right; exact H].
    destruct (N.eqb (pk_name (get_pkg (g_pkgs (r_graph r)) i)) name) eqn:En; [|left; exact H]. apply N.eqb_eq in En.
    destruct (po_result (nth i (r_outcomes r) _)) as [|cs|rs] eqn:Er; [left; exact H|left; exact H|].
    apply suggested_inner_spec in H. destruct H as [H|[Hin [fr [ft [E [Hf Ht]]]]]]; [left; exact H|right].
    apply in_cs_indices in Hin. exists i, cf, rs, fr, ft. repeat split; auto. apply Hl. left. reflexivity. tauto. }
  intros H. apply G in H; [|auto]. destruct H as [H|H]; [rewrite cs_has_empty in H; discriminate|exact H].
Qed.
