(* AuditGraphProofs.v — the graphs built from a list of forward edges contain
   exactly those edges (forward) / their transposes (backward); every edge is
   characterised by the store record it came from. *)
Require Import Base Extracted Criteria Search AuditGraph.
Local Open Scope N_scope.

Lemma lookup_add_edge g from e v :
  lookup (add_edge g from e) v = if ver_eqb from v then lookup g v ++ [e] else lookup g v.
Proof.
  unfold add_edge. induction g as [|[k es] g IH]; cbn [lookup].
  - destruct (ver_eqb from v); reflexivity.
  - destruct (ver_eqb_spec k from) as [->|Hne]; cbn [lookup].
    + destruct (ver_eqb_spec from v) as [->|Hne2]; [reflexivity|reflexivity].
    + destruct (ver_eqb_spec k v) as [->|Hkv].
      * destruct (ver_eqb_spec from v) as [->|]; [congruence|reflexivity].
      * exact IH.
Qed.

Definition fwd_of (e : fedge) : edge :=
  {| e_to := fe_to e; e_crit := fe_crit e; e_origin := fe_origin e; e_fresh := fe_fresh e |}.
Definition bwd_of (e : fedge) : edge :=
  {| e_to := fe_from e; e_crit := fe_crit e; e_origin := fe_origin e; e_fresh := fe_fresh e |}.

Lemma in_lookup_fold (src : fedge -> ver) (mk : fedge -> edge) es g0 v x :
  In x (lookup (fold_left (fun g e => add_edge g (src e) (mk e)) es g0) v) <->
  In x (lookup g0 v) \/ exists fe, In fe es /\ src fe = v /\ x = mk fe.
Proof.
  revert g0; induction es as [|e es IH]; intros g0; cbn [fold_left].
  - split; [auto|intros [H|[fe [[] _]]]; exact H].
  - rewrite IH, lookup_add_edge. destruct (ver_eqb_spec (src e) v) as [Heq|Hne].
    + rewrite in_app_iff. cbn [In]. split.
      * intros [[H|[H|[]]]|[fe [H1 H2]]]; [left; exact H| |right; exists fe; split; [right; exact H1|exact H2]].
        right. exists e. split; [left; reflexivity|split; [exact Heq|symmetry; exact H]].
      * intros [H|[fe [[<-|H1] [H2 H3]]]].
        -- left. left. exact H.
        -- left. right. left. symmetry. exact H3.
        -- right. exists fe. auto.
    + split.
      * intros [H|[fe [H1 H2]]]; [left; exact H|right; exists fe; split; [right; exact H1|exact H2]].
      * intros [H|[fe [[<-|H1] [H2 H3]]]]; [left; exact H|contradiction|right; exists fe; auto].
Qed.

Lemma in_forward_graph es v x :
  In x (lookup (forward_graph es) v) <-> exists fe, In fe es /\ fe_from fe = v /\ x = fwd_of fe.
Proof.
  unfold forward_graph. rewrite (in_lookup_fold fe_from fwd_of). cbn [lookup In]. tauto.
Qed.
Lemma in_backward_graph es v x :
  In x (lookup (backward_graph es) v) <-> exists fe, In fe es /\ fe_to fe = v /\ x = bwd_of fe.
Proof.
  unfold backward_graph. rewrite (in_lookup_fold fe_to bwd_of). cbn [lookup In]. tauto.
Qed.

(* ---- every edge comes from exactly one kind of record ---- *)

(* the record behind a wildcard / trusted grant *)
Definition wildcard_at (s : pkg_store) (imp : option N) (ai : N) : option wildcard :=
  match imp with
  | None => nth_error (ps_wild_local s) (N.to_nat ai)
  | Some i => match nth_error (ps_wild_imported s) (N.to_nat i) with
              | Some l => nth_error l (N.to_nat ai) | None => None end
  end.

Lemma in_all_wildcards s imp ai w :
  In (imp, ai, w) (all_wildcards s) -> wildcard_at s imp ai = Some w.
Proof.
  unfold all_wildcards. rewrite in_app_iff. intros [H|H].
  - apply in_flat_map in H. destruct H as [[i l] [Hi H]].
    apply in_map_iff in H. destruct H as [[j w'] [E Hj]]. inversion E; subst.
    apply (in_enumerate []) in Hi. apply (in_enumerate w) in Hj.
    destruct Hi as [Hi1 Hi2], Hj as [Hj1 Hj2]. unfold wildcard_at. rewrite !Nat2N.id.
    rewrite (nth_error_nth' _ [] Hi1), Hi2, (nth_error_nth' _ w Hj1), Hj2. reflexivity.
  - apply in_map_iff in H. destruct H as [[j w'] [E Hj]]. inversion E; subst.
    apply (in_enumerate w) in Hj. destruct Hj as [Hj1 Hj2]. unfold wildcard_at. rewrite Nat2N.id.
    rewrite (nth_error_nth' _ w Hj1), Hj2. reflexivity.
Qed.

(* C06 core: a grant edge exists only through a publisher record of this crate
   for exactly the edge's version, by the entry's user, inside the entry's
   window, with the entry's criteria. *)
Lemma publisher_edge_spec t s e :
  In e (publisher_edges t s) ->
  exists pi p, nth_error (ps_publishers s) pi = Some p /\
    fe_from e = None /\ fe_to e = Some (p_ver p) /\
    ((exists imp ai w, fe_origin e = OWildcard imp ai (N.of_nat pi) /\ wildcard_at s imp ai = Some w /\
        wildcard_guard (w_user w) (p_user p) (w_start w) (w_end w) (p_when p) = true /\
        fe_crit e = from_list t (w_crit w))
     \/
     (exists tr, fe_origin e = OTrusted (N.of_nat pi) /\ In tr (ps_trusted s) /\
        trusted_guard (t_user tr) (p_user p) (t_start tr) (t_end tr) (p_when p) = true /\
        fe_crit e = from_list t (t_crit tr))).
Proof.
  unfold publisher_edges. intros H. apply in_flat_map in H. destruct H as [[pi p] [Hp H]].
  apply (in_enumerate p) in Hp. destruct Hp as [Hp1 Hp2].
  exists pi, p. split; [rewrite (nth_error_nth' _ p Hp1), Hp2; reflexivity|].
  rewrite in_app_iff in H. destruct H as [H|H].
  - apply in_flat_map in H. destruct H as [[[imp ai] w] [Hw H]].
    destruct (wildcard_guard _ _ _ _ _) eqn:G; [|contradiction]. destruct H as [<-|[]]. cbn.
    repeat split. left. exists imp, ai, w. repeat split; auto. apply in_all_wildcards; exact Hw.
  - apply in_flat_map in H. destruct H as [tr [Htr H]].
    destruct (trusted_guard _ _ _ _ _) eqn:G; [|contradiction]. destruct H as [<-|[]]. cbn.
    repeat split. right. exists tr. repeat split; auto.
Qed.

Definition is_grant (o : origin) : bool :=
  match o with OWildcard _ _ _ | OTrusted _ => true | _ => false end.

Lemma grant_edges_are_publisher_edges t s e :
  In e (all_edges t s) -> is_grant (fe_origin e) = true -> In e (publisher_edges t s).
Proof.
  unfold all_edges. rewrite !in_app_iff. intros [H|[H|[H|H]]] G; [exfalso|exact H|exfalso|exfalso].
  - unfold audit_edges in H. apply in_flat_map in H. destruct H as [[[src o] a] [Ha H]].
    assert (Ho : is_grant o = false).
    { unfold all_audits in Ha. rewrite in_app_iff in Ha. destruct Ha as [Ha|Ha].
      - apply in_flat_map in Ha. destruct Ha as [[i l] [_ Ha]]. apply in_map_iff in Ha.
        destruct Ha as [[j a'] [E _]]. inversion E; reflexivity.
      - apply in_map_iff in Ha. destruct Ha as [[j a'] [E _]]. inversion E; reflexivity. }
    destruct (au_kind a); cbn in H; try contradiction; destruct H as [<-|[]]; cbn in G; congruence.
  - unfold unpublished_edges in H. apply in_map_iff in H. destruct H as [[i u] [<- _]]. discriminate.
  - unfold exemption_edges in H. apply in_map_iff in H. destruct H as [[i x] [<- _]]. discriminate.
Qed.

(* an edge's criteria set is the closure of a written list, or everything *)
Lemma edge_crit_form : forall t s e, In e (all_edges t s) ->
  (exists l, fe_crit e = from_list t l) \/ fe_crit e = all_criteria t.
Proof.
  intros t s e. unfold all_edges. rewrite !in_app_iff. intros [H|[H|[H|H]]].
  - unfold audit_edges in H. apply in_flat_map in H. destruct H as [[[src o] a] [_ H]].
    destruct (au_kind a); cbn in H; try contradiction; destruct H as [<-|[]]; left; eexists; reflexivity.
  - unfold publisher_edges in H. apply in_flat_map in H. destruct H as [[pi p] [_ H]].
    rewrite in_app_iff in H. destruct H as [H|H]; apply in_flat_map in H.
    + destruct H as [[[imp ai] w] [_ H]]. destruct (wildcard_guard _ _ _ _ _); [|contradiction].
      destruct H as [<-|[]]. left. eexists. reflexivity.
    + destruct H as [tr [_ H]]. destruct (trusted_guard _ _ _ _ _); [|contradiction].
      destruct H as [<-|[]]. left. eexists. reflexivity.
  - unfold unpublished_edges in H. apply in_map_iff in H. destruct H as [[i u] [<- _]]. right. reflexivity.
  - unfold exemption_edges in H. apply in_map_iff in H. destruct H as [[i x] [<- _]]. left. eexists. reflexivity.
Qed.

