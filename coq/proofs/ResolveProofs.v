(* ResolveProofs.v — what a verdict of the resolver model means in terms of store
   records: soundness of success (C01), exactness of failures (C02), exemption
   use (C12), violation conflicts (C04). *)
Require Import Base Extracted Criteria Search AuditGraph DepGraph Resolve.
Require Import SearchProofs AuditGraphProofs.
Local Open Scope N_scope.

(* ------------------------------------------------------------------ *)
(* Certifying chains, defined over the store's records (all_edges is a direct
   desugaring of the records; AuditGraphProofs characterises each edge kind),
   independently of the search. *)
Inductive fpath (t : ctable) (s : pkg_store) (c : N) : ver -> ver -> Prop :=
| fp_refl v : fpath t s c v v
| fp_cons e w : In e (all_edges t s) -> cs_has c (fe_crit e) = true ->
                fpath t s c (fe_to e) w -> fpath t s c (fe_from e) w.

(* "a chain of records from nothing to exactly that version" *)
Definition certified (t : ctable) (s : pkg_store) (c : N) (v : N) : Prop :=
  fpath t s c None (Some v).

(* chains that avoid some origins (used for "without exemptions") *)
Inductive fpath_avoiding (bad : origin -> bool) (t : ctable) (s : pkg_store) (c : N) : ver -> ver -> Prop :=
| fpa_refl v : fpath_avoiding bad t s c v v
| fpa_cons e w : In e (all_edges t s) -> cs_has c (fe_crit e) = true -> bad (fe_origin e) = false ->
                 fpath_avoiding bad t s c (fe_to e) w -> fpath_avoiding bad t s c (fe_from e) w.

Lemma usable_PE c e : usable PreferExemptions c e = cs_has c (e_crit e).
Proof. unfold usable. destruct (e_origin e); reflexivity. Qed.
Lemma usable_PFI c e : usable PreferFreshImports c e = cs_has c (e_crit e).
Proof. unfold usable. destruct (e_origin e); reflexivity. Qed.

(* a backward chain from the target is a forward path to the target *)
Lemma bchain_fpath t s c m v x p lv :
  m <> RegenerateExemptions ->
  chain (backward_graph (all_edges t s)) c m (Some v) x p lv -> fpath t s c x (Some v).
Proof.
  intros Hm H. induction H as [y|a b e p lv Hc IH He Hu|a w p lv Hm' Hc IH].
  - constructor.
  - apply in_backward_graph in He. destruct He as [fe [Hfe [Hto ->]]]. cbn.
    assert (Hcs : cs_has c (fe_crit fe) = true).
    { destruct m; [rewrite usable_PE in Hu|rewrite usable_PFI in Hu|congruence]; exact Hu. }
    rewrite <- Hto in IH. eapply fp_cons; eauto.
  - congruence.
Qed.

(* and it uses exactly the origins on the returned path *)
Lemma bchain_fpath_avoiding bad t s c m v x p lv :
  m <> RegenerateExemptions ->
  chain (backward_graph (all_edges t s)) c m (Some v) x p lv ->
  forallb (fun o => negb (bad o)) p = true ->
  fpath_avoiding bad t s c x (Some v).
Proof.
  intros Hm H. induction H as [y|a b e p lv Hc IH He Hu|a w p lv Hm' Hc IH]; intros Hp.
  - constructor.
  - apply in_backward_graph in He. destruct He as [fe [Hfe [Hto ->]]]. cbn in *.
    rewrite forallb_app in Hp. apply andb_prop in Hp. destruct Hp as [Hp1 Hp2]. cbn in Hp2.
    rewrite andb_true_r in Hp2. apply negb_true_iff in Hp2.
    assert (Hcs : cs_has c (fe_crit fe) = true).
    { destruct m; [rewrite usable_PE in Hu|rewrite usable_PFI in Hu|congruence]; exact Hu. }
    specialize (IH Hp1). rewrite <- Hto in IH. eapply fpa_cons; eauto.
  - congruence.
Qed.

(* a forward path to the target is backward-reachable from the target *)
Lemma fpath_breach t s c m x w :
  m <> RegenerateExemptions ->
  fpath t s c x w -> exists lv, reach (backward_graph (all_edges t s)) c m w x lv.
Proof.
  intros Hm H. induction H as [v|e w He Hc Hp [lv IH]].
  - eexists. constructor.
  - eexists. eapply reach_snoc; [exact IH|]. left. exists (bwd_of e). split; [|split; [|split; reflexivity]].
    + apply in_backward_graph. exists e. auto.
    + destruct m; [rewrite usable_PE|rewrite usable_PFI|congruence]; exact Hc.
Qed.

(* ------------------------------------------------------------------ *)
(* AuditGraph.ag_search *)
Lemma ag_search_ok t s ag c v m p :
  m <> RegenerateExemptions ->
  build t s = inl ag -> ag_search ag c v m = SOk p ->
  fpath t s c None (Some v) /\
  (forall bad, forallb (fun o => negb (bad o)) p = true -> fpath_avoiding bad t s c None (Some v)).
Proof.
  intros Hm Hb Hs. unfold build in Hb. destruct (violation_conflicts t s); [|discriminate].
  inversion Hb; subst ag; clear Hb. unfold ag_search in Hs. cbn [ag_backward ag_forward] in Hs.
  destruct (search _ (backward_graph _) c m (Some v) None) as [p'| |] eqn:E; try discriminate.
  - inversion Hs; subst p'. apply search_sound in E. destruct E as [lv Hc]. split.
    + eapply bchain_fpath; eauto.
    + intros bad Hbad. eapply bchain_fpath_avoiding; eauto.
  - destruct (search _ (forward_graph _) c m None (Some v)); discriminate.
Qed.

Lemma ag_search_err t s ag c v m fr ft :
  m <> RegenerateExemptions ->
  build t s = inl ag -> ag_search ag c v m = SErr fr ft -> ~ fpath t s c None (Some v).
Proof.
  intros Hm Hb Hs Hp. unfold build in Hb. destruct (violation_conflicts t s); [|discriminate].
  inversion Hb; subst ag; clear Hb. unfold ag_search in Hs. cbn [ag_backward ag_forward] in Hs.
  pose proof (search_spec (backward_graph (all_edges t s)) c m (Some v) None
                (search_fuel (backward_graph (all_edges t s)))) as Sp.
  destruct (search _ (backward_graph _) c m (Some v) None) as [p'|vis|] eqn:E; try discriminate.
  cbn in Sp. destruct Sp as [Hvis Hnt].
  apply (fpath_breach _ _ _ m) in Hp; [|exact Hm]. apply Hnt. apply Hvis. exact Hp.
Qed.

(* minimax: the returned path's level is minimal among all chains *)
Lemma ag_search_minimax t s ag c v m p :
  build t s = inl ag -> ag_search ag c v m = SOk p ->
  exists lv, chain (backward_graph (all_edges t s)) c m (Some v) None p lv /\
    forall lv', reach (backward_graph (all_edges t s)) c m (Some v) None lv' -> lv <= lv'.
Proof.
  intros Hb Hs. unfold build in Hb. destruct (violation_conflicts t s); [|discriminate].
  inversion Hb; subst ag; clear Hb. unfold ag_search in Hs. cbn [ag_backward ag_forward] in Hs.
  pose proof (search_spec (backward_graph (all_edges t s)) c m (Some v) None
                (search_fuel (backward_graph (all_edges t s)))) as Sp.
  destruct (search _ (backward_graph _) c m (Some v) None) as [p'|vis|] eqn:E; try discriminate.
  - inversion Hs; subst p'. exact Sp.
  - destruct (search _ (forward_graph _) c m None (Some v)); discriminate.
Qed.

(* ------------------------------------------------------------------ *)
(* resolve_pkg / conclude *)

Lemma fold_failures_spec (rs : list search_result) req :
  forall ne de cf ne' de' cf',
  fold_left (fun '(ne, de, cf) c =>
      match nth (N.to_nat c) rs SFuel with
      | SOk path => (ne || existsb is_exemption path, de || forallb is_exemption_or_unpublished path, cf)
      | _ => (ne, de, cs_set c cf)
      end) req (ne, de, cf) = (ne', de', cf') ->
  (forall c, cs_has c cf' = true <->
             cs_has c cf = true \/ (In c req /\ forall p, nth (N.to_nat c) rs SFuel <> SOk p)) /\
  (ne' = true <-> ne = true \/ exists c p, In c req /\ nth (N.to_nat c) rs SFuel = SOk p /\ existsb is_exemption p = true).
Proof.
  induction req as [|x req IH]; intros ne de cf ne' de' cf' H; cbn [fold_left] in H.
  - inversion H; subst. split.
    + intros c. split; [auto|intros [H1|[[] _]]; exact H1].
    + split; [auto|intros [H1|[c [p [[] _]]]]; exact H1].
  - destruct (nth (N.to_nat x) rs SFuel) as [path| |] eqn:E.
    + apply IH in H. destruct H as [H1 H2]. split.
      * intros c. rewrite H1. split.
        -- intros [Hc|[Hin Hn]]; [left; exact Hc|right; split; [right; exact Hin|exact Hn]].
        -- intros [Hc|[[<-|Hin] Hn]]; [left; exact Hc| |right; split; assumption].
           exfalso. apply (Hn path). exact E.
      * rewrite H2. split.
        -- intros [Hne|[c [p [Hin [Hp He]]]]].
           ++ apply orb_prop in Hne. destruct Hne as [Hne|Hne]; [left; exact Hne|].
              right. exists x, path. split; [left; reflexivity|split; assumption].
           ++ right. exists c, p. split; [right; exact Hin|split; assumption].
        -- intros [Hne|[c [p [[<-|Hin] [Hp He]]]]].
           ++ left. rewrite Hne. reflexivity.
           ++ left. rewrite E in Hp. inversion Hp; subst. rewrite He. apply orb_true_r.
           ++ right. exists c, p. auto.
    + apply IH in H. destruct H as [H1 H2]. split.
      * intros c. rewrite H1, cs_has_set. split.
        -- intros [Hc|[Hin Hn]].
           ++ apply orb_prop in Hc. destruct Hc as [Hc|Hc]; [|left; exact Hc].
              apply N.eqb_eq in Hc. subst c. right. split; [left; reflexivity|]. intros p. rewrite E. discriminate.
           ++ right. split; [right; exact Hin|exact Hn].
        -- intros [Hc|[[<-|Hin] Hn]].
           ++ left. rewrite Hc. apply orb_true_r.
           ++ left. rewrite N.eqb_refl. reflexivity.
           ++ right. split; assumption.
      * rewrite H2. split.
        -- intros [Hne|[c [p [Hin Hp]]]]; [left; exact Hne|right; exists c, p; split; [right; exact Hin|exact Hp]].
        -- intros [Hne|[c [p [[<-|Hin] [Hp He]]]]]; [left; exact Hne| |right; exists c, p; auto].
           rewrite E in Hp. discriminate.
    + apply IH in H. destruct H as [H1 H2]. split.
      * intros c. rewrite H1, cs_has_set. split.
        -- intros [Hc|[Hin Hn]].
           ++ apply orb_prop in Hc. destruct Hc as [Hc|Hc]; [|left; exact Hc].
              apply N.eqb_eq in Hc. subst c. right. split; [left; reflexivity|]. intros p. rewrite E. discriminate.
           ++ right. split; [right; exact Hin|exact Hn].
        -- intros [Hc|[[<-|Hin] Hn]].
           ++ left. rewrite Hc. apply orb_true_r.
           ++ left. rewrite N.eqb_refl. reflexivity.
           ++ right. split; assumption.
      * rewrite H2. split.
        -- intros [Hne|[c [p [Hin Hp]]]]; [left; exact Hne|right; exists c, p; split; [right; exact Hin|exact Hp]].
        -- intros [Hne|[c [p [[<-|Hin] [Hp He]]]]]; [left; exact Hne| |right; exists c, p; auto].
           rewrite E in Hp. discriminate.
Qed.

(* What the outcome of one third-party package means. *)
Lemma resolve_pkg_searched t s p required rs :
  po_result (resolve_pkg t s p required) = PSearched rs ->
  pk_third_party p = true /\
  exists ag, build t (store_for s (pk_name p)) = inl ag /\
    rs = map (fun c => ag_search ag c (pk_version p) PreferExemptions) (nseq 0 (ct_len t)).
Proof.
  unfold resolve_pkg. destruct (pk_third_party p); cbn [negb]; cbv iota; [|cbn [po_result]; discriminate].
  destruct (build t (store_for s (pk_name p))) as [ag|cs] eqn:B; cbv zeta.
  - destruct (fold_left _ _ _) as [[ne de] cf]. cbn [po_result]. intros H. inversion H. split; [reflexivity|].
    exists ag. split; reflexivity.
  - cbn [po_result]. discriminate.
Qed.

Lemma nth_map_nseq {A} (f : N -> A) d n c :
  c < N.of_nat n -> nth (N.to_nat c) (map f (nseq 0 n)) d = f c.
Proof.
  intros Hc. assert (G : forall s k i, (i < k)%nat -> nth i (map f (nseq s k)) d = f (s + N.of_nat i)).
  { intros s k; revert s; induction k as [|k IH]; intros s i Hi; [lia|].
    destruct i as [|i]; cbn [nseq map nth].
    - f_equal. lia.
    - rewrite IH by lia. f_equal. lia. }
  rewrite G by lia. f_equal. lia.
Qed.

Lemma resolve_pkg_failures t s p required rs :
  po_result (resolve_pkg t s p required) = PSearched rs ->
  forall c, cs_has c (po_failures (resolve_pkg t s p required)) = true <->
    (c < N.of_nat (ct_len t) /\ cs_has c required = true /\ forall path, nth (N.to_nat c) rs SFuel <> SOk path).
Proof.
  unfold resolve_pkg. destruct (pk_third_party p); cbn [negb]; cbv iota; [|cbn [po_result]; discriminate].
  destruct (build t (store_for s (pk_name p))) as [ag|cs] eqn:B; cbv zeta; [|cbn [po_result]; discriminate].
  destruct (fold_left _ _ _) as [[ne de] cf] eqn:F. cbn [po_result po_failures po_needed_exemptions].
  intros H. inversion H; subst rs. clear H.
  apply fold_failures_spec in F. destruct F as [F _]. intros c. rewrite F, cs_has_empty, in_cs_indices.
  split.
  - intros [H|[[H1 H2] H3]]; [discriminate|auto].
  - intros [H1 [H2 H3]]. right. auto.
Qed.

Lemma resolve_pkg_needed t s p required rs :
  po_result (resolve_pkg t s p required) = PSearched rs ->
  po_needed_exemptions (resolve_pkg t s p required) = true <->
    exists c path, c < N.of_nat (ct_len t) /\ cs_has c required = true /\
      nth (N.to_nat c) rs SFuel = SOk path /\ existsb is_exemption path = true.
Proof.
  unfold resolve_pkg. destruct (pk_third_party p); cbn [negb]; cbv iota; [|cbn [po_result]; discriminate].
  destruct (build t (store_for s (pk_name p))) as [ag|cs] eqn:B; cbv zeta; [|cbn [po_result]; discriminate].
  destruct (fold_left _ _ _) as [[ne de] cf] eqn:F. cbn [po_result po_failures po_needed_exemptions].
  intros H. inversion H; subst rs. clear H.
  apply fold_failures_spec in F. destruct F as [_ F]. rewrite F. split.
  - intros [H|[c [path [Hin H]]]]; [discriminate|]. apply in_cs_indices in Hin. exists c, path. tauto.
  - intros [c [path [H1 [H2 H3]]]]. right. exists c, path. rewrite in_cs_indices. tauto.
Qed.

(* ---- the conclusion ---- *)
Lemma conclude_success outs a b c :
  conclude outs = Success a b c ->
  forall i o, nth_error outs i = Some o ->
    (forall cs, po_result o <> PViolation cs) /\
    (is_searched o = true -> cs_is_empty (po_failures o) = true).
Proof.
  unfold conclude. intros H i o Hi.
  assert (Hin : In (i, o) (enumerate outs)).
  { apply (in_enumerate o). split; [apply nth_error_Some; congruence|].
    apply nth_error_nth; exact Hi. }
  destruct (flat_map _ (enumerate outs)) as [|v vs] eqn:V in H; [|discriminate].
  destruct (flat_map _ (enumerate outs)) as [|f fs] eqn:F in H; [|discriminate].
  split.
  - intros cs Hc.
    assert (X : In (i, cs) (flat_map (fun '(i, o) => match po_result o with PViolation cs => [(i, cs)] | _ => [] end) (enumerate outs))).
    { apply in_flat_map. exists (i, o). split; [exact Hin|]. rewrite Hc. left. reflexivity. }
    rewrite V in X. destruct X.
  - intros Hs. destruct (cs_is_empty (po_failures o)) eqn:E; [reflexivity|exfalso].
    assert (X : In (i, po_failures o) (flat_map (fun '(i, o) =>
               if is_searched o && negb (cs_is_empty (po_failures o)) then [(i, po_failures o)] else []) (enumerate outs))).
    { apply in_flat_map. exists (i, o). split; [exact Hin|]. rewrite Hs, E. left. reflexivity. }
    rewrite F in X. destruct X.
Qed.

Lemma in_sel_iff (f : pkg_outcome -> bool) outs i :
  In i (flat_map (fun '(i, o) => if is_searched o && f o then [i] else []) (enumerate outs)) <->
  exists o, nth_error outs i = Some o /\ is_searched o = true /\ f o = true.
Proof.
  rewrite in_flat_map. split.
  - intros [[j o] [Hin H]]. destruct (is_searched o && f o) eqn:E; [|destruct H].
    destruct H as [<-|[]]. apply andb_prop in E. exists o. split; [|exact E].
    apply (in_enumerate o) in Hin. destruct Hin as [H1 H2]. rewrite (nth_error_nth' _ o H1), H2. reflexivity.
  - intros [o [Hn [H1 H2]]]. exists (i, o). split.
    + apply (in_enumerate o). split; [apply nth_error_Some; congruence|apply nth_error_nth; exact Hn].
    + rewrite H1, H2. left. reflexivity.
Qed.

Lemma conclude_failvet outs fs :
  conclude outs = FailForVet fs ->
  forall i cf, In (i, cf) fs <->
    exists o, nth_error outs i = Some o /\ is_searched o = true /\ cf = po_failures o /\ cs_is_empty cf = false.
Proof.
  unfold conclude. intros H.
  destruct (flat_map _ (enumerate outs)) as [|v vs] eqn:V in H; [|discriminate].
  destruct (flat_map _ (enumerate outs)) as [|f fs'] eqn:F in H; [discriminate|].
  inversion H; subst fs. clear H. intros i cf. rewrite <- F, in_flat_map. split.
  - intros [[j o] [Hin H]]. destruct (is_searched o) eqn:S; cbn in H; [|destruct H].
    destruct (cs_is_empty (po_failures o)) eqn:E; cbn in H; [destruct H|].
    destruct H as [H|[]]. inversion H; subst. exists o. repeat split; auto.
    apply (in_enumerate o) in Hin. destruct Hin as [H1 H2]. rewrite (nth_error_nth' _ o H1), H2. reflexivity.
  - intros [o [Hn [S [-> E]]]]. exists (i, o). split.
    + apply (in_enumerate o). split; [apply nth_error_Some; congruence|apply nth_error_nth; exact Hn].
    + rewrite S, E. left. reflexivity.
Qed.

(* outcomes are the per-package results, in PackageIdx order *)
Lemma resolve_outcome inp s i p :
  nth_error (g_pkgs (r_graph (resolve inp s))) i = Some p ->
  nth_error (r_outcomes (resolve inp s)) i =
    Some (resolve_pkg (st_criteria s) s p (nth i (r_requirements (resolve inp s)) cs_empty)).
Proof.
  unfold resolve. cbn [r_graph r_outcomes r_requirements].
  set (g := depgraph_new inp). set (t := st_criteria s). set (reqs := resolve_requirements t g).
  intros Hp.
  assert (G : forall l k j q, nth_error l j = Some q ->
     nth_error (map (fun '(i, p) => resolve_pkg t s p (nth i reqs cs_empty)) (enumerate_from k l)) j
       = Some (resolve_pkg t s q (nth (k + j) reqs cs_empty))).
  { induction l as [|x l IH]; intros k j q Hq; [destruct j; discriminate|].
    destruct j as [|j]; cbn in *.
    - inversion Hq; subst. rewrite Nat.add_0_r. reflexivity.
    - rewrite (IH (S k) j q Hq). f_equal. f_equal. f_equal. lia. }
  apply (G _ 0%nat) in Hp. exact Hp.
Qed.

Lemma nth_error_lt {A} (l : list A) i x : nth_error l i = Some x -> (i < length l)%nat.
Proof. intros H. apply nth_error_Some. congruence. Qed.

Lemma enumerate_from_length {A} (l : list A) k : length (enumerate_from k l) = length l.
Proof. revert k; induction l; intros; cbn; auto. Qed.

Lemma outcomes_length inp s :
  length (r_outcomes (resolve inp s)) = length (g_pkgs (r_graph (resolve inp s))).
Proof. unfold resolve. cbn [r_outcomes r_graph]. rewrite map_length. apply enumerate_from_length. Qed.

Lemma outcome_pkg inp s i o :
  nth_error (r_outcomes (resolve inp s)) i = Some o ->
  exists p, nth_error (g_pkgs (r_graph (resolve inp s))) i = Some p /\
            o = resolve_pkg (st_criteria s) s p (nth i (r_requirements (resolve inp s)) cs_empty).
Proof.
  intros Ho. pose proof (nth_error_lt _ _ _ Ho) as Hl. rewrite outcomes_length in Hl.
  destruct (nth_error (g_pkgs (r_graph (resolve inp s))) i) as [p|] eqn:Hp; [|apply nth_error_None in Hp; lia].
  exists p. split; [reflexivity|]. pose proof (resolve_outcome inp s i p Hp) as Ho'. congruence.
Qed.

Lemma conclude_violation outs vs :
  conclude outs = FailForViolationConflict vs ->
  exists i cs o, nth_error outs i = Some o /\ po_result o = PViolation cs.
Proof.
  unfold conclude. intros H.
  destruct (flat_map _ (enumerate outs)) as [|[i cs] vs'] eqn:V in H.
  - destruct (flat_map _ (enumerate outs)) in H; discriminate.
  - assert (X : In (i, cs) (flat_map (fun '(i, o) => match po_result o with PViolation cs => [(i, cs)] | _ => [] end) (enumerate outs)))
      by (rewrite V; left; reflexivity).
    apply in_flat_map in X. destruct X as [[j o] [Hin X]].
    destruct (po_result o) as [|cs'|rs] eqn:Hres; [destruct X| |destruct X]. destruct X as [X|[]]. inversion X; subst j cs'.
    apply (in_enumerate o) in Hin. destruct Hin as [H1 H2].
    exists i, cs, o. split; [rewrite (nth_error_nth' _ o H1), H2; reflexivity|exact Hres].
Qed.

Lemma conclude_failvet_nonempty outs fs :
  conclude outs = FailForVet fs -> exists i cf, In (i, cf) fs.
Proof.
  unfold conclude. intros H.
  destruct (flat_map _ (enumerate outs)) as [|v vs'] eqn:V in H; [|discriminate].
  destruct (flat_map _ (enumerate outs)) as [|[i cf] fs'] eqn:F in H; [discriminate|].
  inversion H; subst. exists i, cf. left. reflexivity.
Qed.

Lemma cs_nonempty_has cf : cs_is_empty cf = false -> exists c, cs_has c cf = true.
Proof.
  unfold cs_is_empty. intros H. apply N.eqb_neq in H.
  exists (N.log2 cf). unfold cs_has. apply N.bit_log2. exact H.
Qed.
