(* EndToEnd.v — a store that vets still vets after any store update whose searches are
   not in RegenerateExemptions mode (the check's own update, prune with any flags,
   regenerate imports, the clean-up after certify / trust / import); and a
   RegenerateExemptions update (init, regenerate exemptions) certifies every required
   pair.  Assembles PreserveProofs with the verdict theorems. *)
Require Import Base Extracted Criteria Search AuditGraph DepGraph Resolve Update Commands.
Require Import CriteriaProofs SearchProofs AuditGraphProofs ResolveProofs ResolveTheorems UpdateProofs UpdateKeep
               FuelProofs PreserveProofs.
Local Open Scope N_scope.

(* ---- criteria sets: a path for m is a path for everything m implies ---- *)
Lemma all_criteria_has t c : cs_has c (all_criteria t) = true <-> c < N.of_nat (ct_len t).
Proof. unfold cs_has, all_criteria. apply N.ones_spec_iff. Qed.

Lemma fpath_weaken t s m0 c a b :
  c < N.of_nat (ct_len t) -> cs_has c (closure t m0) = true -> fpath t s m0 a b -> fpath t s c a b.
Proof.
  intros Hc Hcl H. induction H as [v|e w He Hm Hp IH]; [constructor|].
  eapply fp_cons; [exact He| |exact IH].
  destruct (edge_crit_form t s e He) as [[l El]|Ea].
  - rewrite El in *. eapply from_list_closed; eauto.
  - rewrite Ea. apply all_criteria_has. exact Hc.
Qed.

Lemma minimal_indices_ext t a b :
  (forall c, c < N.of_nat (ct_len t) -> cs_has c a = cs_has c b) -> minimal_indices t a = minimal_indices t b.
Proof.
  intros H. unfold minimal_indices.
  assert (E : cs_indices (ct_len t) a = cs_indices (ct_len t) b).
  { unfold cs_indices. apply filter_ext_in. intros c Hc. apply in_nseq in Hc. apply H. lia. }
  rewrite E. reflexivity.
Qed.

Lemma minimal_covers_lt t : (forall c, ~ reachp t c c) ->
  forall s x, x < N.of_nat (ct_len t) -> cs_has x s = true ->
  exists m0, In m0 (minimal_indices t s) /\ cs_has x (closure t m0) = true.
Proof.
  intros Hac s x Hx Hs. set (s' := cs_inter s (all_criteria t)).
  assert (Hb : bounded t s') by (intros c Hc; unfold s' in Hc; rewrite cs_has_inter in Hc; apply andb_prop in Hc; apply all_criteria_has; tauto).
  assert (Hx' : cs_has x s' = true) by (unfold s'; rewrite cs_has_inter, Hs; apply all_criteria_has; exact Hx).
  destruct (minimal_covers t Hac s' Hb x Hx') as [m0 [Hm Hc]]. exists m0. split; [|exact Hc].
  rewrite (minimal_indices_ext t s s'); [exact Hm|].
  intros c Hc'. unfold s'. rewrite cs_has_inter. rewrite (proj2 (all_criteria_has t c) Hc'). rewrite andb_true_r. reflexivity.
Qed.

(* ---- the updated store, per crate name ---- *)
Lemma map_combine_map {A B C} (f : A -> B) (g : A * B -> C) (l : list A) :
  map g (combine l (map f l)) = map (fun x => g (x, f x)) l.
Proof. induction l as [|x l IH]; cbn; [reflexivity|]. rewrite IH. reflexivity. Qed.

Definition re_of (inp : depgraph_in) (s : store) (mode : N -> update_mode) (name : N) : option rmap :=
  let g := depgraph_new inp in
  if name_in_graph g name
  then required_entries (st_criteria s) g (resolve_requirements (st_criteria s) g) s name (um_search (mode name))
  else Some [].

Lemma update_store_pkgs inp s mode :
  st_pkgs (update_store inp s mode) =
  map (fun '(name, ps) =>
         (name, apply_pkg_update ps (update_pkg (st_criteria s) (mode name) (name_in_graph (depgraph_new inp) name)
                                                (re_of inp s mode name) ps))) (st_pkgs s).
Proof.
  unfold update_store, get_store_updates. cbn [st_pkgs]. rewrite map_combine_map.
  apply map_ext. intros [name ps]. reflexivity.
Qed.

Lemma store_for_update inp s mode name :
  store_for (update_store inp s mode) name =
  match find (fun '(n, _) => N.eqb n name) (st_pkgs s) with
  | Some (_, ps) => apply_pkg_update ps (update_pkg (st_criteria s) (mode name) (name_in_graph (depgraph_new inp) name)
                                                    (re_of inp s mode name) ps)
  | None => empty_pkg_store
  end.
Proof.
  unfold store_for. rewrite update_store_pkgs. induction (st_pkgs s) as [|[k ps] l IH]; cbn [map find]; [reflexivity|].
  destruct (N.eqb_spec k name) as [->|Hne]; [reflexivity|exact IH].
Qed.

Lemma certified_empty t c v : ~ certified t empty_pkg_store c v.
Proof.
  unfold certified. intros H. remember None as a eqn:Ea. remember (Some v) as b eqn:Eb.
  destruct H as [w|e w He _ _]; [congruence|]. cbn in He. exact He.
Qed.

(* ---- all searches succeed => required_entries returns a map ---- *)
Lemma required_entries_some t g reqs s name m ag :
  build t (store_for s name) = inl ag ->
  (forall i p, In (i, p) (enumerate (g_pkgs g)) -> pk_name p = name -> pk_third_party p = true ->
     forall c, In c (minimal_indices t (nth i reqs cs_empty)) -> exists path, ag_search ag c (pk_version p) m = SOk path) ->
  exists rm, required_entries t g reqs s name m = Some rm.
Proof.
  intros Hb Hall. unfold required_entries.
  set (flt := filter (fun '(i, p) => N.eqb (pk_name p) name && pk_third_party p) (enumerate (g_pkgs g))).
  assert (Hflt : forall i p, In (i, p) flt -> forall c, In c (minimal_indices t (nth i reqs cs_empty)) ->
                   exists path, ag_search ag c (pk_version p) m = SOk path).
  { intros i p Hin. apply filter_In in Hin. destruct Hin as [Hin Hf]. apply andb_prop in Hf. destruct Hf as [Hn Ht].
    apply N.eqb_eq in Hn. apply (Hall i p Hin Hn Ht). }
  destruct flt as [|pk pkgs] eqn:E; [eexists; reflexivity|]. rewrite Hb.
  revert Hflt. generalize (pk :: pkgs). intros l Hl.
  assert (G : forall l acc0, (forall i p, In (i, p) l -> forall c, In c (minimal_indices t (nth i reqs cs_empty)) ->
                   exists path, ag_search ag c (pk_version p) m = SOk path) ->
     exists rm, fold_left (fun acc '(i, p) =>
          fold_left (fun acc c =>
            match acc with
            | None => None
            | Some rm =>
                match ag_search ag c (pk_version p) m with
                | SOk path => Some (fold_left (fun rm o => fold_left (fun rm e => rmap_add rm e c) (entries_of_origin o) rm) path rm)
                | _ => None
                end
            end) (minimal_indices t (nth i reqs cs_empty)) acc) l (Some acc0) = Some rm).
  { induction l0 as [|[i p] l0 IH]; intros acc0 H; cbn [fold_left]; [eexists; reflexivity|].
    assert (Hin : forall acc1 cl, (forall c, In c cl -> exists path, ag_search ag c (pk_version p) m = SOk path) ->
       exists rm1, fold_left (fun acc c =>
            match acc with
            | None => None
            | Some rm =>
                match ag_search ag c (pk_version p) m with
                | SOk path => Some (fold_left (fun rm o => fold_left (fun rm e => rmap_add rm e c) (entries_of_origin o) rm) path rm)
                | _ => None
                end
            end) cl (Some acc1) = Some rm1).
    { intros acc1 cl. revert acc1. induction cl as [|c cl IHc]; intros acc1 Hc; cbn [fold_left]; [eexists; reflexivity|].
      destruct (Hc c (or_introl eq_refl)) as [path Ep]. rewrite Ep. apply IHc. intros c' Hc'. apply Hc. right. exact Hc'. }
    destruct (Hin acc0 (minimal_indices t (nth i reqs cs_empty)) (H i p (or_introl eq_refl))) as [rm1 E1]. rewrite E1.
    apply IH. intros i' p' Hin' c Hc. apply (H i' p'); [right; exact Hin'|exact Hc]. }
  apply G. exact Hl.
Qed.

(* ---- one crate: the update keeps every required pair certified ---- *)
Section OneCrate.
Variables (inp : depgraph_in) (s : store) (mode : N -> update_mode).
Let t := st_criteria s.
Let g := depgraph_new inp.
Let reqs := resolve_requirements t g.
Let s' := update_store inp s mode.
Hypothesis table_acyclic : ct_acyclic t = true.
Hypothesis exemptions_valid : forall name x c, In x (ps_exemptions (store_for s name)) -> In c (x_crit x) -> c < N.of_nat (ct_len t).
(* the store value has an entry (possibly empty) for every crate name of the graph *)
Hypothesis names_complete : forall p, In p (g_pkgs g) -> find (fun '(n0, _) => N.eqb n0 (pk_name p)) (st_pkgs s) <> None.

Lemma acy : forall c, ~ reachp t c c.
Proof. apply ct_acyclic_spec. exact table_acyclic. Qed.

Theorem crate_preserved i p rm ag :
  nth_error (g_pkgs g) i = Some p -> pk_third_party p = true ->
  build t (store_for s (pk_name p)) = inl ag ->
  re_of inp s mode (pk_name p) = Some rm ->
  forall c, c < N.of_nat (ct_len t) -> cs_has c (nth i reqs cs_empty) = true ->
  certified t (store_for s' (pk_name p)) c (pk_version p).
Proof.
  intros Hp Ht Hb Hre c Hc Hreq. set (name := pk_name p) in *.
  assert (Hin : In (i, p) (enumerate (g_pkgs g))).
  { apply (in_enumerate p). split; [apply nth_error_Some; congruence|apply nth_error_nth; exact Hp]. }
  assert (Hing : name_in_graph g name = true).
  { unfold name_in_graph. apply existsb_exists. exists p. split; [eapply nth_error_In; eauto|apply N.eqb_refl]. }
  unfold re_of in Hre. fold g t reqs in Hre. rewrite Hing in Hre.
  destruct (minimal_covers_lt t acy (nth i reqs cs_empty) c Hc Hreq) as [m0 [Hm0 Hcl]].
  destruct (required_entries_covers t g reqs s name _ rm ag Hre Hb i p Hin eq_refl Ht m0 Hm0) as [path [Es Hcov]].
  (* the store the update leaves for this crate *)
  unfold s'. rewrite store_for_update. fold t g.
  unfold re_of. fold g t reqs. rewrite Hing, Hre.
  destruct (find (fun '(n0, _) => N.eqb n0 name) (st_pkgs s)) as [[k ps]|] eqn:F.
  - assert (Eps : store_for s name = ps) by (unfold store_for; rewrite F; reflexivity).
    rewrite Eps in *.
    unfold build in Hb. destruct (violation_conflicts t ps); [|discriminate]. inversion Hb; subst ag; clear Hb.
    unfold ag_search in Es. cbn [ag_backward ag_forward] in Es.
    destruct (search _ (backward_graph _) m0 _ (Some (pk_version p)) None) as [p'| |] eqn:E; try discriminate.
    2:{ destruct (search _ (forward_graph _) m0 _ None (Some (pk_version p))); discriminate. }
    inversion Es; subst p'. apply search_sound in E. destruct E as [lv Hchain].
    apply (fpath_weaken t _ m0 c _ _ Hc Hcl).
    eapply (chain_preserved t (mode name) rm ps acy); [| |exact Hchain|exact Hcov].
    + intros x c0 Hx Hc0. apply (exemptions_valid name x c0); [rewrite Eps; exact Hx|exact Hc0].
    + eapply required_entries_bounded. exact Hre.
  - exfalso. apply (names_complete p); [eapply nth_error_In; eauto|exact F].
Qed.
End OneCrate.

(* ---- the whole store ---- *)
Section Whole.
Variables (inp : depgraph_in) (s : store) (mode : N -> update_mode).
Let t := st_criteria s.
Let g := depgraph_new inp.
Let reqs := resolve_requirements t g.
Let s' := update_store inp s mode.
Hypothesis table_acyclic : ct_acyclic t = true.
Hypothesis exemptions_valid : forall name x c, In x (ps_exemptions (store_for s name)) -> In c (x_crit x) -> c < N.of_nat (ct_len t).
Hypothesis names_complete : forall p, In p (g_pkgs g) -> find (fun '(n0, _) => N.eqb n0 (pk_name p)) (st_pkgs s) <> None.

Lemma graph_same : r_graph (resolve inp s') = g. Proof. reflexivity. Qed.
Lemma reqs_same i : required_of inp s' i = nth i reqs cs_empty. Proof. reflexivity. Qed.

Theorem update_preserves_success :
  (forall name, um_search (mode name) <> RegenerateExemptions) ->
  (exists a b c0, r_conclusion (resolve inp s) = Success a b c0) ->
  exists a b c0, r_conclusion (resolve inp s') = Success a b c0.
Proof.
  intros Hmode [a [b [c0 Hsucc]]].
  apply (success_complete inp s' (no_fuel_always inp s')). intros i p Hp Ht.
  unfold pkg_at in Hp. rewrite graph_same in Hp.
  set (name := pk_name p).
  (* the old verdict for this crate *)
  destruct (third_party_result inp s i p Hp Ht) as [o [Ho [Eo Hres]]].
  pose proof (conclude_success _ _ _ _ Hsucc i o Ho) as [Hnv _].
  destruct Hres as [[cs Hcs]|[rs Hrs]]; [exfalso; eapply Hnv; eauto|].
  subst o. destruct (resolve_pkg_searched _ _ _ _ _ Hrs) as [_ [ag [Hb _]]]. fold t name in Hb.
  (* every search of the update succeeds *)
  assert (Hm : um_search (mode name) <> RegenerateExemptions) by apply Hmode.
  assert (Hall : forall i' p', In (i', p') (enumerate (g_pkgs g)) -> pk_name p' = name -> pk_third_party p' = true ->
            forall c, In c (minimal_indices t (nth i' reqs cs_empty)) ->
            exists path, ag_search ag c (pk_version p') (um_search (mode name)) = SOk path).
  { intros i' p' Hin' Hn' Ht' c Hc. apply minimal_spec in Hc. destruct Hc as [Hlt [Hreq _]].
    assert (Hp' : pkg_at inp s i' p').
    { unfold pkg_at. apply (in_enumerate p') in Hin'. destruct Hin' as [H1 H2]. change (r_graph (resolve inp s)) with g.
      rewrite (nth_error_nth' _ p' H1), H2. reflexivity. }
    pose proof (success_sound inp s a b c0 Hsucc i' p' Hp' Ht' c Hlt Hreq) as Hcert. fold t in Hcert. rewrite Hn' in Hcert.
    destruct (ag_search ag c (pk_version p') (um_search (mode name))) as [path|fr ft|] eqn:Es; [eauto|exfalso|exfalso].
    - eapply ag_search_err; eauto.
    - eapply ag_search_never_runs_out; eauto. }
  destruct (required_entries_some t g reqs s name _ ag Hb Hall) as [rm Hre].
  assert (Hing : name_in_graph g name = true).
  { unfold name_in_graph. apply existsb_exists. exists p. split; [eapply nth_error_In; eauto|apply N.eqb_refl]. }
  assert (Hre' : re_of inp s mode name = Some rm) by (unfold re_of; fold g t reqs; rewrite Hing; exact Hre).
  split.
  - (* no conflict is created *)
    change (st_criteria s') with t. unfold s'. rewrite store_for_update. fold t g name. rewrite Hre', Hing.
    destruct (find (fun '(n0, _) => N.eqb n0 name) (st_pkgs s)) as [[k ps]|] eqn:F; [|reflexivity].
    assert (Eps : store_for s name = ps) by (unfold store_for; rewrite F; reflexivity). rewrite Eps in *.
    apply no_new_conflicts.
    + rewrite <- Eps. eapply required_entries_exemptions; eauto.
    + eapply required_entries_nodup; eauto.
    + unfold build in Hb. destruct (violation_conflicts t ps); [reflexivity|discriminate].
  - intros c Hc Hreq. change (st_criteria s') with t in *. rewrite reqs_same in Hreq.
    apply (crate_preserved inp s mode table_acyclic exemptions_valid names_complete i p rm ag Hp Ht Hb Hre' c Hc Hreq).
Qed.

(* RegenerateExemptions updates (init, regenerate exemptions): whatever the store certified
   before, afterwards every required pair of every crate whose audit graph has no
   violation conflict is certified *)
Theorem regenerate_certifies i p ag :
  um_search (mode (pk_name p)) = RegenerateExemptions ->
  nth_error (g_pkgs g) i = Some p -> pk_third_party p = true ->
  build t (store_for s (pk_name p)) = inl ag ->
  forall c, c < N.of_nat (ct_len t) -> cs_has c (nth i reqs cs_empty) = true ->
  certified t (store_for s' (pk_name p)) c (pk_version p).
Proof.
  intros Hm Hp Ht Hb c Hc Hreq. set (name := pk_name p) in *.
  assert (Hall : forall i' p', In (i', p') (enumerate (g_pkgs g)) -> pk_name p' = name -> pk_third_party p' = true ->
            forall c, In c (minimal_indices t (nth i' reqs cs_empty)) ->
            exists path, ag_search ag c (pk_version p') (um_search (mode name)) = SOk path).
  { intros i' p' _ _ _ c' _. rewrite Hm.
    destruct (ag_search ag c' (pk_version p') RegenerateExemptions) as [path|fr ft|] eqn:Es; [eauto|exfalso|exfalso].
    - unfold build in Hb. destruct (violation_conflicts t (store_for s name)); [|discriminate]. inversion Hb; subst ag.
      unfold ag_search in Es. cbn [ag_backward ag_forward] in Es.
      destruct (search _ (backward_graph _) c' RegenerateExemptions (Some (pk_version p')) None) as [p0|vis|] eqn:E; try discriminate.
      eapply regenerate_search_total. exact E.
    - eapply ag_search_never_runs_out; eauto. }
  destruct (required_entries_some t g reqs s name _ ag Hb Hall) as [rm Hre].
  assert (Hing : name_in_graph g name = true).
  { unfold name_in_graph. apply existsb_exists. exists p. split; [eapply nth_error_In; eauto|apply N.eqb_refl]. }
  assert (Hre' : re_of inp s mode name = Some rm) by (unfold re_of; fold g t reqs; rewrite Hing; exact Hre).
  apply (crate_preserved inp s mode table_acyclic exemptions_valid names_complete i p rm ag Hp Ht Hb Hre' c Hc Hreq).
Qed.
End Whole.

(* ---- the commands ---- *)
(* the conditions a loaded store value satisfies (Store::validate; the harness passes every crate
   name of the graph): acyclic criteria table, exemption criteria defined, an entry per crate name *)
Definition store_ok (inp : depgraph_in) (s : store) : Prop :=
  ct_acyclic (st_criteria s) = true /\
  (forall name x c, In x (ps_exemptions (store_for s name)) -> In c (x_crit x) -> c < N.of_nat (ct_len (st_criteria s))) /\
  (forall p, In p (g_pkgs (depgraph_new inp)) -> find (fun '(n0, _) => N.eqb n0 (pk_name p)) (st_pkgs s) <> None).

Definition vets (inp : depgraph_in) (s : store) : Prop := exists a b c0, r_conclusion (resolve inp s) = Success a b c0.

Lemma vets_no_errors inp s : vets inp s <-> has_errors (resolve inp s) = false.
Proof.
  unfold vets, has_errors. destruct (r_conclusion (resolve inp s)); split; intros H;
    try discriminate; try (destruct H as [a [b [c H]]]; discriminate); eauto.
Qed.

Theorem update_preserves_vetting inp s mode :
  store_ok inp s -> (forall name, um_search (mode name) <> RegenerateExemptions) ->
  vets inp s -> vets inp (update_store inp s mode).
Proof. intros [A [B C]] Hm Hv. exact (update_preserves_success inp s mode A B C Hm Hv). Qed.

(* C09: a successful unlocked check leaves a store on which the locked check succeeds *)
Theorem check_then_locked inp s s1 :
  store_ok inp s -> cmd_check false inp s = Some s1 -> has_errors (resolve inp s1) = false.
Proof.
  intros Hok H. unfold cmd_check in H. destruct (has_errors (resolve inp s)) eqn:E; [discriminate|].
  inversion H; subst s1. apply vets_no_errors. apply update_preserves_vetting; [exact Hok| |apply vets_no_errors; exact E].
  intros name. cbn. discriminate.
Qed.

(* C10: prune (any flags), regenerate imports, and the clean-ups after certify / trust keep a
   vetting store vetting *)
Theorem prune_preserves inp s a b c : store_ok inp s -> vets inp s -> vets inp (cmd_prune a b c inp s).
Proof. intros Hok Hv. apply update_preserves_vetting; [exact Hok| |exact Hv]. intros name. destruct a, b, c; cbn; discriminate. Qed.
Theorem regenerate_imports_preserves inp s : store_ok inp s -> vets inp s -> vets inp (cmd_regenerate_imports inp s).
Proof. intros Hok Hv. apply update_preserves_vetting; [exact Hok| |exact Hv]. intros name. cbn. discriminate. Qed.
Theorem certify_cleanup_preserves inp s target : store_ok inp s -> vets inp s -> vets inp (cleanup_certify target inp s).
Proof. intros Hok Hv. apply update_preserves_vetting; [exact Hok| |exact Hv]. intros name. destruct (N.eqb name target); cbn; discriminate. Qed.
Theorem trust_cleanup_preserves inp s target : store_ok inp s -> vets inp s -> vets inp (cleanup_trust target inp s).
Proof. intros Hok Hv. apply update_preserves_vetting; [exact Hok| |exact Hv]. intros name. destruct (N.eqb name target); cbn; discriminate. Qed.
Theorem import_cleanup_preserves inp s : store_ok inp s -> vets inp s -> vets inp (update_store inp s (fun _ => mode_import)).
Proof. intros Hok Hv. apply update_preserves_vetting; [exact Hok| |exact Hv]. intros name. cbn. discriminate. Qed.

(* C10: init / regenerate exemptions certify every required pair of every crate whose audit graph
   had no violation conflict, whatever the store held before *)
Theorem regenerate_exemptions_certifies inp s i p ag :
  store_ok inp s ->
  nth_error (g_pkgs (depgraph_new inp)) i = Some p -> pk_third_party p = true ->
  build (st_criteria s) (store_for s (pk_name p)) = inl ag ->
  forall c, c < N.of_nat (ct_len (st_criteria s)) ->
    cs_has c (nth i (resolve_requirements (st_criteria s) (depgraph_new inp)) cs_empty) = true ->
  certified (st_criteria s) (store_for (cmd_regenerate_exemptions inp s) (pk_name p)) c (pk_version p) /\
  certified (st_criteria s) (store_for (cmd_init inp s) (pk_name p)) c (pk_version p).
Proof.
  intros [A [B C]] Hp Ht Hb c Hc Hreq. split.
  - apply (regenerate_certifies inp s (fun _ => mode_regenerate_exemptions) A B C i p ag eq_refl Hp Ht Hb c Hc Hreq).
  - apply (regenerate_certifies inp s (fun _ => mode_init) A B C i p ag eq_refl Hp Ht Hb c Hc Hreq).
Qed.

(* the executable check implies the conditions *)
Lemma store_okb_ok inp s : store_okb inp s = true -> store_ok inp s.
Proof.
  unfold store_okb. intros H. apply andb_prop in H. destruct H as [H H3]. apply andb_prop in H. destruct H as [H1 H2].
  split; [exact H1|]. split.
  - intros name x c Hx Hc. unfold store_for in Hx.
    destruct (find (fun '(n0, _) => N.eqb n0 name) (st_pkgs s)) as [[k ps]|] eqn:F; [|destruct Hx].
    apply find_some in F. destruct F as [Hin _]. rewrite forallb_forall in H2. specialize (H2 _ Hin). cbn in H2.
    rewrite forallb_forall in H2. specialize (H2 _ Hx). rewrite forallb_forall in H2. apply N.ltb_lt. apply H2. exact Hc.
  - intros p Hp F. rewrite forallb_forall in H3. specialize (H3 p Hp). apply existsb_exists in H3.
    destruct H3 as [[k ps] [Hin Hk]]. eapply (find_none _ _ F) in Hin. cbn in Hin. congruence.
Qed.
