(* StoreVersionProofs.v — C09 for the store-version rule: whatever version an unlocked run found in config.toml, the files it
   commits are accepted by a --locked run of the same cargo-vet. *)
Require Import Base Extracted StoreVersion.
Local Open Scope N_scope.

Theorem locked_accepts_what_unlocked_wrote current stored v :
  version_after_unlocked_run current stored = Some v -> acquire_version current v true = AOk current.
Proof.
  unfold version_after_unlocked_run, acquire_version.
  change ACQUIRE_REFUSES_OLDER_ONLY_WHEN_LOCKED with true. change ACQUIRE_REFUSES_NEWER with true.
  change ACQUIRE_RAISES_STORE_VERSION with true. cbv iota. rewrite !andb_false_r, !andb_true_r.
  destruct (N.ltb current stored); [discriminate|]. cbn [orb]. intros H. inversion H; subst v.
  rewrite N.ltb_irrefl. reflexivity.
Qed.

(* an older store is upgraded by an unlocked run, never by a locked one; a newer store is never touched *)
Theorem older_store_upgraded_only_unlocked current stored : stored < current ->
  version_after_unlocked_run current stored = Some current /\ acquire_version current stored true = AOutdated.
Proof.
  intros H. unfold version_after_unlocked_run, acquire_version.
  change ACQUIRE_REFUSES_OLDER_ONLY_WHEN_LOCKED with true. change ACQUIRE_REFUSES_NEWER with true.
  change ACQUIRE_RAISES_STORE_VERSION with true. cbv iota.
  assert (A : N.ltb stored current = true) by (apply N.ltb_lt; exact H).
  assert (B : N.ltb current stored = false) by (apply N.ltb_ge; lia).
  rewrite A, B. cbn. auto.
Qed.

Theorem newer_store_refused current stored locked : current < stored -> acquire_version current stored locked = ANewer.
Proof.
  intros H. unfold acquire_version. change ACQUIRE_REFUSES_OLDER_ONLY_WHEN_LOCKED with true. change ACQUIRE_REFUSES_NEWER with true.
  assert (A : N.ltb stored current = false) by (apply N.ltb_ge; lia).
  assert (B : N.ltb current stored = true) by (apply N.ltb_lt; exact H).
  rewrite A, B. cbn. reflexivity.
Qed.
