Require Import Base Extracted Criteria Validate.
Local Open Scope N_scope.

(* every site that is indexed on the way to a verdict is checked by validate *)
Lemma used_sites_are_checked locked s : site_used locked s = true -> validate_checks locked s = true.
Proof. destruct s, locked; cbn; intros H; try reflexivity; try discriminate. Qed.

(* hence a store that validates never reaches an index panic *)
Theorem validated_store_does_not_index_unknown locked n r :
  validate_criteria locked n r = true -> index_panics locked n r = false.
Proof.
  unfold validate_criteria, index_panics. rewrite forallb_forall. intros H.
  apply not_true_is_false. intros E. apply existsb_exists in E. destruct E as [[s l] [Hin E]].
  apply andb_prop in E. destruct E as [E1 E2]. specialize (H _ Hin). cbn in H.
  rewrite (used_sites_are_checked locked s E1) in H. cbn in H. rewrite H in E2. discriminate.
Qed.

(* a reference to an undefined criterion at any checked site is refused *)
Theorem undefined_reference_refused locked n r s l c :
  In (s, l) r -> validate_checks locked s = true -> In c l -> N.of_nat n <= c ->
  validate_criteria locked n r = false.
Proof.
  intros Hin Hs Hc Hle. apply not_true_is_false. intros H. unfold validate_criteria in H.
  rewrite forallb_forall in H. specialize (H _ Hin). cbn in H. rewrite Hs in H. cbn in H.
  unfold known in H. rewrite forallb_forall in H. specialize (H c Hc). apply N.ltb_lt in H. lia.
Qed.

(* C15_no_crash: whatever the store and the peer files contain, loading never crashes: validate refuses
   undefined references at every indexed site AND an unusable criteria table, and a peer's unusable table is
   refused before a mapper is built from it *)
Theorem no_crash locked shadows t max_end ends r ps :
  VALIDATE_CHECKS_TABLE = true -> PEER_TABLE_CHECKED = true -> load_outcome locked shadows t max_end ends r ps <> Panics.
Proof.
  intros K1 K2. unfold load_outcome, validate_table. rewrite K1, K2. cbn [negb orb].
  destruct (validate_criteria locked (ct_len t) r) eqn:V; cbn [andb negb]; [|discriminate].
  destruct (validate_wildcard_ends max_end ends); cbn [andb negb]; [|discriminate].
  destruct (mapper_panics shadows t); cbn [negb orb]; [discriminate|].
  destruct (negb locked && bad_peer ps); [discriminate|].
  rewrite (validated_store_does_not_index_unknown _ _ _ V). discriminate.
Qed.

(* the wildcard end-date cap: a loaded store has no own wildcard audit ending after the cap *)
Theorem wildcard_end_cap locked shadows t max_end ends r ps e :
  load_outcome locked shadows t max_end ends r ps <> Refused -> In e ends -> (e <= max_end)%Z.
Proof.
  unfold load_outcome. intros H He.
  destruct (validate_criteria locked (ct_len t) r); cbn [andb negb] in H; [|congruence].
  destruct (validate_wildcard_ends max_end ends) eqn:W; cbn [andb negb] in H; [|congruence].
  unfold validate_wildcard_ends in W. rewrite forallb_forall in W. specialize (W e He).
  unfold wildcard_end_refused in W. apply negb_true_iff in W. apply Z.ltb_ge in W. exact W.
Qed.
