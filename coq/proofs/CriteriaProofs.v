(* CriteriaProofs.v — the algebra of criteria sets: the DFS of CriteriaMapper::new
   computes the reflexive-transitive closure of the direct implications;
   criteria_from_list unions closures; minimal_indices generates a closed set. *)
Require Import Base Extracted Criteria.
Local Open Scope N_scope.

Section Table.
Variable t : ctable.
Let n := ct_len t.

Definition D (c : N) : list N := cs_indices n (direct_of t c).
Definition step (a b : N) : Prop := In b (D a).

(* one or more direct implications *)
Inductive reachp : N -> N -> Prop :=
| rp_one a b : step a b -> reachp a b
| rp_cons a b c : step a b -> reachp b c -> reachp a c.

Lemma reachp_trans a b c : reachp a b -> reachp b c -> reachp a c.
Proof. induction 1; intros; [eapply rp_cons; eauto|eapply rp_cons; eauto]. Qed.
Lemma reachp_snoc a b c : reachp a b -> step b c -> reachp a c.
Proof. intros H S. eapply reachp_trans; [exact H|constructor; exact S]. Qed.
Lemma step_lt a b : step a b -> b < N.of_nat n.
Proof. unfold step, D. rewrite in_cs_indices. tauto. Qed.
Lemma reachp_lt a b : reachp a b -> b < N.of_nat n.
Proof. induction 1; eauto using step_lt. Qed.

(* ---- counting unset bits below n ---- *)
Definition unset (r : cset) : nat := length (filter (fun i => negb (cs_has i r)) (nseq 0 n)).

Definition subset (a b : cset) : Prop := forall c, cs_has c a = true -> cs_has c b = true.

Lemma filter_length_le {A} (f g : A -> bool) l :
  (forall x, In x l -> g x = true -> f x = true) -> (length (filter g l) <= length (filter f l))%nat.
Proof.
  induction l as [|x l IH]; intros H; cbn; [lia|].
  assert (IH' := IH (fun y Hy => H y (or_intror Hy))).
  destruct (g x) eqn:G.
  - rewrite (H x (or_introl eq_refl) G). cbn. lia.
  - destruct (f x); cbn; lia.
Qed.

Lemma filter_length_lt {A} (f g : A -> bool) l x :
  (forall y, In y l -> g y = true -> f y = true) -> In x l -> f x = true -> g x = false ->
  (length (filter g l) < length (filter f l))%nat.
Proof.
  induction l as [|y l IH]; intros H Hin Hf Hg; [destruct Hin|].
  cbn. destruct Hin as [->|Hin].
  - rewrite Hf, Hg. cbn.
    pose proof (filter_length_le f g l (fun z Hz => H z (or_intror Hz))). lia.
  - assert (IH' := IH (fun z Hz => H z (or_intror Hz)) Hin Hf Hg).
    destruct (g y) eqn:G.
    + rewrite (H y (or_introl eq_refl) G). cbn. lia.
    + destruct (f y); cbn; lia.
Qed.

Lemma unset_mono a b : subset a b -> (unset b <= unset a)%nat.
Proof.
  intros H. unfold unset. apply filter_length_le. intros x _ Hx.
  apply negb_true_iff in Hx. apply negb_true_iff.
  destruct (cs_has x a) eqn:E; [|reflexivity]. rewrite (H x E) in Hx. discriminate.
Qed.

Lemma unset_set idx r : idx < N.of_nat n -> cs_has idx r = false -> (unset (cs_set idx r) < unset r)%nat.
Proof.
  intros Hlt Hr. unfold unset. apply filter_length_lt with (x := idx).
  - intros y _ Hy. apply negb_true_iff in Hy. apply negb_true_iff.
    rewrite cs_has_set in Hy. apply orb_false_elim in Hy. tauto.
  - apply in_nseq. lia.
  - rewrite Hr. reflexivity.
  - rewrite cs_has_set, N.eqb_refl. reflexivity.
Qed.

Lemma subset_refl a : subset a a. Proof. intros c H; exact H. Qed.
Lemma subset_trans a b c : subset a b -> subset b c -> subset a c.
Proof. intros H1 H2 x Hx. apply H2, H1, Hx. Qed.
Lemma subset_set idx r : subset r (cs_set idx r).
Proof. intros c H. rewrite cs_has_set, H. apply orb_true_r. Qed.

(* ---- the DFS ---- *)
Definition F (f : nat) (res : cset) (idx : N) : cset :=
  if cs_has idx res then res else recurse_implies f t (cs_set idx res) idx.

Lemma recurse_unfold f res cur :
  recurse_implies (S f) t res cur = fold_left (F f) (D cur) res.
Proof. reflexivity. Qed.

(* soundness: everything added is reachable from cur by >= 1 step *)
Lemma recurse_sound f : forall res cur x,
  cs_has x (recurse_implies f t res cur) = true -> cs_has x res = true \/ reachp cur x.
Proof.
  induction f as [|f IH]; intros res cur x H; [left; exact H|].
  rewrite recurse_unfold in H.
  assert (G : forall l res0, (forall i, In i l -> step cur i) ->
            cs_has x (fold_left (F f) l res0) = true -> cs_has x res0 = true \/ reachp cur x).
  { induction l as [|i l IHl]; intros res0 Hl Hx; [left; exact Hx|]. cbn [fold_left] in Hx.
    apply IHl in Hx; [|intros j Hj; apply Hl; right; exact Hj].
    destruct Hx as [Hx|Hx]; [|right; exact Hx]. unfold F in Hx.
    destruct (cs_has i res0) eqn:E; [left; exact Hx|].
    apply IH in Hx. destruct Hx as [Hx|Hx].
    - rewrite cs_has_set in Hx. apply orb_prop in Hx. destruct Hx as [Hx|Hx]; [|left; exact Hx].
      apply N.eqb_eq in Hx. subst. right. constructor. apply Hl. left. reflexivity.
    - right. eapply rp_cons; [apply Hl; left; reflexivity|exact Hx]. }
  apply (G (D cur) res); [intros i Hi; exact Hi|exact H].
Qed.

(* completeness with enough fuel *)
Definition post (res res' : cset) (cur : N) : Prop :=
  subset res res' /\ (forall i, step cur i -> cs_has i res' = true) /\
  (forall x, cs_has x res' = true -> cs_has x res = false -> forall i, step x i -> cs_has i res' = true).

Lemma recurse_complete f : forall res cur,
  (unset res < f)%nat -> post res (recurse_implies f t res cur) cur.
Proof.
  induction f as [|f IH]; intros res cur Hf; [lia|].
  rewrite recurse_unfold.
  assert (G : forall l res0, (unset res0 < S f)%nat -> (forall i, In i l -> i < N.of_nat n) ->
     subset res0 (fold_left (F f) l res0) /\ (forall i, In i l -> cs_has i (fold_left (F f) l res0) = true) /\
     (forall x, cs_has x (fold_left (F f) l res0) = true -> cs_has x res0 = false ->
                forall i, step x i -> cs_has i (fold_left (F f) l res0) = true)).
  { induction l as [|idx l IHl]; intros res0 Hu Hl; cbn [fold_left].
    - split; [apply subset_refl|]. split; [intros i []|]. intros x H1 H2. congruence.
    - destruct (cs_has idx res0) eqn:E.
      + assert (EF : F f res0 idx = res0) by (unfold F; rewrite E; reflexivity). rewrite EF.
        destruct (IHl res0 Hu (fun i Hi => Hl i (or_intror Hi))) as [A [B C]].
        split; [exact A|]. split; [|exact C]. intros i [<-|Hi]; [apply A; exact E|apply B; exact Hi].
      + assert (EF : F f res0 idx = recurse_implies f t (cs_set idx res0) idx) by (unfold F; rewrite E; reflexivity).
        rewrite EF. clear EF.
        assert (Hlt : idx < N.of_nat n) by (apply Hl; left; reflexivity).
        pose proof (unset_set idx res0 Hlt E) as Hdec.
        destruct (IH (cs_set idx res0) idx ltac:(lia)) as [A1 [B1 C1]].
        set (res1 := recurse_implies f t (cs_set idx res0) idx) in *.
        assert (S01 : subset res0 res1) by (eapply subset_trans; [apply subset_set|exact A1]).
        assert (Hu1 : (unset res1 < S f)%nat) by (pose proof (unset_mono _ _ S01); lia).
        destruct (IHl res1 Hu1 (fun i Hi => Hl i (or_intror Hi))) as [A [B C]].
        split; [eapply subset_trans; eauto|]. split.
        * intros i [<-|Hi]; [|apply B; exact Hi]. apply A, A1. rewrite cs_has_set, N.eqb_refl. reflexivity.
        * intros x Hx Hx0 i Hs. destruct (cs_has x res1) eqn:E1.
          -- apply A. destruct (N.eq_dec x idx) as [->|Hne].
             ++ apply B1. exact Hs.
             ++ apply (C1 x E1); [|exact Hs]. rewrite cs_has_set, Hx0.
                destruct (N.eqb_spec idx x); [congruence|reflexivity].
          -- apply (C x Hx E1 i Hs). }
  destruct (G (D cur) res Hf) as [A [B C]].
  - intros i Hi. eapply step_lt. exact Hi.
  - split; [exact A|]. split; [exact B|exact C].
Qed.

Lemma unset_le_n r : (unset r <= n)%nat.
Proof.
  unfold unset. rewrite <- (nseq_length 0 n) at 2.
  generalize (nseq 0 n). induction l as [|x l IH]; cbn; [lia|]. destruct (negb _); cbn; lia.
Qed.

(* implied_strict c = exactly the criteria reachable by >= 1 implication *)
Theorem implied_strict_spec c x : cs_has x (implied_strict t c) = true <-> reachp c x.
Proof.
  unfold implied_strict. fold n. split.
  - intros H. apply recurse_sound in H. destruct H as [H|H]; [rewrite cs_has_empty in H; discriminate|exact H].
  - destruct (recurse_complete (S n) cs_empty c) as [_ [B C]]; [pose proof (unset_le_n cs_empty); lia|].
    assert (G : forall b y, reachp b y -> cs_has b (recurse_implies (S n) t cs_empty c) = true ->
                       cs_has y (recurse_implies (S n) t cs_empty c) = true).
    { intros b y Hr. induction Hr as [b y Hs|b y z Hs Hr IH]; intros Hb.
      - apply (C b Hb (cs_has_empty b) y Hs).
      - apply IH. apply (C b Hb (cs_has_empty b) y Hs). }
    intros H. destruct H as [a b Hs|a b y Hs Hr].
    + apply B. exact Hs.
    + apply (G b y Hr). apply B. exact Hs.
Qed.

Theorem closure_spec c x : cs_has x (closure t c) = true <-> x = c \/ reachp c x.
Proof.
  unfold closure. rewrite cs_has_set, orb_true_iff, N.eqb_eq, implied_strict_spec. intuition.
Qed.

Theorem closure_refl c : cs_has c (closure t c) = true.
Proof. apply closure_spec. left. reflexivity. Qed.

Theorem closure_trans a b x :
  cs_has b (closure t a) = true -> cs_has x (closure t b) = true -> cs_has x (closure t a) = true.
Proof.
  rewrite !closure_spec. intros [->|H1] [->|H2]; auto. right. eapply reachp_trans; eauto.
Qed.

(* the closure is the LEAST set containing c and closed under direct implication *)
Theorem closure_least c (s : cset) :
  cs_has c s = true -> (forall a b, cs_has a s = true -> step a b -> cs_has b s = true) ->
  subset (closure t c) s.
Proof.
  intros Hc Hcl x Hx. apply closure_spec in Hx. destruct Hx as [->|Hr]; [exact Hc|].
  revert Hc. induction Hr as [a b Hs|a b c' Hs Hr IH]; intros Ha.
  - eapply Hcl; eauto.
  - apply IH. eapply Hcl; eauto.
Qed.

Theorem deploy_implies_run : cs_has SAFE_TO_RUN_IDX (closure t SAFE_TO_DEPLOY_IDX) = true.
Proof.
  apply closure_spec. right. constructor. unfold step, D. apply in_cs_indices. split.
  - unfold n, ct_len. unfold SAFE_TO_RUN_IDX. lia.
  - unfold direct_of, direct_implies, SAFE_TO_DEPLOY_IDX, SAFE_TO_RUN_IDX.
    change (N.to_nat 1) with 1%nat. cbn [nth].
    rewrite cs_has_set, N.eqb_refl. reflexivity.
Qed.

(* ---- criteria_from_list ---- *)
Lemma from_list_fold l s0 x :
  cs_has x (fold_left (fun s c => cs_union s (closure t c)) l s0) = true <->
  cs_has x s0 = true \/ exists c, In c l /\ cs_has x (closure t c) = true.
Proof.
  revert s0; induction l as [|c l IH]; intros s0; cbn [fold_left].
  - split; [auto|intros [H|[c [[] _]]]; exact H].
  - rewrite IH, cs_has_union, orb_true_iff. split.
    + intros [[H|H]|[c' [H1 H2]]]; [left; exact H|right; exists c; split; [left; reflexivity|exact H]|
                                     right; exists c'; split; [right; exact H1|exact H2]].
    + intros [H|[c' [[<-|H1] H2]]]; [left; left; exact H|left; right; exact H2|right; exists c'; auto].
Qed.

Theorem from_list_spec l x :
  cs_has x (from_list t l) = true <-> exists c, In c l /\ cs_has x (closure t c) = true.
Proof.
  unfold from_list. rewrite from_list_fold, cs_has_empty. split; [intros [H|H]; [discriminate|exact H]|auto].
Qed.

(* a set built from names is closed under implication *)
Theorem from_list_closed l a x :
  cs_has a (from_list t l) = true -> cs_has x (closure t a) = true -> cs_has x (from_list t l) = true.
Proof.
  rewrite !from_list_spec. intros [c [Hc Ha]] Hx. exists c. split; [exact Hc|]. eapply closure_trans; eauto.
Qed.

Theorem from_list_ext l l' :
  (forall c, In c l <-> In c l') -> from_list t l = from_list t l'.
Proof.
  intros H. apply cs_ext. intros x.
  destruct (cs_has x (from_list t l)) eqn:E1, (cs_has x (from_list t l')) eqn:E2; try reflexivity.
  - apply from_list_spec in E1. destruct E1 as [c [Hc Hx]]. apply H in Hc.
    assert (cs_has x (from_list t l') = true) by (apply from_list_spec; eauto). congruence.
  - apply from_list_spec in E2. destruct E2 as [c [Hc Hx]]. apply H in Hc.
    assert (cs_has x (from_list t l) = true) by (apply from_list_spec; eauto). congruence.
Qed.

(* replacing a list by (any enumeration of) its closure changes nothing *)
Theorem from_list_of_closure l l' :
  (forall c, In c l' <-> cs_has c (from_list t l) = true) -> from_list t l' = from_list t l.
Proof.
  intros H. apply cs_ext. intros x.
  destruct (cs_has x (from_list t l')) eqn:E1, (cs_has x (from_list t l)) eqn:E2; try reflexivity.
  - apply from_list_spec in E1. destruct E1 as [c [Hc Hx]]. apply H in Hc.
    rewrite (from_list_closed l c x Hc Hx) in E2. discriminate.
  - assert (cs_has x (from_list t l') = true).
    { apply from_list_spec. exists x. split; [apply H; exact E2|apply closure_refl]. }
    congruence.
Qed.

Definition closed (s : cset) : Prop :=
  forall a x, cs_has a s = true -> cs_has x (closure t a) = true -> cs_has x s = true.
Definition bounded (s : cset) : Prop := forall c, cs_has c s = true -> c < N.of_nat n.

Lemma from_list_is_closed l : closed (from_list t l).
Proof. intros a x. apply from_list_closed. Qed.

Lemma closure_bounded c : c < N.of_nat n -> bounded (closure t c).
Proof. intros Hc x Hx. apply closure_spec in Hx. destruct Hx as [->|Hr]; [exact Hc|eapply reachp_lt; eauto]. Qed.

Lemma from_list_bounded l : (forall c, In c l -> c < N.of_nat n) -> bounded (from_list t l).
Proof.
  intros H x Hx. apply from_list_spec in Hx. destruct Hx as [c [Hc Hx]]. eapply closure_bounded; eauto.
Qed.

(* ---- minimal_indices ---- *)
Theorem minimal_spec s x :
  In x (minimal_indices t s) <->
  (x < N.of_nat n /\ cs_has x s = true /\
   forall o, o < N.of_nat n -> cs_has o s = true -> o = x \/ cs_has x (closure t o) = false).
Proof.
  unfold minimal_indices. fold n. rewrite filter_In, in_cs_indices, forallb_forall. split.
  - intros [[H1 H2] H3]. repeat split; auto. intros o Ho1 Ho2.
    specialize (H3 o). rewrite in_cs_indices in H3. specialize (H3 (conj Ho1 Ho2)).
    apply orb_prop in H3. destruct H3 as [H3|H3]; [left; apply N.eqb_eq in H3; congruence|right; apply negb_true_iff; exact H3].
  - intros [H1 [H2 H3]]. repeat split; auto. intros o Ho. apply in_cs_indices in Ho. destruct Ho as [Ho1 Ho2].
    destruct (H3 o Ho1 Ho2) as [->|E]; [rewrite N.eqb_refl; reflexivity|rewrite E; apply orb_true_r].
Qed.

Lemma minimal_subset s x : In x (minimal_indices t s) -> cs_has x s = true.
Proof. rewrite minimal_spec. tauto. Qed.

(* with an acyclic table, every member of a bounded set is implied by a minimal member *)
Hypothesis acyclic : forall c, ~ reachp c c.

Lemma strict_anc_order a b : reachp a b -> reachp b a -> False.
Proof. intros H1 H2. apply (acyclic a). eapply reachp_trans; eauto. Qed.

Definition ancestors (s : cset) (x : N) : list N :=
  filter (fun o => cs_has o s && negb (N.eqb o x) && cs_has x (closure t o)) (nseq 0 n).

Theorem minimal_covers s : bounded s ->
  forall x, cs_has x s = true -> exists m, In m (minimal_indices t s) /\ cs_has x (closure t m) = true.
Proof.
  intros Hb. assert (G : forall k x, (length (ancestors s x) <= k)%nat -> cs_has x s = true ->
                            exists m, In m (minimal_indices t s) /\ cs_has x (closure t m) = true).
  { induction k as [|k IH]; intros x Hk Hx.
    - exists x. split; [|apply closure_refl]. apply minimal_spec. repeat split; auto.
      intros o Ho1 Ho2. destruct (N.eq_dec o x) as [->|Hne]; [left; reflexivity|right].
      destruct (cs_has x (closure t o)) eqn:E; [|reflexivity]. exfalso.
      assert (In o (ancestors s x)).
      { unfold ancestors. apply filter_In. split; [apply in_nseq; lia|]. rewrite Ho2, E.
        destruct (N.eqb_spec o x); [congruence|reflexivity]. }
      destruct (ancestors s x); [destruct H|cbn in Hk; lia].
    - destruct (ancestors s x) as [|o rest] eqn:EA.
      + apply (IH x); [rewrite EA; cbn; lia|exact Hx].
      + assert (Ho : In o (ancestors s x)) by (rewrite EA; left; reflexivity).
        unfold ancestors in Ho. apply filter_In in Ho. destruct Ho as [Ho1 Ho2].
        apply andb_prop in Ho2. destruct Ho2 as [Ho2 Ho4]. apply andb_prop in Ho2. destruct Ho2 as [Ho2 Ho3].
        apply negb_true_iff in Ho3. apply N.eqb_neq in Ho3.
        assert (Hxo : reachp o x) by (apply closure_spec in Ho4; destruct Ho4 as [E|E]; [congruence|exact E]).
        destruct (IH o) as [m [Hm1 Hm2]]; [|exact Ho2|].
        * (* ancestors of o are strictly fewer than those of x *)
          assert (Hlt : (length (ancestors s o) < length (ancestors s x))%nat).
          { unfold ancestors. apply filter_length_lt with (x := o).
            - intros y _ Hy. apply andb_prop in Hy. destruct Hy as [Hy Hy3]. apply andb_prop in Hy. destruct Hy as [Hy1 Hy2].
              rewrite Hy1. apply negb_true_iff in Hy2. apply N.eqb_neq in Hy2.
              assert (Hyo : reachp y o) by (apply closure_spec in Hy3; destruct Hy3 as [E|E]; [congruence|exact E]).
              assert (Hyx : cs_has x (closure t y) = true) by (apply closure_spec; right; eapply reachp_trans; eauto).
              rewrite Hyx. destruct (N.eqb_spec y x) as [->|]; [exfalso; eapply strict_anc_order; eauto|reflexivity].
            - exact Ho1.
            - rewrite Ho2, Ho4. destruct (N.eqb_spec o x); [congruence|reflexivity].
            - rewrite N.eqb_refl, andb_false_r. reflexivity. }
          rewrite EA in Hlt. cbn in *. lia.
        * exists m. split; [exact Hm1|]. eapply closure_trans; eauto. }
  intros x Hx. apply (G (length (ancestors s x)) x); [lia|exact Hx].
Qed.

(* a closed, bounded set is regenerated by its minimal members: every list
   cargo-vet writes (criteria_names of a computed set) denotes that set *)
Theorem minimal_generates s : bounded s -> closed s -> from_list t (minimal_indices t s) = s.
Proof.
  intros Hb Hc. apply cs_ext. intros x.
  destruct (cs_has x (from_list t (minimal_indices t s))) eqn:E1, (cs_has x s) eqn:E2; try reflexivity.
  - apply from_list_spec in E1. destruct E1 as [m [Hm Hx]]. apply minimal_subset in Hm.
    rewrite (Hc m x Hm Hx) in E2. discriminate.
  - destruct (minimal_covers s Hb x E2) as [m [Hm Hx]].
    assert (cs_has x (from_list t (minimal_indices t s)) = true) by (apply from_list_spec; eauto). congruence.
Qed.

(* no listed member is implied by another listed member *)
Theorem minimal_irredundant s a b :
  In a (minimal_indices t s) -> In b (minimal_indices t s) -> cs_has a (closure t b) = true -> a = b.
Proof.
  rewrite !minimal_spec. intros [Ha1 [Ha2 Ha3]] [Hb1 [Hb2 _]] H.
  destruct (Ha3 b Hb1 Hb2) as [->|E]; [reflexivity|congruence].
Qed.

End Table.

(* the executable acyclicity check of the model implies the hypothesis above *)
Lemma ct_acyclic_spec t : ct_acyclic t = true -> forall c, ~ reachp t c c.
Proof.
  unfold ct_acyclic. rewrite forallb_forall. intros H c Hr.
  assert (Hc : c < N.of_nat (ct_len t)) by (eapply reachp_lt; eauto).
  specialize (H c). rewrite in_nseq in H. specialize (H ltac:(lia)).
  apply negb_true_iff in H. unfold implies_itself in H.
  rewrite (proj2 (implied_strict_spec t c c) Hr) in H. discriminate.
Qed.
