(* GuessProofs.v — every criterion `certify` pre-selects for a delta is one for which that delta connects an audited
   version to a needed one, in the store as it is or in the store cloned for `suggest`. *)
Require Import Base Extracted Criteria Search AuditGraph DepGraph Resolve Suggest Guess.
Require Import SuggestProofs.
Local Open Scope N_scope.

Definition connects (r : report) (name : N) (from : ver) (to c : N) : Prop :=
  exists i cf rs fr ft, In (i, cf) (failures_of r) /\ pk_name (get_pkg (g_pkgs (r_graph r)) i) = name /\
    po_result (nth i (r_outcomes r) {| po_result := PFirstParty; po_failures := 0; po_needed_exemptions := false; po_directly_exempted := false |}) = PSearched rs /\
    cs_has c cf = true /\ nth (N.to_nat c) rs SFuel = SErr fr ft /\ In from fr /\ In (Some to) ft.

Theorem guess_connects inp live s name from to c :
  cs_has c (guess_audit_criteria inp live s name from to) = true ->
  connects (resolve inp s) name from to c \/ connects (resolve inp (store_for_suggest live s)) name from to c.
Proof.
  unfold guess_audit_criteria. cbv zeta.
  destruct (cs_is_empty (suggested_criteria (resolve inp s) name from to)); intros H.
  - right. apply suggested_criteria_spec. change GUESS_SECOND_LOOK_USES_FROM with true in H. exact H.
  - left. apply suggested_criteria_spec. exact H.
Qed.

(* the second look is only taken when the first finds nothing, and it never ADDS a record: the cloned store's
   exemptions (and, live, unpublished links) are sub-lists of the store's *)
Lemma clear_for_suggest_exemptions live ps x : In x (ps_exemptions (clear_for_suggest live ps)) -> In x (ps_exemptions ps) /\ x_suggest x = false.
Proof. cbn. intros H. apply filter_In in H. destruct H as [H1 H2]. apply negb_true_iff in H2. auto. Qed.

Lemma clear_for_suggest_unpublished live ps u : In u (ps_unpublished (clear_for_suggest live ps)) -> In u (ps_unpublished ps).
Proof. cbn. destruct live; [|auto]. intros H. apply filter_In in H. tauto. Qed.

Theorem guess_first_look_wins inp live s name from to :
  cs_is_empty (suggested_criteria (resolve inp s) name from to) = false ->
  guess_audit_criteria inp live s name from to = suggested_criteria (resolve inp s) name from to.
Proof. unfold guess_audit_criteria. cbv zeta. intros ->. reflexivity. Qed.
