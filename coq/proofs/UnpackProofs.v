Require Import Base Extracted Unpack.
Local Open Scope N_scope.

Lemma path_eqb_spec a b : reflect (a = b) (path_eqb a b).
Proof.
  revert b; induction a as [|x a IH]; intros [|y b]; cbn; try (constructor; congruence).
  destruct (N.eqb_spec x y); cbn; [|constructor; congruence].
  destruct (IH b); constructor; congruence.
Qed.

Lemma fs_get_put f p c q : fs_get (fs_put f p c) q = if path_eqb p q then Some c else fs_get f q.
Proof.
  unfold fs_get, fs_put. cbn [find]. destruct (path_eqb_spec p q) as [->|Hne]; [reflexivity|].
  induction f as [|[r d] f IH]; cbn; [reflexivity|].
  destruct (path_eqb_spec r p) as [->|Hrp]; cbn.
  - destruct (path_eqb_spec p q); [congruence|]. exact IH.
  - destruct (path_eqb_spec r q); [reflexivity|exact IH].
Qed.

Lemma fs_get_remove f prefix q : under prefix q = false -> fs_get (fs_remove_dir f prefix) q = fs_get f q.
Proof.
  intros H. unfold fs_get, fs_remove_dir. induction f as [|[r d] f IH]; cbn; [reflexivity|].
  destruct (under prefix r) eqn:U; cbn.
  - destruct (path_eqb_spec r q) as [->|]; [congruence|exact IH].
  - destruct (path_eqb_spec r q); [reflexivity|exact IH].
Qed.
Lemma fs_get_remove_under f prefix q : under prefix q = true -> fs_get (fs_remove_dir f prefix) q = None.
Proof.
  intros H. unfold fs_get, fs_remove_dir. induction f as [|[r d] f IH]; cbn; [reflexivity|].
  destruct (under prefix r) eqn:U; cbn; [exact IH|].
  destruct (path_eqb_spec r q) as [->|]; [congruence|exact IH].
Qed.

Lemma normals_under prefix l : starts_with_prefix prefix l = true -> under prefix (normals l) = true.
Proof. destruct l as [|[n|] l]; cbn; try discriminate. auto. Qed.

(* C19 confinement: nothing outside the crate's own directory is created or modified,
   whatever the archive contains and wherever unpacking stops *)
Lemma step_confined prefix st e q :
  under prefix q = false -> fs_get (fst (unpack_step prefix st e)) q = fs_get (fst st) q.
Proof.
  intros Hq. unfold unpack_step. destruct st as [f s]. cbn [fst snd]. destruct s; [|reflexivity].
  destruct (entry_ok prefix e) eqn:P; cbn [negb]; [|reflexivity].
  destruct (UNPACK_SKIPS_LINK_ENTRIES && is_link_entry e); [reflexivity|].
  destruct (UNPACK_SKIPS_MARKER_ENTRIES && is_marker_entry e); [reflexivity|].
  destruct (has_parent (en_path e)); [reflexivity|]. destruct (en_kind e); try reflexivity. cbn [fst]. rewrite fs_get_put.
  destruct (path_eqb_spec (normals (en_path e)) q) as [<-|]; [|reflexivity].
  unfold entry_ok in P. apply andb_prop in P. destruct P as [_ P].
  rewrite (normals_under _ _ P) in Hq. discriminate.
Qed.

Lemma fold_confined prefix ar st q :
  under prefix q = false -> fs_get (fst (fold_left (unpack_step prefix) ar st)) q = fs_get (fst st) q.
Proof.
  intros Hq. revert st; induction ar as [|e ar IH]; intros st; cbn [fold_left]; [reflexivity|].
  rewrite IH. apply step_confined. exact Hq.
Qed.

Theorem unpack_confined prefix ar cut f q :
  under prefix q = false -> fs_get (unpack prefix ar cut f) q = fs_get f q.
Proof.
  intros Hq. unfold unpack. destruct cut as [k|].
  - rewrite fold_confined by exact Hq. cbn [fst]. apply fs_get_remove. exact Hq.
  - destruct (fold_left (unpack_step prefix) ar (fs_remove_dir f prefix, Running)) as [f1 st] eqn:E.
    assert (H1 : fs_get f1 q = fs_get f q).
    { change f1 with (fst (f1, st)). rewrite <- E. rewrite fold_confined by exact Hq. cbn [fst]. apply fs_get_remove. exact Hq. }
    destruct st; [|exact H1]. rewrite fs_get_put.
    destruct (path_eqb_spec [prefix; MARKER] q) as [<-|]; [|exact H1]. cbn in Hq. rewrite N.eqb_refl in Hq. discriminate.
Qed.

Theorem fetch_confined prefix ar cut f q :
  under prefix q = false -> fs_get (fetch prefix ar cut f) q = fs_get f q.
Proof. intros Hq. unfold fetch. destruct (fetch_is_ok prefix f); [reflexivity|apply unpack_confined; exact Hq]. Qed.

(* a `..`-free path is its normal components *)
Lemma no_parent_normals l : has_parent l = false -> l = map CNormal (normals l).
Proof.
  induction l as [|[n|] l IH]; cbn; intros H; [reflexivity| |discriminate]. f_equal. apply IH. exact H.
Qed.

(* the marker is never written by an archive entry (when marker entries are skipped) *)
Lemma step_marker prefix st e :
  UNPACK_SKIPS_MARKER_ENTRIES = true ->
  fs_get (fst (unpack_step prefix st e)) [prefix; MARKER] = fs_get (fst st) [prefix; MARKER].
Proof.
  intros K. unfold unpack_step. destruct st as [f s]. cbn [fst snd]. destruct s; [|reflexivity].
  destruct (entry_ok prefix e); cbn [negb]; [|reflexivity].
  destruct (UNPACK_SKIPS_LINK_ENTRIES && is_link_entry e); [reflexivity|].
  rewrite K. cbn [andb]. destruct (is_marker_entry e) eqn:M; [reflexivity|].
  destruct (has_parent (en_path e)) eqn:HP; [reflexivity|]. destruct (en_kind e); try reflexivity. cbn [fst]. rewrite fs_get_put.
  destruct (path_eqb_spec (normals (en_path e)) [prefix; MARKER]) as [E|]; [|reflexivity]. exfalso.
  unfold is_marker_entry, last_comp in M. rewrite (no_parent_normals _ HP), E in M. cbn in M. discriminate.
Qed.

Lemma fold_marker prefix ar st :
  UNPACK_SKIPS_MARKER_ENTRIES = true ->
  fs_get (fst (fold_left (unpack_step prefix) ar st)) [prefix; MARKER] = fs_get (fst st) [prefix; MARKER].
Proof.
  intros K. revert st; induction ar as [|e ar IH]; intros st; cbn [fold_left]; [reflexivity|].
  rewrite IH. apply step_marker. exact K.
Qed.

(* C19 completeness: an unpack that was cut short (anywhere, including after the last
   entry but before the marker is written) leaves NO valid marker, whatever the archive *)
Theorem interrupted_unpack_has_no_marker prefix ar k f :
  UNPACK_SKIPS_MARKER_ENTRIES = true -> fetch_is_ok prefix (unpack prefix ar (Some k) f) = false.
Proof.
  intros K. unfold fetch_is_ok, unpack. rewrite fold_marker by exact K. cbn [fst].
  rewrite fs_get_remove_under; [reflexivity|]. cbn. apply N.eqb_refl.
Qed.

(* an unpack that fails on an entry (path outside the crate's directory) leaves no marker either *)
Theorem failed_unpack_has_no_marker prefix ar f f1 :
  UNPACK_SKIPS_MARKER_ENTRIES = true ->
  fold_left (unpack_step prefix) ar (fs_remove_dir f prefix, Running) = (f1, Failed) ->
  fetch_is_ok prefix (unpack prefix ar None f) = false.
Proof.
  intros K E. unfold unpack. rewrite E. unfold fetch_is_ok.
  change f1 with (fst (f1, Failed)). rewrite <- E, fold_marker by exact K. cbn [fst].
  rewrite fs_get_remove_under; [reflexivity|]. cbn. apply N.eqb_refl.
Qed.

(* so the next fetch unpacks again from scratch: its result does not depend on what
   the interrupted attempt left behind *)
Lemma remove_dir_idem f prefix : fs_remove_dir (fs_remove_dir f prefix) prefix = fs_remove_dir f prefix.
Proof.
  unfold fs_remove_dir. induction f as [|[q c] f IH]; cbn; [reflexivity|].
  destruct (under prefix q) eqn:U; cbn; [exact IH|]. rewrite U. cbn. f_equal. exact IH.
Qed.

Lemma step_remove_commute prefix st e :
  fs_remove_dir (fst (unpack_step prefix st e)) prefix = fs_remove_dir (fst st) prefix.
Proof.
  unfold unpack_step. destruct st as [f s]. cbn [fst snd]. destruct s; [|reflexivity].
  destruct (entry_ok prefix e) eqn:P; cbn [negb]; [|reflexivity].
  destruct (UNPACK_SKIPS_LINK_ENTRIES && is_link_entry e); [reflexivity|].
  destruct (UNPACK_SKIPS_MARKER_ENTRIES && is_marker_entry e); [reflexivity|].
  destruct (has_parent (en_path e)); [reflexivity|]. destruct (en_kind e); try reflexivity. cbn [fst].
  unfold entry_ok in P. apply andb_prop in P. destruct P as [_ P]. apply normals_under in P.
  unfold fs_put, fs_remove_dir. cbn [filter]. rewrite P. cbn.
  induction f as [|[q c] f IH]; cbn; [reflexivity|].
  destruct (path_eqb_spec q (normals (en_path e))) as [->|Hne]; cbn.
  - rewrite P. cbn. exact IH.
  - destruct (under prefix q); cbn; [exact IH|f_equal; exact IH].
Qed.

Lemma fold_remove_commute prefix ar st :
  fs_remove_dir (fst (fold_left (unpack_step prefix) ar st)) prefix = fs_remove_dir (fst st) prefix.
Proof.
  revert st; induction ar as [|e ar IH]; intros st; cbn [fold_left]; [reflexivity|].
  rewrite IH. apply step_remove_commute.
Qed.

Lemma unpack_depends_on_rest prefix ar cut a b :
  fs_remove_dir a prefix = fs_remove_dir b prefix -> unpack prefix ar cut a = unpack prefix ar cut b.
Proof. intros E. unfold unpack. rewrite E. reflexivity. Qed.

Theorem retry_is_a_clean_unpack prefix ar k f :
  UNPACK_SKIPS_MARKER_ENTRIES = true ->
  fetch prefix ar None (unpack prefix ar (Some k) f) = unpack prefix ar None (fs_remove_dir f prefix).
Proof.
  intros K. unfold fetch. rewrite interrupted_unpack_has_no_marker by exact K.
  apply unpack_depends_on_rest. unfold unpack. rewrite fold_remove_commute. cbn [fst]. reflexivity.
Qed.

(* a completed unpack of an all-valid archive does leave the marker *)
Theorem completed_unpack_has_marker prefix ar f f1 :
  fold_left (unpack_step prefix) ar (fs_remove_dir f prefix, Running) = (f1, Running) ->
  fetch_is_ok prefix (unpack prefix ar None f) = true.
Proof.
  intros E. unfold unpack. rewrite E. unfold fetch_is_ok. rewrite fs_get_put.
  destruct (path_eqb_spec [prefix; MARKER] [prefix; MARKER]); [reflexivity|congruence].
Qed.

(* ---- the accepted tree is the archive, exactly ---- *)
(* an entry that puts a file into the tree *)
Definition unpackable (e : entry) : bool :=
  negb (UNPACK_SKIPS_LINK_ENTRIES && is_link_entry e) && negb (UNPACK_SKIPS_MARKER_ENTRIES && is_marker_entry e) &&
  negb (has_parent (en_path e)) && match en_kind e with EFile => true | _ => false end.
(* what the archive says about path q: the content of the last file entry unpacked there *)
Definition last_write (q : fpath) (acc : option N) (e : entry) : option N :=
  if unpackable e && path_eqb (normals (en_path e)) q then Some (en_content e) else acc.
Definition archive_says (ar : archive) (q : fpath) : option N := fold_left (last_write q) ar None.

Lemma fold_failed prefix ar f : fold_left (unpack_step prefix) ar (f, Failed) = (f, Failed).
Proof. induction ar as [|e ar IH]; cbn [fold_left]; [reflexivity|exact IH]. Qed.

Lemma step_running prefix f e f' q :
  unpack_step prefix (f, Running) e = (f', Running) -> fs_get f' q = last_write q (fs_get f q) e.
Proof.
  unfold unpack_step, last_write, unpackable. cbn [fst snd].
  destruct (entry_ok prefix e); cbn [negb]; [|discriminate].
  destruct (UNPACK_SKIPS_LINK_ENTRIES && is_link_entry e); cbn [negb andb]; [intros E; inversion E; reflexivity|].
  destruct (UNPACK_SKIPS_MARKER_ENTRIES && is_marker_entry e); cbn [negb andb]; [intros E; inversion E; reflexivity|].
  destruct (has_parent (en_path e)); cbn [negb andb]; [intros E; inversion E; reflexivity|].
  destruct (en_kind e); intros E; inversion E; subst; cbn [andb]; try reflexivity.
  rewrite fs_get_put. reflexivity.
Qed.

Lemma fold_running prefix ar : forall f f1 q,
  fold_left (unpack_step prefix) ar (f, Running) = (f1, Running) ->
  fs_get f1 q = fold_left (last_write q) ar (fs_get f q).
Proof.
  induction ar as [|e ar IH]; intros f f1 q E; cbn [fold_left] in *; [inversion E; reflexivity|].
  destruct (unpack_step prefix (f, Running) e) as [f' s'] eqn:S. destruct s'.
  - rewrite (IH f' f1 q E). rewrite (step_running prefix f e f' q S). reflexivity.
  - rewrite fold_failed in E. discriminate.
Qed.

(* a directory that is handed out (the unpack ran to its end) holds, below the crate's own
   directory, exactly what the archive says: for every path the content of the last regular-file
   entry unpacked there, nothing that was in the directory before, nothing missing *)
Theorem accepted_tree_is_the_archive prefix ar f f1 q :
  fold_left (unpack_step prefix) ar (fs_remove_dir f prefix, Running) = (f1, Running) ->
  under prefix q = true -> q <> [prefix; MARKER] ->
  fs_get (unpack prefix ar None f) q = archive_says ar q.
Proof.
  intros E Hu Hq. unfold unpack. rewrite E. rewrite fs_get_put.
  destruct (path_eqb_spec [prefix; MARKER] q) as [<-|_]; [congruence|].
  rewrite (fold_running prefix ar _ f1 q E). rewrite fs_get_remove_under by exact Hu. reflexivity.
Qed.
