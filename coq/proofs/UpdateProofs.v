(* UpdateProofs.v — what get_store_updates can and cannot do to a store (C11),
   and what the recorded required entries mean. *)
Require Import Base Extracted Criteria Search AuditGraph DepGraph Resolve Update.
Require Import CriteriaProofs SearchProofs AuditGraphProofs ResolveProofs.
Local Open Scope N_scope.

(* ------------------------------------------------------------------ *)
(* rmap *)
Lemma rentry_eqb_spec a b : reflect (a = b) (rentry_eqb a b).
Proof.
  destruct a, b; cbn; try (constructor; congruence);
    repeat match goal with
           | |- context [N.eqb ?x ?y] => destruct (N.eqb_spec x y); cbn
           end; constructor; congruence.
Qed.

Lemma rmap_get_add m e c e' :
  rmap_get (rmap_add m e c) e' =
  if rentry_eqb e e' then Some (cs_set c (match rmap_get m e with Some s => s | None => cs_empty end))
  else rmap_get m e'.
Proof.
  unfold rmap_get. induction m as [|[k s] m IH]; cbn [rmap_add find].
  - destruct (rentry_eqb_spec e e'); reflexivity.
  - destruct (rentry_eqb_spec k e) as [->|Hne]; cbn [find].
    + destruct (rentry_eqb_spec e e'); [reflexivity|reflexivity].
    + destruct (rentry_eqb_spec k e') as [->|Hne'].
      * destruct (rentry_eqb_spec e e'); [congruence|reflexivity].
      * exact IH.
Qed.

(* an invariant over everything a required-entry map records *)
Definition rmap_inv (P : rentry -> N -> Prop) (m : rmap) : Prop :=
  forall e s c, rmap_get m e = Some s -> cs_has c s = true -> P e c.

Lemma rmap_inv_nil P : rmap_inv P [].
Proof. intros e s c H. discriminate. Qed.

Lemma rmap_inv_add P m e c : rmap_inv P m -> P e c -> rmap_inv P (rmap_add m e c).
Proof.
  intros I Hp e' s c' Hg Hc. rewrite rmap_get_add in Hg.
  destruct (rentry_eqb_spec e e') as [<-|Hne]; [|eapply I; eauto].
  inversion Hg; subst. rewrite cs_has_set in Hc. apply orb_prop in Hc. destruct Hc as [Hc|Hc].
  - apply N.eqb_eq in Hc. subst. exact Hp.
  - destruct (rmap_get m e) eqn:E; [eapply I; eauto|rewrite cs_has_empty in Hc; discriminate].
Qed.

(* ------------------------------------------------------------------ *)
(* every origin on a returned path labels a usable edge (or is the synthetic
   fresh exemption of RegenerateExemptions) *)
Lemma chain_origins g c m a b p lv :
  chain g c m a b p lv ->
  forall o, In o p ->
    (exists v e, In e (lookup g v) /\ e_origin e = o /\ usable m c e = true) \/
    (m = RegenerateExemptions /\ exists v, o = OFreshExemption v).
Proof.
  induction 1 as [v|a b e p lv Hc IH He Hu|a v p lv Hm Hc IH]; intros o Hin.
  - destruct Hin.
  - apply in_app_iff in Hin. destruct Hin as [Hin|[<-|[]]]; [apply IH; exact Hin|].
    left. exists b, e. auto.
  - apply in_app_iff in Hin. destruct Hin as [Hin|[<-|[]]]; [apply IH; exact Hin|].
    right. split; [exact Hm|eauto].
Qed.

(* what an exemption edge carries *)
Lemma exemption_edge_crit t s fe i :
  In fe (all_edges t s) -> fe_origin fe = OExemption i ->
  exists x, nth_error (ps_exemptions s) (N.to_nat i) = Some x /\ fe_crit fe = from_list t (x_crit x) /\
            fe_from fe = None /\ fe_to fe = Some (x_ver x).
Proof.
  unfold all_edges. rewrite !in_app_iff. intros [H|[H|[H|H]]] Ho.
  - exfalso. unfold audit_edges in H. apply in_flat_map in H. destruct H as [[[src o] a] [Ha H]].
    assert (Hno : forall k, o <> OExemption k).
    { unfold all_audits in Ha. rewrite in_app_iff in Ha. destruct Ha as [Ha|Ha].
      - apply in_flat_map in Ha. destruct Ha as [[j l] [_ Ha]]. apply in_map_iff in Ha.
        destruct Ha as [[k a'] [E _]]. inversion E; discriminate.
      - apply in_map_iff in Ha. destruct Ha as [[k a'] [E _]]. inversion E; discriminate. }
    destruct (au_kind a); cbn in H; try contradiction; destruct H as [<-|[]]; cbn in Ho; eapply Hno; eauto.
  - exfalso. apply publisher_edge_spec in H. destruct H as [pi [p [_ [_ [_ [[imp [ai [w [E _]]]]|[tr [E _]]]]]]]]; congruence.
  - exfalso. unfold unpublished_edges in H. apply in_map_iff in H. destruct H as [[k u] [<- _]]. discriminate.
  - unfold exemption_edges in H. apply in_map_iff in H. destruct H as [[k x] [<- Hk]]. cbn in Ho. inversion Ho; subst.
    apply (in_enumerate x) in Hk. destruct Hk as [H1 H2]. exists x. rewrite Nat2N.id.
    rewrite (nth_error_nth' _ x H1), H2. auto.
Qed.

(* ------------------------------------------------------------------ *)
(* C11 core: outside RegenerateExemptions, an exemption is recorded as required
   only for criteria it already carries, and no fresh exemption is recorded *)
Definition exemption_ok (t : ctable) (s : pkg_store) (e : rentry) (c : N) : Prop :=
  match e with
  | RExemption i => exists x, nth_error (ps_exemptions s) (N.to_nat i) = Some x /\ cs_has c (from_list t (x_crit x)) = true
  | RFreshExemption _ => False
  | _ => True
  end.

Lemma path_entries_ok t s ag c v m p rm :
  m <> RegenerateExemptions ->
  build t s = inl ag -> ag_search ag c v m = SOk p ->
  rmap_inv (exemption_ok t s) rm ->
  rmap_inv (exemption_ok t s)
    (fold_left (fun rm o => fold_left (fun rm e => rmap_add rm e c) (entries_of_origin o) rm) p rm).
Proof.
  intros Hm Hb Hs. unfold build in Hb. destruct (violation_conflicts t s); [|discriminate].
  inversion Hb; subst ag; clear Hb. unfold ag_search in Hs. cbn [ag_backward ag_forward] in Hs.
  destruct (search _ (backward_graph _) c m (Some v) None) as [p'| |] eqn:E; try discriminate.
  2:{ destruct (search _ (forward_graph _) c m None (Some v)); discriminate. }
  inversion Hs; subst p'. apply search_sound in E. destruct E as [lv Hc].
  pose proof (chain_origins _ _ _ _ _ _ _ Hc) as Ho. clear Hc Hs.
  revert rm. induction p as [|o p IH]; intros rm I; cbn [fold_left]; [exact I|].
  apply IH; [intros o' Hin; apply Ho; right; exact Hin|].
  destruct (Ho o (or_introl eq_refl)) as [[v' [e [He [Heo Hu]]]]|[Hm' _]]; [|congruence].
  assert (Hcs : cs_has c (e_crit e) = true).
  { destruct m; [rewrite usable_PE in Hu|rewrite usable_PFI in Hu|congruence]; exact Hu. }
  apply in_backward_graph in He. destruct He as [fe [Hfe [_ ->]]]. cbn in Heo, Hcs.
  destruct o; cbn [entries_of_origin fold_left];
    repeat (apply rmap_inv_add); auto; try exact Logic.I.
  - destruct imp; cbn [fold_left]; repeat (apply rmap_inv_add); auto; exact Logic.I.
  - cbn. destruct (exemption_edge_crit _ _ _ _ Hfe Heo) as [x [Hx [Hcr _]]]. exists x. split; [exact Hx|].
    rewrite <- Hcr. exact Hcs.
  - (* FreshExemption never labels a real edge *)
    exfalso. unfold all_edges in Hfe. rewrite !in_app_iff in Hfe. destruct Hfe as [H|[H|[H|H]]].
    + unfold audit_edges in H. apply in_flat_map in H. destruct H as [[[src o] a] [Ha H]].
      assert (Hno : forall k, o <> OFreshExemption k).
      { unfold all_audits in Ha. rewrite in_app_iff in Ha. destruct Ha as [Ha|Ha].
        - apply in_flat_map in Ha. destruct Ha as [[j l] [_ Ha]]. apply in_map_iff in Ha.
          destruct Ha as [[k a'] [E _]]. inversion E; discriminate.
        - apply in_map_iff in Ha. destruct Ha as [[k a'] [E _]]. inversion E; discriminate. }
      destruct (au_kind a); cbn in H; try contradiction; destruct H as [<-|[]]; cbn in Heo; eapply Hno; eauto.
    + apply publisher_edge_spec in H. destruct H as [pi [p0 [_ [_ [_ [[imp [ai [w [E _]]]]|[tr [E _]]]]]]]]; congruence.
    + unfold unpublished_edges in H. apply in_map_iff in H. destruct H as [[k u] [<- _]]. discriminate.
    + unfold exemption_edges in H. apply in_map_iff in H. destruct H as [[k x] [<- _]]. discriminate.
Qed.

Theorem required_entries_exemptions t g reqs s name m rm :
  m <> RegenerateExemptions ->
  required_entries t g reqs s name m = Some rm ->
  rmap_inv (exemption_ok t (store_for s name)) rm.
Proof.
  intros Hm. unfold required_entries.
  destruct (filter _ (enumerate (g_pkgs g))) as [|pk pkgs] eqn:Epk.
  - intros H. inversion H. apply rmap_inv_nil.
  - destruct (build t (store_for s name)) as [ag|cs] eqn:Hb; [|discriminate].
    generalize (pk :: pkgs). intros l.
    assert (G : forall l acc rm, (forall r, acc = Some r -> rmap_inv (exemption_ok t (store_for s name)) r) ->
      fold_left (fun acc '(i, p) =>
          fold_left (fun acc c =>
            match acc with
            | None => None
            | Some rm =>
                match ag_search ag c (pk_version p) m with
                | SOk path => Some (fold_left (fun rm o => fold_left (fun rm e => rmap_add rm e c) (entries_of_origin o) rm) path rm)
                | _ => None
                end
            end) (minimal_indices t (nth i reqs cs_empty)) acc) l acc = Some rm ->
      rmap_inv (exemption_ok t (store_for s name)) rm).
    { induction l0 as [|[i p] l0 IH]; intros acc rm0 Hacc H; cbn [fold_left] in H.
      - apply Hacc. exact H.
      - eapply IH; [|exact H]. clear H IH.
        generalize (minimal_indices t (nth i reqs cs_empty)). intros cl. revert acc Hacc.
        induction cl as [|c cl IHc]; intros acc Hacc r Hr; cbn [fold_left] in Hr.
        + apply Hacc. exact Hr.
        + eapply IHc; [|exact Hr]. intros r' Hr'. destruct acc as [rm1|]; [|discriminate].
          destruct (ag_search ag c (pk_version p) m) as [path| |] eqn:Es; try discriminate.
          inversion Hr'; subst. eapply path_entries_ok; eauto. }
    intros H. eapply G; [|exact H]. intros r Hr. inversion Hr. apply rmap_inv_nil.
Qed.

(* ------------------------------------------------------------------ *)
(* C11: the update only filters *)
Lemma in_map_snd_filter {A} (f : nat * A -> bool) (l : list A) x :
  In x (map snd (filter f (enumerate l))) -> In x l.
Proof.
  intros H. apply in_map_iff in H. destruct H as [[i y] [<- H]]. apply filter_In in H.
  destruct H as [H _]. apply (in_enumerate y) in H. destruct H as [H1 <-]. apply nth_In. exact H1.
Qed.

Theorem update_local_audits_subset t mode ing re ps a :
  In a (pu_local (update_pkg t mode ing re ps)) -> In a (ps_local ps).
Proof.
  unfold update_pkg. cbn [pu_local]. destruct (ing && um_prune_audits mode); [|auto].
  destruct re; [|auto]. apply in_map_snd_filter.
Qed.

Theorem update_keeps_local_audits_when_not_pruning t mode ing re ps :
  um_prune_audits mode = false -> pu_local (update_pkg t mode ing re ps) = ps_local ps.
Proof. intros H. unfold update_pkg. cbn [pu_local]. rewrite H, andb_false_r. reflexivity. Qed.

Lemma nth_map_enumerate {A B} (f : nat * A -> B) (l : list A) i d d' :
  (i < length l)%nat -> nth i (map f (enumerate l)) d = f (i, nth i l d').
Proof.
  intros Hi. unfold enumerate.
  assert (G : forall k, nth i (map f (enumerate_from k l)) d = f ((k + i)%nat, nth i l d')).
  { revert i Hi. induction l as [|x l IH]; intros i Hi k; cbn in Hi; [lia|].
    destruct i; cbn; [rewrite Nat.add_0_r; reflexivity|]. rewrite IH by lia. f_equal. f_equal. lia. }
  apply (G 0%nat).
Qed.

Theorem update_imported_from_live t mode ing re ps imp a' :
  In a' (nth imp (pu_imported (update_pkg t mode ing re ps)) []) ->
  exists a, In a (nth imp (ps_imported ps) []) /\ a' = clear_audit a.
Proof.
  unfold update_pkg. cbn [pu_imported]. intros H.
  destruct (Nat.lt_ge_cases imp (length (ps_imported ps))) as [Hl|Hl].
  - rewrite (nth_map_enumerate _ _ _ _ []) in H by exact Hl.
    apply in_map_iff in H. destruct H as [a [<- H]]. exists a. split; [|reflexivity].
    eapply in_map_snd_filter. exact H.
  - rewrite nth_overflow in H; [destruct H|]. rewrite map_length. unfold enumerate. rewrite enumerate_from_length. exact Hl.
Qed.

Theorem update_wildcards_from_live t mode ing re ps imp w' :
  In w' (nth imp (pu_wild_imported (update_pkg t mode ing re ps)) []) ->
  exists w, In w (nth imp (ps_wild_imported ps) []) /\ w' = clear_wild w.
Proof.
  unfold update_pkg. cbn [pu_wild_imported]. intros H.
  destruct (Nat.lt_ge_cases imp (length (ps_wild_imported ps))) as [Hl|Hl].
  - rewrite (nth_map_enumerate _ _ _ _ []) in H by exact Hl.
    apply in_map_iff in H. destruct H as [w [<- H]]. exists w. split; [|reflexivity].
    eapply in_map_snd_filter. exact H.
  - rewrite nth_overflow in H; [destruct H|]. rewrite map_length. unfold enumerate. rewrite enumerate_from_length. exact Hl.
Qed.

Theorem update_publishers_from_live t mode ing re ps p' :
  In p' (pu_publishers (update_pkg t mode ing re ps)) -> exists p, In p (ps_publishers ps) /\ p' = clear_pub p.
Proof.
  unfold update_pkg. cbn [pu_publishers]. intros H. apply in_map_iff in H. destruct H as [p [<- H]].
  exists p. split; [|reflexivity]. eapply in_map_snd_filter. exact H.
Qed.

Lemma in_dedup_adj {A} (eqb : A -> A -> bool) l x : In x (dedup_adj eqb l) -> In x l.
Proof.
  induction l as [|y l IH]; [auto|]. cbn [dedup_adj]. destruct l as [|z l'].
  - auto.
  - destruct (eqb y z).
    + intros H. right. apply IH. exact H.
    + intros [<-|H]; [left; reflexivity|right; apply IH; exact H].
Qed.

Theorem update_unpublished_from_live t mode ing re ps u' :
  In u' (pu_unpublished (update_pkg t mode ing re ps)) -> exists u, In u (ps_unpublished ps) /\ u' = clear_unpub u.
Proof.
  unfold update_pkg. cbn [pu_unpublished]. intros H. apply in_dedup_adj in H. apply in_sort_by in H.
  apply in_map_iff in H. destruct H as [u [<- H]]. exists u. split; [|reflexivity].
  eapply in_map_snd_filter. exact H.
Qed.

(* ---- exemptions are only narrowed (outside RegenerateExemptions) ---- *)
Definition narrower (t : ctable) (x' x : exemption) : Prop :=
  x_ver x' = x_ver x /\ x_suggest x' = x_suggest x /\
  forall c, cs_has c (from_list t (x_crit x')) = true -> cs_has c (from_list t (x_crit x)) = true.

Lemma names_of_subset t s T :
  (forall c, cs_has c s = true -> cs_has c T = true) -> closed t T ->
  forall c, cs_has c (from_list t (names_of t s)) = true -> cs_has c T = true.
Proof.
  intros Hs Hc c H. apply from_list_spec in H. destruct H as [m [Hm Hx]].
  apply minimal_subset in Hm. eapply Hc; [apply Hs; exact Hm|exact Hx].
Qed.

Theorem update_exemptions_narrowed t mode re xs x' :
  (forall rm, re = Some rm -> forall i s c, rmap_get rm (RExemption i) = Some s -> cs_has c s = true ->
      exists x, nth_error xs (N.to_nat i) = Some x /\ cs_has c (from_list t (x_crit x)) = true) ->
  In x' (update_exemptions t mode re xs) -> exists x, In x xs /\ narrower t x' x.
Proof.
  intros Hre H. unfold update_exemptions in H. apply in_flat_map in H. destruct H as [[i x] [Hi H]].
  apply (in_enumerate x) in Hi. destruct Hi as [Hi1 Hi2].
  assert (Hnth : nth_error xs i = Some x) by (rewrite (nth_error_nth' _ x Hi1), Hi2; reflexivity).
  exists x. split; [rewrite <- Hi2; apply nth_In; exact Hi1|].
  set (original := from_list t (x_crit x)) in *.
  set (useful0 := match re with
                  | Some rm => match rmap_get rm (RExemption (N.of_nat i)) with Some s => s | None => cs_empty end
                  | None => original end) in *.
  assert (U0 : forall c, cs_has c useful0 = true -> cs_has c original = true).
  { intros c Hc. unfold useful0 in Hc. destruct re as [rm|]; [|exact Hc].
    destruct (rmap_get rm (RExemption (N.of_nat i))) as [s|] eqn:Eg; [|rewrite cs_has_empty in Hc; discriminate].
    destruct (Hre rm eq_refl _ _ _ Eg Hc) as [x0 [Hx0 Hc0]]. rewrite Nat2N.id in Hx0. assert (E0 : x0 = x) by congruence. subst x0. exact Hc0. }
  set (useful := if um_prune_exemptions mode then useful0 else cs_union useful0 original) in *.
  assert (U : forall c, cs_has c useful = true -> cs_has c original = true).
  { intros c Hc. unfold useful in Hc. destruct (um_prune_exemptions mode); [apply U0; exact Hc|].
    rewrite cs_has_union in Hc. apply orb_prop in Hc. destruct Hc; auto. }
  destruct (cs_is_empty useful); [destruct H|].
  assert (Hcont : cs_contains original useful = true) by (apply cs_contains_spec; exact U).
  rewrite Hcont, andb_false_r in H. destruct H as [<-|[]]. cbn.
  repeat split; auto. apply names_of_subset; [exact U|apply from_list_is_closed].
Qed.

(* with pruning of exemptions switched off nothing is narrowed either: each kept
   exemption denotes exactly what it denoted *)
Theorem update_exemptions_kept_when_not_pruning t mode re xs :
  ct_acyclic t = true -> (forall x, In x xs -> forall c, In c (x_crit x) -> c < N.of_nat (ct_len t)) ->
  um_prune_exemptions mode = false ->
  (forall rm, re = Some rm -> forall i s c, rmap_get rm (RExemption i) = Some s -> cs_has c s = true ->
      exists x, nth_error xs (N.to_nat i) = Some x /\ cs_has c (from_list t (x_crit x)) = true) ->
  forall x', In x' (update_exemptions t mode re xs) ->
    exists x, In x xs /\ x_ver x' = x_ver x /\ x_suggest x' = x_suggest x /\
              from_list t (x_crit x') = from_list t (x_crit x).
Proof.
  intros Hac Hb Hnp Hre x' H. unfold update_exemptions in H. apply in_flat_map in H. destruct H as [[i x] [Hi H]].
  apply (in_enumerate x) in Hi. destruct Hi as [Hi1 Hi2].
  assert (Hin : In x xs) by (rewrite <- Hi2; apply nth_In; exact Hi1).
  assert (Hnth : nth_error xs i = Some x) by (rewrite (nth_error_nth' _ x Hi1), Hi2; reflexivity).
  exists x. split; [exact Hin|].
  set (original := from_list t (x_crit x)) in *.
  set (useful0 := match re with
                  | Some rm => match rmap_get rm (RExemption (N.of_nat i)) with Some s => s | None => cs_empty end
                  | None => original end) in *.
  assert (U0 : forall c, cs_has c useful0 = true -> cs_has c original = true).
  { intros c Hc. unfold useful0 in Hc. destruct re as [rm|]; [|exact Hc].
    destruct (rmap_get rm (RExemption (N.of_nat i))) as [s|] eqn:Eg; [|rewrite cs_has_empty in Hc; discriminate].
    destruct (Hre rm eq_refl _ _ _ Eg Hc) as [x0 [Hx0 Hc0]]. rewrite Nat2N.id in Hx0. assert (E0 : x0 = x) by congruence. subst x0. exact Hc0. }
  rewrite Hnp in H.
  assert (Eu : cs_union useful0 original = original).
  { apply cs_ext. intros c. rewrite cs_has_union. destruct (cs_has c useful0) eqn:E; [rewrite (U0 c E); reflexivity|reflexivity]. }
  rewrite Eu in H. destruct (cs_is_empty original); [destruct H|].
  assert (Hcont : cs_contains original original = true) by (apply cs_contains_spec; auto).
  rewrite Hcont, andb_false_r in H. destruct H as [<-|[]]. cbn. repeat split; auto.
  unfold names_of. apply minimal_generates.
  - apply ct_acyclic_spec. exact Hac.
  - apply from_list_bounded. intros c Hc. eapply Hb; eauto.
  - apply from_list_is_closed.
Qed.


(* ---- the model's [entries_of_origin] is the table read from resolve_package_required_entries ---- *)
Definition rkind_of (e : rentry) : rkind :=
  match e with
  | RLocalAudit _ => RK_LocalAudit | RAudit _ _ => RK_Audit | RWildcard _ _ => RK_Wildcard | RPublisher _ => RK_Publisher
  | RExemption _ => RK_Exemption | RUnpublished _ => RK_Unpublished | RFreshExemption _ => RK_FreshExemption
  end.
Definition imported_wildcard (o : origin) : bool := match o with OWildcard (Some _) _ _ => true | _ => false end.
Lemma entries_follow_source o :
  map rkind_of (entries_of_origin o) =
  map fst (filter (fun '(_, only_if_imported) => negb only_if_imported || imported_wildcard o)
                  (required_kinds_src (fst (okind_of (e_origin {| e_to := None; e_crit := 0; e_origin := o; e_fresh := Stale |}))))).
Proof. destruct o as [| |[a|] ? ?| | | |]; reflexivity. Qed.
