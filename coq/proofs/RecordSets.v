(* RecordSets.v — the verdict of `resolve` depends only on the SETS of records each crate has
   (what every audit / wildcard audit / trusted entry / publisher / unpublished / exemption says),
   not on how imported entries are grouped into peers, on their order, on duplicates, on
   freshness marks or on the importable flag of a local audit.  Used for C16 (importing the
   aggregate = importing the sources), C07 (a multi-URL import = the union) and C14 (tidy). *)
Require Import Base Extracted Criteria Search AuditGraph DepGraph Resolve.
Require Import CriteriaProofs SearchProofs AuditGraphProofs ResolveProofs ResolveTheorems FuelProofs.
Local Open Scope N_scope.

(* ---- what a record says ---- *)
Definition audits_flat (ps : pkg_store) : list audit := concat (ps_imported ps) ++ ps_local ps.
Definition wilds_flat (ps : pkg_store) : list wildcard := concat (ps_wild_imported ps) ++ ps_wild_local ps.

Definition akey (a : audit) : akind * list N := (au_kind a, au_crit a).
Definition wkey (w : wildcard) : N * Z * Z * list N := (w_user w, w_start w, w_end w, w_crit w).
Definition pkey (p : publisher) : N * N * Z := (p_ver p, p_user p, p_when p).
Definition ukey (u : unpublished) : N * N := (u_ver u, u_as u).
Definition xkey (x : exemption) : N * list N := (x_ver x, x_crit x).

Definition same_set {A B} (f : A -> B) (l1 l2 : list A) : Prop := forall k, In k (map f l1) <-> In k (map f l2).

Record same_records (ps1 ps2 : pkg_store) : Prop := {
  sr_audits : same_set akey (audits_flat ps1) (audits_flat ps2);
  sr_wilds : same_set wkey (wilds_flat ps1) (wilds_flat ps2);
  sr_trusted : same_set (fun e : trusted => e) (ps_trusted ps1) (ps_trusted ps2);
  sr_publishers : same_set pkey (ps_publishers ps1) (ps_publishers ps2);
  sr_unpublished : same_set ukey (ps_unpublished ps1) (ps_unpublished ps2);
  sr_exemptions : same_set xkey (ps_exemptions ps1) (ps_exemptions ps2)
}.

Lemma same_set_sym {A B} (f : A -> B) l1 l2 : same_set f l1 l2 -> same_set f l2 l1.
Proof. intros H k. symmetry. apply H. Qed.
Lemma same_records_sym ps1 ps2 : same_records ps1 ps2 -> same_records ps2 ps1.
Proof. intros [A B C D E F]. constructor; apply same_set_sym; assumption. Qed.
Lemma same_records_refl ps : same_records ps ps.
Proof. constructor; intros k; reflexivity. Qed.

Lemma same_set_pick {A B} (f : A -> B) l1 l2 x : same_set f l1 l2 -> In x l1 -> exists y, In y l2 /\ f y = f x.
Proof. intros H Hx. assert (Hk : In (f x) (map f l1)) by (apply in_map; exact Hx). apply H in Hk. apply in_map_iff in Hk. destruct Hk as [y [E Hy]]. exists y. auto. Qed.

(* ---- membership in the enumerations the builder walks ---- *)
Lemma in_enumerate_intro' {A} (l : list A) x : In x l -> exists i, In (i, x) (enumerate l).
Proof. intros H. destruct (In_nth l x x H) as [i [Hi Hn]]. exists i. apply (in_enumerate x). split; assumption. Qed.
Lemma in_enumerate_elim {A} (l : list A) i x : In (i, x) (enumerate l) -> In x l.
Proof. intros H. apply (in_enumerate x) in H. destruct H as [H1 H2]. rewrite <- H2. apply nth_In. exact H1. Qed.

Lemma in_all_audits ps a : (exists src o, In (src, o, a) (all_audits ps)) <-> In a (audits_flat ps).
Proof.
  unfold all_audits, audits_flat. split.
  - intros [src [o H]]. apply in_app_iff in H. apply in_app_iff. destruct H as [H|H].
    + left. apply in_flat_map in H. destruct H as [[imp l] [Hl H]]. apply in_map_iff in H. destruct H as [[i a'] [E Hi]].
      inversion E; subst. apply in_concat. exists l. split; [eapply in_enumerate_elim; exact Hl|eapply in_enumerate_elim; exact Hi].
    + right. apply in_map_iff in H. destruct H as [[i a'] [E Hi]]. inversion E; subst. eapply in_enumerate_elim; exact Hi.
  - intros H. apply in_app_iff in H. destruct H as [H|H].
    + apply in_concat in H. destruct H as [l [Hl Ha]].
      destruct (in_enumerate_intro' _ _ Hl) as [imp Himp]. destruct (in_enumerate_intro' _ _ Ha) as [i Hi].
      exists (Some (N.of_nat imp)), (OImported (N.of_nat imp) (N.of_nat i)). apply in_app_iff. left.
      apply in_flat_map. exists (imp, l). split; [exact Himp|]. apply in_map_iff. exists (i, a). split; [reflexivity|exact Hi].
    + destruct (in_enumerate_intro' _ _ H) as [i Hi].
      exists None, (OLocal (N.of_nat i) (au_importable a)). apply in_app_iff. right. apply in_map_iff. exists (i, a). split; [reflexivity|exact Hi].
Qed.

Lemma in_all_wildcards ps w : (exists imp ai, In (imp, ai, w) (all_wildcards ps)) <-> In w (wilds_flat ps).
Proof.
  unfold all_wildcards, wilds_flat. split.
  - intros [imp0 [ai H]]. apply in_app_iff in H. apply in_app_iff. destruct H as [H|H].
    + left. apply in_flat_map in H. destruct H as [[imp l] [Hl H]]. apply in_map_iff in H. destruct H as [[i w'] [E Hi]].
      inversion E; subst. apply in_concat. exists l. split; [eapply in_enumerate_elim; exact Hl|eapply in_enumerate_elim; exact Hi].
    + right. apply in_map_iff in H. destruct H as [[i w'] [E Hi]]. inversion E; subst. eapply in_enumerate_elim; exact Hi.
  - intros H. apply in_app_iff in H. destruct H as [H|H].
    + apply in_concat in H. destruct H as [l [Hl Ha]].
      destruct (in_enumerate_intro' _ _ Hl) as [imp Himp]. destruct (in_enumerate_intro' _ _ Ha) as [i Hi].
      exists (Some (N.of_nat imp)), (N.of_nat i). apply in_app_iff. left.
      apply in_flat_map. exists (imp, l). split; [exact Himp|]. apply in_map_iff. exists (i, w). split; [reflexivity|exact Hi].
    + destruct (in_enumerate_intro' _ _ H) as [i Hi].
      exists None, (N.of_nat i). apply in_app_iff. right. apply in_map_iff. exists (i, w). split; [reflexivity|exact Hi].
Qed.

(* ---- edges ---- *)
Definition esim (e e' : fedge) : Prop := fe_from e = fe_from e' /\ fe_to e = fe_to e' /\ fe_crit e = fe_crit e'.

Section Edges.
Variables (t : ctable) (ps1 ps2 : pkg_store).
Hypothesis SR : same_records ps1 ps2.

Lemma audit_edges_sim e : In e (audit_edges t ps1) -> exists e', In e' (audit_edges t ps2) /\ esim e e'.
Proof.
  unfold audit_edges. intros H. apply in_flat_map in H. destruct H as [[[src o] a] [Ha H]].
  assert (Hf : In a (audits_flat ps1)) by (apply in_all_audits; eauto).
  destruct (same_set_pick akey _ _ a (sr_audits _ _ SR) Hf) as [a' [Ha' Ek]]. unfold akey in Ek. inversion Ek as [[Ekind Ecrit]].
  apply in_all_audits in Ha'. destruct Ha' as [src' [o' Ha']].
  destruct (au_kind a) as [v|f v|r] eqn:K; [| |destruct H].
  - destruct H as [<-|[]]. eexists. split.
    + apply in_flat_map. exists (src', o', a'). split; [exact Ha'|]. rewrite Ekind. left. reflexivity.
    + unfold esim. cbn. rewrite Ecrit. auto.
  - destruct H as [<-|[]]. eexists. split.
    + apply in_flat_map. exists (src', o', a'). split; [exact Ha'|]. rewrite Ekind. left. reflexivity.
    + unfold esim. cbn. rewrite Ecrit. auto.
Qed.

Lemma publisher_edges_sim e : In e (publisher_edges t ps1) -> exists e', In e' (publisher_edges t ps2) /\ esim e e'.
Proof.
  unfold publisher_edges. intros H. apply in_flat_map in H. destruct H as [[pi p] [Hp H]].
  apply in_enumerate_elim in Hp.
  destruct (same_set_pick pkey _ _ p (sr_publishers _ _ SR) Hp) as [p' [Hp' Ek]]. unfold pkey in Ek. inversion Ek as [[Ev Eu Ew]].
  destruct (in_enumerate_intro' _ _ Hp') as [pi' Hpi'].
  apply in_app_iff in H. destruct H as [H|H].
  - apply in_flat_map in H. destruct H as [[[imp ai] w] [Hw H]].
    assert (Hf : In w (wilds_flat ps1)) by (apply in_all_wildcards; eauto).
    destruct (same_set_pick wkey _ _ w (sr_wilds _ _ SR) Hf) as [w' [Hw' Ekw]]. unfold wkey in Ekw. inversion Ekw as [[E1 E2 E3 E4]].
    apply in_all_wildcards in Hw'. destruct Hw' as [imp' [ai' Hw']].
    destruct (wildcard_guard (w_user w) (p_user p) (w_start w) (w_end w) (p_when p)) eqn:G; [|destruct H].
    destruct H as [<-|[]]. eexists. split.
    + apply in_flat_map. exists (pi', p'). split; [exact Hpi'|]. apply in_app_iff. left.
      apply in_flat_map. exists (imp', ai', w'). split; [exact Hw'|]. rewrite E1, E2, E3, Eu, Ew, G. left. reflexivity.
    + unfold esim. cbn. rewrite Ev, E4. auto.
  - apply in_flat_map in H. destruct H as [e0 [He0 H]].
    destruct (same_set_pick (fun x : trusted => x) _ _ e0 (sr_trusted _ _ SR) He0) as [e0' [He0' Eke]]. cbn in Eke. subst e0'.
    destruct (trusted_guard (t_user e0) (p_user p) (t_start e0) (t_end e0) (p_when p)) eqn:G; [|destruct H].
    destruct H as [<-|[]]. eexists. split.
    + apply in_flat_map. exists (pi', p'). split; [exact Hpi'|]. apply in_app_iff. right.
      apply in_flat_map. exists e0. split; [exact He0'|]. rewrite Eu, Ew, G. left. reflexivity.
    + unfold esim. cbn. rewrite Ev. auto.
Qed.

Lemma unpublished_edges_sim e : In e (unpublished_edges t ps1) -> exists e', In e' (unpublished_edges t ps2) /\ esim e e'.
Proof.
  unfold unpublished_edges. intros H. apply in_map_iff in H. destruct H as [[i u] [<- Hu]]. apply in_enumerate_elim in Hu.
  destruct (same_set_pick ukey _ _ u (sr_unpublished _ _ SR) Hu) as [u' [Hu' Ek]]. unfold ukey in Ek. inversion Ek as [[E1 E2]].
  destruct (in_enumerate_intro' _ _ Hu') as [i' Hi']. eexists. split.
  - apply in_map_iff. exists (i', u'). split; [reflexivity|exact Hi'].
  - unfold esim. cbn. rewrite E1, E2. auto.
Qed.

Lemma exemption_edges_sim e : In e (exemption_edges t ps1) -> exists e', In e' (exemption_edges t ps2) /\ esim e e'.
Proof.
  unfold exemption_edges. intros H. apply in_map_iff in H. destruct H as [[i x] [<- Hx]]. apply in_enumerate_elim in Hx.
  destruct (same_set_pick xkey _ _ x (sr_exemptions _ _ SR) Hx) as [x' [Hx' Ek]]. unfold xkey in Ek. inversion Ek as [[E1 E2]].
  destruct (in_enumerate_intro' _ _ Hx') as [i' Hi']. eexists. split.
  - apply in_map_iff. exists (i', x'). split; [reflexivity|exact Hi'].
  - unfold esim. cbn. rewrite E1, E2. auto.
Qed.

Lemma all_edges_sim e : In e (all_edges t ps1) -> exists e', In e' (all_edges t ps2) /\ esim e e'.
Proof.
  unfold all_edges. rewrite !in_app_iff. intros [H|[H|[H|H]]].
  - destruct (audit_edges_sim e H) as [e' [H' S]]. exists e'. rewrite !in_app_iff. auto.
  - destruct (publisher_edges_sim e H) as [e' [H' S]]. exists e'. rewrite !in_app_iff. auto.
  - destruct (unpublished_edges_sim e H) as [e' [H' S]]. exists e'. rewrite !in_app_iff. auto.
  - destruct (exemption_edges_sim e H) as [e' [H' S]]. exists e'. rewrite !in_app_iff. auto.
Qed.

Lemma fpath_sim c x y : fpath t ps1 c x y -> fpath t ps2 c x y.
Proof.
  intros P. induction P as [v|e w He Hc P IH]; [constructor|].
  destruct (all_edges_sim e He) as [e' [He' [Ef [Et Ec]]]].
  rewrite Ef. eapply fp_cons; [exact He'|rewrite <- Ec; exact Hc|rewrite <- Et; exact IH].
Qed.
End Edges.

Lemma certified_same_records t ps1 ps2 c v : same_records ps1 ps2 -> certified t ps1 c v <-> certified t ps2 c v.
Proof. intros SR. unfold certified. split; apply fpath_sim; [exact SR|apply same_records_sym; exact SR]. Qed.

(* ---- violation conflicts ---- *)
Definition hit (t : ctable) (vcrit crit : list N) : bool :=
  existsb (fun v => cs_contains (from_list t crit) v) (map (fun c => from_list t [c]) vcrit).
Definition in_range (range : list N) (k : akind) : bool :=
  match k with
  | KFull v => existsb (N.eqb v) range
  | KDelta f v => existsb (N.eqb f) range || existsb (N.eqb v) range
  | KViolation _ => false
  end.

Definition has_conflict (t : ctable) (ps : pkg_store) : Prop :=
  exists va range, In va (audits_flat ps) /\ au_kind va = KViolation range /\
    ((exists x, In x (ps_exemptions ps) /\ hit t (au_crit va) (x_crit x) = true /\ existsb (N.eqb (x_ver x)) range = true) \/
     (exists a, In a (audits_flat ps) /\ hit t (au_crit va) (au_crit a) = true /\ in_range range (au_kind a) = true)).

Lemma conflicts_iff t ps : (exists c, In c (violation_conflicts t ps)) <-> has_conflict t ps.
Proof.
  unfold violation_conflicts, has_conflict. split.
  - intros [c H]. apply in_flat_map in H. destruct H as [[[vsrc vo] va] [Hva H]].
    destruct (au_kind va) as [| |range] eqn:K; try destruct H.
    exists va, range. split; [apply in_all_audits; eauto|]. split; [exact K|].
    apply in_app_iff in H. destruct H as [H|H].
    + left. apply in_flat_map in H. destruct H as [[xi x] [Hx H]]. exists x. split; [eapply in_enumerate_elim; exact Hx|].
      fold (hit t (au_crit va) (x_crit x)) in H.
      destruct (hit t (au_crit va) (x_crit x)); [|destruct H]. destruct (existsb (N.eqb (x_ver x)) range); [auto|destruct H].
    + right. apply in_flat_map in H. destruct H as [[[asrc ao] a] [Ha H]]. exists a. split; [apply in_all_audits; eauto|].
      fold (hit t (au_crit va) (au_crit a)) in H.
      destruct (hit t (au_crit va) (au_crit a)); [|destruct H]. split; [reflexivity|].
      unfold in_range. destruct (au_kind a) as [v|f v|r]; [| |destruct H].
      * destruct (existsb (N.eqb v) range); [reflexivity|destruct H].
      * destruct (existsb (N.eqb f) range || existsb (N.eqb v) range); [reflexivity|destruct H].
  - intros [va [range [Hva [K H]]]]. apply in_all_audits in Hva. destruct Hva as [vsrc [vo Hva]].
    destruct H as [[x [Hx [Hh Hr]]]|[a [Ha [Hh Hr]]]].
    + destruct (in_enumerate_intro' _ _ Hx) as [xi Hxi]. eexists. apply in_flat_map. exists (vsrc, vo, va). split; [exact Hva|].
      rewrite K. apply in_app_iff. left. apply in_flat_map. exists (xi, x). split; [exact Hxi|].
      fold (hit t (au_crit va) (x_crit x)). rewrite Hh, Hr. left. reflexivity.
    + apply in_all_audits in Ha. destruct Ha as [asrc [ao Ha]]. eexists. apply in_flat_map. exists (vsrc, vo, va). split; [exact Hva|].
      rewrite K. apply in_app_iff. right. apply in_flat_map. exists (asrc, ao, a). split; [exact Ha|].
      fold (hit t (au_crit va) (au_crit a)). rewrite Hh. unfold in_range in Hr.
      destruct (au_kind a) as [v|f v|r]; [| |discriminate]; rewrite Hr; left; reflexivity.
Qed.

Lemma has_conflict_same_records t ps1 ps2 : same_records ps1 ps2 -> has_conflict t ps1 -> has_conflict t ps2.
Proof.
  intros SR [va [range [Hva [K H]]]].
  destruct (same_set_pick akey _ _ va (sr_audits _ _ SR) Hva) as [va' [Hva' Ek]]. unfold akey in Ek. inversion Ek as [[Ekind Ecrit]].
  exists va', range. split; [exact Hva'|]. split; [congruence|]. rewrite Ecrit.
  destruct H as [[x [Hx [Hh Hr]]]|[a [Ha [Hh Hr]]]].
  - left. destruct (same_set_pick xkey _ _ x (sr_exemptions _ _ SR) Hx) as [x' [Hx' Ekx]]. unfold xkey in Ekx. inversion Ekx as [[E1 E2]].
    exists x'. rewrite E1, E2. auto.
  - right. destruct (same_set_pick akey _ _ a (sr_audits _ _ SR) Ha) as [a' [Ha' Eka]]. unfold akey in Eka. inversion Eka as [[E1 E2]].
    exists a'. rewrite E1, E2. auto.
Qed.

Lemma no_conflicts_same_records t ps1 ps2 : same_records ps1 ps2 -> violation_conflicts t ps1 = [] -> violation_conflicts t ps2 = [].
Proof.
  intros SR H. destruct (violation_conflicts t ps2) as [|c l] eqn:E; [reflexivity|exfalso].
  assert (X : has_conflict t ps2) by (apply conflicts_iff; exists c; rewrite E; left; reflexivity).
  apply (has_conflict_same_records t ps2 ps1 (same_records_sym _ _ SR)) in X. apply conflicts_iff in X. destruct X as [c' Hc']. rewrite H in Hc'. destruct Hc'.
Qed.

(* ---- the verdict depends only on "is this pair certified" and "is there a conflict" ---- *)
Lemma success_no_conflict inp s a b c0 i p :
  r_conclusion (resolve inp s) = Success a b c0 -> pkg_at inp s i p -> pk_third_party p = true ->
  violation_conflicts (st_criteria s) (store_for s (pk_name p)) = [].
Proof.
  intros Hc Hp Ht. destruct (third_party_result inp s i p Hp Ht) as [o [Ho [Eo Hres]]].
  pose proof (conclude_success _ _ _ _ Hc i o Ho) as [Hnv _].
  destruct (violation_conflicts (st_criteria s) (store_for s (pk_name p))) as [|c l] eqn:E; [reflexivity|exfalso].
  apply (Hnv (c :: l)). rewrite Eo. unfold resolve_pkg. rewrite Ht. cbn [negb]. cbv iota. unfold build. rewrite E. reflexivity.
Qed.

Lemma success_transfers inp s1 s2 a b c0 :
  st_criteria s2 = st_criteria s1 ->
  (forall name, same_records (store_for s1 name) (store_for s2 name)) ->
  r_conclusion (resolve inp s1) = Success a b c0 -> exists a' b' c', r_conclusion (resolve inp s2) = Success a' b' c'.
Proof.
  intros Ht SR Hc. apply (success_complete inp s2 (no_fuel_always inp s2)).
  intros i p Hp Htp. unfold pkg_at in Hp. change (r_graph (resolve inp s2)) with (r_graph (resolve inp s1)) in Hp.
  rewrite Ht. split.
  - eapply no_conflicts_same_records; [apply SR|]. eapply success_no_conflict; eauto.
  - intros c Hlt Hreq. apply (certified_same_records _ _ _ c (pk_version p) (SR (pk_name p))).
    eapply (success_sound inp s1 a b c0 Hc i p Hp Htp c Hlt).
    unfold required_of in *. unfold resolve in *. cbn [r_requirements] in *. rewrite Ht in Hreq. exact Hreq.
Qed.

Theorem verdict_same_records inp s1 s2 :
  st_criteria s2 = st_criteria s1 ->
  (forall name, same_records (store_for s1 name) (store_for s2 name)) ->
  has_errors (resolve inp s2) = has_errors (resolve inp s1).
Proof.
  intros Ht SR. unfold has_errors.
  destruct (r_conclusion (resolve inp s1)) as [a b c0|vs|fs] eqn:H1.
  - destruct (success_transfers inp s1 s2 a b c0 Ht SR H1) as [a' [b' [c' H2]]]. rewrite H2. reflexivity.
  - destruct (r_conclusion (resolve inp s2)) as [a b c0|vs'|fs'] eqn:H2; try reflexivity.
    destruct (success_transfers inp s2 s1 a b c0 (eq_sym Ht) (fun n => same_records_sym _ _ (SR n)) H2) as [a' [b' [c' H3]]]. congruence.
  - destruct (r_conclusion (resolve inp s2)) as [a b c0|vs'|fs'] eqn:H2; try reflexivity.
    destruct (success_transfers inp s2 s1 a b c0 (eq_sym Ht) (fun n => same_records_sym _ _ (SR n)) H2) as [a' [b' [c' H3]]]. congruence.
Qed.

(* ---- instances ---- *)
(* all imported entries of a crate served as ONE peer file (what importing the aggregate, or a
   multi-URL import, gives) instead of one list per source *)
Definition regroup_pkg (ps : pkg_store) : pkg_store :=
  {| ps_imported := [concat (ps_imported ps)]; ps_local := ps_local ps;
     ps_wild_imported := [concat (ps_wild_imported ps)]; ps_wild_local := ps_wild_local ps;
     ps_trusted := ps_trusted ps; ps_publishers := ps_publishers ps; ps_unpublished := ps_unpublished ps;
     ps_exemptions := ps_exemptions ps |}.
Definition regroup_store (s : store) : store :=
  {| st_criteria := st_criteria s; st_pkgs := map (fun '(n, ps) => (n, regroup_pkg ps)) (st_pkgs s) |}.

Lemma regroup_same ps : same_records ps (regroup_pkg ps).
Proof.
  constructor; intros k; unfold audits_flat, wilds_flat, regroup_pkg; cbn [ps_imported ps_local ps_wild_imported ps_wild_local ps_trusted ps_publishers ps_unpublished ps_exemptions concat];
    rewrite ?app_nil_r; reflexivity.
Qed.

Lemma store_for_regroup s name : same_records (store_for s name) (store_for (regroup_store s) name).
Proof.
  unfold store_for, regroup_store. cbn [st_pkgs]. induction (st_pkgs s) as [|[k ps] l IH]; cbn [map find]; [apply same_records_refl|].
  destruct (N.eqb k name); [apply regroup_same|exact IH].
Qed.

Theorem regrouping_keeps_verdict inp s : has_errors (resolve inp (regroup_store s)) = has_errors (resolve inp s).
Proof. apply verdict_same_records; [reflexivity|]. intros name. apply store_for_regroup. Qed.
