(* UnpackHistory.v — the cache over ANY history of fetches: whatever crates are fetched in whatever order, each attempt cut
   short anywhere or not at all, a directory whose completion marker is valid holds exactly what its archive says. *)
Require Import Base Extracted Unpack.
Require Import UnpackProofs.
Local Open Scope N_scope.

Section History.
(* the archive the registry serves for each crate directory (prefix) *)
Variable arch : N -> archive.

(* one event: fetch crate [p], the unpack (if one is needed) cut after [cut] entries or running to its end *)
Definition ev := (N * option nat)%type.
Definition do_ev (f : fs) (e : ev) : fs := fetch (fst e) (arch (fst e)) (snd e) f.

Definition accepted_is_complete (f : fs) : Prop :=
  forall p q, fetch_is_ok p f = true -> under p q = true -> q <> [p; MARKER] -> fs_get f q = archive_says (arch p) q.

Lemma under_other p p' q : under p q = true -> p <> p' -> under p' q = false.
Proof.
  destruct q as [|x q]; cbn; [discriminate|]. intros H Hne. apply N.eqb_eq in H. subst x.
  apply N.eqb_neq. exact Hne.
Qed.

Lemma fetch_ok_other p p' ar cut f : p <> p' -> fetch_is_ok p (fetch p' ar cut f) = fetch_is_ok p f.
Proof.
  intros Hne. unfold fetch_is_ok. rewrite fetch_confined; [reflexivity|].
  cbn. apply N.eqb_neq. exact Hne.
Qed.

Lemma step_keeps f e : accepted_is_complete f -> accepted_is_complete (do_ev f e).
Proof.
  intros I p q Hok Hu Hq. destruct e as [p' cut]. unfold do_ev in *. cbn [fst snd] in *.
  destruct (N.eq_dec p p') as [<-|Hne].
  - (* the crate being fetched *)
    unfold fetch in *. destruct (fetch_is_ok p f) eqn:E; [apply I; assumption|].
    destruct cut as [k|].
    + rewrite interrupted_unpack_has_no_marker in Hok by reflexivity. discriminate.
    + destruct (fold_left (unpack_step p) (arch p) (fs_remove_dir f p, Running)) as [f1 st] eqn:F. destruct st.
      * eapply accepted_tree_is_the_archive; eassumption.
      * rewrite (failed_unpack_has_no_marker p (arch p) f f1) in Hok by (try reflexivity; exact F). discriminate.
  - (* another crate: its directory and its marker are untouched *)
    rewrite fetch_ok_other in Hok by exact Hne.
    rewrite fetch_confined by (eapply under_other; eassumption). apply I; assumption.
Qed.

(* every reachable state of the cache: start from any tree without a valid marker anywhere (e.g. the empty cache), run
   any list of fetch events *)
Theorem accepted_directories_are_complete_unpacks (f0 : fs) (evs : list ev) :
  (forall p, fetch_is_ok p f0 = false) -> accepted_is_complete (fold_left do_ev evs f0).
Proof.
  intros H0. assert (I0 : accepted_is_complete f0) by (intros p q Hok; rewrite H0 in Hok; discriminate).
  revert f0 I0 H0. induction evs as [|e evs IH]; intros f0 I0 _; cbn [fold_left]; [exact I0|].
  assert (I1 := step_keeps f0 e I0). clear I0. revert I1. generalize (do_ev f0 e). intros f1 I1.
  clear IH. revert f1 I1. induction evs as [|e' evs IH']; intros f1 I1; cbn [fold_left]; [exact I1|].
  apply IH'. apply step_keeps. exact I1.
Qed.
End History.
