(* ShowCollapse.v — rendering of the audit `certify` records (CertifyCollapse.v) for the comparison with the audit the real
   command wrote: its kind and the MEANING of its criteria list *)
Require Import Base Extracted Criteria Search AuditGraph DepGraph Resolve Update Show ShowUpdate Imports CertifyCollapse.
From Coq Require Import String.
Local Open Scope string_scope.

Definition show_certified_entry (s : store) (name : N) (from_is_git no_collapse : bool) (new : audit) : string :=
  let t := st_criteria s in
  let r := certified_entry (fun _ => false) t (store_for s name) from_is_git no_collapse new in
  sp "entry" [skind (au_kind r); sN (from_list t (au_crit r))].
