#!/bin/sh
# confirm a seeded change in its scratch worktree: unit suite passes with the bug except the demo;
# the demo passes once the bug is reverted.  usage: confirm_seed.sh <worktree> <outdir>
W=$1; O=$2
cd "$W" || exit 2
export CARGO_NET_OFFLINE=true
git apply -R --check "$O/patch.diff" 2>/dev/null || { echo "patch not applied in worktree"; }
echo "== with the change: whole unit suite"
cargo test --offline --bin cargo-vet 2>&1 | grep -E "^test result|^test .*FAILED|^error" | head -20
echo "== reverting the change"
git apply -R "$O/patch.diff" || exit 3
echo "== without the change: the demo"
cargo test --offline --bin cargo-vet seeded_demo 2>&1 | grep -E "^test result|^test .*FAILED|^error" | head -10
git apply "$O/patch.diff"
echo "== done"
