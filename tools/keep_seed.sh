#!/bin/sh
# keep a confirmed seeded change: keep_seed.sh <Cxx> <letter> "<what I ran / first result>"
# copies /tmp/mut/<Cxx><letter>-out/{patch.diff,demo.rs,meta.json} to /verif/seeded/<Cxx>-<letter>/ and appends
# the confirmation + first result to meta.json's "ran"; then removes the scratch worktree with its build output.
p=$1; l=$2; note=$3
o=/tmp/mut/$p$l-out; d=/verif/seeded/$p-$l
mkdir -p $d && cp $o/patch.diff $o/demo.rs $d/ || exit 2
python3 - "$o" "$d" "$note" <<'PY'
import json,sys
o,d,note=sys.argv[1:4]
m=json.load(open(o+"/meta.json"))
conf=open(o+"/confirm.log").read() if __import__("os").path.exists(o+"/confirm.log") else ""
m.setdefault("ran",[])
m["ran"].append("confirmed by tools/confirm_seed.sh in the scratch worktree: "+" | ".join(l for l in conf.splitlines() if l.startswith("test result") or "FAILED" in l))
m["ran"].append("checks: "+note)
json.dump(m,open(d+"/meta.json","w"),indent=1)
PY
git -C /repo worktree remove --force /tmp/mut/$p$l 2>/dev/null; rm -rf /tmp/mut/$p$l
echo kept $d
