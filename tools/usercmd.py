"""usercmd.py — model/implementation correspondence for the user-requested commands that have logic of their own
(`cargo vet trust`): the model (coq/UserCommands.v) is run on the trusted entries the store held before the command
and the request as typed; its result is compared with what the real command wrote."""
import datetime

from vetlib import coq

MODEL_IMPORTS = ["Base", "Extracted", "Show", "Criteria", "AuditGraph", "UserCommands", "ShowUser"]


def day(s):
    return datetime.date.fromisoformat(str(s)).toordinal()


def aslist(x):
    return [x] if isinstance(x, str) else list(x or [])


def table_of(audits):
    crit = audits.get("criteria") or {}
    names = sorted(crit)
    idx = {"safe-to-run": 0, "safe-to-deploy": 1}
    for k, n in enumerate(names):
        idx[n] = 2 + k
    return [[idx[i] for i in aslist(crit[n].get("implies"))] for n in names], idx


def entries(audits, pkg, idx):
    return [(int(e["user-id"]), day(e["start"]), day(e["end"]), [idx[c] for c in aslist(e.get("criteria"))], e.get("notes"))
            for e in (audits.get("trusted") or {}).get(pkg, [])]


def arg_of(args, flag):
    return args[args.index(flag) + 1] if flag in args else None


def trust_case(step):
    """-> (coq expression, expected multiset) for a successful `trust <crate> <login> --criteria .. --start-date .. --end-date ..`
    (with the default window the request depends on what crates.io says, which is the direct oracle's business)"""
    args = step.args
    if step.outcome != "ok" or len(args) < 3 or "--all" in args:
        return None
    s, e = arg_of(args, "--start-date"), arg_of(args, "--end-date")
    want = [args[i + 1] for i, a in enumerate(args[:-1]) if a == "--criteria"]
    login = args[2]
    if not s or not e or not want or not login.startswith("user") or not login[4:].isdigit():
        return None
    try:
        t, idx = table_of(step.pre["audits"])
        before = entries(step.pre["audits"], args[1], idx)
        t2, idx2 = table_of(step.post["audits"])
        after = entries(step.post["audits"], args[1], idx2)
        request = [idx[c] for c in want]
    except (KeyError, ValueError):
        return None
    if t != t2:
        return None
    has_notes = "--notes" in args
    l = [{"_c": "Build_trusted", "a": [u, {"_z": a}, {"_z": b}, c]} for u, a, b, c, _ in before]
    expr = f"show_trust {coq(t)} {int(login[4:])}%N ({day(s)})%Z ({day(e)})%Z {coq(request)} {coq(has_notes)} {coq(l)}"
    return expr, sorted([u, a, b, c] for u, a, b, c, _ in after)


def canon_trust(text):
    import vetlib
    e = vetlib.parse_sexp(text)
    out = []
    for x in e[1:]:
        c = x[4]
        out.append([int(x[1]), int(x[2]), int(x[3]), [int(y) for y in c[1:]]])
    return sorted(out)


# ---------------------------------------------------------------------------------------------------------------
# `certify <crate> <from> <to>`: the audit that is recorded (coq/CertifyCollapse.v: the new delta, or its fold with an
# adjacent prior audit) against the audit the real command wrote

CERTIFY_IMPORTS = ["Base", "Extracted", "Show", "Criteria", "AuditGraph", "Resolve", "CertifyCollapse", "ShowCollapse"]


def certify_case(step, o):
    """-> (coq expression, what the implementation wrote) for a successful delta certification"""
    from collections import Counter
    import oracle as O
    args = step.args
    if step.cls != "certify" or step.outcome != "ok" or not step.pre_store or not step.post_store or len(args) < 4:
        return None
    pos = []
    for a in args[2:]:
        if a.startswith("--"):
            break
        pos.append(a)
    asked = [args[i + 1] for i, a in enumerate(args[:-1]) if a == "--criteria"]
    tb = o.get("tables") or {}
    names, vers, crits = tb.get("names") or [], tb.get("versions") or [], tb.get("criteria") or []
    if len(pos) != 2 or not asked or args[1] not in names or any(v not in vers for v in pos) or any(c not in crits for c in asked):
        return None
    ni = names.index(args[1])
    f, t = vers.index(pos[0]), vers.index(pos[1])
    table = O.table_of(step.pre_store["store"])
    if table != O.table_of(step.post_store["store"]):
        return None
    new = {"_c": "Build_audit", "a": [{"_c": "KDelta", "a": [f, t]}, [crits.index(c) for c in asked], False, False]}
    expr = (f"show_certified_entry {coq(step.pre_store['store'])} {ni}%N {coq('@git:' in pos[0])} "
            f"{coq('--no-collapse' in args)} {coq(new)}")

    def key(a):
        k, ka, crit, _imp, _fresh = O.audit_fields(a)
        return (k, tuple(tuple(x) if isinstance(x, list) else x for x in ka), O.bits(O.from_list(table, crit)))
    pre = Counter(key(a) for a in O.pkg_store(step.pre_store["store"], ni)[1])
    post = Counter(key(a) for a in O.pkg_store(step.post_store["store"], ni)[1])
    fresh = sorted((post - pre).elements())
    if len(fresh) != 1:
        return None          # nothing new (an identical audit existed) or more than one (oracle_c11's business)
    k, ka, b = fresh[0]
    if k not in ("KFull", "KDelta"):
        return None
    return expr, [{"KFull": "full", "KDelta": "delta"}[k]] + [int(x) for x in ka] + [b]


def canon_certify(text):
    import vetlib
    e = vetlib.parse_sexp(text)
    return [e[1][0]] + [int(x) for x in e[1][1:]] + [int(e[2])]


# ---------------------------------------------------------------------------------------------------------------
# `certify <crate> [<from>] <to>` WITHOUT --criteria: what cargo-vet pre-selects (coq/Guess.v, model of
# guess_audit_criteria) against what the real command recorded when the user pressed ENTER at the prompt

GUESS_IMPORTS = ["Base", "Extracted", "Show", "Criteria", "AuditGraph", "DepGraph", "Resolve", "Suggest", "Guess", "ShowGuess"]


def guess_case(step, o):
    """-> (coq expression, closure bits of what was recorded; 0 when the command stopped with "no criteria chosen")"""
    from collections import Counter
    import oracle as O
    args = step.args
    pos = []
    for a in args[2:]:
        if a.startswith("--"):
            break
        pos.append(a)
    tb = o.get("tables") or {}
    names, vers = tb.get("names") or [], tb.get("versions") or []
    taps = [t for t in step.taps if t["kind"] == "resolve"]
    if not pos or len(pos) > 2 or args[1] not in names or any(v not in vers for v in pos) or not taps:
        return None
    ni = names.index(args[1])
    mi = taps[0]["model_input"]
    table = O.table_of(mi["store"])
    frm = {"_some": vers.index(pos[0])} if len(pos) == 2 else None
    expr = (f"show_guess {coq(mi['graph'])} {coq(not taps[0]['locked'])} {coq(mi['store'])} {ni}%N "
            f"{coq(frm)} {vers.index(pos[-1])}%N")
    if step.outcome == "ok":
        if not step.pre_store or not step.post_store:
            return None

        def key(a):
            k, ka, crit, _imp, _fresh = O.audit_fields(a)
            return (k, tuple(tuple(x) if isinstance(x, list) else x for x in ka), O.bits(O.from_list(table, crit)))
        pre = Counter(key(a) for a in O.pkg_store(step.pre_store["store"], ni)[1])
        post = Counter(key(a) for a in O.pkg_store(step.post_store["store"], ni)[1])
        fresh = sorted((post - pre).elements())
        if len(fresh) != 1:
            return None
        return expr, fresh[0][2]
    if "no criteria chosen" in step.outcome:
        return expr, 0
    return None


def canon_guess(text):
    import vetlib
    e = vetlib.parse_sexp(text)
    return int(e[1])


# ---------------------------------------------------------------------------------------------------------------
# the store-version rule (coq/StoreVersion.v): what `cargo vet [--locked]` does with the version config.toml records

VERSION_IMPORTS = ["Base", "Extracted", "Show", "StoreVersion", "ShowStoreVersion"]
CURRENT_VERSION = 1000          # the test build of cargo-vet pretends to be 1.0 (format.rs StoreVersion::current)


def _enc(text):
    import re
    m = re.search(r'^\[cargo-vet\]\s*\nversion\s*=\s*"(\d+)\.(\d+)"', text or "", re.M)
    if not m:
        return 4              # no [cargo-vet] table: read as 0.4
    return int(m.group(1)) * 1000 + int(m.group(2))


def version_case(step, pre_config_text):
    """-> (coq expression, (accepted?, version written or None)) for check steps on a store whose version is not the current one"""
    if step.cls not in ("check", "check-locked"):
        return None
    stored = _enc(pre_config_text)
    if stored == CURRENT_VERSION:
        return None
    locked = step.cls == "check-locked"
    expr = f"show_acquire {CURRENT_VERSION}%N {stored}%N {coq(locked)}"
    refused = ("OutdatedStore" in step.outcome or "NewerStore" in step.outcome or "outdated" in step.outcome.lower()
               or "newer" in step.outcome.lower() or "version" in step.outcome.lower()) and step.outcome != "ok"
    wrote = _enc((step.s.get("files") or {}).get("config")) if step.outcome == "ok" and not locked else None
    return expr, ("refused" if refused else ("ok" if step.outcome == "ok" else "other"), wrote)


def canon_version(text):
    import vetlib
    e = vetlib.parse_sexp(text)
    return (e[1], int(e[2]) if len(e) > 2 else None)
