"""usercmd.py — model/implementation correspondence for the user-requested commands that have logic of their own
(`cargo vet trust`): the model (coq/UserCommands.v) is run on the trusted entries the store held before the command
and the request as typed; its result is compared with what the real command wrote."""
import datetime

from vetlib import coq

MODEL_IMPORTS = ["Base", "Extracted", "Show", "Criteria", "AuditGraph", "UserCommands", "ShowUser"]


def day(s):
    return datetime.date.fromisoformat(str(s)).toordinal()


def aslist(x):
    return [x] if isinstance(x, str) else list(x or [])


def table_of(audits):
    crit = audits.get("criteria") or {}
    names = sorted(crit)
    idx = {"safe-to-run": 0, "safe-to-deploy": 1}
    for k, n in enumerate(names):
        idx[n] = 2 + k
    return [[idx[i] for i in aslist(crit[n].get("implies"))] for n in names], idx


def entries(audits, pkg, idx):
    return [(int(e["user-id"]), day(e["start"]), day(e["end"]), [idx[c] for c in aslist(e.get("criteria"))], e.get("notes"))
            for e in (audits.get("trusted") or {}).get(pkg, [])]


def arg_of(args, flag):
    return args[args.index(flag) + 1] if flag in args else None


def trust_case(step):
    """-> (coq expression, expected multiset) for a successful `trust <crate> <login> --criteria .. --start-date .. --end-date ..`
    (with the default window the request depends on what crates.io says, which is the direct oracle's business)"""
    args = step.args
    if step.outcome != "ok" or len(args) < 3 or "--all" in args:
        return None
    s, e = arg_of(args, "--start-date"), arg_of(args, "--end-date")
    want = [args[i + 1] for i, a in enumerate(args[:-1]) if a == "--criteria"]
    login = args[2]
    if not s or not e or not want or not login.startswith("user") or not login[4:].isdigit():
        return None
    try:
        t, idx = table_of(step.pre["audits"])
        before = entries(step.pre["audits"], args[1], idx)
        t2, idx2 = table_of(step.post["audits"])
        after = entries(step.post["audits"], args[1], idx2)
        request = [idx[c] for c in want]
    except (KeyError, ValueError):
        return None
    if t != t2:
        return None
    has_notes = "--notes" in args
    l = [{"_c": "Build_trusted", "a": [u, {"_z": a}, {"_z": b}, c]} for u, a, b, c, _ in before]
    expr = f"show_trust {coq(t)} {int(login[4:])}%N ({day(s)})%Z ({day(e)})%Z {coq(request)} {coq(has_notes)} {coq(l)}"
    return expr, sorted([u, a, b, c] for u, a, b, c, _ in after)


def canon_trust(text):
    import vetlib
    e = vetlib.parse_sexp(text)
    out = []
    for x in e[1:]:
        c = x[4]
        out.append([int(x[1]), int(x[2]), int(x[3]), [int(y) for y in c[1:]]])
    return sorted(out)
