"""gen.py — seeded generators of cargo-vet cases (graphs, stores, peers, registry).

Every random choice derives from one `random.Random(seed)`.  Cases are plain
JSON-able dicts; stores are structured (see vetlib.render_store) so shrinkers
can drop records.
"""
import random
import copy

from vetlib import render_store, render_audits_file

VERSIONS = ["1.0.0", "2.0.0", "3.0.0", "4.0.0-beta.1", "4.0.0", "5.0.0"]
GITREV = "0123456789abcdef0123456789abcdef01234567"
TODAY = "2023-01-01"
DATES = ["2021-06-01", "2022-01-01", "2022-01-02", "2022-06-15", "2022-12-31", "2023-01-01",
         "2023-06-01", "2023-12-31", "2024-01-01"]
BUILTINS = ["safe-to-run", "safe-to-deploy"]
CUSTOM = ["crit-a", "crit-b", "crit-c", "crit-d"]
PEERS = [("peer-one", "https://peer-one.example/audits.toml"),
         ("peer-two", "https://peer-two.example/audits.toml")]


def gen_criteria_table(rng, ncustom=None):
    n = rng.choice([0, 0, 1, 2, 2, 3, 4]) if ncustom is None else ncustom
    names = CUSTOM[:n]
    order = names[:]
    rng.shuffle(order)
    table = {}
    for i, nm in enumerate(order):
        later = order[i + 1:] + BUILTINS
        k = rng.choice([0, 0, 1, 1, 2])
        implies = rng.sample(later, min(k, len(later)))
        table[nm] = {"description": f"desc {nm}", "implies": implies}
    return {k: table[k] for k in sorted(table)}


def crit_list(rng, names, allow_empty=False):
    k = rng.choice([1, 1, 1, 2, 2, 3] + ([0] if allow_empty else []))
    k = min(k, len(names))
    l = rng.sample(names, k)
    if rng.random() < 0.1 and l:
        l.append(rng.choice(l))         # duplicates are legal
    return l


def gen_graph(rng, max_third=5):
    """returns (packages, third_party_names).  packages in metadata order."""
    pkgs = []
    members = ["wsaaa"] + (["wsbbb"] if rng.random() < 0.4 else [])
    firsts = [f"fp{c*3}" for c in "xy"[:rng.choice([0, 0, 1, 2])]]
    nthird = rng.randint(1, max_third)
    thirds = [f"tp{c*3}" for c in "abcdefg"[:nthird]]
    nodes = []   # (name, version, source, workspace)
    for m in members:
        nodes.append([m, "1.0.0", "path", True])
    for f in firsts:
        nodes.append([f, rng.choice(["1.0.0", "2.0.0"]), rng.choice(["path", "path", "git:" + GITREV]), False])
    for t in thirds:
        nodes.append([t, rng.choice(VERSIONS), "registry", False])
    # a second version of one third-party crate, sometimes a git/path fork of it
    if rng.random() < 0.5:
        t = rng.choice(thirds)
        used = [n[1] for n in nodes if n[0] == t]
        v = rng.choice([x for x in VERSIONS if x not in used])
        src = rng.choice(["registry", "registry", "registry", "git:" + GITREV, "path"])
        nodes.append([t, v, src, False])
    order = list(range(len(nodes)))
    nm = len(members)
    rest = order[nm:]
    rng.shuffle(rest)
    rank = {i: k for k, i in enumerate(order[:nm] + rest)}
    deps = {i: [] for i in order}
    # acyclic normal/build edges: from lower rank to higher rank
    for i in order:
        for j in order:
            if rank[i] < rank[j] and rng.random() < (0.45 if i < nm else 0.3):
                kinds = rng.choice([["normal"], ["normal"], ["build"], ["normal", "build"], ["normal", "dev"]])
                if "dev" in kinds and i >= nm:
                    kinds = ["normal"]
                deps[i].append((j, kinds))
    # dev edges from workspace members, anywhere (cycles allowed)
    for i in range(nm):
        for j in order:
            if i != j and rng.random() < 0.2 and not any(d == j for d, _ in deps[i]):
                deps[i].append((j, ["dev"]))
    # make everything reachable from some member
    reach = set(range(nm))
    changed = True
    while changed:
        changed = False
        for i in list(reach):
            for j, _ in deps[i]:
                if j not in reach:
                    reach.add(j)
                    changed = True
    for j in order:
        if j not in reach:
            src = rng.choice([i for i in order if rank[i] < rank[j]] or [0])
            deps[src].append((j, [rng.choice(["normal", "build"])]))
            reach.add(j)
    for i, (name, ver, source, ws) in enumerate(nodes):
        dl = deps[i][:]
        rng.shuffle(dl)
        pkgs.append({"name": name, "version": ver, "source": source, "workspace": ws,
                     "deps": [{"name": nodes[j][0], "version": nodes[j][1], "source": nodes[j][2], "kinds": k}
                              for j, k in dl]})
    rng_order = pkgs[:]
    rng.shuffle(rng_order)
    return rng_order


def third_party_versions(pkgs, policy):
    """name -> list of versions that are third-party candidates (registry source,
    or audit-as-crates-io policy)"""
    out = {}
    for p in pkgs:
        if p["source"] == "registry":
            out.setdefault(p["name"], []).append(p["version"])
    return out


def vstr(p):
    if p["source"].startswith("git:"):
        return f"{p['version']}@git:{p['source'][4:]}"
    return p["version"]


class Notes:
    def __init__(self):
        self.n = 0

    def __call__(self):
        self.n += 1
        return f"n{self.n}"


def gen_audits_for(rng, name, in_graph_versions, crits, notes, local=True, p_violation=0.0, dense=False):
    """a list of audit entries for one crate; dense = a web of deltas (diamonds, back edges)"""
    out = []
    universe = VERSIONS
    n = rng.randint(5, 9) if dense else rng.choice([0, 1, 1, 2, 3, 4])
    for _ in range(n):
        r = rng.random()
        crit = crit_list(rng, crits)
        if r < 0.4:
            v = rng.choice(in_graph_versions + universe)
            e = {"kind": "full", "version": v, "criteria": crit}
        else:
            a, b = rng.sample(universe, 2)
            if rng.random() < 0.6 and in_graph_versions:
                b = rng.choice(in_graph_versions)
                if a == b:
                    a = rng.choice([x for x in universe if x != b])
            e = {"kind": "delta", "from": a, "to": b, "criteria": crit}
        if local and rng.random() < 0.2:
            e["importable"] = False
        e["notes"] = notes()
        out.append(e)
    if rng.random() < p_violation:
        req = rng.choice(["*", "=" + rng.choice(in_graph_versions or universe).split("@")[0], "<3.0.0", ">=2.0.0",
                          "=" + rng.choice(universe)])
        out.append({"kind": "violation", "violation": req, "criteria": crit_list(rng, crits), "notes": notes()})
        # several violation entries for one crate: the same range with other criteria, or another range
        r2 = rng.random()
        if r2 < 0.35:
            out.append({"kind": "violation", "violation": req, "criteria": crit_list(rng, crits), "notes": notes()})
        elif r2 < 0.5:
            out.append({"kind": "violation", "violation": rng.choice(["*", ">=1.0.0", "<9.0.0"]), "criteria": crit_list(rng, crits), "notes": notes()})
    rng.shuffle(out)
    return out


def gen_wildcards(rng, crits, notes, trusted=False):
    out = []
    for _ in range(rng.choice([0, 0, 1, 1, 2])):
        s, e = sorted(rng.sample(DATES[:8], 2))
        w = {"user-id": rng.randint(1, 3), "start": s, "end": e, "criteria": crit_list(rng, crits), "notes": notes()}
        out.append(w)
    return out


def gen_publishers(rng, versions):
    out = []
    for v in versions:
        if "@" in v:
            continue
        if rng.random() < 0.7:
            uid = rng.randint(1, 3)
            out.append({"version": v, "when": rng.choice(DATES[:6]), "user-id": uid,
                        "user-login": f"user{uid}", "user-name": f"User {uid}"})
    return out


def p_deps(ps):
    """dependencies common to every package of the list (a dependency-criteria entry must name a real dependency)"""
    if not ps:
        return []
    names = set.intersection(*[{d["name"] for d in p["deps"]} for p in ps])
    return [d for d in ps[0]["deps"] if d["name"] in names]


def gen_policy(rng, pkgs, crits, third_names):
    policy = {}
    by_name = {}
    for p in pkgs:
        by_name.setdefault(p["name"], []).append(p)
    for name, ps in by_name.items():
        first = [p for p in ps if p["source"] != "registry"]
        if not first:
            # policies on third-party crates are legal (criteria for their deps)
            if rng.random() < 0.15:
                ent = {"criteria": crit_list(rng, crits, allow_empty=True)}
                if p_deps(ps) and rng.random() < 0.5:
                    ent["dependency-criteria"] = {d["name"]: crit_list(rng, crits, allow_empty=True)
                                                  for d in rng.sample(p_deps(ps), 1)}
                if len(ps) > 1:
                    for p in ps:
                        policy[f"{name}:{vstr(p)}"] = dict(ent)
                else:
                    policy[name] = ent
            continue
        if rng.random() < 0.55:
            continue
        versioned = len(ps) > 1 and (any(p["source"] == "registry" for p in ps) or rng.random() < 0.5)
        targets = ps if versioned else [ps[0]]
        for p in targets:
            ent = {}
            if rng.random() < 0.45:
                ent["criteria"] = crit_list(rng, crits, allow_empty=True)
            if p["workspace"] and rng.random() < 0.4:
                ent["dev-criteria"] = crit_list(rng, crits, allow_empty=True)
            if rng.random() < 0.4 and p["deps"]:
                dc = {}
                for d in rng.sample(p["deps"], min(len(p["deps"]), rng.choice([1, 1, 2]))):
                    dc[d["name"]] = crit_list(rng, crits, allow_empty=True)
                ent["dependency-criteria"] = dc
            if not p["workspace"] and p["source"] != "registry" and rng.random() < 0.35:
                ent["audit-as-crates-io"] = rng.random() < 0.7
            if not ent:
                ent["notes"] = "empty"
            policy[f"{name}:{vstr(p)}" if versioned else name] = ent
    return policy


def gen_store(rng, pkgs, p_violation=0.05, with_imports=True, ncustom=None):
    notes = Notes()
    criteria = gen_criteria_table(rng, ncustom)
    crits = BUILTINS + list(criteria)
    names = sorted({p["name"] for p in pkgs})
    versions = {}
    for p in pkgs:
        versions.setdefault(p["name"], []).append(vstr(p))
    policy = gen_policy(rng, pkgs, crits, names)
    store = {"criteria": criteria, "policy": policy, "imports": {}, "exemptions": {}, "audits": {},
             "wildcard_audits": {}, "trusted": {}, "lock": {"audits": {}, "publisher": {}, "unpublished": {}}}
    auditable = [n for n in names if any(p["name"] == n and (p["source"] == "registry" or True) for p in pkgs)]
    extra = ["ghost-crate"] if rng.random() < 0.3 else []
    for n in auditable + extra:
        vs = versions.get(n, [])
        plain = [v for v in vs]
        dense = rng.random() < 0.12
        if dense or rng.random() < 0.75:
            l = gen_audits_for(rng, n, plain, crits, notes, True, p_violation, dense=dense)
            if l:
                store["audits"][n] = l
        if rng.random() < (0.8 if dense else 0.3):
            l = [{"version": rng.choice(plain + VERSIONS), "criteria": crit_list(rng, crits),
                  "suggest": rng.random() > 0.15, "notes": notes()} for _ in range(rng.choice([1, 2, 3] if dense else [1, 1, 2]))]
            store["exemptions"][n] = l
        if rng.random() < 0.3:
            l = gen_wildcards(rng, crits, notes)
            if l:
                store["wildcard_audits"][n] = l
        if rng.random() < 0.2:
            l = gen_wildcards(rng, crits, notes, trusted=True)
            if l:
                store["trusted"][n] = l
        if rng.random() < 0.45:
            l = gen_publishers(rng, sorted(set(plain + rng.sample(VERSIONS, 2))))
            if l:
                store["lock"]["publisher"][n] = l
        if rng.random() < 0.12 and plain:
            v = rng.choice(plain)
            a = rng.choice([x for x in VERSIONS if x != v])
            store["lock"]["unpublished"][n] = [{"version": v, "audited_as": a}]
    if with_imports:
        for peer, url in PEERS[:rng.choice([0, 1, 1, 2])]:
            store["imports"][peer] = {"url": [url]}
            f = {"criteria": {}, "audits": {}, "wildcard_audits": {}}
            for n in auditable:
                if rng.random() < 0.5:
                    l = gen_audits_for(rng, n, versions.get(n, []), crits, notes, False, p_violation)
                    if l:
                        f["audits"][n] = l
                if rng.random() < 0.2:
                    l = gen_wildcards(rng, crits, notes)
                    if l:
                        f["wildcard_audits"][n] = l
            store["lock"]["audits"][peer] = f
    return store


def gen_resolve_case(rng, cid, **kw):
    pkgs = gen_graph(rng)
    store = gen_store(rng, pkgs, **kw)
    return {"id": cid, "kind": "resolve", "graph": {"packages": pkgs}, "store_struct": store,
            "store": render_store(store), "mode": "locked"}


def finalize(case):
    """(re)render the TOML texts from the structured store (after shrinking edits)"""
    c = dict(case)
    c["store"] = render_store(case["store_struct"])
    if "peers_struct" in case:
        c["peers"] = {url: render_audits_file(f) for url, f in case["peers_struct"].items()}
    return c


def strip_struct(case):
    c = {k: v for k, v in case.items() if not k.endswith("_struct")}
    return c


def _third_versions(case):
    out = {}
    for p in case["graph"]["packages"]:
        out.setdefault(p["name"], []).append(vstr(p))
    return out


def _crits(store):
    return BUILTINS + list(store["criteria"])


def boost_grants(rng, case):
    """plant wildcard-audit / trusted entries with publisher records whose dates sit
    on, just inside and just outside the window boundaries"""
    store = case["store_struct"]
    notes = Notes()
    notes.n = 1000
    crits = _crits(store)
    for name, vs in _third_versions(case).items():
        if rng.random() < 0.35:
            continue
        pubs = store["lock"]["publisher"].setdefault(name, [])
        have = {p["version"] for p in pubs}
        for v in vs + rng.sample(VERSIONS, 1):
            if "@" in v or v in have:
                continue
            uid = rng.randint(1, 3)
            pubs.append({"version": v, "when": rng.choice(DATES[1:6]), "user-id": uid,
                         "user-login": f"user{uid}", "user-name": f"User {uid}"})
            have.add(v)
        if not pubs:
            del store["lock"]["publisher"][name]
            continue
        target = rng.choice(pubs)
        di = DATES.index(target["when"])
        for _ in range(rng.choice([1, 1, 2])):
            # window relative to the publication day: ends on it, starts on it, one step off...
            s = DATES[max(0, di - rng.choice([0, 0, 1, 2]))]
            e = DATES[min(7, di + rng.choice([0, 0, 1, 1, 2]))]
            if rng.random() < 0.15:
                s, e = DATES[min(7, di + 1)], DATES[min(7, di + 2)]
            uid = target["user-id"] if rng.random() < 0.75 else rng.randint(1, 3)
            ent = {"user-id": uid, "start": s, "end": e, "criteria": crit_list(rng, crits), "notes": notes()}
            where = rng.random()
            if where < 0.5:
                store["wildcard_audits"].setdefault(name, []).append(ent)
            elif where < 0.75:
                store["trusted"].setdefault(name, []).append(ent)
            elif store["lock"]["audits"]:
                peer = rng.choice(sorted(store["lock"]["audits"]))
                store["lock"]["audits"][peer].setdefault("wildcard_audits", {}).setdefault(name, []).append(ent)
            else:
                store["wildcard_audits"].setdefault(name, []).append(ent)
    # a wildcard audit for another crate by the same user must give nothing
    return case


def boost_grant_vs_exemption(rng, case):
    """a crate certified by a publisher grant ALONE (wildcard audit or trusted entry whose window starts or ends on the very
    day the version was published, or strictly contains it) that also carries an exemption for the same version and
    criteria: the exemption is unnecessary, the crate is fully audited, prune drops the exemption"""
    store = case["store_struct"]
    notes = Notes()
    notes.n = 3000
    crits = _crits(store)
    names = sorted(_third_versions(case).items())
    rng.shuffle(names)
    for name, vs in names[:rng.choice([1, 1, 2])]:
        plain = [v for v in vs if "@" not in v]
        if not plain:
            continue
        v = rng.choice(plain)
        store["audits"].pop(name, None)
        for peer in store["lock"]["audits"].values():
            peer.get("audits", {}).pop(name, None)
        di = rng.randint(1, 5)
        uid = rng.randint(1, 3)
        pubs = [p for p in store["lock"]["publisher"].get(name, []) if p["version"] != v]
        pubs.append({"version": v, "when": DATES[di], "user-id": uid, "user-login": f"user{uid}", "user-name": f"User {uid}"})
        store["lock"]["publisher"][name] = pubs
        shape = rng.choice(["ends-on", "ends-on", "starts-on", "inside", "single-day"])
        s, e = {"ends-on": (DATES[max(0, di - rng.choice([1, 2]))], DATES[di]),
                "starts-on": (DATES[di], DATES[min(7, di + rng.choice([1, 2]))]),
                "inside": (DATES[di - 1], DATES[di + 1]),
                "single-day": (DATES[di], DATES[di])}[shape]
        crit = list(crits)
        ent = {"user-id": uid, "start": s, "end": e, "criteria": crit, "notes": notes()}
        if rng.random() < 0.5:
            store["wildcard_audits"].setdefault(name, []).append(ent)
        else:
            store["trusted"].setdefault(name, []).append(ent)
        store["exemptions"][name] = [{"version": v, "criteria": crit, "suggest": rng.random() < 0.7, "notes": notes()}]
    return case


def boost_dev_dep_policy(rng, case):
    """a store that vets (everything else exempted) in which one third-party crate D is a DEV-dependency of a workspace
    member whose policy names it in `dependency-criteria` with a criterion stronger than what D is certified for
    (or weaker: then D needs less than the default).  What is required of D is decided by that one policy entry."""
    store = case["store_struct"]
    pkgs = case["graph"]["packages"]
    notes = Notes()
    notes.n = 3500
    crits = _crits(store)
    tv = _third_versions(case)
    single = sorted(n for n, vs in tv.items() if len(vs) == 1 and "@" not in vs[0]
                    and sum(1 for p in pkgs if p["name"] == n) == 1
                    and all(p["source"] == "registry" for p in pkgs if p["name"] == n))
    ws = [p for p in pkgs if p["workspace"]]
    if not single or not ws:
        return case
    member = rng.choice(ws)
    d = rng.choice(single)
    dp = next(p for p in pkgs if p["name"] == d)
    # D becomes a dev-only dependency of [member] and of nobody else
    for p in pkgs:
        p["deps"] = [x for x in p["deps"] if x["name"] != d]
    member["deps"].append({"name": d, "version": dp["version"], "source": dp["source"], "kinds": ["dev"]})
    for n, l in store["audits"].items():
        store["audits"][n] = [a for a in l if a.get("kind") != "violation"]
    for f in store["lock"]["audits"].values():
        for n, l in f.get("audits", {}).items():
            f["audits"][n] = [a for a in l if a.get("kind") != "violation"]
    blanket_exemptions(store, pkgs, crits, notes, d)
    for tbl in ("wildcard_audits", "trusted", "exemptions"):
        store[tbl].pop(d, None)
    for f in store["lock"]["audits"].values():
        f.get("audits", {}).pop(d, None)
        f.get("wildcard_audits", {}).pop(d, None)
    has = rng.choice([["safe-to-run"], ["safe-to-run"], ["safe-to-deploy"]])
    store["audits"][d] = [{"kind": "full", "version": vstr(dp), "criteria": has, "notes": notes()}]
    want = rng.choice([["safe-to-deploy"], ["safe-to-deploy"], ["safe-to-run"], [c for c in crits if c not in BUILTINS][:1] or ["safe-to-deploy"]])
    key = member["name"]
    ent = store["policy"].get(key) or {}
    ent.pop("notes", None)
    ent.setdefault("dependency-criteria", {})[d] = want
    if rng.random() < 0.5:
        ent["dev-criteria"] = rng.choice([["safe-to-run"], ["safe-to-deploy"]])
    store["policy"] = {k: v for k, v in store["policy"].items() if k.split(":")[0] != key}
    store["policy"][key] = ent
    # the policy table must only name real dependencies
    for k, v in list(store["policy"].items()):
        dc = v.get("dependency-criteria")
        if dc:
            names = {x["name"] for p in pkgs if p["name"] == k.split(":")[0] for x in p["deps"]}
            for dn in list(dc):
                if dn not in names:
                    del dc[dn]
            if not dc:
                del v["dependency-criteria"]
                if not v:
                    v["notes"] = "empty"
    return case


def boost_waived_parent(rng, case):
    """a store that vets (everything else exempted) in which a crate P is WAIVED by its only dependent
    (`dependency-criteria = { P = [] }`: nothing is required of P itself) while P's own policy entry demands a criterion of
    ITS dependency D that D is not certified for — a package's explicit `dependency-criteria` applies whatever is
    required of the package itself"""
    store = case["store_struct"]
    pkgs = case["graph"]["packages"]
    notes = Notes()
    notes.n = 3700
    crits = _crits(store)
    tv = _third_versions(case)
    single = sorted(n for n, vs in tv.items() if len(vs) == 1 and "@" not in vs[0]
                    and sum(1 for p in pkgs if p["name"] == n) == 1
                    and all(p["source"] == "registry" for p in pkgs if p["name"] == n))
    ws = [p for p in pkgs if p["workspace"]]
    if len(single) < 2 or not ws:
        return case
    pn, dn = rng.sample(single, 2)
    P = next(p for p in pkgs if p["name"] == pn)
    D = next(p for p in pkgs if p["name"] == dn)
    member = rng.choice(ws)
    for p in pkgs:
        p["deps"] = [x for x in p["deps"] if x["name"] not in (pn, dn)]
    P["deps"] = [x for x in P["deps"] if x["name"] not in (pn, dn)] + [{"name": dn, "version": D["version"], "source": D["source"], "kinds": ["normal"]}]
    D["deps"] = [x for x in D["deps"] if x["name"] != pn]
    member["deps"].append({"name": pn, "version": P["version"], "source": P["source"], "kinds": ["normal"]})
    for n, l in store["audits"].items():
        store["audits"][n] = [a for a in l if a.get("kind") != "violation"]
    for f in store["lock"]["audits"].values():
        for n, l in f.get("audits", {}).items():
            f["audits"][n] = [a for a in l if a.get("kind") != "violation"]
    blanket_exemptions(store, pkgs, crits, notes, dn)
    for tbl in ("wildcard_audits", "trusted", "exemptions"):
        store[tbl].pop(dn, None)
    for f in store["lock"]["audits"].values():
        f.get("audits", {}).pop(dn, None)
        f.get("wildcard_audits", {}).pop(dn, None)
    store["audits"][dn] = [{"kind": "full", "version": vstr(D), "criteria": rng.choice([["safe-to-run"], ["safe-to-run"], ["safe-to-deploy"]]), "notes": notes()}]
    store["policy"] = {k: v for k, v in store["policy"].items() if k.split(":")[0] not in (member["name"], pn)}
    store["policy"][member["name"]] = {"dependency-criteria": {pn: []}}
    store["policy"][pn] = {"dependency-criteria": {dn: rng.choice([["safe-to-deploy"], ["safe-to-deploy"], [c for c in crits if c not in BUILTINS][:1] or ["safe-to-deploy"]])}}
    for k, v in list(store["policy"].items()):
        dc = v.get("dependency-criteria")
        if dc:
            names = {x["name"] for p in pkgs if p["name"] == k.split(":")[0] for x in p["deps"]}
            for d_ in list(dc):
                if d_ not in names:
                    del dc[d_]
            if not dc:
                del v["dependency-criteria"]
                if not v:
                    v["notes"] = "empty"
    return case


def _isolate_crate(rng, case, notes_start):
    """pick a single-version crates.io crate D, exempt everything else, strip every record of D; -> (D's package, notes)"""
    store = case["store_struct"]
    pkgs = case["graph"]["packages"]
    notes = Notes()
    notes.n = notes_start
    crits = _crits(store)
    tv = _third_versions(case)
    single = sorted(n for n, vs in tv.items() if len(vs) == 1 and "@" not in vs[0]
                    and sum(1 for p in pkgs if p["name"] == n) == 1
                    and all(p["source"] == "registry" for p in pkgs if p["name"] == n))
    if not single:
        return None, notes
    d = rng.choice(single)
    dp = next(p for p in pkgs if p["name"] == d)
    for n, l in store["audits"].items():
        store["audits"][n] = [a for a in l if a.get("kind") != "violation"]
    for f in store["lock"]["audits"].values():
        for n, l in f.get("audits", {}).items():
            f["audits"][n] = [a for a in l if a.get("kind") != "violation"]
    blanket_exemptions(store, pkgs, crits, notes, d)
    for tbl in ("audits", "wildcard_audits", "trusted", "exemptions"):
        store[tbl].pop(d, None)
    for f in store["lock"]["audits"].values():
        f.get("audits", {}).pop(d, None)
        f.get("wildcard_audits", {}).pop(d, None)
    store["lock"]["publisher"].pop(d, None)
    store["lock"]["unpublished"].pop(d, None)
    return dp, notes


def boost_empty_exemption(rng, case):
    """a store that vets except for one crate whose only record is an exemption listing NO criteria (the key is optional):
    such an exemption certifies nothing"""
    dp, notes = _isolate_crate(rng, case, 3800)
    if dp is None:
        return case
    store = case["store_struct"]
    store["exemptions"][dp["name"]] = [{"version": vstr(dp), "criteria": [], "suggest": rng.random() < 0.5, "notes": notes()}]
    if rng.random() < 0.4:
        store["default-criteria"] = rng.choice(["safe-to-deploy", "safe-to-run"])
    return case


def boost_two_trusted(rng, case):
    """a store that vets in which one crate is certified ONLY by the second of two trusted entries for the same publisher
    (the first one grants a criterion the crate does not need): each entry counts for its own criteria"""
    dp, notes = _isolate_crate(rng, case, 3900)
    if dp is None:
        return case
    store = case["store_struct"]
    crits = _crits(store)
    uid = rng.randint(1, 3)
    store["lock"]["publisher"][dp["name"]] = [{"version": vstr(dp), "when": "2022-06-15", "user-id": uid,
                                               "user-login": f"user{uid}", "user-name": f"User {uid}"}]
    customs = [c for c in crits if c not in BUILTINS]
    every = ["safe-to-deploy"] + customs
    weak = rng.choice([["safe-to-run"]] + ([[customs[0]]] if customs and not store["criteria"][customs[0]].get("implies") else []))
    a = {"user-id": uid, "start": "2022-01-01", "end": "2023-01-01", "criteria": weak, "notes": notes()}
    b = {"user-id": uid, "start": "2022-01-02", "end": "2022-12-31", "criteria": every, "notes": notes()}
    store["trusted"][dp["name"]] = [a, b] if rng.random() < 0.6 else [b, a]
    if rng.random() < 0.3:
        store["trusted"][dp["name"]].insert(1, {"user-id": uid % 3 + 1, "start": "2022-01-01", "end": "2023-01-01", "criteria": every, "notes": notes()})
    return case


def boost_overlap_unversioned(rng, case):
    """one crate NAME used by a path package and by a crates.io package of another version, with the usual unversioned
    policy entry `audit-as-crates-io = false` (it is about the path copy): the crates.io copy is third-party all the same"""
    store = case["store_struct"]
    pkgs = case["graph"]["packages"]
    tv = _third_versions(case)
    single = sorted(n for n, vs in tv.items() if len(vs) == 1 and "@" not in vs[0]
                    and all(p["source"] == "registry" for p in pkgs if p["name"] == n))
    ws = [p for p in pkgs if p["workspace"]]
    if not single or not ws:
        return case
    n = rng.choice(single)
    tp = next(p for p in pkgs if p["name"] == n)
    fv = rng.choice([x for x in VERSIONS if x != tp["version"] and "-" not in x] or ["1.0.0"])
    pkgs.append({"name": n, "version": fv, "source": "path", "workspace": False, "deps": []})
    rng.choice(ws)["deps"].append({"name": n, "version": fv, "source": "path", "kinds": ["normal"]})
    store["policy"] = {k: v for k, v in store["policy"].items() if k.split(":")[0] != n}
    store["policy"][n] = {"audit-as-crates-io": False}
    return case


REDUNDANT_TABLES = [
    # crit-d lists crit-a (which already implies crit-b), crit-b again, and then crit-c
    {"crit-a": ["crit-b"], "crit-b": [], "crit-c": [], "crit-d": ["crit-a", "crit-b", "crit-c"]},
    # crit-c lists safe-to-deploy and crit-a; crit-a lists safe-to-run (already implied by safe-to-deploy) and then crit-b
    {"crit-a": ["safe-to-run", "crit-b"], "crit-b": [], "crit-c": ["safe-to-deploy", "crit-a"], "crit-d": []},
]


def boost_redundant_implies(rng, case):
    """a criteria table in which a criterion lists something an EARLIER member of its list already implies, and another
    criterion after it (legal, and what hand-maintained tables look like); one crate is certified only through the top
    criterion and required to meet the last-listed one: the closure must not stop at the redundant member"""
    store = case["store_struct"]
    k = rng.randrange(len(REDUNDANT_TABLES))
    store["criteria"] = {n: {"description": f"desc {n}", "implies": list(l)} for n, l in REDUNDANT_TABLES[k].items()}
    case["expect_loaded"] = "the criteria table has no implication cycle (a criterion that is implied along two routes is not one)"
    top, last = [("crit-d", "crit-c"), ("crit-c", "crit-b")][k]
    dp, notes = _isolate_crate(rng, case, 4200)
    if dp is None:
        return case
    store["audits"][dp["name"]] = [{"kind": "full", "version": vstr(dp), "criteria": [top], "notes": notes()}]
    for p in case["graph"]["packages"]:
        if p["workspace"]:
            for key in [k_ for k_ in store["policy"] if k_.split(":")[0] == p["name"]]:
                del store["policy"][key]
            store["policy"][p["name"]] = {"criteria": [last], "dev-criteria": [last]}
    return case


def boost_wild_two_sources(rng, case):
    """one crate with wildcard audits in TWO sources (an imported peer's section of imports.lock and the project's own
    audits.toml), entry #0 of each, for different users and different criteria, and a publisher record matching only the
    WEAKER entry: the crate is certified for the weaker entry's criteria and nothing more"""
    dp, notes = _isolate_crate(rng, case, 4400)
    if dp is None:
        return case
    store = case["store_struct"]
    peer, url = PEERS[0]
    store["imports"].setdefault(peer, {"url": [url]})
    store["imports"][peer].pop("exclude", None)
    sec = store["lock"]["audits"].setdefault(peer, {"criteria": {}, "audits": {}, "wildcard_audits": {}})
    strong_user, weak_user = rng.sample([1, 2, 3], 2)
    every = ["safe-to-deploy"] + [c for c in _crits(store) if c not in BUILTINS]
    strong = {"user-id": strong_user, "start": "2022-01-01", "end": "2023-01-01", "criteria": every, "notes": notes()}
    weak = {"user-id": weak_user, "start": "2022-01-01", "end": "2023-01-01", "criteria": ["safe-to-run"], "notes": notes()}
    if rng.random() < 0.5:
        sec.setdefault("wildcard_audits", {})[dp["name"]] = [strong]
        store["wildcard_audits"][dp["name"]] = [weak]
    else:
        sec.setdefault("wildcard_audits", {})[dp["name"]] = [weak]
        store["wildcard_audits"][dp["name"]] = [strong]
    store["lock"]["publisher"][dp["name"]] = [{"version": vstr(dp), "when": "2022-06-15", "user-id": weak_user,
                                               "user-login": f"user{weak_user}", "user-name": f"User {weak_user}"}]
    return case


def boost_member_order(rng, case):
    """two workspace members, the one listed FIRST in the metadata being a normal dependency of the second (so only the
    second is a top-level crate); the top-level crate's policy asks for safe-to-run only, nothing else has a policy, and every
    third-party crate is exempted for safe-to-run: the store passes"""
    pkgs = case["graph"]["packages"]
    store = case["store_struct"]
    ws = [p for p in pkgs if p["workspace"]]
    thirds = [p for p in pkgs if p["source"] == "registry"]
    if not ws or not thirds:
        return case
    a = next((p for p in ws if p["name"] == "wsaaa"), ws[0])
    b = next((p for p in ws if p is not a), None)
    if b is None:
        t = rng.choice(thirds)
        b = {"name": "wsbbb", "version": "1.0.0", "source": "path", "workspace": True,
             "deps": [{"name": t["name"], "version": t["version"], "source": t["source"], "kinds": ["normal"]}]}
        pkgs.append(b)
    # a depends on b (normal), b does not depend on a
    b["deps"] = [d for d in b["deps"] if d["name"] != a["name"]]
    a["deps"] = [d for d in a["deps"] if d["name"] != b["name"]] + [{"name": b["name"], "version": b["version"], "source": b["source"], "kinds": ["normal"]}]
    if not any(d["source"] == "registry" for d in b["deps"]):
        t = rng.choice(thirds)
        b["deps"].append({"name": t["name"], "version": t["version"], "source": t["source"], "kinds": ["normal"]})
    # b first
    pkgs.remove(b)
    pkgs.insert(0, b)
    pkgs.remove(a)
    pkgs.insert(rng.randint(1, len(pkgs)), a)
    store["policy"] = {a["name"]: {"criteria": ["safe-to-run"]}}
    for tbl in ("audits", "wildcard_audits", "trusted", "exemptions"):
        store[tbl] = {}
    store["imports"] = {}
    store["lock"] = {"audits": {}, "publisher": {}, "unpublished": {}}
    for p in pkgs:
        if p["source"] == "registry":
            store["exemptions"].setdefault(p["name"], []).append({"version": p["version"], "criteria": ["safe-to-run"], "suggest": True, "notes": "n"})
    # path / git crates other than the members stay first party: no audit-as-crates-io entries are left
    return case


def _tiny(third=("tpaaa", "2.0.0")):
    n, v = third
    pkgs = [{"name": "wsaaa", "version": "1.0.0", "source": "path", "workspace": True,
             "deps": [{"name": n, "version": v, "source": "registry", "kinds": ["normal"]}]},
            {"name": n, "version": v, "source": "registry", "workspace": False, "deps": []}]
    store = {"criteria": {}, "policy": {}, "imports": {}, "exemptions": {}, "audits": {}, "wildcard_audits": {}, "trusted": {},
             "lock": {"audits": {}, "publisher": {}, "unpublished": {}}}
    return pkgs, store


def gen_expect_cases(rng, which):
    """small unlocked resolve cases whose verdict follows from the property text alone (`expect`: the crate that must fail /
    must be in conflict), each about one import rule"""
    peer, url = PEERS[0]
    out = []
    if which == "builtin-mapped-to-nothing":
        # criteria-map overrides the peer's built-ins with NOTHING: its safe-to-deploy audits certify nothing here (C01 / C07)
        for k in range(4):
            pkgs, store = _tiny()
            cm = [{"safe-to-deploy": [], "safe-to-run": []}, {"safe-to-deploy": []}, {"safe-to-deploy": ["safe-to-run"]},
                  {"safe-to-deploy": [], "safe-to-run": []}][k]
            store["imports"][peer] = {"url": [url], "criteria-map": cm}
            store["lock"]["audits"][peer] = {"criteria": {}, "audits": {}, "wildcard_audits": {}}
            entry = {"kind": "full", "version": "2.0.0", "criteria": ["safe-to-deploy"], "notes": "the peer's"}
            pf = {"criteria": {}, "audits": {"tpaaa": [entry]}, "wildcard_audits": {}, "trusted": {}}
            if k == 3:
                pf["audits"] = {}
                pf["wildcard_audits"] = {"tpaaa": [{"user-id": 1, "start": "2022-01-01", "end": "2023-01-01", "criteria": ["safe-to-deploy"], "notes": "w"}]}
            reg = {"users": [[1, "user1", "User 1"]], "packages": {"tpaaa": [{"version": "2.0.0", "by": 1, "when": "2022-06-15"}]}, "meta": {}}
            out.append(finalize({"id": f"xm{k}", "kind": "resolve", "graph": {"packages": pkgs}, "store_struct": store,
                                 "peers_struct": {url: pf}, "registry": reg, "mode": "unlocked", "allow_criteria_changes": True,
                                 "expect": {"fails": "tpaaa", "why": f"the import maps the peer's safe-to-deploy to {cm['safe-to-deploy']}, "
                                            "so the peer's safe-to-deploy records do not certify it for safe-to-deploy"}}))
    if which == "peer-violation-mixed":
        # a peer's violation naming a criterion we know next to one we cannot interpret still dominates (C04)
        for k in range(4):
            pkgs, store = _tiny()
            store["imports"][peer] = {"url": [url]}
            store["lock"]["audits"][peer] = {"criteria": {}, "audits": {}, "wildcard_audits": {}}
            store["audits"]["tpaaa"] = [{"kind": "full", "version": "2.0.0", "criteria": ["safe-to-deploy"], "notes": "ours"}]
            ptable = {}
            crit = [["safe-to-run", "peer-future"], ["peer-future", "safe-to-deploy"], ["safe-to-run", "no-such-criterion"], ["safe-to-run"]][k]
            if "peer-future" in crit:
                # the peer defines it with a field from a newer cargo-vet: the definition is skipped, the name becomes unknown
                ptable["peer-future"] = {"description": "from the future", "implies": [], "extra": {"future-field": True}}
            viol = {"kind": "violation", "violation": ["*", "=2.0.0", ">=1.0.0", "*"][k], "criteria": crit, "notes": "bad"}
            pf = {"criteria": ptable, "audits": {"tpaaa": [viol]}, "wildcard_audits": {}, "trusted": {}}
            reg = {"users": [[1, "user1", "User 1"]], "packages": {"tpaaa": [{"version": "2.0.0", "by": 1, "when": "2022-06-15"}]}, "meta": {}}
            out.append(finalize({"id": f"xv{k}", "kind": "resolve", "graph": {"packages": pkgs}, "store_struct": store,
                                 "peers_struct": {url: pf}, "registry": reg, "mode": "unlocked", "allow_criteria_changes": True,
                                 "expect": {"conflict": "tpaaa", "why": f"the peer serves a violation {viol['violation']} for {crit} and our audit of 2.0.0 "
                                            "claims safe-to-deploy (which implies safe-to-run)"}}))
    if which == "unmapped-violation":
        # a peer's violation for a criterion of its own that the import does not map (or maps to nothing) means nothing here: it
        # conflicts with no audit and no exemption (C07)
        for k in range(4):
            pkgs, store = _tiny()
            imp = {"url": [url]}
            crit, ptable = ["peer-x"], {"peer-x": {"description": "the peer's own", "implies": []}}
            if k == 1:
                imp["criteria-map"] = {"peer-x": []}
            if k == 2:
                crit, ptable = ["safe-to-deploy"], {}
                imp["criteria-map"] = {"safe-to-deploy": [], "safe-to-run": []}
            store["imports"][peer] = imp
            lock_viol = {"kind": "violation", "violation": "*", "criteria": [], "notes": "bad"}
            store["lock"]["audits"][peer] = {"criteria": {}, "audits": ({"tpaaa": [lock_viol]} if k == 3 else {}), "wildcard_audits": {}}
            if k % 2:
                store["exemptions"]["tpaaa"] = [{"version": "2.0.0", "criteria": ["safe-to-deploy"], "suggest": True, "notes": "n"}]
            else:
                store["audits"]["tpaaa"] = [{"kind": "full", "version": "2.0.0", "criteria": ["safe-to-deploy"], "notes": "ours"}]
            pf = {"criteria": ptable, "audits": {"tpaaa": [{"kind": "violation", "violation": "*", "criteria": crit, "notes": "bad"}]},
                  "wildcard_audits": {}, "trusted": {}}
            reg = {"users": [[1, "user1", "User 1"]], "packages": {"tpaaa": [{"version": "2.0.0", "by": 1, "when": "2022-06-15"}]}, "meta": {}}
            out.append(finalize({"id": f"xu{k}", "kind": "resolve", "graph": {"packages": pkgs}, "store_struct": store,
                                 "peers_struct": {url: pf}, "registry": reg, "mode": ["unlocked", "unlocked", "unlocked", "locked"][k],
                                 "allow_criteria_changes": True,
                                 "expect": {"passes": True, "why": f"the peer's violation names only {crit}, which this import maps to no local criterion"}}))
    if which == "unpublished-after-publication":
        # a recorded `unpublished` link keeps certifying after crates.io has published the version (and a publisher record for it
        # has been cached): no false failure (C02 / C08)
        for k in range(3):
            pkgs = [{"name": "wsaaa", "version": "1.0.0", "source": "path", "workspace": True,
                     "deps": [{"name": "fpxxx", "version": "4.0.0", "source": "path", "kinds": ["normal"]}]},
                    {"name": "fpxxx", "version": "4.0.0", "source": "path", "workspace": False, "deps": []}]
            store = {"criteria": {}, "policy": {"fpxxx": {"audit-as-crates-io": True}}, "imports": {}, "exemptions": {},
                     "audits": {"fpxxx": [{"kind": "full", "version": "3.0.0", "criteria": ["safe-to-deploy"], "notes": "the audited release"}]},
                     "wildcard_audits": ({"fpxxx": [{"user-id": 1, "start": "2022-01-01", "end": "2022-01-02", "criteria": ["safe-to-run"], "notes": "w"}]} if k else {}),
                     "trusted": {},
                     "lock": {"audits": {}, "unpublished": {"fpxxx": [{"version": "4.0.0", "audited_as": "3.0.0"}]},
                              "publisher": {"fpxxx": [{"version": "4.0.0", "when": "2022-12-31", "user-id": 2, "user-login": "user2", "user-name": "User 2"}]
                                            + ([{"version": "3.0.0", "when": "2022-06-15", "user-id": 2, "user-login": "user2", "user-name": "User 2"}] if k == 2 else [])}}}
            reg = {"users": [[1, "user1", "User 1"], [2, "user2", "User 2"]],
                   "packages": {"fpxxx": [{"version": "3.0.0", "by": 2, "when": "2022-06-15"}, {"version": "4.0.0", "by": 2, "when": "2022-12-31"}]},
                   "meta": {"fpxxx": {"description": "whatever"}}}
            out.append(finalize({"id": f"xp{k}", "kind": "resolve", "graph": {"packages": pkgs}, "store_struct": store, "peers_struct": {},
                                 "registry": reg, "mode": ["locked", "locked", "unlocked"][k], "allow_criteria_changes": True,
                                 "expect": {"passes": True, "why": "fpxxx 4.0.0 is recorded as audited-as 3.0.0, which is fully audited for safe-to-deploy "
                                            "(that 4.0.0 has meanwhile been published, by somebody no grant covers, changes nothing)"}}))
    if which == "violation-deep-implication":
        # a violation naming the LAST criterion of an implication chain three or four hops long dominates an audit / exemption
        # recorded for the FIRST (implication is transitive whatever the alphabetical order of the names: C04 / C05)
        for k in range(6):
            pkgs, store = _tiny()
            names = [["crit-a", "crit-b", "crit-c", "crit-d"], ["crit-d", "crit-c", "crit-b", "crit-a"], ["crit-a", "crit-c", "crit-b", "crit-d", "crit-e"]][k % 3]
            for a, b in zip(names, names[1:]):
                store["criteria"][a] = {"description": f"{a}", "implies": [b]}
            store["criteria"][names[-1]] = {"description": names[-1], "implies": []}
            store["policy"]["wsaaa"] = {"criteria": ["safe-to-deploy"]}
            rec_crit = ["safe-to-deploy", names[0]]
            if k < 3:
                store["audits"]["tpaaa"] = [{"kind": "full", "version": "2.0.0", "criteria": rec_crit, "notes": "ours"}]
            else:
                store["exemptions"]["tpaaa"] = [{"version": "2.0.0", "criteria": rec_crit, "suggest": True, "notes": "n"}]
            store["audits"].setdefault("tpaaa", []).append(
                {"kind": "violation", "violation": ["*", "=2.0.0", ">=1.0.0"][k % 3], "criteria": [names[-1]], "notes": "bad"})
            out.append(finalize({"id": f"xd{k}", "kind": "resolve", "graph": {"packages": pkgs}, "store_struct": store, "peers_struct": {},
                                 "registry": {"users": [], "packages": {}, "meta": {}}, "mode": "locked", "allow_criteria_changes": True,
                                 "expect": {"conflict": "tpaaa", "why": f"a violation for {names[-1]} covers 2.0.0 and the record for {names[0]} "
                                            f"claims it through the chain {' -> '.join(names)}"}}))
    if which == "trusted-twin-windows":
        # two trusted entries for ONE publisher: the one whose window holds the publication date carries a criterion that is not
        # enough, the one carrying the required criterion has a window that does not hold it: nothing certifies the version (C01 / C06)
        for k in range(4):
            pkgs, store = _tiny()
            when = ["2022-06-15", "2022-06-15", "2021-03-01", "2022-06-15"][k]
            weak = {"user-id": 1, "start": "2022-01-01", "end": "2023-01-01", "criteria": ["safe-to-run"], "notes": "in date, too weak"}
            strong = {"user-id": 1, "start": ["2020-01-01", "2022-06-16", "2021-03-02", "2020-01-01"][k],
                      "end": ["2021-12-31", "2023-06-01", "2021-12-31", "2022-06-14"][k], "criteria": ["safe-to-deploy"], "notes": "out of date"}
            if k == 2:
                weak["start"], weak["end"] = "2021-01-01", "2021-03-01"
            store["trusted"]["tpaaa"] = [weak, strong] if k % 2 == 0 else [strong, weak]
            store["lock"]["publisher"]["tpaaa"] = [{"version": "2.0.0", "when": when, "user-id": 1, "user-login": "user1", "user-name": "User 1"}]
            reg = {"users": [[1, "user1", "User 1"]], "packages": {"tpaaa": [{"version": "2.0.0", "by": 1, "when": when}]}, "meta": {}}
            out.append(finalize({"id": f"xt{k}", "kind": "resolve", "graph": {"packages": pkgs}, "store_struct": store, "peers_struct": {},
                                 "registry": reg, "mode": ["locked", "unlocked"][k // 2], "allow_criteria_changes": True,
                                 "expect": {"fails": "tpaaa", "why": f"2.0.0 was published on {when}: inside the window of the safe-to-run grant only; "
                                            f"the safe-to-deploy grant runs {strong['start']}..{strong['end']}"}}))
    if which == "wildcard-window-gap":
        # one import, two URLs, the same publisher's wildcard audit in each with DISJOINT windows; the version in use was published
        # in the gap: no entry covers it (C06)
        for k in range(3):
            pkgs, store = _tiny()
            url2 = "https://peer-one-b.example/audits.toml"
            store["imports"][peer] = {"url": [url, url2]}
            store["lock"]["audits"][peer] = {"criteria": {}, "audits": {}, "wildcard_audits": {}}
            w1 = {"user-id": 1, "start": "2022-01-01", "end": "2022-01-02", "criteria": ["safe-to-deploy"], "notes": "early"}
            w2 = {"user-id": 1, "start": "2022-12-31", "end": "2023-01-01", "criteria": ["safe-to-deploy"], "notes": "late"}
            if k == 1:
                w1, w2 = w2, w1
            pfa = {"criteria": {}, "audits": {}, "wildcard_audits": {"tpaaa": [w1]}, "trusted": {}}
            pfb = {"criteria": {}, "audits": {}, "wildcard_audits": {"tpaaa": [w2] if k < 2 else [dict(w2), dict(w1, notes="again")]}, "trusted": {}}
            reg = {"users": [[1, "user1", "User 1"]], "packages": {"tpaaa": [{"version": "2.0.0", "by": 1, "when": "2022-06-15"}]}, "meta": {}}
            out.append(finalize({"id": f"xw{k}", "kind": "resolve", "graph": {"packages": pkgs}, "store_struct": store,
                                 "peers_struct": {url: pfa, url2: pfb}, "registry": reg, "mode": "unlocked", "allow_criteria_changes": True,
                                 "expect": {"fails": "tpaaa", "why": "user 1 published 2.0.0 on 2022-06-15, between the two windows the peer's wildcard audits cover"}}))
    return out


def boost_two_trusted_exempted(rng, case):
    """boost_two_trusted + an exemption for the very version and criteria: the recorded grants suffice, the crate is fully
    audited and `prune` drops the exemption"""
    boost_two_trusted(rng, case)
    store = case["store_struct"]
    for name, l in store["trusted"].items():
        if len(l) >= 2 and name in store["lock"]["publisher"] and name not in store["exemptions"]:
            v = store["lock"]["publisher"][name][0]["version"]
            store["exemptions"][name] = [{"version": v, "criteria": ["safe-to-deploy"], "suggest": True, "notes": "not needed"}]
    return case


def scenario_old_store_version(cid, k=0):
    """deterministic history: config.toml says it was written by an OLDER cargo-vet (k=0: version 0.9; k=1: no [cargo-vet] table at
    all); a peer serves the one audit that is missing.  The unlocked check succeeds and rewrites the files — with which
    `--locked` must succeed too."""
    peer, url = PEERS[0]
    pkgs, store = _tiny()
    store["imports"][peer] = {"url": [url]}
    store["lock"]["audits"][peer] = {"criteria": {}, "audits": {}, "wildcard_audits": {}}
    peers = {url: {"criteria": {}, "audits": {"tpaaa": [{"kind": "full", "version": "2.0.0", "criteria": ["safe-to-deploy"], "notes": "theirs"}]},
                   "wildcard_audits": {}, "trusted": {}}}
    registry = {"users": [[1, "user1", "User 1"]], "packages": {"tpaaa": [{"version": "2.0.0", "by": 1, "when": "2022-06-15"}]}, "meta": {}}
    remote = render_remote(peers, registry)
    texts = render_store(store)
    if k == 2:
        texts["config"] = texts["config"].replace('version = "1.0"', 'version = "9.9"', 1)     # written by a NEWER cargo-vet: always refused
    elif k % 2 == 0:
        texts["config"] = texts["config"].replace('version = "1.0"', 'version = "0.9"', 1)
    else:
        texts["config"] = texts["config"].replace('[cargo-vet]\nversion = "1.0"\n', "", 1)
    cmds = [["check"], ["check", "--locked"], ["prune"], ["check", "--locked"]]
    return {"id": cid, "kind": "history", "graph": {"packages": pkgs}, "store_struct": store, "store": texts,
            "steps": [{"args": a, "remote": remote} for a in cmds]}


def scenario_publisher_names_disagree(cid, k=0):
    """deterministic history: imports.lock holds two publisher records of ONE crates.io user with the same login and different
    display names, not in sorted order (a hand-resolved merge); a trusted entry carries that user-id, so audits.toml gets a
    `# name (login)` remark.  Whatever remark is chosen, a second `fmt` changes nothing and `--locked` accepts the files."""
    pkgs, store = _tiny()
    recs = [{"version": "2.0.0", "when": "2022-06-15", "user-id": 1, "user-login": "alice", "user-name": "Alice Smith"},
            {"version": "1.0.0", "when": "2022-01-01", "user-id": 1, "user-login": "alice", "user-name": "Alice"}]
    if k % 2:
        recs[1]["user-name"] = None
    store["lock"]["publisher"]["tpaaa"] = recs
    store["trusted"]["tpaaa"] = [{"user-id": 1, "start": "2022-01-01", "end": "2023-06-01", "criteria": ["safe-to-deploy"], "notes": "trusted"}]
    registry = {"users": [[1, "alice", "Alice Smith"]], "packages": {"tpaaa": [{"version": "1.0.0", "by": 1, "when": "2022-01-01"},
                                                                                 {"version": "2.0.0", "by": 1, "when": "2022-06-15"}]}, "meta": {}}
    remote = render_remote({}, registry)
    cmds = [["fmt"], ["fmt"], ["check", "--locked"], ["fmt"]]
    return {"id": cid, "kind": "history", "strict": True, "graph": {"packages": pkgs}, "store_struct": store,
            "store": render_store(store), "steps": [{"args": a, "remote": remote} for a in cmds]}


def scenario_unpublished_moved_on(cid, k=0):
    """deterministic history: a path crate audited as crates.io at an unpublished version; imports.lock still records it as
    audited-as an OLD published version, but a newer one has been published since and only that one is audited.  The unlocked
    check passes through the fresh link and must record it, so that `--locked` keeps passing."""
    pkgs = [{"name": "wsaaa", "version": "1.0.0", "source": "path", "workspace": True,
             "deps": [{"name": "fpxxx", "version": "4.0.0", "source": "path", "kinds": ["normal"]}]},
            {"name": "fpxxx", "version": "4.0.0", "source": "path", "workspace": False, "deps": []}]
    store = {"criteria": {}, "policy": {"fpxxx": {"audit-as-crates-io": True}}, "imports": {}, "exemptions": {},
             "audits": {"fpxxx": [{"kind": "full", "version": "3.0.0", "criteria": ["safe-to-deploy"], "notes": "the newer release"}]},
             "wildcard_audits": {}, "trusted": {},
             "lock": {"audits": {}, "publisher": {}, "unpublished": {"fpxxx": [{"version": "4.0.0", "audited_as": ["2.0.0", "1.0.0"][k % 2]}]}}}
    served = ["1.0.0", "2.0.0", "3.0.0"]
    registry = {"users": [[1, "user1", "User 1"]], "packages": {"fpxxx": [{"version": x, "by": 1, "when": "2022-01-01"} for x in served]},
                "meta": {"fpxxx": {"description": "whatever"}}}
    remote = render_remote({}, registry)
    cmds = [["check"], ["check", "--locked"], ["check"], ["check", "--locked"]]
    return {"id": cid, "kind": "history", "graph": {"packages": pkgs}, "store_struct": store,
            "store": render_store(store), "steps": [{"args": a, "remote": remote} for a in cmds]}


def scenario_trusted_after_foreign_publisher(cid, k=0):
    """deterministic history: the crate changed hands — imports.lock lists an older release by ANOTHER user before the release in
    use, which the trusted publisher made; only the trusted entry certifies the crate.  `prune` must keep the record the path
    needs: `--locked` passes afterwards."""
    pkgs, store = _tiny()
    store["lock"]["publisher"]["tpaaa"] = [
        {"version": "1.0.0", "when": "2022-01-01", "user-id": 2, "user-login": "user2", "user-name": "User 2"},
        {"version": "2.0.0", "when": ["2022-06-15", "2022-01-02"][k % 2], "user-id": 1, "user-login": "user1", "user-name": "User 1"}]
    store["trusted"]["tpaaa"] = [{"user-id": 1, "start": "2022-01-02", "end": "2023-06-01", "criteria": ["safe-to-deploy"], "notes": "trusted"}]
    registry = {"users": [[1, "user1", "User 1"], [2, "user2", "User 2"]],
                "packages": {"tpaaa": [{"version": "1.0.0", "by": 2, "when": "2022-01-01"},
                                       {"version": "2.0.0", "by": 1, "when": ["2022-06-15", "2022-01-02"][k % 2]}]}, "meta": {}}
    remote = render_remote({}, registry)
    cmds = [[["prune"], ["check", "--locked"], ["prune"]], [["regenerate", "imports"], ["check", "--locked"], ["check"]]][k % 2]
    return {"id": cid, "kind": "history", "graph": {"packages": pkgs}, "store_struct": store,
            "store": render_store(store), "steps": [{"args": a, "remote": remote} for a in cmds]}


def boost_expired_wildcard_dangling(rng, case):
    """fault-free validate case + a project's own wildcard audit whose window ended before today and which names a criterion
    defined nowhere (a criterion removed from the table after the audit was written), with a publisher record inside the window:
    an undefined criterion is refused wherever it stands"""
    store = case["store_struct"]
    crate = rng.choice(sorted({p["name"] for p in case["graph"]["packages"] if p["source"] == "registry"}) or ["tpaaa"])
    v = next((p["version"] for p in case["graph"]["packages"] if p["name"] == crate), "1.0.0")
    store["wildcard_audits"].setdefault(crate, []).append(
        {"user-id": 1, "start": "2022-01-01", "end": rng.choice(["2022-06-15", "2022-12-31"]), "criteria": [rng.choice(["fault-gone", "safe-to-run"]), "fault-gone"][:rng.choice([1, 2])] + ([] if rng.random() < 0.5 else ["safe-to-deploy"]),
         "notes": "expired"})
    if "fault-gone" not in store["wildcard_audits"][crate][-1]["criteria"]:
        store["wildcard_audits"][crate][-1]["criteria"].append("fault-gone")
    store["lock"]["publisher"].setdefault(crate, []).append({"version": v, "when": "2022-06-15", "user-id": 1, "user-login": "user1", "user-name": "User 1"})
    case["faults"] = list(case.get("faults", [])) + [{"kind": "dangling", "site": "SWildcard"}]
    return finalize(case)


def boost_exemptions(rng, case):
    store = case["store_struct"]
    notes = Notes()
    notes.n = 2000
    crits = _crits(store)
    for name, vs in _third_versions(case).items():
        r = rng.random()
        if r < 0.25:
            continue
        ex = store["exemptions"].setdefault(name, [])
        v = rng.choice(vs)
        if r < 0.6:
            ex.append({"version": v, "criteria": crit_list(rng, crits), "suggest": True, "notes": notes()})
        else:
            mid = rng.choice(VERSIONS)
            ex.append({"version": mid, "criteria": crit_list(rng, crits), "suggest": rng.random() > 0.2, "notes": notes()})
            if mid != v:
                store["audits"].setdefault(name, []).append(
                    {"kind": "delta", "from": mid, "to": v, "criteria": crit_list(rng, crits), "notes": notes()})
        if rng.random() < 0.5:
            store["audits"].setdefault(name, []).append(
                {"kind": "full", "version": v, "criteria": crit_list(rng, crits), "notes": notes(),
                 **({"importable": False} if rng.random() < 0.3 else {})})
    return case


def boost_git_violation(rng, case):
    """a git-revision package audited as crates.io, certified AT its git version (exemption, full audit or
    delta endpoint), and a violation whose range covers the semver part of that version"""
    store = case["store_struct"]
    pkgs = case["graph"]["packages"]
    notes = Notes()
    notes.n = 2700
    crits = _crits(store)
    cands = [p for p in pkgs if p["source"].startswith("git:") and not p["workspace"]]
    if not cands:
        return case
    p = rng.choice(cands)
    same = [q for q in pkgs if q["name"] == p["name"]]
    key = p["name"] if len(same) == 1 else f"{p['name']}:{vstr(p)}"
    if len(same) > 1:
        for k in [k for k in store["policy"] if k == p["name"]]:
            del store["policy"][k]
        for q in same:
            store["policy"].setdefault(f"{q['name']}:{vstr(q)}", {})
    store["policy"].setdefault(key, {})["audit-as-crates-io"] = True
    n, gv = p["name"], vstr(p)
    every = ["safe-to-deploy"] + [c for c in crits if c not in BUILTINS]
    r = rng.random()
    if r < 0.4:
        store["exemptions"].setdefault(n, []).append({"version": gv, "criteria": every, "suggest": True, "notes": notes()})
    elif r < 0.7:
        store["audits"].setdefault(n, []).append({"kind": "full", "version": gv, "criteria": every, "notes": notes()})
    else:
        base = rng.choice([x for x in VERSIONS if x != p["version"]])
        store["audits"].setdefault(n, []).append({"kind": "full", "version": base, "criteria": every, "notes": notes()})
        store["audits"][n].append({"kind": "delta", "from": base, "to": gv, "criteria": every, "notes": notes()})
    req = rng.choice(["*", "=" + p["version"], ">=" + p["version"]])
    store["audits"].setdefault(n, []).append({"kind": "violation", "violation": req, "criteria": crit_list(rng, crits), "notes": notes()})
    return case


def boost_dense_success(rng, case):
    """a store that vets (everything exempted at its exact version) except for one crate, which gets a
    dense web of delta audits carrying every criterion — diamonds, back edges, several alternative
    routes — plus exemptions on intermediate versions competing with them"""
    store = case["store_struct"]
    pkgs = case["graph"]["packages"]
    notes = Notes()
    notes.n = 2500
    crits = _crits(store)
    every = ["safe-to-deploy"] + [c for c in crits if c not in BUILTINS]
    tv = _third_versions(case)
    single = sorted(n for n, vs in tv.items() if len(vs) == 1 and "@" not in vs[0] and sum(1 for p in pkgs if p["name"] == n) == 1)
    if not single:
        return case
    for n, l in store["audits"].items():
        store["audits"][n] = [a for a in l if a.get("kind") != "violation"]
    for f in store["lock"]["audits"].values():
        for n, l in f.get("audits", {}).items():
            f["audits"][n] = [a for a in l if a.get("kind") != "violation"]
    t = rng.choice(single)
    v = tv[t][0]
    blanket_exemptions(store, pkgs, crits, notes, t)
    web = []
    others = [x for x in VERSIONS if x != v]
    for _ in range(rng.randint(5, 10)):
        r = rng.random()
        if r < 0.35:
            a, b = rng.choice(others), v
        else:
            a, b = rng.sample(VERSIONS, 2)
        web.append({"kind": "delta", "from": a, "to": b, "criteria": list(every), "notes": notes()})
    for _ in range(rng.choice([0, 1, 1, 2])):
        web.append({"kind": "full", "version": rng.choice(others), "criteria": list(every), "notes": notes()})
    rng.shuffle(web)
    store["audits"][t] = web
    store["exemptions"][t] = [{"version": rng.choice(others), "criteria": list(every), "suggest": True, "notes": notes()}
                              for _ in range(rng.choice([1, 1, 2]))]
    for tbl in ("wildcard_audits", "trusted"):
        store[tbl].pop(t, None)
    return case


# ---------------------------------------------------------------------------
# unlocked cases: peers served over the mock network + a mock crates.io

def local_crit_index(store):
    names = BUILTINS + sorted(store["criteria"])
    return names, {n: i for i, n in enumerate(names)}


def py_closure(store, name):
    seen = {name}
    work = [name]
    while work:
        x = work.pop()
        imp = ["safe-to-run"] if x == "safe-to-deploy" else store["criteria"].get(x, {}).get("implies", [])
        for y in imp:
            if y not in seen:
                seen.add(y)
                work.append(y)
    return seen


def py_minimal_names(store, names_set):
    order, idx = local_crit_index(store)
    out = [c for c in names_set
           if not any(o != c and c in py_closure(store, o) for o in names_set)]
    return sorted(out, key=lambda c: idx[c])


def localise(store, peer_table, cmap, crit):
    """what fetch_single_imported_audit rewrites a peer entry's criteria list to"""
    def pclosure(name):
        seen = {name}
        work = [name]
        while work:
            x = work.pop()
            imp = ["safe-to-run"] if x == "safe-to-deploy" else peer_table.get(x, {}).get("implies", [])
            for y in imp:
                if y not in seen:
                    seen.add(y)
                    work.append(y)
        return seen
    foreign = set()
    for c in crit:
        foreign |= pclosure(c)
    local = set()
    for f in foreign:
        if f in cmap:
            for l in cmap[f]:
                local |= py_closure(store, l)
        elif f in BUILTINS:
            local |= py_closure(store, f)
    return py_minimal_names(store, local)


def add_twins(rng, pf, lockf, loc, notes):
    """a peer publishing the same audit twice (two reviewers: same kind and criteria, other who/notes),
    with none, one or both copies already in imports.lock"""
    for n, l in list(pf["audits"].items()):
        if not l or rng.random() > 0.3:
            continue
        a = rng.choice([x for x in l if x.get("kind") != "violation"] or [None])
        if a is None:
            continue
        twin = dict(a)
        twin["notes"] = notes()
        twin["who"] = ["second reviewer"]
        l.append(twin)
        r = rng.random()
        have = [x for x in lockf["audits"].get(n, []) if x.get("notes") == a.get("notes")]
        if r < 0.5 and not have:
            la = dict(a)
            la["criteria"] = loc(a["criteria"])
            lockf["audits"].setdefault(n, []).append(la)
        elif r < 0.65:
            lt = dict(twin)
            lt["criteria"] = loc(twin["criteria"])
            lockf["audits"].setdefault(n, []).append(lt)


def gen_unlocked_case(rng, cid, p_violation=0.05, ncustom=None):
    pkgs = gen_graph(rng)
    store = gen_store(rng, pkgs, p_violation=p_violation, with_imports=False, ncustom=ncustom)
    notes = Notes()
    notes.n = 5000
    crits = _crits(store)
    customs = sorted(store["criteria"])
    versions = {}
    for p in pkgs:
        versions.setdefault(p["name"], []).append(vstr(p))
    names = sorted(versions)
    peers_struct = {}
    for peer, url in PEERS[:rng.choice([0, 1, 1, 2])]:
        ptable = {}
        cmap = {}
        if rng.random() < 0.6:
            ptable["peer-x"] = {"description": "peer x", "implies": rng.choice([[], ["safe-to-run"], ["safe-to-deploy"]])}
            if rng.random() < 0.8:
                cmap["peer-x"] = crit_list(rng, crits)
        if rng.random() < 0.15:
            cmap["safe-to-deploy"] = rng.choice([[], ["safe-to-run"], crit_list(rng, crits)])
        pcrits = BUILTINS + sorted(ptable)
        imp = {"url": [url]}
        if cmap:
            imp["criteria-map"] = cmap
        if rng.random() < 0.3:
            # crates excluded from this import; the peer still serves entries for them and imports.lock may
            # still hold some from before the exclusion
            imp["exclude"] = rng.sample(names, min(len(names), rng.choice([1, 1, 2])))
        store["imports"][peer] = imp
        pf = {"criteria": ptable, "audits": {}, "wildcard_audits": {}, "trusted": {}}
        lockf = {"criteria": {k: {"description": ptable[k]["description"]} for k in ptable if k in cmap},
                 "audits": {}, "wildcard_audits": {}}
        for n in names:
            if rng.random() < 0.6:
                l = gen_audits_for(rng, n, versions.get(n, []), pcrits, notes, False, p_violation)
                for a in l:
                    pf["audits"].setdefault(n, []).append(a)
                    # already imported (non-fresh) with some probability
                    if rng.random() < 0.45:
                        la = dict(a)
                        la["criteria"] = localise(store, ptable, cmap, a["criteria"])
                        lockf["audits"].setdefault(n, []).append(la)
            if rng.random() < 0.25:
                for w in gen_wildcards(rng, pcrits, notes):
                    pf["wildcard_audits"].setdefault(n, []).append(w)
                    if rng.random() < 0.5:
                        lw = dict(w)
                        lw["criteria"] = localise(store, ptable, cmap, w["criteria"])
                        lockf["wildcard_audits"].setdefault(n, []).append(lw)
            if rng.random() < 0.1:
                pf["trusted"][n] = gen_wildcards(rng, pcrits, notes, trusted=True)   # must have no effect
            # an entry only in the lock (revoked upstream)
            if rng.random() < 0.15:
                a = gen_audits_for(rng, n, versions.get(n, []), crits, notes, False, 0.0)
                for x in a:
                    x["criteria"] = py_minimal_names(store, set().union(*[py_closure(store, c) for c in x["criteria"]]))
                    lockf["audits"].setdefault(n, []).append(x)
        add_twins(rng, pf, lockf, lambda cl: localise(store, ptable, cmap, cl), notes)
        peers_struct[url] = pf
        if rng.random() < 0.8:
            store["lock"]["audits"][peer] = lockf
    # mock crates.io: every crate of the graph; versions around the graph's
    users = [[1, "user1", "User 1"], [2, "user2", "User 2"], [3, "user3", "User 3"]]
    reg = {}
    for n in names:
        vs = set(rng.sample(VERSIONS, rng.choice([1, 2, 3])))
        for p in pkgs:
            if p["name"] == n:
                if p["source"] == "registry":
                    vs.add(p["version"])
                elif rng.random() < 0.5:
                    vs.add(p["version"])
        reg[n] = [{"version": v, "by": rng.choice([1, 2, 3, 3, None]), "when": rng.choice(DATES[:6])} for v in sorted(vs)]
    # bias: lock publishers agree with the registry for some versions
    for n, l in list(store["lock"]["publisher"].items()):
        byv = {r["version"]: r for r in reg.get(n, [])}
        for p in l:
            r = byv.get(p["version"])
            if r and r["by"] and rng.random() < 0.7:
                p["user-id"] = r["by"]
                p["user-login"] = f"user{r['by']}"
                p["user-name"] = f"User {r['by']}"
                p["when"] = r["when"]
    boosted = None
    scenario = []          # crates whose certification must NOT be papered over by blanket exemptions
    if rng.random() < 0.45:
        boosted = boost_unpublished(rng, pkgs, store, reg, crits, notes, peers_struct)
    if rng.random() < 0.4:
        boost_shared_exemption(rng, pkgs, store, crits, notes)
    if peers_struct and rng.random() < 0.3:
        n = boost_excluded_wildcard(rng, pkgs, store, peers_struct, reg, crits, notes)
        if n:
            scenario.append(n)
    if rng.random() < 0.5:
        n = boost_overlapping_name(rng, pkgs, store, crits, notes)
        if n:
            scenario.append(n)
    # crates.io metadata matches (description) exactly for the packages declared audit-as-crates-io,
    # so that the audit-as pre-check of `cargo vet` accepts the configuration
    meta = {}
    for key, ent in store["policy"].items():
        if ent.get("audit-as-crates-io") is True:
            meta[key.split(":")[0]] = {"description": "whatever"}
    case = {"id": cid, "kind": "resolve", "graph": {"packages": pkgs}, "store_struct": store,
            "peers_struct": peers_struct, "registry": {"users": users, "packages": reg, "meta": meta},
            "mode": "unlocked", "allow_criteria_changes": True}
    if boosted:
        case["boosted_unpublished"] = boosted
    if scenario:
        case["scenario"] = scenario
    return finalize(case)


def boost_fresh_peer_vs_violation(rng, case):
    """unlocked: a peer serves an audit that is NOT yet in imports.lock (fresh) for a version of the graph which a
    violation entry of the project (or of another peer) covers for an implied criterion — the fresh audit is as much in
    conflict with the violation as a recorded one"""
    store = case["store_struct"]
    peers_struct = case.get("peers_struct") or {}
    notes = Notes()
    notes.n = 4000
    ok_peers = [pn for pn, imp in sorted(store["imports"].items())
                if imp["url"][0] in peers_struct and not any(k in BUILTINS for k in imp.get("criteria-map", {}))]
    cands = sorted({p["name"] for p in case["graph"]["packages"] if p["source"] == "registry"})
    if not ok_peers or not cands:
        return case
    peer = rng.choice(ok_peers)
    imp = store["imports"][peer]
    n = rng.choice([c for c in cands if c not in imp.get("exclude", [])] or cands)
    if n in imp.get("exclude", []):
        return case
    v = rng.choice([vstr(p) for p in case["graph"]["packages"] if p["name"] == n and "@" not in vstr(p)] or [None])
    if v is None:
        return case
    pf = peers_struct[imp["url"][0]]
    other = rng.choice([x for x in VERSIONS if x != v])
    audit = rng.choice([{"kind": "full", "version": v, "criteria": ["safe-to-deploy"], "notes": notes()},
                        {"kind": "delta", "from": other, "to": v, "criteria": ["safe-to-deploy"], "notes": notes()},
                        {"kind": "delta", "from": v, "to": other, "criteria": ["safe-to-deploy"], "notes": notes()}])
    pf["audits"].setdefault(n, []).append(audit)
    lock = store["lock"]["audits"].get(peer)
    if lock:
        # make sure it is fresh: nothing equal in the lock
        lock["audits"][n] = [a for a in lock["audits"].get(n, []) if (a.get("kind"), a.get("version"), a.get("from"), a.get("to")) !=
                             (audit.get("kind"), audit.get("version"), audit.get("from"), audit.get("to"))]
        if not lock["audits"][n]:
            del lock["audits"][n]
    viol = {"kind": "violation", "violation": rng.choice(["*", "=" + v]), "criteria": [rng.choice(["safe-to-run", "safe-to-deploy"])], "notes": notes()}
    store["audits"].setdefault(n, []).append(viol)
    return finalize(case)


def boost_excluded_wildcard(rng, pkgs, store, peers_struct, reg, crits, notes):
    """a crate listed in an import's `exclude` for which the peer serves a wildcard audit (plus an ordinary audit)
    that matches the version in use, and a STALE copy of that wildcard audit in imports.lock from before the
    exclusion — nothing of it may be used or written back"""
    cands = sorted({p["name"] for p in pkgs if p["source"] == "registry"})
    peers = [k for k in store["imports"]]
    if not cands or not peers:
        return None
    n = rng.choice(cands)
    peer = rng.choice(sorted(peers))
    imp = store["imports"][peer]
    url = imp["url"][0]
    pf = peers_struct.get(url)
    if pf is None:
        return None
    ex = imp.setdefault("exclude", [])
    if n not in ex:
        ex.append(n)
    v = [p["version"] for p in pkgs if p["name"] == n and p["source"] == "registry"][0]
    u = rng.randint(1, 3)
    have = {r["version"]: r for r in reg.get(n, [])}
    r = have.get(v)
    if r is None:
        r = {"version": v}
        reg.setdefault(n, []).append(r)
        reg[n].sort(key=lambda x: VERSIONS.index(x["version"]) if x["version"] in VERSIONS else 99)
    r["by"], r["when"] = u, DATES[3]
    w = {"user-id": u, "start": DATES[0], "end": DATES[7], "criteria": ["safe-to-deploy"], "notes": notes()}
    pf.setdefault("wildcard_audits", {}).setdefault(n, []).append(w)
    if rng.random() < 0.6:
        pf.setdefault("audits", {}).setdefault(n, []).append({"kind": "full", "version": rng.choice(VERSIONS), "criteria": ["safe-to-run"], "notes": notes()})
    lockf = store["lock"]["audits"].setdefault(peer, {"criteria": {}, "audits": {}, "wildcard_audits": {}})
    if rng.random() < 0.7:
        lockf.setdefault("wildcard_audits", {}).setdefault(n, []).append(dict(w))
    for tbl in ("audits", "exemptions", "wildcard_audits", "trusted"):
        store[tbl].pop(n, None)
    # the crate itself is certified by an own full audit (so that the store can vet without the excluded entries)
    store["audits"][n] = [{"kind": "full", "version": v, "criteria": ["safe-to-deploy"] + [c for c in crits if c not in BUILTINS], "notes": notes()}]
    return n


def boost_overlapping_name(rng, pkgs, store, crits, notes):
    """one crate name used by a first-party (path) package AND a crates.io package, the first-party version being
    the LOWER one, the crates.io one certified only through an exemption"""
    byname = {}
    for p in pkgs:
        byname.setdefault(p["name"], []).append(p)
    cands = [n for n, ps in byname.items() if len(ps) == 2 and {q["source"] for q in ps} == {"registry", "path"}
             and all(q["version"] in VERSIONS for q in ps)]
    if not cands:
        return None
    n = rng.choice(sorted(cands))
    fp = [q for q in byname[n] if q["source"] == "path"][0]
    tp = [q for q in byname[n] if q["source"] == "registry"][0]
    if VERSIONS.index(fp["version"]) > VERSIONS.index(tp["version"]):
        # swap the two version numbers (and the dependency edges that name them)
        a, b = fp["version"], tp["version"]
        for q in pkgs:
            for d in q["deps"]:
                if d["name"] == n:
                    d["version"] = b if (d["version"] == a and d["source"] == "path") else (a if (d["version"] == b and d["source"] == "registry") else d["version"])
        fp["version"], tp["version"] = b, a
    for k in [k for k in store["policy"] if k.split(":")[0] == n]:
        del store["policy"][k]
    store["policy"][f"{n}:{fp['version']}"] = {"audit-as-crates-io": False}
    store["policy"][f"{n}:{tp['version']}"] = {"notes": "third party"}
    for tbl in ("audits", "wildcard_audits", "trusted"):
        store[tbl].pop(n, None)
    every = ["safe-to-deploy"] + [c for c in crits if c not in BUILTINS]
    store["exemptions"][n] = [{"version": tp["version"], "criteria": every, "suggest": True, "notes": notes()}]
    return n


def blanket_exemptions(store, pkgs, crits, notes, skip):
    """exempt every non-workspace package at its exact version for everything (so that a plain
    `cargo vet` passes on the store as generated), except crate [skip]"""
    every = ["safe-to-deploy"] + [c for c in crits if c not in BUILTINS]
    for p in pkgs:
        if p["workspace"] or p["name"] == skip:
            continue
        l = store["exemptions"].setdefault(p["name"], [])
        if not any(e["version"] == vstr(p) and set(e["criteria"]) >= set(every) for e in l):
            l.append({"version": vstr(p), "criteria": every, "suggest": True, "notes": notes()})


def boost_peer_trusted(rng, case):
    """unlocked cases: a PEER's trusted-publisher entries for crates of the graph, publisher records
    on crates.io that would match them, and a reason for cargo-vet to fetch those records (an own
    wildcard audit / trusted entry for another user, or a peer's wildcard audit) — a peer's trusted
    table must grant nothing"""
    store = case["store_struct"]
    peers = case.get("peers_struct") or {}
    if not peers:
        return case
    notes = Notes()
    notes.n = 3000
    crits = _crits(store)
    reg = case["registry"]["packages"]
    for name, vs in _third_versions(case).items():
        if rng.random() < 0.4:
            continue
        url = rng.choice(sorted(peers))
        pf = peers[url]
        pcrits = BUILTINS + sorted(pf.get("criteria", {}))
        u = rng.randint(1, 3)
        other = rng.choice([x for x in (1, 2, 3) if x != u])
        pf.setdefault("trusted", {}).setdefault(name, []).append(
            {"user-id": u, "start": DATES[0], "end": DATES[7], "criteria": crit_list(rng, pcrits), "notes": notes()})
        have = {r["version"]: r for r in reg.get(name, [])}
        for v in vs:
            if "@" in v:
                continue
            r = have.get(v)
            if r is None:
                r = {"version": v}
                reg.setdefault(name, []).append(r)
            r["by"] = u
            r["when"] = rng.choice(DATES[1:6])
        reg[name].sort(key=lambda r: VERSIONS.index(r["version"]) if r["version"] in VERSIONS else 99)
        ent = {"user-id": other, "start": DATES[0], "end": DATES[7], "criteria": crit_list(rng, crits), "notes": notes()}
        why = rng.random()
        if why < 0.4:
            store["wildcard_audits"].setdefault(name, []).append(ent)
        elif why < 0.7:
            store["trusted"].setdefault(name, []).append(ent)
        else:
            ent["criteria"] = crit_list(rng, pcrits)
            pf.setdefault("wildcard_audits", {}).setdefault(name, []).append(ent)
    return finalize(case)


def boost_shared_exemption(rng, pkgs, store, crits, notes):
    """two in-graph versions of one crate with DIFFERENT demands (the lower one stricter), both
    certified through one exemption: the lower directly, the higher through a delta audit"""
    byname = {}
    for p in pkgs:
        if p["source"] == "registry":
            byname.setdefault(p["name"], []).append(p["version"])
    cands = [n for n, vs in byname.items() if len(vs) == 2 and all(v in VERSIONS for v in vs)
             and sum(1 for q in pkgs if q["name"] == n) == 2]
    if not cands:
        return
    n = rng.choice(sorted(cands))
    lo, hi = sorted(byname[n], key=VERSIONS.index)
    strong = rng.choice([c for c in crits if c != "safe-to-run"])
    for k in [k for k in store["policy"] if k.split(":")[0] == n]:
        del store["policy"][k]
    store["policy"][f"{n}:{lo}"] = {"criteria": [strong]}
    store["policy"][f"{n}:{hi}"] = {"criteria": ["safe-to-run"]}
    every = ["safe-to-deploy"] + [c for c in crits if c not in BUILTINS]
    store["exemptions"][n] = [{"version": lo, "criteria": every, "suggest": True, "notes": notes()}]
    store["audits"][n] = [a for a in store["audits"].get(n, []) if a.get("kind") != "violation"]
    store["audits"][n].append({"kind": "delta", "from": lo, "to": hi, "criteria": every, "notes": notes()})
    for tbl in ("wildcard_audits", "trusted"):
        store[tbl].pop(n, None)


def boost_unpublished(rng, pkgs, store, reg, crits, notes, peers_struct=None):
    """an audit-as-crates-io crate whose own version is not on crates.io, a STALE `unpublished`
    record for it in imports.lock (audited as a version that is no longer the closest published
    one), and an audit of the version it is audited as today"""
    cands = [p for p in pkgs if p["source"] == "path" and not p["workspace"]]
    if not cands:
        return
    p = rng.choice(cands)
    same = [q for q in pkgs if q["name"] == p["name"]]
    if len(same) > 1:
        return
    if rng.random() < 0.7:
        # move the crate to a high version so that two published versions can lie below it
        # ... or to a low one, so that nothing earlier is published and the NEXT LATER published version stands in
        nv = rng.choice(["4.0.0", "5.0.0", "5.0.0", "1.0.0", "2.0.0"])
        for q in pkgs:
            for d in q["deps"]:
                if d["name"] == p["name"] and d["version"] == p["version"] and d["source"] == p["source"]:
                    d["version"] = nv
        p["version"] = nv
        for tbl in ("audits", "exemptions", "wildcard_audits", "trusted"):
            store[tbl].pop(p["name"], None)
        store["lock"]["publisher"].pop(p["name"], None)
    v = p["version"]
    i = VERSIONS.index(v) if v in VERSIONS else None
    if i is None:
        return
    below, above = VERSIONS[:i], VERSIONS[i + 1:]
    if len(below) >= 2:
        old, cur = sorted(rng.sample(below, 2), key=VERSIONS.index)
        published = [old, cur]
    elif len(above) >= 2:
        cur, old = sorted(rng.sample(above, 2), key=VERSIONS.index)
        published = [cur, old]
    else:
        return
    store["policy"].setdefault(p["name"], {})["audit-as-crates-io"] = True
    if rng.random() < 0.25:
        # variant: crates.io DOES serve the exact version (next to an earlier one); only the earlier one is audited,
        # so the crate must fail vetting and nothing may be recorded as "unpublished"
        published = [x for x in published if VERSIONS.index(x) < i][:1] + [v]
        if len(published) == 2:
            reg[p["name"]] = [{"version": x, "by": rng.choice([1, 2, 3]), "when": rng.choice(DATES[:6])} for x in published]
            store["audits"].setdefault(p["name"], []).append(
                {"kind": "full", "version": published[0], "criteria": ["safe-to-deploy"] + [c for c in crits if c not in BUILTINS], "notes": notes()})
            return p["name"]
    reg[p["name"]] = [{"version": x, "by": rng.choice([1, 2, 3]), "when": rng.choice(DATES[:6])} for x in sorted(published, key=VERSIONS.index)]
    if peers_struct and rng.random() < 0.55:
        # variant: nothing recorded yet; the version it is audited as today is audited locally AND a peer serves a full
        # audit of the exact (unpublished) version: two competing ways to certify the crate, one through a record that is
        # fresh on the first run and stale on the next
        ok = [pn for pn, imp in sorted(store["imports"].items())
              if imp["url"][0] in peers_struct and not any(k in BUILTINS for k in imp.get("criteria-map", {}))
              and p["name"] not in imp.get("exclude", [])]
        if ok:
            peer = rng.choice(ok)
            peers_struct[store["imports"][peer]["url"][0]]["audits"].setdefault(p["name"], []).append(
                {"kind": "full", "version": v, "criteria": ["safe-to-deploy"], "notes": notes()})
            store["lock"]["unpublished"].pop(p["name"], None)
            if peer in store["lock"]["audits"]:
                store["lock"]["audits"][peer].get("audits", {}).pop(p["name"], None)
            store["audits"][p["name"]] = [{"kind": "full", "version": cur, "criteria": ["safe-to-deploy"] + [c for c in crits if c not in BUILTINS], "notes": notes()}]
            store["exemptions"].pop(p["name"], None)
            return p["name"]
    recs = [{"version": v, "audited_as": old}]
    r_ = rng.random()
    if r_ < 0.3:
        recs.append({"version": v, "audited_as": cur})
    elif r_ < 0.45:
        # both records from earlier runs, and crates.io has MEANWHILE published the exact version: nothing fresh will be
        # recorded any more, the crate vets only through the recorded link to the audited version
        recs.append({"version": v, "audited_as": cur})
        reg[p["name"]] = reg[p["name"]] + [{"version": v, "by": rng.choice([1, 2, 3]), "when": rng.choice(DATES[3:6])}]
    store["lock"]["unpublished"][p["name"]] = sorted(recs, key=lambda r: VERSIONS.index(r["audited_as"]))
    l = store["audits"].setdefault(p["name"], [])
    l.append({"kind": "full", "version": cur, "criteria": ["safe-to-deploy"] + [c for c in crits if c not in BUILTINS], "notes": notes()})
    if rng.random() < 0.4:
        l.append({"kind": "full", "version": old, "criteria": crit_list(rng, crits), "notes": notes()})
    return p["name"]


ALL_MODES = [
    {"search": "PreferExemptions", "prune_exemptions": False, "prune_audits": False, "prune_imports": False},   # check
    {"search": "PreferFreshImports", "prune_exemptions": True, "prune_audits": True, "prune_imports": True},     # prune / import / regenerate imports
    {"search": "RegenerateExemptions", "prune_exemptions": True, "prune_audits": True, "prune_imports": True},  # init / regenerate exemptions
    {"search": "PreferExemptions", "prune_exemptions": False, "prune_audits": True, "prune_imports": True},     # prune --no-exemptions
    {"search": "PreferFreshImports", "prune_exemptions": True, "prune_audits": False, "prune_imports": False},  # prune --no-audits --no-imports
]


def certify_mode(target):
    return {"search": "PreferFreshImports", "prune_exemptions": True, "prune_audits": True, "prune_imports": False,
            "target": target,
            "other": {"search": "PreferExemptions", "prune_exemptions": False, "prune_audits": False, "prune_imports": False}}


# ---------------------------------------------------------------------------
# command histories on a store directory

def render_remote(peers_struct, registry):
    return {"peers": {url: render_audits_file(f) for url, f in peers_struct.items()}, "registry": registry}


def mutate_remote(rng, peers_struct, registry, versions, notes):
    """a peer adds / revokes / changes audits; crates.io learns a new version"""
    peers_struct = copy.deepcopy(peers_struct)
    registry = copy.deepcopy(registry)
    r = rng.random()
    urls = sorted(peers_struct)
    if urls and r < 0.6:
        f = peers_struct[rng.choice(urls)]
        names = sorted(versions)
        n = rng.choice(names)
        pcrits = BUILTINS + sorted(f.get("criteria", {}))
        if r < 0.35:
            for a in gen_audits_for(rng, n, versions[n], pcrits, notes, False, 0.0) or []:
                f["audits"].setdefault(n, []).append(a)
        elif f["audits"]:
            k = rng.choice(sorted(f["audits"]))
            if rng.random() < 0.5:
                f["audits"][k].pop(rng.randrange(len(f["audits"][k])))
                if not f["audits"][k]:
                    del f["audits"][k]
            else:
                f["audits"][k][0]["criteria"] = crit_list(rng, pcrits)
    else:
        n = rng.choice(sorted(registry["packages"]))
        have = {v["version"] for v in registry["packages"][n]}
        cand = [v for v in VERSIONS if v not in have]
        if cand:
            registry["packages"][n].append({"version": rng.choice(cand), "by": rng.choice([1, 2, 3]), "when": rng.choice(DATES[:6])})
            registry["packages"][n].sort(key=lambda v: v["version"])
    return peers_struct, registry


def gen_history(rng, cid, length=None):
    base = gen_unlocked_case(rng, cid, p_violation=0.0)
    store = base["store_struct"]
    crits = _crits(store)
    versions = _third_versions(base)
    third = sorted({p["name"] for p in base["graph"]["packages"] if p["source"] == "registry"})
    notes = Notes()
    notes.n = 9000
    peers, registry = base["peers_struct"], base["registry"]
    steps = []

    def add(args, fresh_remote=False):
        nonlocal peers, registry
        if fresh_remote:
            peers, registry = mutate_remote(rng, peers, registry, versions, notes)
        steps.append({"args": args, "remote": render_remote(peers, registry)})

    first = rng.random()
    if base.get("boosted_unpublished") and rng.random() < 0.7:
        # the store as generated passes a plain `cargo vet` (stale imports.lock records and all)
        blanket_exemptions(store, base["graph"]["packages"], crits, notes, base["boosted_unpublished"])
        add(["check"])
        if rng.random() < 0.75:
            # the pruning update twice (or followed by a plain check) against the same remote state
            add(["prune"])
            add(["prune"] if rng.random() < 0.6 else ["check"])
    elif base.get("scenario") and rng.random() < 0.75:
        # a planted scenario: everything else is exempted so that the store vets as generated, and the history
        # starts with the commands the scenario is about
        for p in base["graph"]["packages"]:
            if p["name"] in base["scenario"]:
                continue
            blanket_exemptions(store, [p], crits, notes, None)
        add(["check"])
        add(["prune"] if rng.random() < 0.7 else ["regenerate", "imports"])
    elif first < 0.6:
        add(["regenerate", "exemptions"])
    elif first < 0.8:
        add(["check"])
    if peers and rng.random() < 0.35:
        # a peer file as a person writes it: a violation entry (for a version nobody uses) listed BEFORE the audits of a crate
        for url in sorted(peers):
            for n_ in sorted(peers[url].get("audits", {})):
                if peers[url]["audits"][n_] and rng.random() < 0.6:
                    peers[url]["audits"][n_].insert(0, {"kind": "violation", "violation": rng.choice(["=9.9.9", "=99.0.0", "<0.0.1"]),
                                                        "criteria": [rng.choice(["safe-to-run", "safe-to-deploy"])], "notes": notes()})
    if third and rng.random() < 0.15:
        # a hand-written `suggest = false` exemption that covers only PART of what the crate needs; regenerating the
        # exemptions must leave it as written and put the rest into an exemption of its own
        pkg = rng.choice(third)
        v = rng.choice(versions[pkg])
        if "@" not in v:
            store["audits"].pop(pkg, None)
            for tbl in ("wildcard_audits", "trusted"):
                store[tbl].pop(pkg, None)
            for lf in store["lock"]["audits"].values():
                lf.get("audits", {}).pop(pkg, None)
                lf.get("wildcard_audits", {}).pop(pkg, None)
            store["exemptions"][pkg] = [{"version": v, "criteria": ["safe-to-run"], "suggest": False, "notes": "hand-written"}]
            # every dependent asks for safe-to-run AND an independent custom criterion: partial overlap with the exemption
            pk_all = base["graph"]["packages"]
            parents = [q for q in pk_all if any(d["name"] == pkg for d in q["deps"])]
            if parents and all(sum(1 for z in pk_all if z["name"] == q["name"]) == 1 for q in parents):
                store["criteria"].setdefault("crit-ind", {"description": "independent of the built-ins"})
                for q in parents:
                    ent = {k_: v_ for k_, v_ in (store["policy"].get(q["name"]) or {}).items() if k_ != "notes"}
                    ent.setdefault("dependency-criteria", {})[pkg] = ["safe-to-run", "crit-ind"]
                    store["policy"] = {k_: v_ for k_, v_ in store["policy"].items() if k_.split(":")[0] != q["name"]}
                    store["policy"][q["name"]] = ent
            add(["regenerate", "exemptions"])
    if third and rng.random() < 0.12:
        # `trust` next to an existing, STRONGER grant for the same publisher: the user asks for a weaker criterion
        # (or another window); the existing entry is not what was asked about and must stay as it is
        cand = [(pk, sorted({v["by"] for v in registry["packages"].get(pk, []) if v.get("by")})) for pk in third]
        cand = [(pk, us) for pk, us in cand if us]
        if cand:
            pkg, us = rng.choice(cand)
            uid = rng.choice(us)
            strong = rng.choice([["safe-to-deploy"], ["safe-to-deploy"], list(crits)])
            store["trusted"].setdefault(pkg, []).append(
                {"user-id": uid, "start": rng.choice(DATES[1:3]), "end": rng.choice(DATES[5:8]), "criteria": strong, "notes": notes()})
            args = ["trust", pkg, f"user{uid}", "--criteria", "safe-to-run"]
            if rng.random() < 0.5:
                args += ["--start-date", "2021-06-01", "--end-date", rng.choice(["2023-06-01", "2024-01-01"])]
            add(args)
    n = length or rng.randint(2, 5)
    for _ in range(n):
        r = rng.random()
        fresh = rng.random() < 0.3
        if r < 0.25:
            add(["check"], fresh)
        elif r < 0.33:
            add(["check", "--locked"], False)
        elif r < 0.55:
            flags = [f for f in ("--no-imports", "--no-exemptions", "--no-audits") if rng.random() < 0.25]
            add(["prune"] + flags, fresh)
        elif r < 0.63:
            add(["regenerate", "imports"], fresh)
        elif r < 0.71:
            add(["regenerate", "exemptions"], fresh)
        elif r < 0.83 and third:
            pkg = rng.choice(third)
            v = rng.choice(versions[pkg])
            if rng.random() < 0.5:
                args = ["certify", pkg, v]
            else:
                args = ["certify", pkg, rng.choice([x for x in VERSIONS if x != v]), v]
            for c in crit_list(rng, crits):
                args += ["--criteria", c]
            add(args + ["--accept-all", "--who", "tester", "--force"], fresh)
        elif r < 0.90 and third:
            pkg = rng.choice(third)
            args = ["add-exemption", pkg, rng.choice(versions[pkg] + VERSIONS[:2])]
            for c in crit_list(rng, crits):
                args += ["--criteria", c]
            add(args + ["--force"], False)
        elif r < 0.92:
            add(["fmt"], False)
        elif r < 0.94:
            add(["regenerate", "unpublished"], fresh)
        elif r < 0.965 and third:
            # trust a publisher crates.io knows for one of the crates (explicit window or the defaults)
            pkg = rng.choice(third)
            pubs = sorted({v["by"] for v in registry["packages"].get(pkg, []) if v.get("by")})
            if pubs:
                args = ["trust", pkg, f"user{rng.choice(pubs)}"]
                for c in crit_list(rng, crits):
                    args += ["--criteria", c]
                if rng.random() < 0.5:
                    args += ["--start-date", "2021-06-01", "--end-date", rng.choice(["2023-06-01", "2023-12-31"])]
                add(args, fresh)
            else:
                add(["check"], fresh)
        elif r < 0.98 and third:
            pkg = rng.choice(third)
            req = rng.choice(["=9.9.9", "<1.0.0", "=" + rng.choice(versions[pkg]).split("@")[0], "*"])
            args = ["record-violation", pkg, req]
            for c in crit_list(rng, crits):
                args += ["--criteria", c]
            add(args + ["--who", "tester", "--force"], False)
        elif r < 0.99:
            add(["renew", "--expiring"], False)
        else:
            add(["regenerate", "audit-as-crates-io"], fresh)
    case = {"id": cid, "kind": "history", "graph": base["graph"], "store_struct": store,
            "store": render_store(store), "steps": steps}
    return case


def scenario_two_versions_exemption(cid, k=0):
    """deterministic history: two in-graph versions of one crate with DIFFERENT requirements (one a normal dependency,
    needs safe-to-deploy; the other reached through a dev-dependency only, needs safe-to-run), each audited for what it
    needs, plus an exemption for the dev-only version listing safe-to-deploy — which nothing needs of that version.
    `prune` must drop (k=0) or narrow (k=1: no audit for the dev-only version) that exemption."""
    pkgs = [{"name": "wsaaa", "version": "1.0.0", "source": "path", "workspace": True,
             "deps": [{"name": "tpaaa", "version": "3.0.0", "source": "registry", "kinds": ["normal"]},
                      {"name": "tpaaa", "version": "2.0.0", "source": "registry", "kinds": ["dev"]}]},
            {"name": "tpaaa", "version": "3.0.0", "source": "registry", "workspace": False, "deps": []},
            {"name": "tpaaa", "version": "2.0.0", "source": "registry", "workspace": False, "deps": []}]
    audits = [{"kind": "full", "version": "3.0.0", "criteria": ["safe-to-deploy"], "notes": "the one in use"}]
    if k % 2 == 0:
        audits.append({"kind": "full", "version": "2.0.0", "criteria": ["safe-to-run"], "notes": "the dev one"})
    store = {"criteria": {}, "policy": {}, "imports": {}, "audits": {"tpaaa": audits}, "wildcard_audits": {}, "trusted": {},
             "exemptions": {"tpaaa": [{"version": "2.0.0", "criteria": ["safe-to-deploy"], "suggest": True, "notes": "too much"}]},
             "lock": {"audits": {}, "publisher": {}, "unpublished": {}}}
    registry = {"users": [[1, "user1", "User 1"]],
                "packages": {"tpaaa": [{"version": "2.0.0", "by": 1, "when": "2022-01-01"}, {"version": "3.0.0", "by": 1, "when": "2022-06-15"}]},
                "meta": {}}
    remote = render_remote({}, registry)
    cmds = [["check"], ["prune"], ["check"]]
    return {"id": cid, "kind": "history", "graph": {"packages": pkgs}, "store_struct": store,
            "store": render_store(store), "steps": [{"args": a, "remote": remote} for a in cmds]}


def scenario_stale_unpublished(cid, k=0):
    """deterministic history: a path crate declared audit-as-crates-io whose imports.lock holds TWO `unpublished` records
    for its version from earlier runs (audited as 2.0.0 and as 3.0.0), only 3.0.0 is audited, and crates.io has meanwhile
    published the exact version (so nothing fresh is recorded any more): the crate vets through the 3.0.0 record only."""
    pkgs = [{"name": "wsaaa", "version": "1.0.0", "source": "path", "workspace": True,
             "deps": [{"name": "fpxxx", "version": "4.0.0", "source": "path", "kinds": ["normal"]}]},
            {"name": "fpxxx", "version": "4.0.0", "source": "path", "workspace": False, "deps": []}]
    store = {"criteria": {}, "policy": {"fpxxx": {"audit-as-crates-io": True}}, "imports": {}, "exemptions": {},
             "audits": {"fpxxx": [{"kind": "full", "version": "3.0.0", "criteria": ["safe-to-deploy"], "notes": "the audited one"}]},
             "wildcard_audits": {}, "trusted": {},
             "lock": {"audits": {}, "publisher": {},
                      "unpublished": {"fpxxx": [{"version": "4.0.0", "audited_as": "2.0.0"}, {"version": "4.0.0", "audited_as": "3.0.0"}]}}}
    served = ["2.0.0", "3.0.0"] + (["4.0.0"] if k % 2 == 0 else [])
    registry = {"users": [[1, "user1", "User 1"]],
                "packages": {"fpxxx": [{"version": x, "by": 1, "when": "2022-01-01"} for x in served]},
                "meta": {"fpxxx": {"description": "whatever"}}}
    remote = render_remote({}, registry)
    cmds = [["check"], ["check"], ["prune", "--no-exemptions"], ["check", "--locked"]]
    return {"id": cid, "kind": "history", "graph": {"packages": pkgs}, "store_struct": store,
            "store": render_store(store), "steps": [{"args": a, "remote": remote} for a in cmds]}


def gen_unpublished_verdict_case(rng, cid):
    """a path crate declared audit-as-crates-io whose own version crates.io does not serve; crates.io serves one to three
    other versions.  The property: it is vetted as the nearest earlier (else the next later) published version.  Variants:
    that version is fully audited (must pass, unlocked, and locked on the recorded choice even after crates.io has
    published the exact version); only ANOTHER published version is audited (must fail for the crate)."""
    plain = [x for x in VERSIONS if "-" not in x]
    v = rng.choice(plain)
    others = [x for x in plain if x != v]
    served = sorted(rng.sample(others, rng.choice([1, 2, 2, 3])), key=VERSIONS.index)
    me = VERSIONS.index(v)
    below = [x for x in served if VERSIONS.index(x) < me]
    want = below[-1] if below else served[0]
    variant = rng.choice(["audited", "audited", "locked", "locked-published", "other"])
    if variant == "other" and len(served) < 2:
        variant = "audited"
    crit = rng.choice([["safe-to-deploy"], ["safe-to-deploy"], ["safe-to-run", "safe-to-deploy"]])
    audited = want if variant != "other" else rng.choice([x for x in served if x != want])
    pkgs = [{"name": "wsaaa", "version": "1.0.0", "source": "path", "workspace": True,
             "deps": [{"name": "fpxxx", "version": v, "source": "path", "kinds": ["normal"]}]},
            {"name": "fpxxx", "version": v, "source": "path", "workspace": False, "deps": []}]
    store = {"criteria": {}, "policy": {"fpxxx": {"audit-as-crates-io": True}}, "imports": {}, "exemptions": {},
             "audits": {"fpxxx": [{"kind": "full", "version": audited, "criteria": crit, "notes": "a published version"}]},
             "wildcard_audits": {}, "trusted": {}, "lock": {"audits": {}, "publisher": {}, "unpublished": {}}}
    locked = variant.startswith("locked")
    if locked:
        store["lock"]["unpublished"]["fpxxx"] = [{"version": v, "audited_as": want}]
    reg = [{"version": x, "by": 1, "when": "2022-01-01"} for x in served]
    if variant == "locked-published":
        reg = sorted(reg + [{"version": v, "by": 1, "when": "2022-12-31"}], key=lambda r: VERSIONS.index(r["version"]))
    case = {"id": cid, "kind": "resolve", "graph": {"packages": pkgs}, "store_struct": store, "peers_struct": {},
            "registry": {"users": [[1, "user1", "User 1"]], "packages": {"fpxxx": reg}, "meta": {"fpxxx": {"description": "whatever"}}},
            "mode": "locked" if locked else "unlocked", "allow_criteria_changes": True,
            "unpublished_verdict": {"variant": variant, "version": v, "served": served, "stands_in": want, "audited": audited}}
    return finalize(case)


def gen_stale_exclude_case(rng, cid):
    """locked load: one to three imports, one of which excludes a crate (or not); imports.lock may still hold audits or
    wildcard audits for that crate under that very import (from before the exclusion).  Whichever position the
    excluding import has, the stale entries must not be accepted (cargo-vet refuses the load: ImportsLockOutdated)."""
    nimp = rng.choice([1, 2, 2, 3])
    peers = [("peer-aaa", "https://peer-aaa.example/audits.toml"), ("peer-mmm", "https://peer-mmm.example/audits.toml"),
             ("peer-zzz", "https://peer-zzz.example/audits.toml")][:nimp]
    excluding = rng.randrange(nimp)
    stale = rng.random() < 0.75
    where = rng.choice(["audits", "wildcard_audits"])
    pkgs = [{"name": "wsaaa", "version": "1.0.0", "source": "path", "workspace": True,
             "deps": [{"name": "tpaaa", "version": "2.0.0", "source": "registry", "kinds": ["normal"]},
                      {"name": "tpbbb", "version": "1.0.0", "source": "registry", "kinds": ["normal"]}]},
            {"name": "tpaaa", "version": "2.0.0", "source": "registry", "workspace": False, "deps": []},
            {"name": "tpbbb", "version": "1.0.0", "source": "registry", "workspace": False, "deps": []}]
    store = {"criteria": {}, "policy": {}, "imports": {}, "audits": {}, "wildcard_audits": {}, "trusted": {},
             "exemptions": {"tpbbb": [{"version": "1.0.0", "criteria": ["safe-to-deploy"], "suggest": True, "notes": "n"}]},
             "lock": {"audits": {}, "publisher": {"tpaaa": [{"version": "2.0.0", "when": "2022-06-15", "user-id": 1, "user-login": "user1", "user-name": "User 1"}]},
                      "unpublished": {}}}
    for k, (pn, url) in enumerate(peers):
        imp = {"url": [url]}
        lockf = {"criteria": {}, "audits": {}, "wildcard_audits": {}}
        if k == excluding:
            imp["exclude"] = ["tpaaa"] if rng.random() < 0.8 else ["tpaaa", "zz-other"]
            if stale:
                if where == "audits":
                    lockf["audits"]["tpaaa"] = [{"kind": "full", "version": "2.0.0", "criteria": ["safe-to-deploy"], "notes": "from before the exclusion"}]
                else:
                    lockf["wildcard_audits"]["tpaaa"] = [{"user-id": 1, "start": "2022-01-01", "end": "2023-06-01", "criteria": ["safe-to-deploy"], "notes": "from before"}]
        elif rng.random() < 0.5:
            lockf["audits"]["tpbbb"] = [{"kind": "full", "version": "1.0.0", "criteria": ["safe-to-run"], "notes": "harmless"}]
        store["imports"][pn] = imp
        store["lock"]["audits"][pn] = lockf
    case = {"id": cid, "kind": "validate", "graph": {"packages": pkgs}, "store_struct": store, "peers_struct": {},
            "registry": {"users": [[1, "user1", "User 1"]], "packages": {}, "meta": {}}, "mode": "locked", "faults": [],
            "stale_exclude": stale}
    return finalize(case)


def scenario_violation_before_audit(cid, k=0):
    """deterministic history: a peer's file, as a person writes it, lists a violation (for a version nobody uses) BEFORE the
    audit the project needs; imports.lock is empty.  A successful unlocked check must record the needed audit, so that
    `--locked` succeeds on what it wrote."""
    peer, url = PEERS[0]
    pkgs = [{"name": "wsaaa", "version": "1.0.0", "source": "path", "workspace": True,
             "deps": [{"name": "tpaaa", "version": "2.0.0", "source": "registry", "kinds": ["normal"]}]},
            {"name": "tpaaa", "version": "2.0.0", "source": "registry", "workspace": False, "deps": []}]
    store = {"criteria": {}, "policy": {}, "imports": {peer: {"url": [url]}}, "exemptions": {}, "audits": {},
             "wildcard_audits": {}, "trusted": {},
             "lock": {"audits": {peer: {"criteria": {}, "audits": {}, "wildcard_audits": {}}}, "publisher": {}, "unpublished": {}}}
    listed = [{"kind": "violation", "violation": "=9.9.9", "criteria": ["safe-to-run"], "notes": "an old bad release"},
              {"kind": "full", "version": "2.0.0", "criteria": ["safe-to-deploy"], "notes": "the needed one"}]
    if k % 2:
        listed = [listed[0], {"kind": "violation", "violation": "<0.0.1", "criteria": ["safe-to-deploy"], "notes": "another"},
                  {"kind": "full", "version": "1.0.0", "criteria": ["safe-to-deploy"], "notes": "base"},
                  {"kind": "delta", "from": "1.0.0", "to": "2.0.0", "criteria": ["safe-to-deploy"], "notes": "the needed delta"}]
    peers = {url: {"criteria": {}, "audits": {"tpaaa": listed}, "wildcard_audits": {}, "trusted": {}}}
    registry = {"users": [[1, "user1", "User 1"]], "packages": {"tpaaa": [{"version": "2.0.0", "by": 1, "when": "2022-01-01"}]}, "meta": {}}
    remote = render_remote(peers, registry)
    cmds = [["check"], ["check", "--locked"], ["prune"], ["check", "--locked"]]
    return {"id": cid, "kind": "history", "graph": {"packages": pkgs}, "store_struct": store,
            "store": render_store(store), "steps": [{"args": a, "remote": remote} for a in cmds]}


def scenario_unmapped_before_needed(cid, k=0):
    """deterministic history: a peer's file lists, BEFORE the audit the project needs, an audit for a criterion of the
    peer's own that the import does not map (it means nothing here); imports.lock is empty.  A successful unlocked check
    must record the needed audit, so that `--locked` succeeds on what it wrote."""
    peer, url = PEERS[0]
    pkgs = [{"name": "wsaaa", "version": "1.0.0", "source": "path", "workspace": True,
             "deps": [{"name": "tpaaa", "version": "2.0.0", "source": "registry", "kinds": ["normal"]}]},
            {"name": "tpaaa", "version": "2.0.0", "source": "registry", "workspace": False, "deps": []}]
    store = {"criteria": {}, "policy": {}, "imports": {peer: {"url": [url]}}, "exemptions": {}, "audits": {},
             "wildcard_audits": {}, "trusted": {},
             "lock": {"audits": {peer: {"criteria": {}, "audits": {}, "wildcard_audits": {}}}, "publisher": {}, "unpublished": {}}}
    listed = [{"kind": "full", "version": ["1.0.0", "2.0.0"][k % 2], "criteria": ["peer-x"], "notes": "means nothing to the importer"},
              {"kind": "full", "version": "2.0.0", "criteria": ["safe-to-deploy"], "notes": "the needed one"}]
    if k % 2:
        listed.insert(1, {"kind": "delta", "from": "1.0.0", "to": "2.0.0", "criteria": ["peer-x"], "notes": "nor does this"})
    peers = {url: {"criteria": {"peer-x": {"description": "the peer's own"}}, "audits": {"tpaaa": listed}, "wildcard_audits": {}, "trusted": {}}}
    registry = {"users": [[1, "user1", "User 1"]], "packages": {"tpaaa": [{"version": "2.0.0", "by": 1, "when": "2022-01-01"}]}, "meta": {}}
    remote = render_remote(peers, registry)
    cmds = [["check"], ["check", "--locked"], ["prune"], ["check", "--locked"]]
    return {"id": cid, "kind": "history", "graph": {"packages": pkgs}, "store_struct": store,
            "store": render_store(store), "steps": [{"args": a, "remote": remote} for a in cmds]}


def scenario_duplicate_exemptions(cid, k=0):
    """deterministic history: config.toml lists one exemption twice (a hand merge), followed by (k=0) or after (k=1) the
    exemption of the other version in use; nothing else certifies the crate.  The store passes; every store-rewriting
    command must leave it passing."""
    pkgs = [{"name": "wsaaa", "version": "1.0.0", "source": "path", "workspace": True,
             "deps": [{"name": "tpaaa", "version": "2.0.0", "source": "registry", "kinds": ["normal"]},
                      {"name": "tpbbb", "version": "1.0.0", "source": "registry", "kinds": ["normal"]}]},
            {"name": "tpaaa", "version": "2.0.0", "source": "registry", "workspace": False, "deps": []},
            {"name": "tpaaa", "version": "1.0.0", "source": "registry", "workspace": False, "deps": []},
            {"name": "tpbbb", "version": "1.0.0", "source": "registry", "workspace": False,
             "deps": [{"name": "tpaaa", "version": "1.0.0", "source": "registry", "kinds": ["normal"]}]}]
    dup = {"version": "1.0.0", "criteria": ["safe-to-deploy"], "suggest": True, "notes": "merged twice"}
    other = {"version": "2.0.0", "criteria": ["safe-to-deploy"], "suggest": True, "notes": "the other version"}
    ex = [dict(dup), dict(dup), other] if k % 2 == 0 else [other, dict(dup), dict(dup)]
    store = {"criteria": {}, "policy": {}, "imports": {}, "audits": {}, "wildcard_audits": {}, "trusted": {},
             "exemptions": {"tpaaa": ex, "tpbbb": [{"version": "1.0.0", "criteria": ["safe-to-deploy"], "suggest": True, "notes": "n"}]},
             "lock": {"audits": {}, "publisher": {}, "unpublished": {}}}
    registry = {"users": [[1, "user1", "User 1"]], "packages": {}, "meta": {}}
    remote = render_remote({}, registry)
    cmds = [[["prune"], ["check", "--locked"], ["prune"]],
            [["check"], ["prune"], ["check", "--locked"]]][k % 2]
    return {"id": cid, "kind": "history", "graph": {"packages": pkgs}, "store_struct": store,
            "store": render_store(store), "steps": [{"args": a, "remote": remote} for a in cmds]}


def scenario_trusted_vs_recorded_audit(cid, k=0):
    """deterministic history: a crate must meet two criteria that do not imply each other; a peer audit for ONE of them is
    already recorded in imports.lock; the project trusts the crate's publisher for BOTH, and no publisher record has been
    fetched yet.  On the unchanged tree `prune` reaches a fixed point at once (the recorded audit keeps winning the tie
    against the trusted entry once the publisher record is no longer fresh), so a second prune, and the check after it,
    change nothing.  `strict`: the known finding F-C13-prune does not list this history."""
    peer, url = PEERS[0]
    pkgs = [{"name": "wsaaa", "version": "1.0.0", "source": "path", "workspace": True,
             "deps": [{"name": "tpaaa", "version": "2.0.0", "source": "registry", "kinds": ["normal"]}]},
            {"name": "tpaaa", "version": "2.0.0", "source": "registry", "workspace": False, "deps": []}]
    audit = {"kind": "full", "version": "2.0.0", "criteria": ["safe-to-deploy"], "notes": "recorded earlier"}
    imp = {"url": [url]}
    ptable = {}
    paudit = dict(audit)
    if k % 2:
        ptable = {"peer-x": {"description": "the peer's own"}}
        imp["criteria-map"] = {"peer-x": ["crit-a"]}
        paudit["criteria"] = ["peer-x"]
        audit["criteria"] = ["crit-a"]
    store = {"criteria": {"crit-a": {"description": "a second, independent criterion", "implies": []}},
             "policy": {"wsaaa": {"criteria": ["safe-to-deploy", "crit-a"]}}, "imports": {peer: imp}, "exemptions": {}, "audits": {},
             "wildcard_audits": {},
             "trusted": {"tpaaa": [{"user-id": 1, "start": "2022-01-01", "end": "2023-06-01", "criteria": ["safe-to-deploy", "crit-a"], "notes": "trusted"}]},
             "lock": {"audits": {peer: {"criteria": {k_: {"description": v["description"]} for k_, v in ptable.items()},
                                        "audits": {"tpaaa": [audit]}, "wildcard_audits": {}}}, "publisher": {}, "unpublished": {}}}
    peers = {url: {"criteria": ptable, "audits": {"tpaaa": [paudit]}, "wildcard_audits": {}, "trusted": {}}}
    registry = {"users": [[1, "user1", "User 1"]], "packages": {"tpaaa": [{"version": "2.0.0", "by": 1, "when": "2022-06-15"}]}, "meta": {}}
    remote = render_remote(peers, registry)
    cmds = [[["prune"], ["prune"], ["check"], ["prune"]],
            [["check"], ["prune"], ["check"], ["regenerate", "imports"]]][k % 2]
    return {"id": cid, "kind": "history", "strict": True, "graph": {"packages": pkgs}, "store_struct": store,
            "store": render_store(store), "steps": [{"args": a, "remote": remote} for a in cmds]}


GITREV2 = "89abcdef0123456789abcdef0123456789abcdef"


def scenario_certify_collapse(cid, k=0):
    """deterministic history: a git-sourced crate audited as crates.io; audits.toml holds a full audit of the published
    version and a NON-importable delta from it to an earlier revision of the fork, recorded for a WEAKER criterion.  The
    user certifies the delta from that revision to the revision in use for a STRONGER criterion (k=0: built-ins; k=1: custom
    criteria; k=2: the same criterion — the one case in which cargo-vet may fold the two deltas into one).  A record for the
    weaker criterion must not come to count for the stronger one."""
    old, cur = "2.0.0@git:" + GITREV2, "2.0.0@git:" + GITREV
    pkgs = [{"name": "wsaaa", "version": "1.0.0", "source": "path", "workspace": True,
             "deps": [{"name": "fgaaa", "version": "2.0.0", "source": "git:" + GITREV, "kinds": ["normal"]}]},
            {"name": "fgaaa", "version": "2.0.0", "source": "git:" + GITREV, "workspace": False, "deps": []}]
    table = {}
    strong, weak = ["safe-to-deploy"], ["safe-to-run"]
    if k % 3 == 1:
        table = {"crit-a": {"description": "strong", "implies": ["crit-b"]}, "crit-b": {"description": "weak", "implies": []}}
        strong, weak = ["crit-a"], ["crit-b"]
    if k % 3 == 2:
        weak = strong
    if k == 3:
        # two INDEPENDENT criteria are certified at once, the prior audit was recorded for one of them only: its list is a
        # sub-list of the new one, its meaning is not the new one's
        table = {"crit-a": {"description": "one", "implies": []}, "crit-b": {"description": "other", "implies": []}}
        strong, weak = ["crit-a", "crit-b"], ["crit-a"]
    store = {"criteria": table, "policy": {"fgaaa": {"audit-as-crates-io": True}}, "imports": {}, "exemptions": {},
             "audits": {"fgaaa": [{"kind": "full", "version": "2.0.0", "criteria": ["safe-to-deploy"] + (strong if table else []), "notes": "the release"},
                                  {"kind": "delta", "from": "2.0.0", "to": old, "criteria": weak, "importable": False, "notes": "first look at the fork"}]},
             "wildcard_audits": {}, "trusted": {}, "lock": {"audits": {}, "publisher": {}, "unpublished": {}}}
    if table:
        store["policy"]["wsaaa"] = {"criteria": ["safe-to-deploy"] + sorted(table if k == 3 else ["crit-a"])}
    registry = {"users": [[1, "user1", "User 1"]], "packages": {"fgaaa": [{"version": "2.0.0", "by": 1, "when": "2022-01-01"}]},
                "meta": {"fgaaa": {"description": "whatever"}}}
    remote = render_remote({}, registry)
    cert = ["certify", "fgaaa", old, cur]
    for c in strong:
        cert += ["--criteria", c]
    cmds = [cert + ["--accept-all", "--who", "tester", "--force"], ["check"], ["check", "--locked"]]
    return {"id": cid, "kind": "history", "graph": {"packages": pkgs}, "store_struct": store,
            "store": render_store(store), "steps": [{"args": a, "remote": remote} for a in cmds],
            "certify_collapse": {"weak": weak, "strong": strong}}


def scenario_certify_guess(cid, k=0):
    """deterministic history: `certify <crate> <from> <to>` WITHOUT --criteria — cargo-vet pre-selects the criteria itself
    (guess_audit_criteria) and the user presses ENTER.
    k=0: the version in use passes only through a `suggest = true` exemption and <from> is not audited at all: nothing
         connects, nothing may be pre-selected (the command ends with "no criteria chosen");
    k=1: the same, but <from> carries a full audit for safe-to-deploy: safe-to-deploy is pre-selected and recorded;
    k=2: the version in use FAILS (no exemption), <from> is audited for safe-to-run only, the crate needs safe-to-deploy:
         only safe-to-run connects;
    k=3: as k=1 with a custom criterion the crate also needs and <from> is not audited for: only safe-to-deploy connects."""
    pkgs = [{"name": "wsaaa", "version": "1.0.0", "source": "path", "workspace": True,
             "deps": [{"name": "tpaaa", "version": "2.0.0", "source": "registry", "kinds": ["normal"]}]},
            {"name": "tpaaa", "version": "2.0.0", "source": "registry", "workspace": False, "deps": []}]
    store = {"criteria": {}, "policy": {}, "imports": {}, "exemptions": {}, "audits": {}, "wildcard_audits": {}, "trusted": {},
             "lock": {"audits": {}, "publisher": {}, "unpublished": {}}}
    need = ["safe-to-deploy"]
    if k % 4 == 3:
        store["criteria"] = {"crit-a": {"description": "another", "implies": []}}
        store["policy"]["wsaaa"] = {"criteria": ["safe-to-deploy", "crit-a"]}
        need = ["safe-to-deploy", "crit-a"]
    if k % 4 in (0, 1, 3):
        store["exemptions"]["tpaaa"] = [{"version": "2.0.0", "criteria": need, "suggest": True, "notes": "as after init"}]
    if k % 4 in (1, 3):
        store["audits"]["tpaaa"] = [{"kind": "full", "version": "1.0.0", "criteria": ["safe-to-deploy"], "notes": "the old release"}]
    if k % 4 == 2:
        store["audits"]["tpaaa"] = [{"kind": "full", "version": "1.0.0", "criteria": ["safe-to-run"], "notes": "the old release, lightly"}]
    registry = {"users": [[1, "user1", "User 1"]], "packages": {"tpaaa": [{"version": "1.0.0", "by": 1, "when": "2022-01-01"},
                                                                            {"version": "2.0.0", "by": 1, "when": "2022-06-15"}]}, "meta": {}}
    remote = render_remote({}, registry)
    cmds = [["certify", "tpaaa", "1.0.0", "2.0.0", "--accept-all", "--who", "tester", "--force"], ["check"], ["check", "--locked"]]
    if k in (4, 5):
        # a git-revision dependency audited as crates.io: a revision is its own version, whatever its semver part says
        cur, stale = "2.0.0@git:" + GITREV, "2.0.0@git:" + GITREV2
        pkgs = [{"name": "wsaaa", "version": "1.0.0", "source": "path", "workspace": True,
                 "deps": [{"name": "tpaaa", "version": "2.0.0", "source": "git:" + GITREV, "kinds": ["normal"]}]},
                {"name": "tpaaa", "version": "2.0.0", "source": "git:" + GITREV, "workspace": False, "deps": []}]
        store["policy"] = {"tpaaa": {"audit-as-crates-io": True}}
        store["exemptions"] = {}
        registry = {"users": [[1, "user1", "User 1"]], "packages": {"tpaaa": [{"version": "2.0.0", "by": 1, "when": "2022-06-15"}]},
                    "meta": {"tpaaa": {"description": "whatever"}}}
        remote = render_remote({}, registry)
        if k == 4:
            # the release is audited, the revision in use is not; the user certifies the delta to ANOTHER revision: nothing connects
            store["audits"] = {"tpaaa": [{"kind": "full", "version": "2.0.0", "criteria": ["safe-to-deploy"], "notes": "the release"}]}
            cmds[0] = ["certify", "tpaaa", "2.0.0", stale, "--accept-all", "--who", "tester", "--force"]
        else:
            # a delta from the release to the revision in use exists for safe-to-run; the user certifies the RELEASE in full: only
            # safe-to-run connects
            store["audits"] = {"tpaaa": [{"kind": "delta", "from": "2.0.0", "to": cur, "criteria": ["safe-to-run"], "importable": False, "notes": "light"}]}
            cmds[0] = ["certify", "tpaaa", "2.0.0", "--accept-all", "--who", "tester", "--force"]
    steps = [{"args": a, "remote": remote} for a in cmds]
    steps[0]["remote"] = dict(remote, enter=True)         # the user presses ENTER at the criteria prompt
    return {"id": cid, "kind": "history", "graph": {"packages": pkgs}, "store_struct": store,
            "store": render_store(store), "steps": steps}


def boost_violation_second_exemption(rng, case):
    """one crate with TWO exemptions inside the range of one violation entry: the one listed first is for a version reached
    through a dev-dependency only and claims safe-to-run, the one listed second claims the violated criterion
    (safe-to-deploy): the conflict with the SECOND exemption must be reported whatever the first one says"""
    store = case["store_struct"]
    pkgs = case["graph"]["packages"]
    ws = [p for p in pkgs if p["workspace"]]
    dp, notes = _isolate_crate(rng, case, 4800)
    if dp is None or not ws:
        return case
    lo = rng.choice([x for x in VERSIONS if "-" not in x and x != dp["version"]])
    pkgs.append({"name": dp["name"], "version": lo, "source": "registry", "workspace": False, "deps": []})
    ws[0]["deps"].append({"name": dp["name"], "version": lo, "source": "registry", "kinds": ["dev"]})
    a = {"version": lo, "criteria": ["safe-to-run"], "suggest": True, "notes": notes()}
    b = {"version": dp["version"], "criteria": ["safe-to-deploy"], "suggest": rng.random() < 0.5, "notes": notes()}
    store["exemptions"][dp["name"]] = [a, b]
    viol = {"kind": "violation", "violation": rng.choice(["*", ">=0.0.1"]), "criteria": ["safe-to-deploy"], "notes": notes()}
    if store["lock"]["audits"] and rng.random() < 0.4:
        peer = sorted(store["lock"]["audits"])[0]
        store["lock"]["audits"][peer].setdefault("audits", {})[dp["name"]] = [viol]
    else:
        store["audits"][dp["name"]] = [viol]
    for k_ in [k_ for k_ in store["policy"] if k_.split(":")[0] == dp["name"]]:
        del store["policy"][k_]
    return case


def scenario_shared_exemption_two_needs(cid, k=0):
    """deterministic history: two in-graph versions of one crate vetted through the SAME exemption (of the lower version; a
    delta audit leads on to the higher one) for DIFFERENT criteria — the lower version, reached through a parent whose policy
    asks for crit-a (k=0) / as a normal dependency (k=1), needs more than the higher one.  A pruning update must write an
    exemption that still means everything it is needed for: the store keeps passing."""
    hi_need, lo_need = (["safe-to-deploy"], ["safe-to-deploy", "crit-a"]) if k % 2 == 0 else (["safe-to-run"], ["safe-to-deploy"])
    pkgs = [{"name": "wsaaa", "version": "1.0.0", "source": "path", "workspace": True,
             "deps": [{"name": "tpaaa", "version": "2.0.0", "source": "registry", "kinds": ["normal"] if k % 2 == 0 else ["dev"]},
                      {"name": "tpbbb", "version": "1.0.0", "source": "registry", "kinds": ["normal"]}]},
            {"name": "tpaaa", "version": "2.0.0", "source": "registry", "workspace": False, "deps": []},
            {"name": "tpaaa", "version": "1.0.0", "source": "registry", "workspace": False, "deps": []},
            {"name": "tpbbb", "version": "1.0.0", "source": "registry", "workspace": False,
             "deps": [{"name": "tpaaa", "version": "1.0.0", "source": "registry", "kinds": ["normal"]}]}]
    table = {"crit-a": {"description": "another", "implies": []}} if k % 2 == 0 else {}
    policy = {"tpbbb:1.0.0": {"dependency-criteria": {"tpaaa": lo_need}}} if k % 2 == 0 else {}
    every = sorted(set(hi_need) | set(lo_need), key=lambda c: (c not in BUILTINS, c))
    store = {"criteria": table, "policy": policy, "imports": {},
             "audits": {"tpaaa": [{"kind": "delta", "from": "1.0.0", "to": "2.0.0", "criteria": every, "notes": "the step up"}]},
             "wildcard_audits": {}, "trusted": {},
             "exemptions": {"tpaaa": [{"version": "1.0.0", "criteria": every, "suggest": True, "notes": "the shared one"}],
                            "tpbbb": [{"version": "1.0.0", "criteria": ["safe-to-deploy"], "suggest": True, "notes": "n"}]},
             "lock": {"audits": {}, "publisher": {}, "unpublished": {}}}
    registry = {"users": [[1, "user1", "User 1"]], "packages": {}, "meta": {}}
    remote = render_remote({}, registry)
    cmds = [[["prune"], ["check", "--locked"], ["prune"]], [["check"], ["prune"], ["check", "--locked"]]][k % 2]
    return {"id": cid, "kind": "history", "graph": {"packages": pkgs}, "store_struct": store,
            "store": render_store(store), "steps": [{"args": a, "remote": remote} for a in cmds]}


def scenario_lapsed_peer_wildcard(cid, k=0):
    """deterministic history: a crate certified ONLY by a peer's wildcard audit whose window ended before today (it still
    vouches for what was published inside the window) and the matching publisher record, both in imports.lock and still served.
    The store passes; `prune` / `regenerate imports` must leave it passing."""
    peer, url = PEERS[0]
    pkgs = [{"name": "wsaaa", "version": "1.0.0", "source": "path", "workspace": True,
             "deps": [{"name": "tpaaa", "version": "2.0.0", "source": "registry", "kinds": ["normal"]}]},
            {"name": "tpaaa", "version": "2.0.0", "source": "registry", "workspace": False, "deps": []}]
    w = {"user-id": 1, "start": "2022-01-01", "end": ["2022-12-31", "2022-06-15"][k % 2], "criteria": ["safe-to-deploy"], "notes": "lapsed"}
    pub = {"version": "2.0.0", "when": "2022-06-15", "user-id": 1, "user-login": "user1", "user-name": "User 1"}
    store = {"criteria": {}, "policy": {}, "imports": {peer: {"url": [url]}}, "exemptions": {}, "audits": {}, "wildcard_audits": {}, "trusted": {},
             "lock": {"audits": {peer: {"criteria": {}, "audits": {}, "wildcard_audits": {"tpaaa": [dict(w)]}}},
                      "publisher": {"tpaaa": [pub]}, "unpublished": {}}}
    peers = {url: {"criteria": {}, "audits": {}, "wildcard_audits": {"tpaaa": [dict(w)]}, "trusted": {}}}
    registry = {"users": [[1, "user1", "User 1"]], "packages": {"tpaaa": [{"version": "2.0.0", "by": 1, "when": "2022-06-15"}]}, "meta": {}}
    remote = render_remote(peers, registry)
    cmds = [[["prune"], ["check", "--locked"], ["check"]], [["regenerate", "imports"], ["check", "--locked"], ["prune"]]][k % 2]
    return {"id": cid, "kind": "history", "graph": {"packages": pkgs}, "store_struct": store,
            "store": render_store(store), "steps": [{"args": a, "remote": remote} for a in cmds]}


def scenario_overlap_redundant_exemption(cid, k=0):
    """deterministic history: one crate NAME used by a path package (first party; its policy says audit-as-crates-io = false)
    and by a crates.io package of another version; the crates.io version is fully audited AND still exempted (k=1: the exemption
    lists more than is needed).  `prune` must drop the exemption: the crate is certified from audits alone.  (k=2: instead of a
    local audit a peer serves the audit, nothing is recorded yet: the check must record it so that --locked passes.)"""
    fp_v, tp_v = [("1.0.0", "2.0.0"), ("1.0.0", "2.0.0"), ("1.0.0", "2.0.0")][k % 3]
    peer, url = PEERS[0]
    pkgs = [{"name": "wsaaa", "version": "1.0.0", "source": "path", "workspace": True,
             "deps": [{"name": "tpaaa", "version": fp_v, "source": "path", "kinds": ["normal"]},
                      {"name": "tpbbb", "version": "1.0.0", "source": "registry", "kinds": ["normal"]}]},
            {"name": "tpaaa", "version": fp_v, "source": "path", "workspace": False, "deps": []},
            {"name": "tpaaa", "version": tp_v, "source": "registry", "workspace": False, "deps": []},
            {"name": "tpbbb", "version": "1.0.0", "source": "registry", "workspace": False,
             "deps": [{"name": "tpaaa", "version": tp_v, "source": "registry", "kinds": ["normal"]}]}]
    audit = {"kind": "full", "version": tp_v, "criteria": ["safe-to-deploy"], "notes": "the crates.io one"}
    store = {"criteria": {}, "policy": {"tpaaa": {"audit-as-crates-io": False}}, "imports": {}, "audits": {}, "wildcard_audits": {}, "trusted": {},
             "exemptions": {"tpbbb": [{"version": "1.0.0", "criteria": ["safe-to-deploy"], "suggest": True, "notes": "n"}]},
             "lock": {"audits": {}, "publisher": {}, "unpublished": {}}}
    peers = {}
    if k % 3 == 2:
        store["imports"][peer] = {"url": [url]}
        store["lock"]["audits"][peer] = {"criteria": {}, "audits": {}, "wildcard_audits": {}}
        peers = {url: {"criteria": {}, "audits": {"tpaaa": [audit]}, "wildcard_audits": {}, "trusted": {}}}
        cmds = [["check"], ["check", "--locked"], ["prune"], ["check", "--locked"]]
    else:
        store["audits"]["tpaaa"] = [audit]
        store["exemptions"]["tpaaa"] = [{"version": tp_v, "criteria": ["safe-to-deploy"] if k % 3 == 0 else ["safe-to-deploy", "safe-to-run"],
                                         "suggest": True, "notes": "no longer needed"}]
        cmds = [["prune"], ["check"], ["check", "--locked"]]
    registry = {"users": [[1, "user1", "User 1"]], "packages": {"tpaaa": [{"version": tp_v, "by": 1, "when": "2022-06-15"}]},
                "meta": {"tpaaa": {"description": "something else entirely"}}}
    remote = render_remote(peers, registry)
    return {"id": cid, "kind": "history", "graph": {"packages": pkgs}, "store_struct": store,
            "store": render_store(store), "steps": [{"args": a, "remote": remote} for a in cmds]}


def scenario_unpublished_vs_peer(cid, k=0):
    """deterministic history: a path crate declared audit-as-crates-io whose version crates.io does not serve; the closest
    published version is audited locally, a configured peer serves a full audit of the exact version, imports.lock records
    nothing yet.  The pruning update is then run repeatedly against the same remote state (and a plain check after it):
    two ways of certifying the crate compete, one of them through a record that is fresh on the first run only."""
    v, cur = [("4.0.0", "3.0.0"), ("5.0.0", "4.0.0"), ("4.0.0", "2.0.0")][k % 3]
    pkgs = [{"name": "wsaaa", "version": "1.0.0", "source": "path", "workspace": True,
             "deps": [{"name": "fpxxx", "version": v, "source": "path", "kinds": ["normal"]}]},
            {"name": "fpxxx", "version": v, "source": "path", "workspace": False, "deps": []}]
    peer, url = PEERS[0]
    store = {"criteria": {}, "policy": {"fpxxx": {"audit-as-crates-io": True}},
             "imports": {peer: {"url": [url]}}, "exemptions": {},
             "audits": {"fpxxx": [{"kind": "full", "version": cur, "criteria": ["safe-to-deploy"], "notes": "the published one"}]},
             "wildcard_audits": {}, "trusted": {},
             "lock": {"audits": {peer: {"criteria": {}, "audits": {}, "wildcard_audits": {}}}, "publisher": {}, "unpublished": {}}}
    peers = {url: {"criteria": {}, "audits": {"fpxxx": [{"kind": "full", "version": v, "criteria": ["safe-to-deploy"], "notes": "peer audit of the fork"}]},
                   "wildcard_audits": {}, "trusted": {}}}
    registry = {"users": [[1, "user1", "User 1"]], "packages": {"fpxxx": [{"version": cur, "by": 1, "when": "2022-01-01"}]},
                "meta": {"fpxxx": {"description": "whatever"}}}
    remote = render_remote(peers, registry)
    cmds = [[["prune"], ["prune"], ["check"], ["prune"]],
            [["check"], ["prune"], ["check"], ["prune"]],
            [["prune"], ["check"], ["prune"], ["regenerate", "imports"]]][k % 3]
    return {"id": cid, "kind": "history", "graph": {"packages": pkgs}, "store_struct": store,
            "store": render_store(store), "steps": [{"args": a, "remote": remote} for a in cmds]}


# ---------------------------------------------------------------------------
# import cases (C07/C08/C06): richer peers, criteria-maps, exclude, multi-URL, junk

JUNK_AUDITS = [
    'criteria = "safe-to-deploy"\nversion = "1.0.0"\nfuture-field = true\n',          # unknown field
    'criteria = "safe-to-deploy"\nversion = 7\n',                                       # wrong type
    'criteria = "no-such-criteria"\nversion = "1.0.0"\n',                               # unknown criteria only
    'criteria = "safe-to-deploy"\nversion = "1.0.0"\ndelta = "1.0.0 -> 2.0.0"\n',       # two kinds
    'criteria = "safe-to-deploy"\ndelta = "2.0.0"\n',                                   # delta without from
    'who = 12\ncriteria = "safe-to-run"\nversion = "1.0.0"\n',
]
JUNK_WILD = [
    'criteria = "safe-to-deploy"\nuser-id = "one"\nstart = "2022-01-01"\nend = "2023-01-01"\n',
    'criteria = "safe-to-deploy"\nuser-id = 1\nstart = "2022-01-01"\n',
    'criteria = "mystery"\nuser-id = 1\nstart = "2022-01-01"\nend = "2023-01-01"\n',
]


def junk_entries_for(name, version):
    """ill-formed entries a peer might serve for one crate version: each would, if it were read as an audit of that version,
    certify it for safe-to-deploy"""
    return [
        f'[[audits.{name}]]\ncriteria = "safe-to-deploy"\nversion = "{version}"\nviolation = "*"\n',            # two kinds
        f'[[audits.{name}]]\ncriteria = "safe-to-deploy"\nversion = "{version}"\ndelta = "0.0.1 -> 0.0.2"\n',      # two kinds
        f'[[audits.{name}]]\ncriteria = "safe-to-deploy"\ndelta = "{version}"\n',                                  # delta without from
        f'[[audits.{name}]]\ncriteria = "safe-to-deploy"\nversion = "{version}"\nfuture-field = true\n',           # unknown field
        f'[[audits.{name}]]\ncriteria = ["no-such-criteria"]\nversion = "{version}"\n',                            # unknown criteria only
        f'[[audits.{name}]]\ncriteria = "safe-to-deploy"\nversion = "{version}"\nimportable = false\n',            # not importable
        f'[[audits.{name}]]\nwho = 12\ncriteria = "safe-to-deploy"\nversion = "{version}"\n',                       # wrong type
    ]


def gen_junk_verdict_case(rng, cid):
    """unlocked: one crates.io crate of the graph has NO record at all, everything else is exempted, and a configured peer
    serves only ill-formed (or non-importable) entries for it: vet must fail for that crate — bad entries are skipped, they never
    count"""
    for _ in range(20):
        case = gen_unlocked_case(rng, cid, p_violation=0.0)
        store = case["store_struct"]
        peers = case.get("peers_struct") or {}
        ok = [pn for pn, imp in sorted(store["imports"].items())
              if imp["url"][0] in peers and not any(k in BUILTINS for k in imp.get("criteria-map", {}))]
        if ok:
            break
    else:
        return None
    dp, notes = _isolate_crate(rng, case, 4600)
    if dp is None:
        return None
    peer = rng.choice(ok)
    imp = store["imports"][peer]
    imp["exclude"] = [x for x in imp.get("exclude", []) if x != dp["name"]]
    if not imp["exclude"]:
        imp.pop("exclude", None)
    for pf in peers.values():
        for tbl in ("audits", "wildcard_audits", "trusted"):
            pf.get(tbl, {}).pop(dp["name"], None)
    case["registry"]["packages"][dp["name"]] = [{"version": dp["version"], "by": None, "when": "2022-06-15"}]
    case.pop("scenario", None)
    case.pop("boosted_unpublished", None)
    case = finalize(case)
    url = imp["url"][0]
    junk = rng.sample(junk_entries_for(dp["name"], vstr(dp)), rng.choice([1, 2, 3]))
    case["peers"] = dict(case["peers"])
    case["peers"][url] = case["peers"][url] + "\n" + "\n".join(junk)
    case["junk_for"] = dp["name"]
    case["junk"] = junk
    return case


def add_junk(rng, text, names):
    """append malformed / future-format entries to a rendered peer file"""
    out = text
    for _ in range(rng.randint(1, 4)):
        n = rng.choice(names)
        if rng.random() < 0.7:
            out += f"\n[[audits.{n}]]\n" + rng.choice(JUNK_AUDITS)
        else:
            out += f"\n[[wildcard-audits.{n}]]\n" + rng.choice(JUNK_WILD)
    if rng.random() < 0.3:
        out += '\n[criteria.weird]\ndescription = "x"\nimplies = 5\n'
    return out


def gen_import_case(rng, cid):
    pkgs = gen_graph(rng)
    store = gen_store(rng, pkgs, p_violation=0.1, with_imports=False)
    notes = Notes()
    notes.n = 7000
    crits = _crits(store)
    versions = {}
    for p in pkgs:
        versions.setdefault(p["name"], []).append(vstr(p))
    names = sorted(versions)
    # audit-as-crates-io for some path packages (unpublished entries)
    for p in pkgs:
        if p["source"] == "path" and not p["workspace"] and rng.random() < 0.5:
            same = [q for q in pkgs if q["name"] == p["name"]]
            key = p["name"] if len(same) == 1 else f"{p['name']}:{vstr(p)}"
            if len(same) == 1 or all(f"{q['name']}:{vstr(q)}" in store["policy"] or q is p for q in same):
                ent = store["policy"].setdefault(key, {})
                ent["audit-as-crates-io"] = True
    peers_struct = {}
    peer_text_extra = {}
    for k, (peer, url) in enumerate(PEERS[:rng.choice([1, 1, 2])]):
        urls = [url] + ([url.replace("audits", "more")] if rng.random() < 0.3 else [])
        ptable = {}
        order = ["peer-x", "peer-y"][:rng.choice([0, 1, 2, 2])]
        for i, nm in enumerate(order):
            later = order[i + 1:] + BUILTINS
            ptable[nm] = {"description": f"desc {nm}", "implies": rng.sample(later, rng.choice([0, 1, 1, 2]))}
        cmap = {}
        for nm in ptable:
            if rng.random() < 0.7:
                cmap[nm] = crit_list(rng, crits, allow_empty=True)
        if rng.random() < 0.25:
            cmap["safe-to-deploy"] = rng.choice([[], ["safe-to-run"], crit_list(rng, crits)])
        if rng.random() < 0.15:
            cmap["safe-to-run"] = rng.choice([[], crit_list(rng, crits)])
        imp = {"url": urls}
        if cmap:
            imp["criteria-map"] = cmap
        if rng.random() < 0.4:
            imp["exclude"] = rng.sample(names, min(len(names), rng.choice([1, 1, 2])))
        store["imports"][peer] = imp
        pcrits = BUILTINS + sorted(ptable)
        lockf = {"criteria": {}, "audits": {}, "wildcard_audits": {}}
        for u in urls:
            pf = {"criteria": copy.deepcopy(ptable), "audits": {}, "wildcard_audits": {}, "trusted": {}}
            for n in names:
                if rng.random() < 0.7:
                    l = gen_audits_for(rng, n, versions.get(n, []), pcrits, notes, True, 0.15)
                    for a in l:
                        pf["audits"].setdefault(n, []).append(a)
                        if a.get("importable") is not False and n not in imp.get("exclude", []) and rng.random() < 0.4:
                            la = dict(a)
                            la["criteria"] = localise(store, ptable, cmap, a["criteria"])
                            lockf["audits"].setdefault(n, []).append(la)
                if rng.random() < 0.35:
                    for w in gen_wildcards(rng, pcrits, notes):
                        pf["wildcard_audits"].setdefault(n, []).append(w)
                        if rng.random() < 0.4 and n not in imp.get("exclude", []):
                            lw = dict(w)
                            lw["criteria"] = localise(store, ptable, cmap, w["criteria"])
                            lockf["wildcard_audits"].setdefault(n, []).append(lw)
                if rng.random() < 0.1:
                    pf["trusted"][n] = gen_wildcards(rng, pcrits, notes, trusted=True)
            peers_struct[u] = pf
        if rng.random() < 0.7:
            store["lock"]["audits"][peer] = lockf
    users = [[1, "user1", "User 1"], [2, "user2", "User 2"], [3, "user3", "User 3"]]
    reg = {}
    for n in names:
        vs = set(rng.sample(VERSIONS, rng.choice([1, 2, 3])))
        for p in pkgs:
            if p["name"] == n:
                if p["source"] == "registry":
                    vs.add(p["version"])
                elif rng.random() < 0.4:
                    vs.add(p["version"])
        reg[n] = [{"version": v, "by": rng.choice([1, 2, 3, 3, None]), "when": rng.choice(DATES[:6])} for v in sorted(vs)]
    case = {"id": cid, "kind": "import", "graph": {"packages": pkgs}, "store_struct": store,
            "peers_struct": peers_struct, "registry": {"users": users, "packages": reg, "meta": {}},
            "allow_criteria_changes": True}
    return finalize(case)


# ---------------------------------------------------------------------------
# audit-as-crates-io / crate-policy cases (C08)

def gen_audit_as_overlap_case(rng, cid):
    """one crate NAME as a path (or git) package and as a crates.io package of another version, a VERSIONED policy entry for each
    and nothing else wrong: the entry of the path version makes its explicit choice; the entry of the crates.io version either
    says nothing about audit-as-crates-io (fine) or carries the key (true or false) — an entry that matches no path/git package,
    which an unlocked `cargo vet` refuses to pass over"""
    fv, tv = rng.sample([x for x in VERSIONS if "-" not in x], 2)
    fsrc = rng.choice(["path", "path", "git:" + GITREV])
    fp = {"name": "tpaaa", "version": fv, "source": fsrc, "workspace": False, "deps": [], "description": "a crate"}
    tp = {"name": "tpaaa", "version": tv, "source": "registry", "workspace": False, "deps": [], "description": "a crate"}
    mid = {"name": "tpbbb", "version": "1.0.0", "source": "registry", "workspace": False,
           "deps": [{"name": "tpaaa", "version": tv, "source": "registry", "kinds": ["normal"]}]}
    ws = {"name": "wsaaa", "version": "1.0.0", "source": "path", "workspace": True,
          "deps": [{"name": "tpaaa", "version": fv, "source": fsrc, "kinds": ["normal"]},
                   {"name": "tpbbb", "version": "1.0.0", "source": "registry", "kinds": ["normal"]}]}
    pkgs = [ws, fp, tp, mid]
    rng.shuffle(pkgs)
    stray = rng.choice([None, None, True, False])
    policy = {f"tpaaa:{vstr(fp)}": {"audit-as-crates-io": rng.random() < 0.5},
              f"tpaaa:{vstr(tp)}": ({"notes": "the crates.io one"} if stray is None else {"audit-as-crates-io": stray})}
    store = {"criteria": {}, "policy": policy, "imports": {}, "exemptions": {}, "audits": {}, "wildcard_audits": {},
             "trusted": {}, "lock": {"audits": {}, "publisher": {}, "unpublished": {}}}
    reg = {"tpaaa": [{"version": v, "by": 1, "when": "2022-01-01"} for v in sorted({tv, rng.choice(VERSIONS)})]}
    case = {"id": cid, "kind": "audit_as", "graph": {"packages": pkgs}, "store_struct": store,
            "registry": {"users": [[1, "user1", "User 1"]], "packages": reg, "meta": {"tpaaa": {"description": "a crate"}}}}
    return finalize(case)


def boost_cycle_behind_entry(rng, case):
    """fault-free validate case + an implication cycle that is first reached from a criterion OUTSIDE it (which sorts before
    its members): local table, or (unlocked) a peer's table"""
    store = case["store_struct"]
    peers = case.get("peers_struct") or {}
    two = rng.random() < 0.6
    tbl = {"an-entry": {"description": "x", "implies": ["loop-a"]},
           "loop-a": {"description": "x", "implies": ["loop-b"] if two else ["loop-a"]}}
    if two:
        tbl["loop-b"] = {"description": "x", "implies": ["loop-a"]}
    urls = [imp["url"][0] for imp in store["imports"].values() if imp["url"][0] in peers]
    if urls and rng.random() < 0.4:
        peers[rng.choice(sorted(urls))].setdefault("criteria", {}).update(tbl)
        case["mode"] = "unlocked"
        case["faults"] = list(case.get("faults", [])) + [{"kind": "peer-table-cycle"}]
    else:
        store["criteria"].update(tbl)
        case["faults"] = list(case.get("faults", [])) + [{"kind": "table-cycle"}]
    return finalize(case)


def gen_audit_as_git_case(rng, cid):
    """a GIT-revision (or path) package whose name, description and repository crates.io knows, and (variant) no policy entry
    making the choice: an unlocked `cargo vet` must refuse to pass while the choice is missing — whatever the package's source kind"""
    src = rng.choice(["git:" + GITREV, "git:" + GITREV, "path"])
    v = rng.choice([x for x in VERSIONS if "-" not in x])
    fp = {"name": "fgaaa", "version": v, "source": src, "workspace": False, "deps": [], "description": "a crate",
          "repository": "https://example.com/fgaaa"}
    ws = {"name": "wsaaa", "version": "1.0.0", "source": "path", "workspace": True,
          "deps": [{"name": "fgaaa", "version": v, "source": src, "kinds": ["normal"]}]}
    pkgs = [ws, fp] if rng.random() < 0.5 else [fp, ws]
    choice = rng.choice([None, None, None, True, False])
    policy = {} if choice is None else {rng.choice(["fgaaa", f"fgaaa:{vstr(fp)}"]): {"audit-as-crates-io": choice}}
    store = {"criteria": {}, "policy": policy, "imports": {}, "exemptions": {}, "audits": {}, "wildcard_audits": {},
             "trusted": {}, "lock": {"audits": {}, "publisher": {}, "unpublished": {}}}
    meta = rng.choice([{"description": "a crate"}, {"repository": "https://example.com/fgaaa"}])
    case = {"id": cid, "kind": "audit_as", "graph": {"packages": pkgs}, "store_struct": store,
            "registry": {"users": [[1, "user1", "User 1"]], "packages": {"fgaaa": [{"version": "1.0.0", "by": 1, "when": "2022-01-01"}]},
                         "meta": {"fgaaa": meta}}}
    return finalize(case)


def gen_audit_as_case(rng, cid):
    pkgs = gen_graph(rng)
    # more non-registry packages, some sharing a name with a registry crate
    for p in pkgs:
        if p["source"] == "registry" and rng.random() < 0.25:
            p["source"] = rng.choice(["path", "git:" + GITREV])
            fix = True
    # dependency sources must agree with the packages
    src = {(p["name"], p["version"]): p["source"] for p in pkgs}
    for p in pkgs:
        for d in p["deps"]:
            d["source"] = src[(d["name"], d["version"])]
        if rng.random() < 0.5:
            p["description"] = rng.choice(["a crate", "another crate", p["name"]])
        if rng.random() < 0.5:
            p["repository"] = f"https://example.com/{rng.choice([p['name'], 'other'])}"
    names = sorted({p["name"] for p in pkgs})
    by_name = {}
    for p in pkgs:
        by_name.setdefault(p["name"], []).append(p)
    policy = {}
    for n, ps in by_name.items():
        r = rng.random()
        if r < 0.35:
            continue
        versioned = len(ps) > 1 and rng.random() < 0.7 or rng.random() < 0.15
        targets = ps if versioned else [ps[0]]
        if versioned and rng.random() < 0.2:
            targets = targets[:-1] or targets       # a missing version
        mixed = any(q["source"] == "registry" for q in ps) and any(q["source"] != "registry" for q in ps)
        if mixed and rng.random() < 0.35:
            # one unversioned entry covering a crates.io package and its path/git sibling
            policy[n] = {"audit-as-crates-io": rng.random() < 0.7 and False or rng.random() < 0.5}
            continue
        for p in targets:
            ent = {}
            if (p["source"] != "registry" and rng.random() < 0.7) or (p["source"] == "registry" and rng.random() < 0.12):
                ent["audit-as-crates-io"] = rng.random() < 0.6
            if rng.random() < 0.3:
                ent["criteria"] = ["safe-to-run"]
            if rng.random() < 0.3 and p["deps"]:
                ent["dependency-criteria"] = {rng.choice(p["deps"])["name"]: ["safe-to-run"]}
            if not ent:
                ent["notes"] = "x"
            policy[f"{n}:{vstr(p)}" if versioned else n] = ent
    if rng.random() < 0.2:
        policy["zz-no-such-crate"] = {"audit-as-crates-io": rng.random() < 0.5}
    if rng.random() < 0.2 and names:
        n = rng.choice(names)
        if n not in policy:
            policy[f"{n}:9.9.9"] = {"notes": "stray version"}
            for p in by_name[n]:
                if rng.random() < 0.7:
                    policy[f"{n}:{vstr(p)}"] = {"notes": "ok"}
    store = {"criteria": {}, "policy": policy, "imports": {}, "exemptions": {}, "audits": {}, "wildcard_audits": {},
             "trusted": {}, "lock": {"audits": {}, "publisher": {}, "unpublished": {}}}
    reg = {}
    meta = {}
    for n in names:
        if rng.random() < 0.7:
            reg[n] = [{"version": v, "by": 1, "when": "2022-01-01"} for v in sorted(set(rng.sample(VERSIONS, 2)))]
            p = rng.choice(by_name[n])
            m = {}
            r = rng.random()
            if r < 0.4:
                m["description"] = p.get("description", "whatever")
            elif r < 0.6:
                m["repository"] = p.get("repository") or "https://example.com/none"
            elif r < 0.8:
                m["description"] = "something else entirely"
            meta[n] = m
    case = {"id": cid, "kind": "audit_as", "graph": {"packages": pkgs}, "store_struct": store,
            "registry": {"users": [[1, "user1", "User 1"]], "packages": reg, "meta": meta}}
    return finalize(case)


# ---------------------------------------------------------------------------
# aggregate cases (C16)

def gen_aggregate_conflict_case(cid, k=0):
    """two sources that define ONE criterion name with different `implies` lists, one list containing the other (k=0: the later
    source implies less; k=1: the later implies more; k=2: a longer chain): aggregation must refuse — whichever definition won,
    the other source's entries would change their meaning"""
    import random as _r
    seed = 100 + k
    while True:
        case = gen_aggregate_case(_r.Random(seed), cid)
        if len(case["sources"]) >= 2:
            break
        seed += 10
    u0, u1 = case["sources"][0]["url"], case["sources"][1]["url"]
    big, small = ["safe-to-deploy"], []
    if k == 2:
        big, small = ["safe-to-deploy", "safe-to-run"], ["safe-to-run"]
    a, b = (big, small) if k != 1 else (small, big)
    case["sources_struct"][u0]["criteria"]["planted"] = {"description": "the same words", "implies": list(a)}
    case["sources_struct"][u1]["criteria"]["planted"] = {"description": "the same words", "implies": list(b)}
    for s_ in case["sources"][:2]:
        s_["text"] = render_audits_file(case["sources_struct"][s_["url"]])
    return case


def gen_aggregate_case(rng, cid):
    pkgs = gen_graph(rng)
    versions = {}
    for p in pkgs:
        versions.setdefault(p["name"], []).append(vstr(p))
    names = sorted(versions)
    notes = Notes()
    notes.n = 3000
    nsrc = rng.choice([1, 2, 2, 3, 4])
    shared = {"shared-a": {"description": "shared a", "implies": ["safe-to-run"]},
              "shared-b": {"description": "shared b", "implies": ["shared-a"]}}
    sources = []
    structs = {}
    conflict = rng.random() < 0.25
    for k in range(nsrc):
        url = f"https://src{k}.example/audits.toml"
        table = {}
        for nm, d in shared.items():
            if rng.random() < 0.7:
                table[nm] = copy.deepcopy(d)
        if rng.random() < 0.5:
            table[f"own-{k}"] = {"description": f"own {k}", "implies": rng.choice([[], ["safe-to-deploy"]])}
        if conflict and k == nsrc - 1 and table:
            nm = rng.choice(sorted(table))
            r = rng.random()
            if r < 0.4:
                table[nm]["description"] = "a different text"
            elif r < 0.7:
                table[nm]["implies"] = ["safe-to-deploy"] if table[nm]["implies"] != ["safe-to-deploy"] else []
            else:
                table[nm] = {"description-url": "https://example.com/desc", "implies": table[nm]["implies"]}
        # implies must be resolvable inside the file
        for nm, d in table.items():
            d["implies"] = [c for c in d.get("implies", []) if c in BUILTINS or c in table]
        pcrits = BUILTINS + sorted(table)
        f = {"criteria": table, "audits": {}, "wildcard_audits": {}, "trusted": {}}
        for n in names:
            if rng.random() < 0.6:
                for a in gen_audits_for(rng, n, versions[n], pcrits, notes, True, 0.1):
                    r_ = rng.random()
                    if r_ < 0.25:
                        a["aggregated-from"] = [f"https://older{rng.randint(0, 2)}.example/a.toml"]
                    elif r_ < 0.40 and nsrc > 1:
                        # this source is itself an aggregate that once took the entry from ANOTHER source of this very
                        # list (which may or may not still serve it): the entry is this source's own all the same
                        other = rng.choice([j for j in range(nsrc) if j != k])
                        a["aggregated-from"] = [f"https://src{other}.example/audits.toml"]
                    f["audits"].setdefault(n, []).append(a)
            if rng.random() < 0.25:
                for w in gen_wildcards(rng, pcrits, notes):
                    if nsrc > 1 and rng.random() < 0.3:
                        w["aggregated-from"] = [f"https://src{rng.choice([j for j in range(nsrc) if j != k])}.example/audits.toml"]
                    f["wildcard_audits"].setdefault(n, []).append(w)
            if rng.random() < 0.15:
                f["trusted"][n] = gen_wildcards(rng, pcrits, notes, trusted=True)
                for w in f["trusted"][n]:
                    if nsrc > 1 and rng.random() < 0.3:
                        w["aggregated-from"] = [f"https://src{rng.choice([j for j in range(nsrc) if j != k])}.example/audits.toml"]
        if rng.random() < 0.3:
            # a delta audit leading DOWN (a downgrade was reviewed): as good an entry as any other
            n_ = rng.choice(names)
            hi_, lo_ = sorted(rng.sample([x for x in VERSIONS if "-" not in x], 2), key=VERSIONS.index, reverse=True)
            f["audits"].setdefault(n_, []).append({"kind": "delta", "from": hi_, "to": lo_, "criteria": crit_list(rng, pcrits), "notes": notes()})
        if rng.random() < 0.3:
            # two trust grants for one crate, one publisher and one criteria list that differ ONLY in their window (a renewal
            # kept next to the old grant; the other one may sit in another source): both are entries of their own
            n = rng.choice(names)
            uid = rng.randint(1, 3)
            tgt = f if (k == 0 or rng.random() < 0.5) else structs[sources[rng.randrange(k)]["url"]]
            # (criteria both files define: an entry naming a criterion its own file does not define is skipped by the reader)
            cl = crit_list(rng, BUILTINS + sorted(c_ for c_ in table if c_ in tgt.get("criteria", {})))
            f["trusted"].setdefault(n, []).append({"user-id": uid, "start": "2021-06-01", "end": "2022-06-15", "criteria": list(cl), "notes": notes()})
            tgt["trusted"].setdefault(n, []).append({"user-id": uid, "start": "2022-06-15", "end": "2023-06-01", "criteria": list(cl), "notes": notes()})
            if tgt is not f:
                for s_ in sources:
                    if structs[s_["url"]] is tgt:
                        s_["text"] = render_audits_file(tgt)
        structs[url] = f
        sources.append({"url": url, "text": render_audits_file(f)})
    # a local project to evaluate "import the aggregate" vs "import every source"
    store = gen_store(rng, pkgs, p_violation=0.0, with_imports=False, ncustom=rng.choice([0, 1, 2]))
    cmap = {}
    crits = _crits(store)
    for nm in ["shared-a", "shared-b"] + [f"own-{k}" for k in range(nsrc)]:
        if rng.random() < 0.6:
            cmap[nm] = crit_list(rng, crits)
    reg = {n: [{"version": v, "by": rng.choice([1, 2, 3]), "when": rng.choice(DATES[:6])}
               for v in sorted(set(rng.sample(VERSIONS, 2) + [p["version"] for p in pkgs if p["name"] == n]))] for n in names}
    return {"id": cid, "kind": "aggregate", "sources": sources, "sources_struct": structs,
            "graph": {"packages": pkgs}, "local_struct": store, "cmap": cmap,
            "registry": {"users": [[1, "user1", "User 1"], [2, "user2", "User 2"], [3, "user3", "User 3"]], "packages": reg, "meta": {}}}


# ---------------------------------------------------------------------------
# fault-injected stores and peers (C15)

SITES = ["SExemption", "SPolicy", "SPolicyDev", "SPolicyDep", "SImplies", "SAudit", "SWildcard", "STrusted",
         "SCriteriaMap", "SLockAudit", "SLockWildcard"]


def inject_dangling(rng, store, pkgs, site, name="ghost-crit"):
    """add a reference to an undefined criterion at the given site; returns True if done"""
    third = sorted({p["name"] for p in pkgs if p["source"] == "registry"}) or ["tpaaa"]
    crate = rng.choice(third)
    if site == "SExemption":
        store["exemptions"].setdefault(crate, []).append({"version": "1.0.0", "criteria": [name], "notes": "fault"})
    elif site in ("SPolicy", "SPolicyDev", "SPolicyDep"):
        ws = [p for p in pkgs if p["workspace"]][0]
        ent = store["policy"].setdefault(ws["name"], {})
        if site == "SPolicy":
            ent["criteria"] = [name]
        elif site == "SPolicyDev":
            ent["dev-criteria"] = ["safe-to-run", name]
        else:
            ent.setdefault("dependency-criteria", {})[crate] = [name]
    elif site == "SImplies":
        store["criteria"]["fault-crit"] = {"description": "x", "implies": [name]}
    elif site == "SAudit":
        store["audits"].setdefault(crate, []).append({"kind": "full", "version": "1.0.0", "criteria": ["safe-to-run", name], "notes": "fault"})
    elif site == "SWildcard":
        store["wildcard_audits"].setdefault(crate, []).append(
            {"user-id": 1, "start": "2022-01-01", "end": "2023-06-01", "criteria": [name], "notes": "fault"})
    elif site == "STrusted":
        store["trusted"].setdefault(crate, []).append(
            {"user-id": 1, "start": "2022-01-01", "end": "2023-06-01", "criteria": [name], "notes": "fault"})
    elif site == "SCriteriaMap":
        if not store["imports"]:
            return False
        peer = rng.choice(sorted(store["imports"]))
        store["imports"][peer].setdefault("criteria-map", {})["safe-to-deploy"] = [name]
    elif site in ("SLockAudit", "SLockWildcard"):
        if not store["imports"]:
            return False
        peer = rng.choice(sorted(store["imports"]))
        f = store["lock"]["audits"].setdefault(peer, {"criteria": {}, "audits": {}, "wildcard_audits": {}})
        if site == "SLockAudit":
            f["audits"].setdefault(crate, []).append({"kind": "full", "version": "1.0.0", "criteria": [name], "notes": "fault"})
        else:
            f.setdefault("wildcard_audits", {}).setdefault(crate, []).append(
                {"user-id": 1, "start": "2022-01-01", "end": "2023-06-01", "criteria": [name], "notes": "fault"})
    return True


def gen_validate_case(rng, cid):
    base = gen_unlocked_case(rng, cid, p_violation=0.0)
    store = base["store_struct"]
    pkgs = base["graph"]["packages"]
    # locked loads need imports.lock to list exactly the configured imports
    for peer in store["imports"]:
        store["lock"]["audits"].setdefault(peer, {"criteria": {}, "audits": {}, "wildcard_audits": {}})
    for peer in list(store["lock"]["audits"]):
        if peer not in store["imports"]:
            del store["lock"]["audits"][peer]
    locked = rng.random() < 0.5
    faults = []
    peers_text = None
    text_fault = None
    for _ in range(rng.choice([0, 1, 1, 1, 2, 3])):
        r = rng.random()
        if r < 0.45:
            site = rng.choice(SITES)
            if inject_dangling(rng, store, pkgs, site):
                faults.append({"kind": "dangling", "site": site})
        elif r < 0.53 and [c for c in store["criteria"] if not c.startswith(("fault-", "loop-", "many-"))]:
            # (never a definition that an earlier fault of this case injected)
            victim = rng.choice(sorted(c for c in store["criteria"] if not c.startswith(("fault-", "loop-", "many-"))))
            del store["criteria"][victim]
            faults.append({"kind": "deleted-definition", "name": victim})
        elif r < 0.60:
            store["criteria"]["loop-a"] = {"description": "x", "implies": ["loop-a"] if rng.random() < 0.5 else ["loop-b"]}
            if store["criteria"]["loop-a"]["implies"] == ["loop-b"]:
                store["criteria"]["loop-b"] = {"description": "x", "implies": ["loop-a"]}
            if rng.random() < 0.5:
                # a criterion that is NOT on the cycle, sorts before its members and implies into it
                store["criteria"]["an-entry"] = {"description": "x", "implies": [rng.choice(["loop-a", "loop-b"] if "loop-b" in store["criteria"] else ["loop-a"])]}
            faults.append({"kind": "table-cycle"})
        elif r < 0.65:
            store["criteria"][rng.choice(BUILTINS)] = {"description": "shadow"}
            faults.append({"kind": "table-shadow"})
        elif r < 0.69:
            n = rng.choice([61, 62, 63, 70])
            for k in range(n):
                store["criteria"][f"many-{k:02d}"] = {"description": "x"}
            faults.append({"kind": "many-criteria", "count": len(store["criteria"])})
        elif r < 0.76:
            crate = rng.choice(sorted({p["name"] for p in pkgs}))
            store["wildcard_audits"].setdefault(crate, []).append(
                {"user-id": 2, "start": "2022-01-01", "end": rng.choice(["2024-01-01", "2024-01-02", "2024-06-01", "2023-12-31"]),
                 "criteria": ["safe-to-run"], "notes": "far"})
            faults.append({"kind": "wildcard-end"})
        elif r < 0.88 and base["peers_struct"]:
            url = rng.choice(sorted(base["peers_struct"]))
            pf = base["peers_struct"][url]
            k = rng.random()
            if k < 0.2:
                pf["criteria"]["safe-to-run"] = {"description": "peer shadows builtin"}
                faults.append({"kind": "peer-table-shadow"})
            elif k < 0.5:
                # a criterion of the peer that the import MAPS but that carries neither a description nor a
                # description-url (cargo-vet refuses the import: MissingCriteriaDescription); imports.lock may already
                # hold the criterion, with a description, from an earlier run
                peer = next((pn for pn, imp in sorted(store["imports"].items()) if imp["url"][0] == url), None)
                if peer is not None:
                    pf["criteria"]["peer-nd"] = {"implies": rng.choice([[], ["safe-to-run"]])}
                    store["imports"][peer].setdefault("criteria-map", {})["peer-nd"] = ["safe-to-run"]
                    lockf = store["lock"]["audits"].get(peer)
                    if lockf is not None and rng.random() < 0.6:
                        lockf.setdefault("criteria", {})["peer-nd"] = {"description": "as recorded earlier"}
                    faults.append({"kind": "peer-criterion-no-description", "url": url})
            elif k < 0.7:
                pf["criteria"]["pl-a"] = {"description": "x", "implies": ["pl-b"]}
                pf["criteria"]["pl-b"] = {"description": "x", "implies": ["pl-a"]}
                if rng.random() < 0.5:
                    pf["criteria"]["p-entry"] = {"description": "x", "implies": [rng.choice(["pl-a", "pl-b"])]}
                faults.append({"kind": "peer-table-cycle"})
            else:
                # entries of a peer naming criteria the peer does not define: alone, or mixed with known ones; in audits
                # and in wildcard audits (they are to be skipped / stripped, never to crash or to count)
                crate = rng.choice(sorted({p["name"] for p in pkgs}))
                crit = rng.choice([["peer-unknown"], ["safe-to-run", "peer-unknown"], ["peer-unknown", "safe-to-deploy", "peer-unknown-2"]])
                if rng.random() < 0.5:
                    pf["audits"].setdefault(crate, []).append({"kind": "full", "version": "1.0.0", "criteria": crit, "notes": "p"})
                else:
                    pf["wildcard_audits"].setdefault(crate, []).append(
                        {"user-id": rng.randint(1, 3), "start": "2022-01-01", "end": "2023-06-01", "criteria": crit, "notes": "p"})
                faults.append({"kind": "peer-unknown-criteria"})
        else:
            text_fault = rng.choice(["truncate", "unknown-field", "wrong-type", "junk-peer"])
            faults.append({"kind": "text-" + text_fault})
    if store["lock"]["audits"] and rng.random() < 0.12:
        # an import renamed in config.toml without re-fetching: imports.lock still has the section under the old name
        # (as many sections as imports, other names)
        victim = rng.choice(sorted(store["lock"]["audits"]))
        store["lock"]["audits"][rng.choice(["peer-renamed", "aaa-renamed", victim + "-old"])] = store["lock"]["audits"].pop(victim)
        faults.append({"kind": "lock-peer-renamed", "name": victim})
    case = {"id": cid, "kind": "validate", "graph": base["graph"], "store_struct": store,
            "peers_struct": base["peers_struct"], "registry": base["registry"],
            "mode": "locked" if locked else "unlocked", "faults": faults}
    case = finalize(case)
    if text_fault == "truncate":
        k = rng.choice(["config", "audits", "imports"])
        t = case["store"][k]
        case["store"][k] = t[:rng.randint(max(1, len(t) // 3), max(2, len(t) - 1))]
    elif text_fault == "unknown-field":
        case["store"]["audits"] += "\n[mystery]\nx = 1\n"
    elif text_fault == "wrong-type":
        case["store"]["config"] = case["store"]["config"].replace('version = "1.0"', "version = 1", 1)
    elif text_fault == "junk-peer" and case.get("peers"):
        names = sorted({p["name"] for p in pkgs})
        case["peers"] = {u: add_junk(rng, t, names) for u, t in case["peers"].items()}
    return case


# ---------------------------------------------------------------------------
# stores with nasty text and layout corner cases (C14)

NASTY = ["plain", "", " leading and trailing ", "two\nlines", "tab\there", 'quote " inside', "single ' quote", "back\\slash",
         "'''triple single'''", '"""triple double"""', "hash # not a comment", "bracket ] [ { }", "unicode é中\U0001F600",
         "ctrl \x01\x1f\x7f end", "crlf\r\nline", "trailing newline\n", "\nleading newline", "x" * 130, "= equals = ", "key = 'value'",
         "ends with backslash\\", "nul-free but odd   ​"]


def nasty(rng):
    r = rng.random()
    if r < 0.7:
        return rng.choice(NASTY)
    return "".join(rng.choice(["a", " ", "\n", '"', "'", "\\", "#", "\t", "é", "]", "\x02"]) for _ in range(rng.randint(1, 12)))


def boost_peer_mixed_unknown(rng, case):
    """validate case, made unlocked: a peer's WILDCARD audit (and an audit) naming a criterion the peer does not define
    next to ones it does — the unknown name is to be stripped, the rest of the entry used"""
    peers = case.get("peers_struct") or {}
    store = case["store_struct"]
    urls = [imp["url"][0] for imp in store["imports"].values() if imp["url"][0] in peers]
    if not urls:
        return case
    pf = peers[rng.choice(sorted(urls))]
    crate = rng.choice(sorted({p["name"] for p in case["graph"]["packages"]}))
    crit = rng.choice([["safe-to-run", "peer-unknown"], ["peer-unknown", "safe-to-deploy", "peer-unknown-2"], ["peer-unknown", "safe-to-run"]])
    pf["wildcard_audits"].setdefault(crate, []).append(
        {"user-id": rng.randint(1, 3), "start": "2022-01-01", "end": "2023-06-01", "criteria": crit, "notes": "mixed"})
    if rng.random() < 0.5:
        pf["audits"].setdefault(crate, []).append({"kind": "full", "version": "1.0.0", "criteria": list(reversed(crit)), "notes": "mixed"})
    case["mode"] = "unlocked"
    case["faults"] = list(case.get("faults", [])) + [{"kind": "peer-unknown-criteria"}]
    texts = dict(case.get("peers") or {})
    for u in urls:
        texts[u] = render_audits_file(peers[u]) if isinstance(peers[u], dict) else texts.get(u)
    case["peers"] = texts
    return case


def gen_serde_case(rng, cid):
    pkgs = gen_graph(rng)
    store = gen_store(rng, pkgs, p_violation=0.3, with_imports=True, ncustom=rng.choice([0, 1, 2, 3, 4]))
    crits = _crits(store)
    # keep imports.lock in sync with config.imports (a locked load demands it)
    for peer in store["imports"]:
        store["lock"]["audits"].setdefault(peer, {"criteria": {}, "audits": {}, "wildcard_audits": {}})
    for peer in list(store["lock"]["audits"]):
        if peer not in store["imports"]:
            del store["lock"]["audits"][peer]
    for imp in store["imports"].values():
        if rng.random() < 0.3:
            imp["url"] = imp["url"] + ["https://second.example/" + "x" * rng.choice([5, 60, 100])]
        if rng.random() < 0.3:
            imp["exclude"] = ["zz-excluded-one", "zz-excluded-two"][:rng.choice([1, 2])]
        if rng.random() < 0.4:
            imp["criteria-map"] = {rng.choice(["theirs", "safe-to-deploy", "their-other"]): crit_list(rng, crits, allow_empty=True)}
    for c in store["criteria"].values():
        c["description"] = nasty(rng)
        if rng.random() < 0.2:
            del c["description"]
            c["description-url"] = "https://example.com/" + rng.choice(["a", "b c", "x#y"])
        if rng.random() < 0.2:
            c["aggregated-from"] = ["https://src.example/a.toml"]

    def files():
        yield store
        for f in store["lock"]["audits"].values():
            yield f
    for f in files():
        for l in f.get("audits", {}).values():
            for a in l:
                r = rng.random()
                if r < 0.5:
                    a["notes"] = nasty(rng)
                elif r < 0.6:
                    a.pop("notes", None)
                if rng.random() < 0.5:
                    a["who"] = [nasty(rng) for _ in range(rng.choice([1, 1, 2, 3]))]
                if rng.random() < 0.15:
                    a["aggregated-from"] = [f"https://older{k}.example/a.toml" for k in range(rng.choice([1, 2]))]
                if rng.random() < 0.2:
                    a["criteria"] = (crits * 3)[:rng.choice([4, 6, 8])]     # long arrays (wrapping threshold)
        for l in f.get("wildcard_audits", {}).values():
            for w in l:
                if rng.random() < 0.5:
                    w["notes"] = nasty(rng)
                if rng.random() < 0.4:
                    w["who"] = [nasty(rng)]
                if rng.random() < 0.3:
                    w["renew"] = rng.random() < 0.5
        for l in f.get("trusted", {}).values():
            for w in l:
                if rng.random() < 0.5:
                    w["notes"] = nasty(rng)
    for l in store["exemptions"].values():
        for e in l:
            if rng.random() < 0.5:
                e["notes"] = nasty(rng)
            elif rng.random() < 0.3:
                e.pop("notes", None)
    for p in store["policy"].values():
        if rng.random() < 0.4:
            p["notes"] = nasty(rng)
    for l in store["lock"]["publisher"].values():
        for p in l:
            p["user-login"] = rng.choice(["user1", "o'neil", "a#b", nasty(rng).replace("\n", " ") or "x"])
            r = rng.random()
            if r < 0.5:
                p["user-name"] = nasty(rng)
            elif r < 0.7:
                p["user-name"] = None
    # a git-revision exemption and audit
    if rng.random() < 0.5:
        n = sorted({p["name"] for p in pkgs})[0]
        store["exemptions"].setdefault(n, []).append({"version": "1.2.3@git:" + GITREV, "criteria": ["safe-to-run"], "notes": "git"})
        store["audits"].setdefault(n, []).append({"kind": "delta", "from": "1.2.3", "to": "1.2.3@git:" + GITREV,
                                                  "criteria": ["safe-to-deploy"], "notes": "git delta"})
    # versioned policy entries whose versions carry a git revision (next to the plain version)
    if rng.random() < 0.45:
        n = rng.choice(["zz-pol"] + sorted({p["name"] for p in pkgs if not any(k.split(":")[0] == p["name"] for k in store["policy"])}))
        store["policy"][f"{n}:1.2.3@git:{GITREV}"] = {"notes": "the fork", "criteria": crit_list(rng, crits)}
        if rng.random() < 0.6:
            store["policy"][f"{n}:1.2.3"] = {"notes": "the release", "audit-as-crates-io": False}
        if rng.random() < 0.3:
            store["policy"][f"{n}:2.0.0-rc.1+build.5"] = {"dependency-criteria": {"dep-x": crit_list(rng, crits, allow_empty=True)}}
    if rng.random() < 0.3:
        store["default-criteria"] = rng.choice(crits)
    # the same entry twice, equal in every field (two reviewers certifying the same delta, a source aggregated twice):
    # a store cargo-vet holds and writes with BOTH copies
    if rng.random() < 0.5:
        import copy
        tables = [store["audits"], store["wildcard_audits"], store["trusted"], store["exemptions"], store["lock"]["publisher"]]
        tables += [f.get("audits", {}) for f in store["lock"]["audits"].values()]
        tables = [t for t in tables if any(t.values())]
        for t in rng.sample(tables, min(len(tables), rng.choice([1, 1, 2]))):
            l = t[rng.choice(sorted(k for k, v in t.items() if v))]
            l.append(copy.deepcopy(rng.choice(l)))
    return finalize({"id": cid, "kind": "serde", "store_struct": store})


# ---------------------------------------------------------------------------
# crate archives (C19)

def gen_unpack_case(rng, cid):
    name, version = "foo", "1.0.0"
    pre = f"{name}-{version}"
    entries = []
    benign = [(f"{pre}/Cargo.toml", "[package]"), (f"{pre}/src/lib.rs", "pub fn f() {}"), (f"{pre}/README.md", "readme"),
              (f"{pre}/src/deep/mod.rs", "mod x;"), (f"{pre}/build.rs", "fn main() {}"), (f"{pre}/big.rs", "x" * 3000)]
    for p, c in rng.sample(benign, rng.randint(2, len(benign))):
        entries.append({"path": p, "kind": "file", "content": c})
    hostile = []
    r = rng.random()
    if r < 0.55:
        pool = [
            {"path": f"{pre}/.cargo-ok", "kind": "file", "content": "ok"},
            {"path": f"{pre}/.cargo-ok", "kind": "file", "content": "ok"},
            {"path": f"{pre}/sub/.cargo-ok", "kind": "file", "content": "ok"},
            {"path": f"{pre}/../escape.txt", "kind": "file", "content": "escaped"},
            {"path": f"{pre}/../other-1.0.0/lib.rs", "kind": "file", "content": "overwritten"},
            {"path": "../evil.txt", "kind": "file", "content": "evil"},
            {"path": "/tmp/abs-evil.txt", "kind": "file", "content": "evil"},
            {"path": "other-1.0.0/lib.rs", "kind": "file", "content": "overwritten"},
            {"path": f"{pre}x/lib.rs", "kind": "file", "content": "sibling"},
            {"path": f"{pre}/link", "kind": "symlink", "target": "../other-1.0.0"},
            {"path": f"{pre}/link/lib.rs", "kind": "file", "content": "through symlink"},
            {"path": f"{pre}/uplink", "kind": "symlink", "target": "../../.."},
            {"path": f"{pre}/uplink/outside.txt", "kind": "file", "content": "through symlink"},
            {"path": f"{pre}/hard", "kind": "hardlink", "target": "../other-1.0.0/lib.rs"},
            {"path": f"{pre}/src/lib.rs", "kind": "file", "content": "duplicate entry"},
            {"path": f"{pre}/lying.rs", "kind": "file", "content": "short", "size": 4000},
            {"path": f"{pre}/emptydir", "kind": "dir"},
            # directory entries are created too: the same confinement applies to them
            {"path": f"{pre}/../sibling-0.1.0/src", "kind": "dir"},
            {"path": f"{pre}/../../../escaped/deeper", "kind": "dir"},
            {"path": f"{pre}/../other-1.0.0/planted", "kind": "dir"},
            {"path": f"{pre}/sub/../okdir", "kind": "dir"},
            # the real name travels in a GNU long-name / PAX record; the header's own name is a harmless stand-in
            {"path": f"{pre}/innocent.rs", "long_name": "other-1.0.0/lib.rs", "kind": "file", "content": "overwritten via long name"},
            {"path": f"{pre}/innocent2.rs", "long_name": "../evil-long.txt", "kind": "file", "content": "evil"},
            {"path": f"{pre}/stand-in", "long_name": f"{pre}/.cargo-ok", "kind": "file", "content": "ok"},
            {"path": f"{pre}/stand-in2", "long_name": f"{pre}/sub/.cargo-ok", "pax": True, "kind": "file", "content": "ok"},
            {"path": f"{pre}/short.rs", "long_name": f"{pre}/" + "deep/" * 25 + "honest.rs", "kind": "file", "content": "honest long path"},
            {"path": f"{pre}/short2.rs", "long_name": f"{pre}/" + "d2/" * 40 + "honest.rs", "pax": True, "kind": "file", "content": "honest pax path"},
            {"path": f"{pre}/innocent3.rs", "long_name": "other-1.0.0/pax.rs", "pax": True, "kind": "file", "content": "overwritten via pax"},
            # entries of a rare type the archive reader unpacks like regular files (type flag '7')
            {"path": f"{pre}/.cargo-ok", "kind": "contiguous", "content": "ok"},
            {"path": f"{pre}/.cargo-ok", "kind": "contiguous", "content": "ok"},
            {"path": f"{pre}/contig.rs", "kind": "contiguous", "content": "a contiguous file"},
        ]
        for e in rng.sample(pool, rng.choice([1, 1, 2, 3])):
            hostile.append(e)
    for e in hostile:
        entries.insert(rng.randint(0, len(entries)), e)
    # symlink-then-file pairs must keep their order
    for link in (f"{pre}/link", f"{pre}/uplink"):
        idx = [i for i, e in enumerate(entries) if e["path"] == link]
        sub = [i for i, e in enumerate(entries) if e["path"].startswith(link + "/")]
        if idx and sub and sub[0] < idx[0]:
            entries[idx[0]], entries[sub[0]] = entries[sub[0]], entries[idx[0]]
    if any(e["path"].endswith(".cargo-ok") for e in entries) and rng.random() < 0.6:
        mk = next(e for e in entries if e["path"].endswith(".cargo-ok"))
        entries.remove(mk)
        entries.insert(0, mk)
    case = {"id": cid, "kind": "unpack", "name": name, "version": version, "entries": entries}
    if rng.random() < 0.35:
        # what an earlier interrupted unpack (or an old cargo) may have left: a marker that does NOT say "ok" (empty,
        # another tool's body, a trailing newline) beside a partial tree and a stale file
        pre = [{"path": f"{pre}/.cargo-ok", "content": rng.choice(["", "", "{\"v\":1}", "ok\n", "o"])},
               {"path": f"{pre}/stale-{rng.randint(0, 9)}.rs", "content": "left over"}]
        if rng.random() < 0.5:
            pre.append({"path": f"{pre}/src/lib.rs", "content": "half written"})
        case["pre"] = pre
    if rng.random() < 0.7:
        # cut the (uncompressed-gzip) stream somewhere: inside a header, inside a body, at a boundary
        approx = 30 + sum(512 + (len(e.get("content", "")) + 511) // 512 * 512 for e in entries)
        case["truncate_at"] = rng.choice([rng.randint(1, approx), rng.randint(1, approx), (rng.randint(1, max(1, approx // 512))) * 512 + 10])
    return case


# --------------------------------------------------------------------------
# C18: concurrent users of one store / one cache directory

def gen_cache_contention_case(rng, cid):
    """several invocations queueing on ONE cache directory at the same moment, each reading the persisted counter, thinking a
    little and writing counter + 1 back when it lets go (plus two store users so that the store half is exercised too): the
    final counter is the number of cache users — whoever gets the cache next sees everything the previous holder wrote"""
    n = rng.choice([4, 5, 6, 8])
    users = [{"role": "cache", "start_us": rng.randrange(0, 200), "think_us": rng.choice([200, 800, 2000])} for _ in range(n)]
    if rng.random() < 0.4:
        # the first to arrive runs `gc --clean` while holding the cache: the lock file itself must survive it
        users[0].update({"start_us": 0, "think_us": 30000, "clean": True})
        for u in users[1:]:
            u["start_us"] = rng.randrange(8000, 20000)      # they arrive while the cleaner is still inside, after it has cleaned
    users += [{"role": "writer", "start_us": rng.randrange(0, 300), "think_us": rng.choice([0, 200])} for _ in range(2)]
    rng.shuffle(users)
    return {"id": cid, "kind": "lock", "users": users, "padding": rng.choice([0, 20, 400])}


def gen_lock_case(rng, cid):
    n = rng.choice([2, 2, 3, 3, 4, 5, 6, 8])
    users = []
    burst = rng.random() < 0.6           # everybody starts within the same few hundred microseconds
    for i in range(n):
        role = rng.choice(["writer", "writer", "writer", "reader", "cache"])
        users.append({"role": role,
                      "start_us": rng.randrange(0, 300) if burst else rng.randrange(0, 4000),
                      "think_us": rng.choice([0, 0, 50, 200, 800, 2000, 5000])})
    for u in users:
        if u["role"] == "cache" and rng.random() < 0.25:
            u["clean"] = True           # `cargo vet gc --clean` while holding the cache
    if rng.random() < 0.4:
        # `--locked` is a global option: invocations that run with it load and COMMIT all the same
        flags = rng.choice(["all", "some"])
        for u in users:
            if u["role"] != "cache" and (flags == "all" or rng.random() < 0.5):
                u["locked"] = True
    if not any(u["role"] == "writer" for u in users):
        users[0]["role"] = "writer"
    if sum(u["role"] != "cache" for u in users) < 2:
        users.append({"role": "writer", "start_us": rng.randrange(0, 300), "think_us": rng.choice([0, 200, 2000])})
    return {"id": cid, "kind": "lock", "users": users, "padding": rng.choice([0, 0, 20, 100, 400])}


# --------------------------------------------------------------------------
# C03: requirement propagation — larger graphs, denser policy tables

def gen_req_case(rng, cid):
    pkgs = gen_graph(rng, max_third=rng.choice([3, 5, 7]))
    store = gen_store(rng, pkgs, p_violation=0.0, with_imports=False)
    crits = _crits(store)
    names = sorted({p["name"] for p in pkgs})
    have = {k.split(":")[0] for k in store["policy"]}
    for _ in range(2):
        more = gen_policy(rng, pkgs, crits, names)
        for k, v in more.items():
            if k.split(":")[0] not in have:
                store["policy"][k] = v
        have = {k.split(":")[0] for k in store["policy"]}
    return {"id": cid, "kind": "resolve", "graph": {"packages": pkgs}, "store_struct": store,
            "store": render_store(store), "mode": "locked"}
