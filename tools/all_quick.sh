#!/bin/sh
# run every registered quick check, print one line each
cd /verif
for id in $(python3 -c "import json;print(' '.join(c['property_id'] for c in json.load(open('MANIFEST.json'))['checks']))"); do
  python3 tools/check.py $id --tier ${1:-quick} > .build/all_$id.log 2>&1; rc=$?
  echo "$id rc=$rc $(grep -c '^VIOLATION' .build/all_$id.log) violations; $(tail -1 .build/all_$id.log)"
done
