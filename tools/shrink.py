"""shrink.py — make the replay of a violation small.

Works on the case as it is replayed (rendered TOML texts, command list), so it applies to every case kind: it drops
history steps and blank-line-separated blocks of the store / peer texts (one record each, as the generators render them)
as long as the SAME oracle failure is still reported by the real implementation.  Time-boxed; used only after a
violation has been found, never to decide one."""
import copy
import json
import os
import random
import time


def _texts(case):
    """(getter, setter, label) for every text of the case that can be cut into blocks"""
    out = []
    st = case.get("store")
    if isinstance(st, dict):
        for k in ("audits", "imports", "config"):
            if isinstance(st.get(k), str):
                out.append((lambda c, k=k: c["store"][k], lambda c, v, k=k: c["store"].__setitem__(k, v), f"store.{k}"))
    if isinstance(case.get("peers"), dict):
        for u in sorted(case["peers"]):
            if isinstance(case["peers"][u], str):
                out.append((lambda c, u=u: c["peers"][u], lambda c, v, u=u: c["peers"].__setitem__(u, v), f"peer {u}"))
    return out


def shrink_case(case, still_fails, budget_s=45.0):
    """greedy delta debugging; still_fails(candidate) -> bool.  Returns (smaller case, trials, removed)"""
    t0 = time.time()
    best = copy.deepcopy(case)
    trials = removed = 0

    def left():
        return budget_s - (time.time() - t0)

    def attempt(cand):
        nonlocal trials
        trials += 1
        try:
            return still_fails(cand)
        except Exception:
            return False
    # 1. history steps: cut the tail, then drop single steps
    if isinstance(best.get("steps"), list):
        while len(best["steps"]) > 1 and left() > 0:
            cand = copy.deepcopy(best)
            cand["steps"].pop()
            if attempt(cand):
                best = cand
                removed += 1
            else:
                break
        i = 0
        while i < len(best["steps"]) - 1 and left() > 0:
            cand = copy.deepcopy(best)
            del cand["steps"][i]
            if attempt(cand):
                best = cand
                removed += 1
            else:
                i += 1
    # 2. records of the store and peer files
    for get, put, _label in _texts(best):
        blocks = [b for b in get(best).split("\n\n")]
        n = max(1, len(blocks) // 2)
        while n >= 1 and left() > 0:
            i = 0
            progressed = False
            while i < len(blocks) and left() > 0:
                cand_blocks = blocks[:i] + blocks[i + n:]
                if len(cand_blocks) == len(blocks):
                    break
                cand = copy.deepcopy(best)
                put(cand, "\n\n".join(cand_blocks))
                if attempt(cand):
                    blocks = cand_blocks
                    best = cand
                    removed += n
                    progressed = True
                else:
                    i += n
            if n == 1 and not progressed:
                break
            n = n // 2 if n > 1 else (1 if progressed else 0)
    return best, trials, removed


def minimise(spec, pid, failure, workdir, budget_s=45.0):
    """failure: one entry of result['oracle_failures'].  Returns the minimised case or None."""
    case = failure.get("case")
    if not isinstance(case, dict):
        return None
    key = failure["what"][:48]
    fid = failure["id"]
    os.makedirs(workdir, exist_ok=True)
    tmp = os.path.join(workdir, "candidate.json")

    def still_fails(cand):
        with open(tmp, "w") as f:
            json.dump({"case": cand}, f)
        res = spec.run(random.Random(1), "quick", os.path.join(workdir, "run"), model_ok=False, replay=tmp)
        return any(of["what"][:48] == key for of in res.get("oracle_failures", []))
    probe = copy.deepcopy(case)
    probe["id"] = "replay"
    if not still_fails(probe):
        return None                       # not reproducible in isolation (e.g. depends on the batch): leave it alone
    best, trials, removed = shrink_case(probe, still_fails, budget_s)
    best["id"] = str(fid) + "-min"
    return {"case": best, "trials": trials, "removed": removed}
